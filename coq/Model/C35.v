(* C35 — executable model of pkg/tbtc/signing_done.go as repaired by the two fix: commits
   (confirmations are accepted only from members included in the attempt; waitUntilAllDone
   reads doneSigners under the mutex, so the listener's insertion and the waiter's check are
   the atomic steps).  Seats, operators, messages and signatures are N identifiers; member
   indexes are the Go uint8 values.
   One signingDoneCheck is used for a whole signing: listen() is called once per attempt on the
   SAME object (signing retry loop).  [sdc] / [do_listen] / [do_msg] model the object's fields
   across attempts as the code is written (listen() replaces doneSigners by a new map); a case
   is a history of attempts on one object. *)
From Coq Require Import ZArith NArith List Bool.
From KV Require Import Common.Verdict.
Import ListNotations.
Open Scope N_scope.

(* one network message as the listener sees it *)
Record dmsg := {
  m_done : bool;          (* the payload is a *signingDoneMessage *)
  m_sender : N;           (* senderID (uint8) *)
  m_author : N;           (* operator whose key authenticated the message; 0 = not in the group *)
  m_message : N;
  m_attempt : N;
  m_end : N;              (* endBlock *)
  m_sig : option N        (* None = nil signature *)
}.

(* one signing attempt: what listen() is called with, plus the group the
   MembershipValidator was built from *)
Record params := {
  p_ops : list N;         (* operator of seat 1, 2, ... (operator ids >= 1) *)
  p_message : N;
  p_attempt : N;
  p_timeout : N;          (* attemptTimeoutBlock *)
  p_members : list N      (* attemptMembersIndexes *)
}.

Definition memN (x : N) (l : list N) : bool := existsb (N.eqb x) l.

(* MembershipValidator.IsValidMembership(senderID, publicKey): index = int(memberID - 1) is
   computed in uint8, so senderID 0 becomes position 255 *)
Definition valid_membership (ops : list N) (sender author : N) : bool :=
  match nth_error ops (N.to_nat ((sender + 255) mod 256)) with
  | Some a => N.eqb a author
  | None => false
  end.

(* isValidDoneMessage, without the "only one done message" test *)
Definition valid (p : params) (m : dmsg) : bool :=
  memN (m_sender m) (p_members p)
  && valid_membership (p_ops p) (m_sender m) (m_author m)
  && N.eqb (m_message m) (p_message p)
  && N.eqb (m_attempt m) (p_attempt p)
  && N.leb (m_end m) (p_timeout p)
  && match m_sig m with Some _ => true | None => false end.

(* doneSigners: sender -> first accepted message, in insertion order *)
Definition store := list (N * dmsg).

(* one iteration of the listener goroutine *)
Definition accept (p : params) (st : store) (m : dmsg) : store :=
  if negb (m_done m) then st
  else if memN (m_sender m) (map fst st) then st
  else if valid p m then st ++ [(m_sender m, m)]
  else st.

Definition listen (p : params) (h : list dmsg) : store := fold_left (accept p) h [].

Definition optN_eqb (a b : option N) : bool :=
  match a, b with
  | Some x, Some y => N.eqb x y
  | None, None => true
  | _, _ => false
  end.

Inductive outcome :=
| Done (sig : option N) (latest_end : N)
| ErrMismatch            (* "not matching signatures detected" *)
| NotYet                 (* the tick found expectedSignersCount <> len(doneSigners) *)
| TimedOut               (* ctx done: errWaitDoneTimedOut *)
| Panic.

(* the loop over doneSigners inside one tick; [l] is the order in which Go's map iteration
   happens to visit the entries; signature == nil in the Go code only before the first entry
   because stored signatures are never nil *)
Fixpoint scan (l : list (N * dmsg)) (sig : option N) (latest : N) : outcome :=
  match l with
  | [] => Done sig latest
  | (_, m) :: t =>
      let latest' := if N.ltb latest (m_end m) then m_end m else latest in
      match sig with
      | None => scan t (m_sig m) latest'
      | Some _ => if optN_eqb sig (m_sig m) then scan t sig latest' else ErrMismatch
      end
  end.

(* one tick of waitUntilAllDone, under the mutex *)
Definition tick (p : params) (iteration_order : list (N * dmsg)) : outcome :=
  if Nat.eqb (length (p_members p)) (length iteration_order) then scan iteration_order None 0
  else NotYet.

(* ---------- the property in executable form, on an observed outcome and the history ---------- *)
(* [c] is a confirmation by member [mem] of this attempt with signature [s] *)
Definition confirms (p : params) (s : option N) (mem : N) (c : dmsg) : bool :=
  m_done c && N.eqb (m_sender c) mem
  && valid_membership (p_ops p) (m_sender c) (m_author c)
  && N.eqb (m_message c) (p_message p)
  && N.eqb (m_attempt c) (p_attempt p)
  && N.leb (m_end c) (p_timeout p)
  && match s with Some _ => optN_eqb (m_sig c) s | None => false end.

(* a result (s, e) may be reported only if every included member has confirmed with s, all
   those confirmations ending at or before e, one of them ending exactly at e
   (no members: nil signature, end 0) *)
Definition result_ok (p : params) (h : list dmsg) (s : option N) (e : N) : bool :=
  match p_members p with
  | [] => optN_eqb s None && N.eqb e 0
  | _ =>
      forallb (fun mem => existsb (fun c => confirms p s mem c && N.leb (m_end c) e) h) (p_members p)
      && existsb (fun mem => existsb (fun c => confirms p s mem c && N.eqb (m_end c) e) h) (p_members p)
  end.

Definition out_ok (p : params) (h : list dmsg) (o : outcome) : bool :=
  match o with
  | Done s e => result_ok p h s e
  | ErrMismatch | TimedOut | NotYet => true
  | Panic => false
  end.

(* ---------- the long-lived object ---------- *)
(* the fields of signingDoneCheck that change: what the current listener goroutine validates
   against (the arguments of the last listen()), and doneSigners *)
Record sdc := { d_params : params; d_store : store }.

(* listen(): expectedSignersCount = len(members); doneSigners = make(map) *)
Definition do_listen (p : params) (d : sdc) : sdc := {| d_params := p; d_store := [] |}.
(* one message through the current listener goroutine *)
Definition do_msg (d : sdc) (m : dmsg) : sdc :=
  {| d_params := d_params d; d_store := accept (d_params d) (d_store d) m |}.
Definition do_msgs (d : sdc) (h : list dmsg) : sdc := fold_left do_msg h d.

(* a history of attempts (listen arguments, messages delivered during the attempt) run on one
   object starting in state d: the object after the last attempt *)
Definition run_attempts (d : sdc) (l : list (params * list dmsg)) : sdc :=
  fold_left (fun d ph => do_msgs (do_listen (fst ph) d) (snd ph)) l d.
(* doneSigners at the end of each attempt *)
Fixpoint stores_of (d : sdc) (l : list (params * list dmsg)) : list store :=
  match l with
  | [] => []
  | (p, h) :: t => let d' := do_msgs (do_listen p d) h in d_store d' :: stores_of d' t
  end.

(* ---------- cases ---------- *)
(* one attempt of the history: listen(p), phase 1, waitUntilAllDone with phase 2 arriving *)
Record attempt := {
  c_params : params;
  c_phase1 : list dmsg;    (* handed to the listener and processed before waitUntilAllDone started *)
  c_phase2 : list dmsg;    (* handed to the listener while it runs *)
  c_signers1 : list N;     (* keys of doneSigners after phase 1, ascending *)
  c_out : outcome;         (* what waitUntilAllDone returned; the context is cancelled only after
                              every message was processed and >= 3 ticks found no result *)
  c_signers : list N       (* keys of doneSigners when waitUntilAllDone returned, ascending *)
}.

(* a history of attempts on ONE signingDoneCheck (one MembershipValidator: same p_ops) *)
Record case := { c_attempts : list attempt }.

Fixpoint insert_sorted (x : N) (l : list N) : list N :=
  match l with
  | [] => [x]
  | y :: t => if N.leb x y then x :: l else y :: insert_sorted x t
  end.
Definition sortN (l : list N) : list N := fold_right insert_sorted [] l.
Fixpoint listN_eqb (a b : list N) : bool :=
  match a, b with
  | [], [] => true
  | x :: a', y :: b' => N.eqb x y && listN_eqb a' b'
  | _, _ => false
  end.
Definition outcome_eqb (a b : outcome) : bool :=
  match a, b with
  | Done s e, Done s' e' => optN_eqb s s' && N.eqb e e'
  | ErrMismatch, ErrMismatch | NotYet, NotYet | TimedOut, TimedOut | Panic, Panic => true
  | _, _ => false
  end.

(* the ticks interleave with the listener: the observed result must be what a tick returns
   after phase 1 and some prefix of phase 2; TimedOut is reported by the driver only when the
   final tick would still say NotYet *)
Definition prefixes {A} (l : list A) : list (list A) := map (fun k => firstn k l) (seq 0 (S (length l))).

Definition keys (st : store) : list N := sortN (map fst st).

(* the observations of one attempt against the stores [st1 pre] the model has after phase 1
   and a prefix pre of phase 2 *)
Definition agree_with (a : attempt) (st : list dmsg -> store) : bool :=
  let p := c_params a in
  listN_eqb (keys (st [])) (c_signers1 a)
  && match c_out a with
     | TimedOut =>
         outcome_eqb (tick p (st (c_phase2 a))) NotYet
         && listN_eqb (keys (st (c_phase2 a))) (c_signers a)
     | NotYet => false
     | o =>
         existsb (fun pre => outcome_eqb (tick p (st pre)) o && listN_eqb (keys (st pre)) (c_signers a))
                 (prefixes (c_phase2 a))
     end.

(* single attempt on a fresh state *)
Definition agree1 (a : attempt) : bool :=
  agree_with a (fun pre => listen (c_params a) (c_phase1 a ++ pre)).

(* the whole history on the object model: every attempt is compared with what the ONE object
   holds at that point (Proofs: = forallb agree1, whatever the initial state) *)
Fixpoint agree_from (d : sdc) (l : list attempt) : bool :=
  match l with
  | [] => true
  | a :: t =>
      let d1 := do_msgs (do_listen (c_params a) d) (c_phase1 a) in
      agree_with a (fun pre => d_store (do_msgs d1 pre))
      && agree_from (do_msgs d1 (c_phase2 a)) t
  end.

Definition no_params : params :=
  {| p_ops := []; p_message := 0; p_attempt := 0; p_timeout := 0; p_members := [] |}.
(* newSigningDoneCheck: doneSigners is nil *)
Definition new_sdc : sdc := {| d_params := no_params; d_store := [] |}.

Definition agree (c : case) : bool := agree_from new_sdc (c_attempts c).

(* the property, per attempt, on the implementation's outcome and the messages handed to the
   listener during THAT attempt only *)
Definition spec_ok1 (a : attempt) : bool := out_ok (c_params a) (c_phase1 a ++ c_phase2 a) (c_out a).
Definition spec_ok (c : case) : bool := forallb spec_ok1 (c_attempts c).

Definition well_formed (c : case) : bool :=
  match c_attempts c with
  | [] => false
  | a0 :: _ =>
      forallb (fun o => negb (N.eqb o 0)) (p_ops (c_params a0))
      && forallb (fun a => listN_eqb (p_ops (c_params a)) (p_ops (c_params a0))) (c_attempts c)
  end.

Definition judge (c : case) : verdict :=
  if negb (well_formed c) then BadCase else decide (spec_ok c) (agree c).

(* what --replay prints, per attempt: the model's tick after phase 1 and after everything, and
   the keys *)
Definition explain (c : case) : list (outcome * outcome * list N) :=
  map (fun a => let p := c_params a in
                (tick p (listen p (c_phase1 a)), tick p (listen p (c_phase1 a ++ c_phase2 a)),
                 keys (listen p (c_phase1 a ++ c_phase2 a))))
      (c_attempts c).
