(* C35 — executable model of pkg/tbtc/signing_done.go as repaired by the two fix: commits
   (confirmations are accepted only from members included in the attempt; waitUntilAllDone
   reads doneSigners under the mutex, so the listener's insertion and the waiter's check are
   the atomic steps).  Seats, operators, messages and signatures are N identifiers; member
   indexes are the Go uint8 values. *)
From Coq Require Import ZArith NArith List Bool.
From KV Require Import Common.Verdict.
Import ListNotations.
Open Scope N_scope.

(* one network message as the listener sees it *)
Record dmsg := {
  m_done : bool;          (* the payload is a *signingDoneMessage *)
  m_sender : N;           (* senderID (uint8) *)
  m_author : N;           (* operator whose key authenticated the message; 0 = not in the group *)
  m_message : N;
  m_attempt : N;
  m_end : N;              (* endBlock *)
  m_sig : option N        (* None = nil signature *)
}.

(* one signing attempt: what listen() is called with, plus the group the
   MembershipValidator was built from *)
Record params := {
  p_ops : list N;         (* operator of seat 1, 2, ... (operator ids >= 1) *)
  p_message : N;
  p_attempt : N;
  p_timeout : N;          (* attemptTimeoutBlock *)
  p_members : list N      (* attemptMembersIndexes *)
}.

Definition memN (x : N) (l : list N) : bool := existsb (N.eqb x) l.

(* MembershipValidator.IsValidMembership(senderID, publicKey): index = int(memberID - 1) is
   computed in uint8, so senderID 0 becomes position 255 *)
Definition valid_membership (ops : list N) (sender author : N) : bool :=
  match nth_error ops (N.to_nat ((sender + 255) mod 256)) with
  | Some a => N.eqb a author
  | None => false
  end.

(* isValidDoneMessage, without the "only one done message" test *)
Definition valid (p : params) (m : dmsg) : bool :=
  memN (m_sender m) (p_members p)
  && valid_membership (p_ops p) (m_sender m) (m_author m)
  && N.eqb (m_message m) (p_message p)
  && N.eqb (m_attempt m) (p_attempt p)
  && N.leb (m_end m) (p_timeout p)
  && match m_sig m with Some _ => true | None => false end.

(* doneSigners: sender -> first accepted message, in insertion order *)
Definition store := list (N * dmsg).

(* one iteration of the listener goroutine *)
Definition accept (p : params) (st : store) (m : dmsg) : store :=
  if negb (m_done m) then st
  else if memN (m_sender m) (map fst st) then st
  else if valid p m then st ++ [(m_sender m, m)]
  else st.

Definition listen (p : params) (h : list dmsg) : store := fold_left (accept p) h [].

Definition optN_eqb (a b : option N) : bool :=
  match a, b with
  | Some x, Some y => N.eqb x y
  | None, None => true
  | _, _ => false
  end.

Inductive outcome :=
| Done (sig : option N) (latest_end : N)
| ErrMismatch            (* "not matching signatures detected" *)
| NotYet                 (* the tick found expectedSignersCount <> len(doneSigners) *)
| TimedOut               (* ctx done: errWaitDoneTimedOut *)
| Panic.

(* the loop over doneSigners inside one tick; [l] is the order in which Go's map iteration
   happens to visit the entries; signature == nil in the Go code only before the first entry
   because stored signatures are never nil *)
Fixpoint scan (l : list (N * dmsg)) (sig : option N) (latest : N) : outcome :=
  match l with
  | [] => Done sig latest
  | (_, m) :: t =>
      let latest' := if N.ltb latest (m_end m) then m_end m else latest in
      match sig with
      | None => scan t (m_sig m) latest'
      | Some _ => if optN_eqb sig (m_sig m) then scan t sig latest' else ErrMismatch
      end
  end.

(* one tick of waitUntilAllDone, under the mutex *)
Definition tick (p : params) (iteration_order : list (N * dmsg)) : outcome :=
  if Nat.eqb (length (p_members p)) (length iteration_order) then scan iteration_order None 0
  else NotYet.

(* ---------- the property in executable form, on an observed outcome and the history ---------- *)
(* [c] is a confirmation by member [mem] of this attempt with signature [s] *)
Definition confirms (p : params) (s : option N) (mem : N) (c : dmsg) : bool :=
  m_done c && N.eqb (m_sender c) mem
  && valid_membership (p_ops p) (m_sender c) (m_author c)
  && N.eqb (m_message c) (p_message p)
  && N.eqb (m_attempt c) (p_attempt p)
  && N.leb (m_end c) (p_timeout p)
  && match s with Some _ => optN_eqb (m_sig c) s | None => false end.

(* a result (s, e) may be reported only if every included member has confirmed with s, all
   those confirmations ending at or before e, one of them ending exactly at e
   (no members: nil signature, end 0) *)
Definition result_ok (p : params) (h : list dmsg) (s : option N) (e : N) : bool :=
  match p_members p with
  | [] => optN_eqb s None && N.eqb e 0
  | _ =>
      forallb (fun mem => existsb (fun c => confirms p s mem c && N.leb (m_end c) e) h) (p_members p)
      && existsb (fun mem => existsb (fun c => confirms p s mem c && N.eqb (m_end c) e) h) (p_members p)
  end.

Definition out_ok (p : params) (h : list dmsg) (o : outcome) : bool :=
  match o with
  | Done s e => result_ok p h s e
  | ErrMismatch | TimedOut | NotYet => true
  | Panic => false
  end.

(* ---------- cases ---------- *)
Record case := {
  c_params : params;
  c_phase1 : list dmsg;    (* processed before waitUntilAllDone started *)
  c_phase2 : list dmsg;    (* arriving while it runs *)
  c_signers1 : list N;     (* keys of doneSigners after phase 1, ascending *)
  c_out : outcome;         (* what waitUntilAllDone returned; the context is cancelled only after
                              every message was processed and >= 3 ticks found no result *)
  c_signers : list N       (* keys of doneSigners at the end, ascending *)
}.

Fixpoint insert_sorted (x : N) (l : list N) : list N :=
  match l with
  | [] => [x]
  | y :: t => if N.leb x y then x :: l else y :: insert_sorted x t
  end.
Definition sortN (l : list N) : list N := fold_right insert_sorted [] l.
Fixpoint listN_eqb (a b : list N) : bool :=
  match a, b with
  | [], [] => true
  | x :: a', y :: b' => N.eqb x y && listN_eqb a' b'
  | _, _ => false
  end.
Definition outcome_eqb (a b : outcome) : bool :=
  match a, b with
  | Done s e, Done s' e' => optN_eqb s s' && N.eqb e e'
  | ErrMismatch, ErrMismatch | NotYet, NotYet | TimedOut, TimedOut | Panic, Panic => true
  | _, _ => false
  end.

(* the ticks interleave with the listener: the observed result must be what a tick returns
   after phase 1 and some prefix of phase 2; TimedOut is reported by the driver only when the
   final tick would still say NotYet *)
Definition prefixes {A} (l : list A) : list (list A) := map (fun k => firstn k l) (seq 0 (S (length l))).

Definition agree (c : case) : bool :=
  let p := c_params c in
  listN_eqb (sortN (map fst (listen p (c_phase1 c)))) (c_signers1 c)
  && match c_out c with
     | TimedOut =>
         outcome_eqb (tick p (listen p (c_phase1 c ++ c_phase2 c))) NotYet
         && listN_eqb (sortN (map fst (listen p (c_phase1 c ++ c_phase2 c)))) (c_signers c)
     | NotYet => false
     | o =>
         existsb (fun pre =>
                    outcome_eqb (tick p (listen p (c_phase1 c ++ pre))) o
                    && listN_eqb (sortN (map fst (listen p (c_phase1 c ++ pre)))) (c_signers c))
                 (prefixes (c_phase2 c))
     end.

Definition spec_ok (c : case) : bool := out_ok (c_params c) (c_phase1 c ++ c_phase2 c) (c_out c).

Definition well_formed (c : case) : bool :=
  forallb (fun o => negb (N.eqb o 0)) (p_ops (c_params c)).

Definition judge (c : case) : verdict :=
  if negb (well_formed c) then BadCase else decide (spec_ok c) (agree c).

(* what --replay prints: the model's tick after phase 1 and after everything, and the keys *)
Definition explain (c : case) : outcome * outcome * list N :=
  let p := c_params c in
  (tick p (listen p (c_phase1 c)), tick p (listen p (c_phase1 c ++ c_phase2 c)),
   sortN (map fst (listen p (c_phase1 c ++ c_phase2 c)))).
