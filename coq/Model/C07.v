(* C07 — tECDSA DKG glue: group exclusion marking (dkg.go Execute), message admission and history
   (states.go Receive / receivedMessages / CanTransition, member.go shouldAcceptMessage,
   group.MembershipValidator), TSS party ids (member.go identityConverter, common.go
   GenerateTssPartiesIDs + tss.SortPartyIDs) and result.go MisbehavedMembersIndexes.
   tss-lib key generation itself is an oracle.  No proofs here.

   Conventions: member indexes are Go uint8 values represented as N (< 256); operators (network
   public keys / chain addresses) and session ids are N identifiers; party keys are Z. *)
From Coq Require Import ZArith NArith List Bool.
From KV Require Import Common.Verdict.
Import ListNotations.
Open Scope N_scope.

Definition memN (x : N) (l : list N) : bool := existsb (N.eqb x) l.
Definition memZ (x : Z) (l : list Z) : bool := existsb (Z.eqb x) l.

(* ------------------------------------------------------------------ protocol/group/group.go *)
Record group := { g_members : list N; g_dq : list N; g_ia : list N; g_t : Z }.

(* memberIndexes[i] = MemberIndex(i + 1)   (uint8 conversion) *)
Definition member_of_pos (i : nat) : N := (N.of_nat i + 1) mod 256.
Definition new_group (t : Z) (size : nat) : group :=
  {| g_members := map member_of_pos (seq 0 size); g_dq := []; g_ia := []; g_t := t |}.

Definition is_operating (g : group) (m : N) : bool :=
  memN m (g_members g) && negb (memN m (g_ia g)) && negb (memN m (g_dq g)).
Definition mark_dq (g : group) (m : N) : group :=
  if is_operating g m
  then {| g_members := g_members g; g_dq := g_dq g ++ [m]; g_ia := g_ia g; g_t := g_t g |} else g.
Definition mark_ia (g : group) (m : N) : group :=
  if is_operating g m
  then {| g_members := g_members g; g_dq := g_dq g; g_ia := g_ia g ++ [m]; g_t := g_t g |} else g.
Definition operating (g : group) : list N := filter (is_operating g) (g_members g).
Definition group_size (g : group) : Z := Z.of_nat (length (g_members g)).
Definition honest_threshold (g : group) : Z := (group_size g - g_t g)%Z.

(* dkg.go Execute: for _, e := range excluded { if e != member.id { MarkMemberAsDisqualified(e) } } *)
Definition execute_marking (self : N) (excluded : list N) (g : group) : group :=
  fold_left (fun g e => if N.eqb e self then g else mark_dq g e) excluded g.

(* ------------------------------------------------------------------ messages, admission, history *)
(* m_op : the operator owning the network key that signed the message (0 / unknown ids are
   operators outside the group); m_body distinguishes different messages of one sender *)
Record msg := { m_kind : N; m_sender : N; m_op : N; m_session : N; m_body : N }.

(* the member: id, group, selected operators by seat (MembershipValidator), session, seed *)
Record member := { mb_id : N; mb_group : group; mb_ops : list N; mb_session : N; mb_seed : Z }.

(* MembershipValidator.IsValidMembership: positions of the key's address; index := int(memberID-1)
   computed on uint8 (memberID 0 gives 255) *)
Definition positions (ops : list N) : list (N * N) :=
  combine (map N.of_nat (seq 0 (length ops))) ops.
Definition valid_membership (ops : list N) (sender op : N) : bool :=
  let index := (sender + 255) mod 256 in
  existsb (fun po => N.eqb (snd po) op && N.eqb (fst po) index) (positions ops).

Definition should_accept (mb : member) (sender op : N) : bool :=
  negb (N.eqb sender (mb_id mb)) && valid_membership (mb_ops mb) sender op
  && is_operating (mb_group mb) sender.

(* the history (BaseAsyncState.messages) is kept as ONE list in arrival order; the per-type
   slices of the Go map are its filters by kind *)
Definition history := list msg.

(* Receive is textually the same in the six key generation states (the state only matters for
   CanTransition), every message kind implements the [message] interface *)
Definition receive (mb : member) (h : history) (m : msg) : history :=
  if should_accept mb (m_sender m) (m_op m) && N.eqb (mb_session mb) (m_session m)
  then h ++ [m] else h.
Definition receive_all (mb : member) (h : history) (ms : list msg) : history :=
  fold_left (receive mb) ms h.

Definition all_received (h : history) (k : N) : list msg :=
  filter (fun m => N.eqb (m_kind m) k) h.
(* state.DeduplicateMessagesPayloads with key = sender id: first payload per sender *)
Fixpoint dedup (seen : list N) (l : list msg) : list msg :=
  match l with
  | [] => []
  | m :: t => if memN (m_sender m) seen then dedup seen t
              else m :: dedup (m_sender m :: seen) t
  end.
Definition received (h : history) (k : N) : list msg := dedup [] (all_received h k).

(* states: 0 ephemeral keys, 1 symmetric keys, 2..4 TSS rounds one..three, 5 finalization;
   kinds: 0 ephemeral key msg, 1..3 TSS round msgs, 4 finalization msg, 5 result signature msg *)
Definition state_kind (s : N) : option N :=
  match s with 0 => Some 0 | 2 => Some 1 | 3 => Some 2 | 4 => Some 3 | 5 => Some 4 | _ => None end.
Definition can_transition (mb : member) (h : history) (s : N) : bool :=
  match s with
  | 1 => true
  | _ => match state_kind s with
         | Some k => Z.eqb (Z.of_nat (length (received h k)))
                           (Z.of_nat (length (operating (mb_group mb))) - 1)
         | None => false
         end
  end.

(* ------------------------------------------------------------------ party ids *)
Definition party_key (seed : Z) (m : N) : Z := (seed + Z.of_N m)%Z.
(* TssPartyIDToMemberIndex: seed > key => 0, else uint8((key - seed).Int64()) *)
Definition to_member_index (seed key : Z) : N :=
  if (seed >? key)%Z then 0 else Z.to_N ((key - seed) mod 256).

Fixpoint insertZ (x : Z) (l : list Z) : list Z :=
  match l with [] => [x] | y :: t => if (x <=? y)%Z then x :: l else y :: insertZ x t end.
Definition sortZ (l : list Z) : list Z := fold_right insertZ [] l.
Fixpoint insertN (x : N) (l : list N) : list N :=
  match l with [] => [x] | y :: t => if x <=? y then x :: l else y :: insertN x t end.
Definition sortN (l : list N) : list N := fold_right insertN [] l.
Fixpoint nodupN (l : list N) : list N :=
  match l with [] => [] | x :: t => if memN x t then nodupN t else x :: nodupN t end.

(* GenerateTssPartiesIDs over OperatingMemberIndexes, then tss.SortPartyIDs (ascending keys) *)
Definition party_keys (mb : member) : list Z :=
  sortZ (map (party_key (mb_seed mb)) (operating (mb_group mb))).
Definition own_key (mb : member) : option Z :=
  if memN (mb_id mb) (operating (mb_group mb)) then Some (party_key (mb_seed mb) (mb_id mb)) else None.

(* result.go MisbehavedMembersIndexes: the set IA ∪ DQ, sorted *)
Definition misbehaved (g : group) : list N := sortN (nodupN (g_ia g ++ g_dq g)).

(* the member Execute builds *)
Definition execute_member (size : nat) (t : Z) (seed : Z) (self : N) (excluded : list N)
           (ops : list N) (session : N) : member :=
  {| mb_id := self; mb_group := execute_marking self excluded (new_group t size);
     mb_ops := ops; mb_session := session; mb_seed := seed |}.

(* ------------------------------------------------------------------ cases *)
Fixpoint list_eqb {A} (eqb : A -> A -> bool) (a b : list A) : bool :=
  match a, b with
  | [], [] => true
  | x :: a', y :: b' => eqb x y && list_eqb eqb a' b'
  | _, _ => false
  end.
Definition optZ_eqb (a b : option Z) : bool :=
  match a, b with Some x, Some y => Z.eqb x y | None, None => true | _, _ => false end.

(* --- probe: one member, explicit marking calls, a stream of (state, message) deliveries *)
Record probe_case := {
  p_size : N; p_t : Z; p_self : N; p_seed : Z;
  p_dq : list N;            (* MarkMemberAsDisqualified calls, in order *)
  p_ia : list N;            (* then MarkMemberAsInactive calls *)
  p_ops : list N;           (* operator of every seat *)
  p_session : N;
  p_msgs : list (N * msg);  (* delivered to state fst *)
  p_conv : list Z;          (* keys converted back to member indexes *)
  (* observed on the implementation *)
  o_operating : list N; o_misbehaved : list N; o_own : option Z; o_keys : list Z;
  o_history : list (list N);   (* senders stored per kind 0..5 *)
  o_received : list (list N);  (* receivedMessages senders per kind 0..5 *)
  o_can : list bool;           (* CanTransition of states 0..5 *)
  o_conv : list N }.

Definition kinds : list N := [0; 1; 2; 3; 4; 5].
Definition states : list N := [0; 1; 2; 3; 4; 5].

Definition probe_member (c : probe_case) : member :=
  let g := fold_left mark_ia (p_ia c) (fold_left mark_dq (p_dq c) (new_group (p_t c) (N.to_nat (p_size c)))) in
  {| mb_id := p_self c; mb_group := g; mb_ops := p_ops c; mb_session := p_session c; mb_seed := p_seed c |}.

Definition senders (l : list msg) : list N := map m_sender l.

(* what the specification says about ONE delivered message, from the inputs alone: the sender is
   another member of the group that was not marked, the network key belongs to the operator
   holding the sender's seat and the session is the member's own *)
Definition legit (c : probe_case) (m : msg) : bool :=
  negb (N.eqb (m_sender m) (p_self c))
  && N.leb 1 (m_sender m) && N.leb (m_sender m) (p_size c)
  && negb (memN (m_sender m) (p_dq c)) && negb (memN (m_sender m) (p_ia c))
  && match nth_error (p_ops c) (N.to_nat (m_sender m - 1)) with
     | Some o => N.eqb o (m_op m) | None => false end
  && N.eqb (m_session m) (p_session c).

Fixpoint sublistN (a b : list N) : bool :=   (* a is a subsequence of b *)
  match a, b with
  | [], _ => true
  | _ :: _, [] => false
  | x :: a', y :: b' => if N.eqb x y then sublistN a' b' else sublistN a b'
  end.
Fixpoint nodupb (l : list N) : bool :=
  match l with [] => true | x :: t => negb (memN x t) && nodupb t end.
Definition subsetN (a b : list N) : bool := forallb (fun x => memN x b) a.

Definition spec_probe (c : probe_case) : bool :=
  (N.ltb (p_size c) 256) &&
  (Nat.eqb (length (o_history c)) 6) && (Nat.eqb (length (o_received c)) 6) &&
  forallb (fun k =>
     let hk := nth (N.to_nat k) (o_history c) [] in
     let rk := nth (N.to_nat k) (o_received c) [] in
     (* nothing foreign is ever stored: the stored senders are a subsequence of the legit
        deliveries of that kind *)
     sublistN hk (senders (filter (fun m => N.eqb (m_kind m) k && legit c m) (map snd (p_msgs c))))
     (* one message per sender, all taken from the history, every stored sender represented *)
     && nodupb rk && sublistN rk hk && subsetN hk rk) kinds.

Definition agree_probe (c : probe_case) : bool :=
  let mb := probe_member c in
  let h := receive_all mb [] (map snd (p_msgs c)) in
  forallb (fun sm => N.ltb (fst sm) 6) (p_msgs c)
  && list_eqb N.eqb (o_operating c) (operating (mb_group mb))
  && list_eqb N.eqb (o_misbehaved c) (misbehaved (mb_group mb))
  && optZ_eqb (o_own c) (own_key mb)
  && list_eqb Z.eqb (o_keys c) (party_keys mb)
  && list_eqb (list_eqb N.eqb) (o_history c) (map (fun k => senders (all_received h k)) kinds)
  && list_eqb (list_eqb N.eqb) (o_received c) (map (fun k => senders (received h k)) kinds)
  && list_eqb Bool.eqb (o_can c) (map (can_transition mb h) states)
  && list_eqb N.eqb (o_conv c) (map (to_member_index (p_seed c)) (p_conv c)).

(* --- run: one session of real Execute calls; one observation per operating member that ran *)
Inductive status := Done | Failed | Inconclusive | Panicked.
Record member_obs := { mo_member : N; mo_status : status;
                       mo_key : N;        (* wallet public key, identifier by first occurrence *)
                       mo_mis : list N; mo_ks : list Z; mo_share : Z }.
Record run_case := { r_size : N; r_t : Z; r_seed : Z; r_excluded : list N; r_obs : list member_obs }.

Definition is_done (o : member_obs) : bool := match mo_status o with Done => true | _ => false end.
Definition finished_ok (o : member_obs) : bool :=
  match mo_status o with Done | Inconclusive => true | _ => false end.
Definition in_group (size m : N) : bool := N.leb 1 m && N.leb m size.

Definition spec_run (c : run_case) : bool :=
  let done := filter is_done (r_obs c) in
  N.ltb (r_size c) 256 && (0 <=? r_seed c)%Z &&
  (* only operating members are judged, and none of them fails *)
  forallb (fun o => in_group (r_size c) (mo_member o) && negb (memN (mo_member o) (r_excluded c))
                    && finished_ok o) (r_obs c) &&
  match done with
  | [] => true
  | o0 :: _ =>
      forallb (fun o =>
        (* one wallet key, one misbehaved list, one party set *)
        N.eqb (mo_key o) (mo_key o0) && list_eqb N.eqb (mo_mis o) (mo_mis o0)
        && list_eqb Z.eqb (mo_ks o) (mo_ks o0)
        (* excluded members are listed as misbehaving and never joined the party set *)
        && forallb (fun e => negb (in_group (r_size c) e)
                             || (memN e (mo_mis o) && negb (memZ (party_key (r_seed c) e) (mo_ks o))))
                   (r_excluded c)
        (* the member itself and every other finisher are parties *)
        && Z.eqb (mo_share o) (party_key (r_seed c) (mo_member o))
        && memZ (mo_share o) (mo_ks o0)) done
  end.

Definition agree_run (c : run_case) : bool :=
  forallb (fun o =>
    negb (is_done o) ||
    let mb := execute_member (N.to_nat (r_size c)) (r_t c) (r_seed c) (mo_member o) (r_excluded c) [] 0 in
    list_eqb Z.eqb (mo_ks o) (party_keys mb)
    && list_eqb N.eqb (mo_mis o) (misbehaved (mb_group mb))
    && optZ_eqb (Some (mo_share o)) (own_key mb)) (r_obs c).

Inductive case := CProbe (c : probe_case) | CRun (c : run_case).

Definition judge (c : case) : verdict :=
  match c with
  | CProbe c =>
      if negb (forallb (fun sm => N.ltb (fst sm) 6 && N.ltb (m_kind (snd sm)) 6) (p_msgs c)
               && Nat.eqb (length (p_ops c)) (N.to_nat (p_size c))) then BadCase
      else decide (spec_probe c) (agree_probe c)
  | CRun c => decide (spec_run c) (agree_run c)
  end.

(* what --replay prints: the model's own observables *)
Record explained := { e_operating : list N; e_misbehaved : list N; e_own : option Z; e_keys : list Z;
                      e_history : list (list N); e_received : list (list N); e_can : list bool;
                      e_conv : list N }.
Definition explain (c : case) : list explained :=
  match c with
  | CProbe c =>
      let mb := probe_member c in
      let h := receive_all mb [] (map snd (p_msgs c)) in
      [{| e_operating := operating (mb_group mb); e_misbehaved := misbehaved (mb_group mb);
          e_own := own_key mb; e_keys := party_keys mb;
          e_history := map (fun k => senders (all_received h k)) kinds;
          e_received := map (fun k => senders (received h k)) kinds;
          e_can := map (can_transition mb h) states;
          e_conv := map (to_member_index (p_seed c)) (p_conv c) |}]
  | CRun c =>
      map (fun o =>
        let mb := execute_member (N.to_nat (r_size c)) (r_t c) (r_seed c) (mo_member o) (r_excluded c) [] 0 in
        {| e_operating := operating (mb_group mb); e_misbehaved := misbehaved (mb_group mb);
           e_own := own_key mb; e_keys := party_keys mb; e_history := []; e_received := [];
           e_can := []; e_conv := [] |}) (r_obs c)
  end.
