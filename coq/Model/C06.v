(* C06 — executable model of the relay-entry part of pkg/beacon/event/deduplicator.go
   (Deduplicator.NotifyRelayEntryStarted), as it is written.

   Strings and byte slices are lists of byte values (N).  A notification carries the start
   block (uint64, here a Z in [0, 2^64)) and the previous entry as the string the caller built
   (pkg/beacon/beacon.go passes hex.EncodeToString(request.PreviousEntry)).  The chain is an
   external collaborator: every notification carries the answers the chain WOULD give to
   CurrentRequestPreviousEntry() and CurrentRequestStartBlock() if it were asked at that
   moment ([None] = the call returns an error).  The whole Go function runs under
   relayEntryMutex, so one notification is one atomic step of the model. *)
From Coq Require Import ZArith NArith List Bool Lia.
From KV Require Import Common.Verdict.
Import ListNotations.
Open Scope Z_scope.

Definition two64 : Z := 18446744073709551616.
Definition str := list N.

Fixpoint str_eqb (a b : str) : bool :=
  match a, b with
  | [], [] => true
  | x :: a', y :: b' => N.eqb x y && str_eqb a' b'
  | _, _ => false
  end.

(* encoding/hex.EncodeToString: two lower-case digits per byte *)
Definition hex_digit (n : N) : N := if (n <? 10)%N then (48 + n)%N else (87 + n)%N.
Definition hex_encode (b : list N) : str :=
  flat_map (fun x => [hex_digit (x / 16)%N; hex_digit (x mod 16)%N]) b.

(* big.Int.Uint64 of the chain's answer: the low 64 bits of the magnitude *)
Definition big_uint64 (z : Z) : Z := Z.abs z mod two64.

Record state := { cur_block : Z; cur_entry : str }.
(* zero values of the Go struct fields: 0 doubles as "no request seen yet" *)
Definition init : state := {| cur_block := 0; cur_entry := [] |}.

Record chain_ans := { ans_entry : option (list N); ans_block : option Z }.
Record op := { blk : Z; ent : str; ans : chain_ans }.
(* RPanic: the Go call panicked (never produced by the model) *)
Inductive result := RTrue | RFalse | RErr | RPanic.

Definition result_eqb (a b : result) : bool :=
  match a, b with
  | RTrue, RTrue | RFalse, RFalse | RErr, RErr | RPanic, RPanic => true
  | _, _ => false
  end.

(* the chain confirms the notified request as the current one *)
Definition confirms (o : op) : bool :=
  match ans_entry (ans o), ans_block (ans o) with
  | Some ce, Some cb => str_eqb (ent o) (hex_encode ce) && (blk o =? big_uint64 cb)
  | _, _ => false
  end.

(* the closure shouldUpdate *)
Definition should_update (s : state) (o : op) : result :=
  if cur_block s =? 0 then RTrue else
  if cur_block s <? blk o then
    if str_eqb (ent o) (cur_entry s) then
      match ans_entry (ans o) with
      | None => RErr
      | Some ce =>
          match ans_block (ans o) with
          | None => RErr
          | Some cb =>
              if str_eqb (ent o) (hex_encode ce) && (blk o =? big_uint64 cb) then RTrue else RFalse
          end
      end
    else RTrue
  else RFalse.

(* how many chain calls the notification makes (not part of the property; compared so that
   the model is tied to the code path taken) *)
Definition chain_calls (s : state) (o : op) : N :=
  if cur_block s =? 0 then 0%N else
  if cur_block s <? blk o then
    if str_eqb (ent o) (cur_entry s) then
      match ans_entry (ans o) with None => 1%N | Some _ => 2%N end
    else 0%N
  else 0%N.

Definition notify (s : state) (o : op) : state * result :=
  match should_update s o with
  | RTrue => ({| cur_block := blk o; cur_entry := ent o |}, RTrue)
  | r => (s, r)
  end.

Fixpoint run (s : state) (ops : list op) : list result :=
  match ops with
  | [] => []
  | o :: t => snd (notify s o) :: run (fst (notify s o)) t
  end.
Fixpoint final (s : state) (ops : list op) : state :=
  match ops with
  | [] => s
  | o :: t => final (fst (notify s o)) t
  end.
Fixpoint run_calls (s : state) (ops : list op) : list N :=
  match ops with
  | [] => []
  | o :: t => chain_calls s o :: run_calls (fst (notify s o)) t
  end.

(* ---------- the property in executable form, evaluated on observed outputs ---------- *)

(* [last] = the last request for which [true] was answered so far (start block, entry).
   For every notification with a positive start block:
     may  : true is answered only if the request is newer than the last processed one and
            either carries a new previous entry or the chain confirms it as current;
     must : a newer request with a new previous entry (or the very first one) gets true.
   A start block of 0 is outside the guard (0 is the code's "no request yet" sentinel and no
   on-chain request lives in block 0): nothing is demanded from that notification on. *)
Definition may_accept (last : option (Z * str)) (o : op) : bool :=
  match last with
  | None => true
  | Some (b0, e0) => (b0 <? blk o) && (negb (str_eqb (ent o) e0) || confirms o)
  end.
Definition must_accept (last : option (Z * str)) (o : op) : bool :=
  match last with
  | None => true
  | Some (b0, e0) => (b0 <? blk o) && negb (str_eqb (ent o) e0)
  end.

Fixpoint spec_from (last : option (Z * str)) (ops : list op) (outs : list result) : bool :=
  match ops, outs with
  | [], [] => true
  | o :: ops', r :: outs' =>
      if blk o <=? 0 then true else
      match r with
      | RTrue => may_accept last o && spec_from (Some (blk o, ent o)) ops' outs'
      | _ => negb (must_accept last o) && spec_from last ops' outs'
      end
  | _, _ => false
  end.
Definition spec_seq (ops : list op) (outs : list result) : bool := spec_from None ops outs.

(* ---------- vocabulary of the theorems (Props/C06.v) ---------- *)
Definition is_true (r : result) : bool := match r with RTrue => true | _ => false end.

(* the notifications that were answered [true], in order *)
Fixpoint accepted (ops : list op) (outs : list result) : list op :=
  match ops, outs with
  | o :: ops', r :: outs' => if is_true r then o :: accepted ops' outs' else accepted ops' outs'
  | _, _ => []
  end.
(* the last request answered [true] (start block, previous entry), [last] if there is none *)
Fixpoint last_from (last : option (Z * str)) (ops : list op) (outs : list result)
  : option (Z * str) :=
  match ops, outs with
  | o :: ops', r :: outs' =>
      last_from (if is_true r then Some (blk o, ent o) else last) ops' outs'
  | _, _ => last
  end.
Definition state_of (last : option (Z * str)) : state :=
  match last with None => init | Some (b, e) => {| cur_block := b; cur_entry := e |} end.

Definition chain_confirms (o : op) : Prop :=
  exists ce cb, ans_entry (ans o) = Some ce /\ ans_block (ans o) = Some cb /\
                ent o = hex_encode ce /\ blk o = big_uint64 cb.
(* [o] is a genuinely new request: nothing processed yet, or newer than the last processed
   request and with a different previous entry *)
Definition genuinely_new (last : option (Z * str)) (o : op) : Prop :=
  match last with None => True | Some (b0, e0) => b0 < blk o /\ ent o <> e0 end.
(* [o] may be processed: nothing processed yet, or strictly newer than the last processed
   request and either a new previous entry or confirmed by the chain as the current request *)
Definition processable (last : option (Z * str)) (o : op) : Prop :=
  match last with
  | None => True
  | Some (b0, e0) => b0 < blk o /\ (ent o <> e0 \/ chain_confirms o)
  end.
Definition positive (ops : list op) : Prop := Forall (fun o => 0 < blk o) ops.

(* ---------- concurrent histories ---------- *)
(* one completed call: the notification, the stamps of its invocation and response on a global
   counter, and the answer observed *)
Record cop := { c_op : op; c_inv : N; c_resp : N; c_out : result }.

(* order-independent consequences of the property on a concurrent history (all start blocks
   positive): two processed requests never share a start block, and a request processed by a
   call that began after another processing call had returned is strictly newer *)
Definition pair_ok (a b : cop) : bool :=
  negb (is_true (c_out a) && is_true (c_out b))
  || (negb (blk (c_op a) =? blk (c_op b))
      && (negb (c_resp a <? c_inv b)%N || (blk (c_op a) <? blk (c_op b)))
      && (negb (c_resp b <? c_inv a)%N || (blk (c_op b) <? blk (c_op a)))).
Fixpoint all_pairs_ok (l : list cop) : bool :=
  match l with
  | [] => true
  | a :: t => forallb (pair_ok a) t && all_pairs_ok t
  end.
Definition all_positive (l : list cop) : bool := forallb (fun c => 0 <? blk (c_op c)) l.
Definition spec_conc (l : list cop) : bool := negb (all_positive l) || all_pairs_ok l.

(* [l] is listed in an order that respects real time: nothing is placed before a call that
   had already returned when it was invoked *)
Fixpoint realtime_ok (l : list cop) : bool :=
  match l with
  | [] => true
  | a :: t => forallb (fun b => negb (c_resp b <? c_inv a)%N) t && realtime_ok t
  end.

Fixpoint results_eqb (a b : list result) : bool :=
  match a, b with
  | [], [] => true
  | x :: a', y :: b' => result_eqb x y && results_eqb a' b'
  | _, _ => false
  end.
Fixpoint listN_eqb (a b : list N) : bool :=
  match a, b with
  | [], [] => true
  | x :: a', y :: b' => N.eqb x y && listN_eqb a' b'
  | _, _ => false
  end.

(* ---------- cases ---------- *)
Record seq_case := { q_ops : list op; q_outs : list result; q_calls : list N }.
(* cc_ops is listed in the linearisation order the driver found (certificate); it is
   re-validated here: real-time order respected and the sequential model replays it *)
Record conc_case := { cc_ops : list cop }.
Inductive case := CSeq (c : seq_case) | CConc (c : conc_case).

Definition in_range (o : op) : bool := (0 <=? blk o) && (blk o <? two64).

Definition judge (c : case) : verdict :=
  match c with
  | CSeq c =>
      if negb (forallb in_range (q_ops c)
               && Nat.eqb (length (q_ops c)) (length (q_outs c))
               && Nat.eqb (length (q_ops c)) (length (q_calls c))) then BadCase else
      decide (spec_seq (q_ops c) (q_outs c))
             (results_eqb (q_outs c) (run init (q_ops c))
              && listN_eqb (q_calls c) (run_calls init (q_ops c)))
  | CConc c =>
      if negb (forallb in_range (map c_op (cc_ops c))
               && forallb (fun x => (c_inv x <? c_resp x)%N) (cc_ops c)) then BadCase else
      decide (spec_conc (cc_ops c))
             (realtime_ok (cc_ops c)
              && results_eqb (map c_out (cc_ops c)) (run init (map c_op (cc_ops c))))
  end.

(* what --replay prints: the model's answers and chain-call counts *)
Definition explain (c : case) : list result * list N :=
  match c with
  | CSeq c => (run init (q_ops c), run_calls init (q_ops c))
  | CConc c => (run init (map c_op (cc_ops c)), run_calls init (map c_op (cc_ops c)))
  end.
