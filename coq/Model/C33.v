(* C33 — executable model of proposal discovery in pkg/tbtcpg, as written:
     deposit_sweep.go  findDeposits / FindDepositsToSweep
     redemptions.go    findPendingRedemptions / FindPendingRedemptions
     tbtcpg.go         ProposalGenerator.Generate

   Canonicalisation (driver harness/cmd/c33): transaction hashes, wallet public key hashes
   (0 = the all-zero hash), redeemer scripts, redemption keys and proposals become N identifiers
   by first occurrence; block numbers, times (unix seconds), ages, amounts, confirmations, limits
   are Z.  Chain calls are function arguments; [iter] stands for Go's map iteration. *)
From Coq Require Import ZArith NArith List Bool.
From KV Require Import Common.Verdict Gen.Consts_C33.
Import ListNotations.
Open Scope Z_scope.

Definition len {A} (l : list A) : Z := Z.of_nat (length l).

(* ---------- sort.SliceStable by an integer key ---------- *)
Fixpoint insert_by {A} (key : A -> Z) (x : A) (l : list A) : list A :=
  match l with
  | [] => [x]
  | y :: t => if key x <=? key y then x :: l else y :: insert_by key x t
  end.
Definition stable_sort {A} (key : A -> Z) (l : list A) : list A :=
  fold_right (insert_by key) [] l.

(* ---------- the "collect up to cap" loops ----------
   for _, x := range l { if len(result) == cap(result) { break }; ... continue | append | return err } *)
Inductive err := EChain | ENoRequest.
Inductive step (B : Type) := Take (b : B) | Skip | Fail (e : err).
Arguments Take {B} b. Arguments Skip {B}. Arguments Fail {B} e.

Fixpoint scan {A B} (f : A -> step B) (room : Z) (l : list A) : err + list B :=
  match l with
  | [] => inr []
  | x :: rest =>
      if room =? 0 then inr [] else
      match f x with
      | Fail e => inl e
      | Skip => scan f room rest
      | Take b => match scan f (room - 1) rest with
                  | inr r => inr (b :: r)
                  | inl e => inl e
                  end
      end
  end.

(* ================================================================== *)
(* deposits                                                            *)
(* ================================================================== *)
Record dep_event := { de_tx : N; de_idx : N; de_block : Z; de_wallet : N }.
(* GetDepositRequest: found (RevealedAt, SweptAt as unix seconds, Amount) | not found | error *)
Inductive dep_look := DFound (revealed_at swept_at amount : Z) | DMissing | DLookErr.
Record deposit := { d_tx : N; d_idx : N; d_block : Z; d_wallet : N;
                    d_swept : bool; d_amount : Z; d_conf : Z }.
Inductive dres := DepOk (l : list deposit) | DepErrChain | DepErrNoRequest | DepErrWallet | DepPanic.

Section Deposits.
  Variable dep_req : N * N -> dep_look.     (* GetDepositRequest *)
  Variable confs : N -> option Z.           (* GetTransactionConfirmations, None = error *)

  (* PastDepositRevealedEvents with the filter the code builds: the wallet, unless it is zero *)
  Definition dep_visible (wallet : N) (e : dep_event) : bool :=
    N.eqb wallet 0 || N.eqb (de_wallet e) wallet.

  (* the loop body *)
  Definition dep_step (now min_age : Z) (skip_swept skip_unconf : bool) (e : dep_event)
    : step deposit :=
    match dep_req (de_tx e, de_idx e) with
    | DLookErr => Fail EChain
    | DMissing => Fail ENoRequest
    | DFound revealed_at swept_at amount =>
        if negb (revealed_at + min_age <? now) then Skip else       (* !timeNow.After(matureAt) *)
        let swept := negb (swept_at =? 0) in
        if skip_swept && swept then Skip else
        let c := match confs (de_tx e) with Some c => c | None => 0 end in
        if skip_unconf && (c <? DepositSweepRequiredFundingTxConfirmations) then Skip else
        Take {| d_tx := de_tx e; d_idx := de_idx e; d_block := de_block e; d_wallet := de_wallet e;
                d_swept := swept; d_amount := amount; d_conf := c |}
    end.

  (* [min_age] = GetDepositMinAge, [events] = the whole event log (None = call failed) *)
  Definition find_deposits (now : Z) (min_age : option Z) (events : option (list dep_event))
             (wallet : N) (max : Z) (skip_swept skip_unconf : bool) : dres :=
    match min_age, events with
    | Some ma, Some evs =>
        let sorted := stable_sort de_block (filter (dep_visible wallet) evs) in
        let cap := if 0 <? max then max else len sorted in
        match scan (dep_step now ma skip_swept skip_unconf) cap sorted with
        | inr l => DepOk l
        | inl EChain => DepErrChain
        | inl ENoRequest => DepErrNoRequest
        end
    | _, _ => DepErrChain
    end.

  (* FindDepositsToSweep keeps the reference fields only *)
  Definition to_ref (d : deposit) : deposit :=
    {| d_tx := d_tx d; d_idx := d_idx d; d_block := d_block d; d_wallet := 0%N;
       d_swept := false; d_amount := 0; d_conf := 0 |}.
  Definition find_deposits_to_sweep (now : Z) (min_age : option Z)
             (events : option (list dep_event)) (wallet : N) (max : Z) : dres :=
    if N.eqb wallet 0 then DepErrWallet else
    match find_deposits now min_age events wallet max true true with
    | DepOk l => DepOk (map to_ref l)
    | r => r
    end.
End Deposits.

(* ================================================================== *)
(* redemptions                                                         *)
(* ================================================================== *)
(* re_key = BuildRedemptionKey(wallet, script), None when the call fails *)
Record red_event := { re_block : Z; re_wallet : N; re_script : N; re_key : option N }.
(* GetPendingRedemptionRequest: found (RequestedAt) | not pending | error *)
Inductive red_look := RFound (requested_at : Z) | RMissing | RLookErr.
Inductive rres := RedOk (scripts : list N) | RedErrChain | RedErrWallet | RedPanic.
(* a pending request: the event and its RequestedAt *)
Definition pend := (red_event * Z)%type.

Fixpoint upsert (k : N) (e : red_event) (m : list (N * red_event)) : list (N * red_event) :=
  match m with
  | [] => [(k, e)]
  | (k', e') :: t => if N.eqb k k' then (k, e) :: t else (k', e') :: upsert k e t
  end.
(* eventsSet: None when some key cannot be built *)
Fixpoint build_set (evs : list red_event) (m : list (N * red_event))
  : option (list (N * red_event)) :=
  match evs with
  | [] => Some m
  | e :: rest => match re_key e with
                 | None => None
                 | Some k => build_set rest (upsert k e m)
                 end
  end.

Section Redemptions.
  Variable pending : N * N -> red_look.      (* GetPendingRedemptionRequest (wallet, script) *)
  Variable delay : N * N -> option Z.        (* GetRedemptionDelay, seconds; None = error *)
  Variable iter : list (N * red_event) -> list (N * red_event).   (* map iteration order *)

  Definition red_visible (wallet : N) (start : Z) (e : red_event) : bool :=
    (start <=? re_block e) && (N.eqb wallet 0 || N.eqb (re_wallet e) wallet).

  Definition start_block (current timeout abt : Z) : Z :=
    let lookback := timeout / abt + 1000 in
    if lookback <? current then current - lookback else 0.

  (* the loop over eventsSet: None when a lookup fails *)
  Fixpoint collect_pending (l : list (N * red_event)) : option (list pend) :=
    match l with
    | [] => Some []
    | (_, e) :: rest =>
        match pending (re_wallet e, re_script e) with
        | RLookErr => None
        | RMissing => collect_pending rest
        | RFound t => match collect_pending rest with
                      | Some r => Some ((e, t) :: r)
                      | None => None
                      end
        end
    end.

  Definition red_step (now timeout min_age : Z) (p : pend) : step N :=
    let '(e, t) := p in
    if t <? now - timeout then Skip else                       (* RequestedAt.Before(rangeStart) *)
    match delay (re_wallet e, re_script e) with
    | None => Fail EChain
    | Some d =>
        let ma := if min_age <? d then d else min_age in
        if now - ma <? t then Skip else                        (* RequestedAt.After(rangeEnd) *)
        Take (re_script e)
    end.

  (* [abt] = AverageBlockTime in whole seconds *)
  Definition find_redemptions (now : Z) (current min_age timeout : option Z) (abt : Z)
             (events : option (list red_event)) (wallet : N) (limit : Z) : rres :=
    if N.eqb wallet 0 then RedErrWallet else
    match current, min_age, timeout with
    | Some cur, Some ma, Some tmo =>
        if abt =? 0 then RedPanic else                          (* integer divide by zero *)
        match events with
        | None => RedErrChain
        | Some evs =>
            let sorted := stable_sort re_block
                            (filter (red_visible wallet (start_block cur tmo abt)) evs) in
            match build_set sorted [] with
            | None => RedErrChain
            | Some set =>
                match collect_pending (iter set) with
                | None => RedErrChain
                | Some pend =>
                    let cap := if 0 <? limit then limit else len pend in
                    match scan (red_step now tmo ma) cap (stable_sort snd pend) with
                    | inr l => RedOk l
                    | inl _ => RedErrChain
                    end
                end
            end
        end
    | _, _, _ => RedErrChain
    end.
End Redemptions.

(* ================================================================== *)
(* ProposalGenerator.Generate                                          *)
(* ================================================================== *)
Inductive task_out := TProp (p : N) | TNone | TErr.
Record task := { tk_action : N; tk_out : task_out }.
Inductive gres := GProp (p : N) | GNoop | GErr.

(* slices.IndexFunc *)
Fixpoint index_of (tasks : list task) (a : N) (i : N) : option (N * task) :=
  match tasks with
  | [] => None
  | t :: rest => if N.eqb (tk_action t) a then Some (i, t) else index_of rest a (N.succ i)
  end.

(* result and the indices of the tasks that were run, in order *)
Fixpoint generate (tasks : list task) (checklist : list N) : gres * list N :=
  match checklist with
  | [] => (GNoop, [])
  | a :: rest =>
      match index_of tasks a 0%N with
      | None => generate tasks rest
      | Some (i, t) =>
          match tk_out t with
          | TErr => (GErr, [i])
          | TProp p => (GProp p, [i])
          | TNone => let '(r, tr) := generate tasks rest in (r, i :: tr)
          end
      end
  end.

(* ================================================================== *)
(* cases and the executable form of the property                       *)
(* ================================================================== *)
Fixpoint assoc {A B} (eqb : A -> A -> bool) (k : A) (l : list (A * B)) : option B :=
  match l with
  | [] => None
  | (k', v) :: t => if eqb k k' then Some v else assoc eqb k t
  end.
Definition pair_eqb (a b : N * N) : bool := N.eqb (fst a) (fst b) && N.eqb (snd a) (snd b).
Fixpoint listN_eqb (a b : list N) : bool :=
  match a, b with
  | [], [] => true
  | x :: a', y :: b' => N.eqb x y && listN_eqb a' b'
  | _, _ => false
  end.
Definition memN (x : N) (l : list N) : bool := existsb (N.eqb x) l.
Fixpoint nodupb (l : list N) : bool :=
  match l with
  | [] => true
  | x :: t => negb (memN x t) && nodupb t
  end.

Definition deposit_eqb (a b : deposit) : bool :=
  N.eqb (d_tx a) (d_tx b) && N.eqb (d_idx a) (d_idx b) && Z.eqb (d_block a) (d_block b)
  && N.eqb (d_wallet a) (d_wallet b) && Bool.eqb (d_swept a) (d_swept b)
  && Z.eqb (d_amount a) (d_amount b) && Z.eqb (d_conf a) (d_conf b).
Fixpoint deposits_eqb (a b : list deposit) : bool :=
  match a, b with
  | [], [] => true
  | x :: a', y :: b' => deposit_eqb x y && deposits_eqb a' b'
  | _, _ => false
  end.
Definition dres_eqb (a b : dres) : bool :=
  match a, b with
  | DepOk x, DepOk y => deposits_eqb x y
  | DepErrChain, DepErrChain | DepErrNoRequest, DepErrNoRequest
  | DepErrWallet, DepErrWallet | DepPanic, DepPanic => true
  | _, _ => false
  end.

(* ---- deposits ---- *)
Record dep_case := {
  dc_now : Z;
  dc_min_age : option Z;
  dc_events : option (list dep_event);
  dc_reqs : list ((N * N) * dep_look);     (* default: not found *)
  dc_confs : list (N * option Z);          (* default: error *)
  dc_wallet : N;
  dc_max : Z;
  dc_skip_swept : bool;
  dc_skip_unconf : bool;
  dc_to_sweep : bool;                      (* FindDepositsToSweep instead of FindDeposits *)
  dc_out : dres                            (* observed *)
}.
Definition dc_req (c : dep_case) (k : N * N) : dep_look :=
  match assoc pair_eqb k (dc_reqs c) with Some l => l | None => DMissing end.
Definition dc_conf (c : dep_case) (h : N) : option Z :=
  match assoc N.eqb h (dc_confs c) with Some o => o | None => None end.

Definition model_deposits (c : dep_case) : dres :=
  if dc_to_sweep c
  then find_deposits_to_sweep (dc_req c) (dc_conf c) (dc_now c) (dc_min_age c) (dc_events c)
                              (dc_wallet c) (dc_max c)
  else find_deposits (dc_req c) (dc_conf c) (dc_now c) (dc_min_age c) (dc_events c)
                     (dc_wallet c) (dc_max c) (dc_skip_swept c) (dc_skip_unconf c).

(* the eligible deposits in reveal order, computed WITHOUT the loop: the specification side *)
Definition dep_eligible (dep_req : N * N -> dep_look) (confs : N -> option Z)
           (now min_age : Z) (skip_swept skip_unconf : bool) (e : dep_event) : option deposit :=
  match dep_step dep_req confs now min_age skip_swept skip_unconf e with
  | Take d => Some d
  | _ => None
  end.
Fixpoint filter_map {A B} (f : A -> option B) (l : list A) : list B :=
  match l with
  | [] => []
  | x :: t => match f x with Some b => b :: filter_map f t | None => filter_map f t end
  end.
Definition dep_failing (dep_req : N * N -> dep_look) (e : dep_event) : bool :=
  match dep_req (de_tx e, de_idx e) with DFound _ _ _ => false | _ => true end.

(* spec: an OK result is exactly the first [cap] eligible deposits in (stable) reveal order;
   an error result needs a failing chain call *)
Definition dep_spec_ok (c : dep_case) : bool :=
  let to_sweep := dc_to_sweep c in
  let ss := if to_sweep then true else dc_skip_swept c in
  let su := if to_sweep then true else dc_skip_unconf c in
  match dc_out c with
  | DepPanic => false
  | DepErrWallet => to_sweep && N.eqb (dc_wallet c) 0
  | DepOk l =>
      match dc_min_age c, dc_events c with
      | Some ma, Some evs =>
          negb (to_sweep && N.eqb (dc_wallet c) 0) &&
          let sorted := stable_sort de_block (filter (dep_visible (dc_wallet c)) evs) in
          let cap := if 0 <? dc_max c then dc_max c else len sorted in
          let el := filter_map (dep_eligible (dc_req c) (dc_conf c) (dc_now c) ma ss su) sorted in
          let want := firstn (Z.to_nat cap) el in
          deposits_eqb l (if to_sweep then map to_ref want else want)
      | _, _ => false
      end
  | DepErrChain | DepErrNoRequest =>
      match dc_min_age c, dc_events c with
      | Some _, Some evs => existsb (dep_failing (dc_req c)) (filter (dep_visible (dc_wallet c)) evs)
      | _, _ => true
      end
  end.

(* ---- redemptions ---- *)
Record red_case := {
  rc_now : Z;
  rc_current : option Z;
  rc_min_age : option Z;
  rc_timeout : option Z;
  rc_abt : Z;
  rc_events : option (list red_event);
  rc_pending : list ((N * N) * red_look);   (* default: not pending *)
  rc_delay : list ((N * N) * option Z);     (* default: 0 *)
  rc_wallet : N;
  rc_limit : Z;
  rc_out : rres                             (* observed *)
}.
Definition rc_pend (c : red_case) (k : N * N) : red_look :=
  match assoc pair_eqb k (rc_pending c) with Some l => l | None => RMissing end.
Definition rc_del (c : red_case) (k : N * N) : option Z :=
  match assoc pair_eqb k (rc_delay c) with Some o => o | None => Some 0 end.

(* a map iteration order that reproduces the observed output: the observed scripts first, in
   the observed order, then the other entries *)
Definition iter_from (obs : list N) (set : list (N * red_event)) : list (N * red_event) :=
  flat_map (fun s => filter (fun ke => N.eqb (re_script (snd ke)) s) set) obs
  ++ filter (fun ke => negb (memN (re_script (snd ke)) obs)) set.

Definition model_redemptions (c : red_case) (obs : list N) : rres :=
  find_redemptions (rc_pend c) (rc_del c) (iter_from obs) (rc_now c) (rc_current c)
                   (rc_min_age c) (rc_timeout c) (rc_abt c) (rc_events c) (rc_wallet c) (rc_limit c).

Definition rres_eqb (a b : rres) : bool :=
  match a, b with
  | RedOk x, RedOk y => listN_eqb x y
  | RedErrChain, RedErrChain | RedErrWallet, RedErrWallet | RedPanic, RedPanic => true
  | _, _ => false
  end.

(* eligibility of an entry of the de-duplicated set, as the specification states it *)
Definition red_eligible (pending : N * N -> red_look) (delay : N * N -> option Z)
           (now timeout min_age : Z) (e : red_event) : option Z :=
  match pending (re_wallet e, re_script e) with
  | RFound t =>
      match delay (re_wallet e, re_script e) with
      | Some d => if (now - timeout <=? t) && (t <=? now - Z.max min_age d) then Some t else None
      | None => None
      end
  | _ => None
  end.
Definition is_pending (pending : N * N -> red_look) (e : red_event) : bool :=
  match pending (re_wallet e, re_script e) with RFound _ => true | _ => false end.

Fixpoint sortedb (l : list Z) : bool :=
  match l with
  | a :: (b :: _) as t => (a <=? b) && sortedb t
  | _ => true
  end.
Definition last_or {A} (l : list A) (d : A) : A := last l d.

(* spec: the observed scripts are distinct, each belongs to an eligible entry, they are ordered
   oldest first, their number is min(cap, #eligible), and no left-out eligible entry is older
   than a selected one *)
Definition red_spec_ok (c : red_case) : bool :=
  match rc_out c with
  | RedPanic => false
  | RedErrWallet => N.eqb (rc_wallet c) 0
  | RedErrChain =>
      match rc_current c, rc_min_age c, rc_timeout c, rc_events c with
      | Some _, Some _, Some _, Some evs =>
          existsb (fun e => match re_key e with None => true | Some _ => false end) evs
          || existsb (fun e => match rc_pend c (re_wallet e, re_script e) with RLookErr => true | _ => false end) evs
          || existsb (fun e => match rc_del c (re_wallet e, re_script e) with None => true | _ => false end) evs
      | _, _, _, _ => true
      end
  | RedOk l =>
      match rc_current c, rc_min_age c, rc_timeout c, rc_events c with
      | Some cur, Some ma, Some tmo, Some evs =>
          negb (N.eqb (rc_wallet c) 0) && negb (rc_abt c =? 0) &&
          let sorted := stable_sort re_block
                          (filter (red_visible (rc_wallet c) (start_block cur tmo (rc_abt c))) evs) in
          match build_set sorted [] with
          | None => false
          | Some set =>
              let entries := map snd set in
              let elig := filter_map (fun e => match red_eligible (rc_pend c) (rc_del c) (rc_now c) tmo ma e with
                                               | Some t => Some (re_script e, t) | None => None end) entries in
              let npend := len (filter (is_pending (rc_pend c)) entries) in
              let cap := if 0 <? rc_limit c then rc_limit c else npend in
              let time_of s := assoc N.eqb s elig in
              let times := filter_map time_of l in
              let clean := forallb (fun e => match rc_del c (re_wallet e, re_script e) with
                                             | None => false | Some _ => true end) entries in
              nodupb l
              && forallb (fun s => match time_of s with Some _ => true | None => false end) l
              && sortedb times
              && (negb clean ||
                  ((len l =? Z.min cap (len elig))
                   && forallb (fun st => memN (fst st) l || (last_or times (snd st) <=? snd st)) elig))
          end
      | _, _, _, _ => false
      end
  end.

(* ---- generator ---- *)
Record gen_case := {
  gc_tasks : list task;
  gc_checklist : list N;
  gc_out : gres;            (* observed result *)
  gc_trace : list N         (* observed: indices of the tasks whose Run was called *)
}.
Definition gres_eqb (a b : gres) : bool :=
  match a, b with
  | GProp p, GProp q => N.eqb p q
  | GNoop, GNoop | GErr, GErr => true
  | _, _ => false
  end.
Definition outcome (tasks : list task) (a : N) : option task_out :=
  match index_of tasks a 0%N with Some (_, t) => Some (tk_out t) | None => None end.
Definition skips (tasks : list task) (a : N) : bool :=
  match outcome tasks a with None | Some TNone => true | _ => false end.
(* first action of the checklist that does not skip *)
Fixpoint first_decisive (tasks : list task) (cl : list N) : option N :=
  match cl with
  | [] => None
  | a :: rest => if skips tasks a then first_decisive tasks rest else Some a
  end.
Definition gen_spec_ok (c : gen_case) : bool :=
  match first_decisive (gc_tasks c) (gc_checklist c), gc_out c with
  | None, GNoop => true
  | Some a, GProp p => match outcome (gc_tasks c) a with Some (TProp q) => N.eqb p q | _ => false end
  | Some a, GErr => match outcome (gc_tasks c) a with Some TErr => true | _ => false end
  | _, _ => false
  end.

(* ================================================================== *)
(* the production generator (NewProposalGenerator) on one window       *)
(* ================================================================== *)
(* cmd/start.go builds ONE ProposalGenerator per node: tasks DepositSweep (action 2), Redemption
   (3), Heartbeat (1), MovingFunds (4), MovedFundsSweep (5), in this order.  The driver's
   checklists use the actions 0 (no-op: no task), 1, 2, 3 and unsupported numbers >= 6.
   Proposal ids of the abstract [generate]: the action number. *)
Inductive pout := PSweep (l : list deposit) | PRedeem (l : list N) | PHeartbeat
                | PNoop | PErr | PPanic.
Record pg_case := {
  pg_dep : dep_case;       (* deposit side of the window's chain state; dc_to_sweep = true,
                              dc_max = GetDepositSweepMaxSize; dc_out is not used *)
  pg_red : red_case;       (* redemption side; rc_limit = GetRedemptionMaxSize; rc_out not used *)
  pg_hb_valid : bool;      (* ValidateHeartbeatProposal succeeds *)
  pg_checklist : list N;
  pg_out : pout            (* observed *)
}.
Definition with_dout (c : dep_case) (o : dres) : dep_case :=
  {| dc_now := dc_now c; dc_min_age := dc_min_age c; dc_events := dc_events c;
     dc_reqs := dc_reqs c; dc_confs := dc_confs c; dc_wallet := dc_wallet c; dc_max := dc_max c;
     dc_skip_swept := dc_skip_swept c; dc_skip_unconf := dc_skip_unconf c;
     dc_to_sweep := dc_to_sweep c; dc_out := o |}.
Definition with_rout (c : red_case) (o : rres) : red_case :=
  {| rc_now := rc_now c; rc_current := rc_current c; rc_min_age := rc_min_age c;
     rc_timeout := rc_timeout c; rc_abt := rc_abt c; rc_events := rc_events c;
     rc_pending := rc_pending c; rc_delay := rc_delay c; rc_wallet := rc_wallet c;
     rc_limit := rc_limit c; rc_out := o |}.
Definition nonempty {A} (l : list A) : bool := match l with [] => false | _ => true end.

Definition pg_obs (c : pg_case) : list N := match pg_out c with PRedeem l => l | _ => [] end.
(* DepositSweepTask.Run / RedemptionTask.Run / HeartbeatTask.Run on the window's chain state *)
Definition pg_sweep_out (c : pg_case) : task_out :=
  match model_deposits (pg_dep c) with
  | DepOk [] => TNone | DepOk _ => TProp 2 | _ => TErr
  end.
Definition pg_redeem_out (c : pg_case) : task_out :=
  match model_redemptions (pg_red c) (pg_obs c) with
  | RedOk [] => TNone | RedOk _ => TProp 3 | _ => TErr
  end.
Definition pg_hb_ok (c : pg_case) : bool :=
  match rc_current (pg_red c) with Some _ => pg_hb_valid c | None => false end.
Definition pg_tasks (c : pg_case) : list task :=
  [ {| tk_action := 2; tk_out := pg_sweep_out c |};
    {| tk_action := 3; tk_out := pg_redeem_out c |};
    {| tk_action := 1; tk_out := if pg_hb_ok c then TProp 1 else TErr |} ].
Definition model_pg (c : pg_case) : pout :=
  match fst (generate (pg_tasks c) (pg_checklist c)) with
  | GNoop => PNoop
  | GErr => PErr
  | GProp p =>
      if N.eqb p 2 then match model_deposits (pg_dep c) with DepOk l => PSweep l | _ => PPanic end
      else if N.eqb p 3 then match model_redemptions (pg_red c) (pg_obs c) with
                             | RedOk l => PRedeem l | _ => PPanic end
      else PHeartbeat
  end.
Definition pout_eqb (a b : pout) : bool :=
  match a, b with
  | PSweep x, PSweep y => deposits_eqb x y
  | PRedeem x, PRedeem y => listN_eqb x y
  | PHeartbeat, PHeartbeat | PNoop, PNoop | PErr, PErr | PPanic, PPanic => true
  | _, _ => false
  end.

(* the property on one window, evaluated against THAT window's chain state: walking the
   checklist, every action before the deciding one yields nothing according to the deposit /
   redemption specification (no eligible deposit / request), and the deciding action's
   specification accepts the observed proposal (or allows the error); no-op iff none decides *)
Definition dep_allows (c : pg_case) (o : dres) : bool := dep_spec_ok (with_dout (pg_dep c) o).
Definition red_allows (c : pg_case) (o : rres) : bool := red_spec_ok (with_rout (pg_red c) o).
Definition pg_decides (c : pg_case) (a : N) : bool :=
  if N.eqb a 2 then
    match pg_out c with
    | PSweep l => nonempty l && dep_allows c (DepOk l)
    | PErr => dep_allows c DepErrChain || dep_allows c DepErrNoRequest || dep_allows c DepErrWallet
    | _ => false
    end
  else if N.eqb a 3 then
    match pg_out c with
    | PRedeem l => nonempty l && red_allows c (RedOk l)
    | PErr => red_allows c RedErrChain || red_allows c RedErrWallet
    | _ => false
    end
  else if N.eqb a 1 then
    match pg_out c with
    | PHeartbeat => pg_hb_ok c
    | PErr => negb (pg_hb_ok c)
    | _ => false
    end
  else false.
Definition pg_skips (c : pg_case) (a : N) : bool :=
  if N.eqb a 2 then dep_allows c (DepOk [])
  else if N.eqb a 3 then red_allows c (RedOk [])
  else negb (N.eqb a 1).
Fixpoint pg_walk (c : pg_case) (cl : list N) : bool :=
  match cl with
  | [] => match pg_out c with PNoop => true | _ => false end
  | a :: rest => pg_decides c a || (pg_skips c a && pg_walk c rest)
  end.
Definition pg_spec_ok (c : pg_case) : bool := pg_walk c (pg_checklist c).
(* well-formed window: one wallet, the sweep task's search, only modelled actions *)
Definition pg_wf (c : pg_case) : bool :=
  N.eqb (dc_wallet (pg_dep c)) (rc_wallet (pg_red c)) && dc_to_sweep (pg_dep c)
  && forallb (fun a => negb (N.eqb a 4 || N.eqb a 5)) (pg_checklist c).

Inductive case := CDep (c : dep_case) | CRed (c : red_case) | CGen (c : gen_case)
                | CPG (c : pg_case).

Inductive explained := XDep (r : dres) | XRed (r : rres) | XGen (r : gres * list N)
                     | XPG (r : pout).
(* the model's output on one case = one window: a function of that window's state only *)
Definition explain (c : case) : explained :=
  match c with
  | CDep c => XDep (model_deposits c)
  | CRed c => XRed (model_redemptions c (match rc_out c with RedOk l => l | _ => [] end))
  | CGen c => XGen (generate (gc_tasks c) (gc_checklist c))
  | CPG c => XPG (model_pg c)
  end.

Definition wf_of (c : case) : bool := match c with CPG c => pg_wf c | _ => true end.
(* the property, on the implementation's observed output of the window *)
Definition spec_of (c : case) : bool :=
  match c with
  | CDep c => dep_spec_ok c
  | CRed c => red_spec_ok c
  | CGen c => gen_spec_ok c
  | CPG c => pg_spec_ok c
  end.
(* the observed output of the window against a model output *)
Definition agree_with (c : case) (o : explained) : bool :=
  match c, o with
  | CDep c, XDep r => dres_eqb (dc_out c) r
  | CRed c, XRed r => rres_eqb (rc_out c) r
  | CGen c, XGen (r, tr) => gres_eqb (gc_out c) r && listN_eqb (gc_trace c) tr
  | CPG c, XPG r => pout_eqb (pg_out c) r
  | _, _ => false
  end.
Definition agree_of (c : case) : bool := agree_with c (explain c).

Definition judge (c : case) : verdict :=
  if wf_of c then decide (spec_of c) (agree_of c) else BadCase.

(* ================================================================== *)
(* window histories on the long-lived objects                          *)
(* ================================================================== *)
(* cmd/start.go builds ONE ProposalGenerator per node (tbtcpg.NewProposalGenerator), hence one
   DepositSweepTask, one RedemptionTask, one HeartbeatTask ..., and calls Generate on it at every
   coordination window.  As written, a task is the pair of its chain handles and the generator
   the list of its tasks; no method of deposit_sweep.go / redemptions.go / tbtcpg.go assigns to
   a field or to a package-level variable.  The model threads the object through the windows
   the way the node does; [window_st] returns it unchanged. *)
Record node := { nd_chain : N; nd_btc : N; nd_actions : list N }.
Definition window_st (n : node) (w : case) : explained * node := (explain w, n).
Fixpoint history_st (n : node) (ws : list case) : list explained :=
  match ws with
  | [] => []
  | w :: t => let '(o, n') := window_st n w in o :: history_st n' t
  end.
Definition production_node : node := {| nd_chain := 1; nd_btc := 2; nd_actions := [2; 3; 1; 4; 5]%N |}.

(* the property for a history: at every window, the property of THAT window's chain state *)
Definition hist_spec (ws : list case) : bool := forallb spec_of ws.
Fixpoint agree_list (ws : list case) (outs : list explained) : bool :=
  match ws, outs with
  | [], [] => true
  | w :: ws', o :: outs' => agree_with w o && agree_list ws' outs'
  | _, _ => false
  end.
Definition hist_agree (ws : list case) : bool := agree_list ws (history_st production_node ws).

Inductive anycase := COne (c : case) | CHist (ws : list case).
Definition judge_any (a : anycase) : verdict :=
  match a with
  | COne c => judge c
  | CHist ws => if nonempty ws && forallb wf_of ws
                then decide (hist_spec ws) (hist_agree ws) else BadCase
  end.
Inductive explained_any := XOne (x : explained) | XHist (xs : list explained).
Definition explain_any (a : anycase) : explained_any :=
  match a with
  | COne c => XOne (explain c)
  | CHist ws => XHist (history_st production_node ws)
  end.
