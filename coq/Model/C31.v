(* C31 — executable model of pkg/bitcoin/spv_proof.go (AssembleSpvProof, createMerkleProof,
   getHeadersChain) as written, at the level of bytes, together with
   - an independent verifier [verify] mirroring the Bridge's rules (Merkle path with position
     bits, header linkage by previous-hash with the verifier's own header hash, coinbase
     preimage and proof, equal proof lengths),
   - an honest Electrum-like server answering from prefixes of one final chain (the chain
     GROWS between queries: query number t sees the first [vis t] blocks),
   - the per-run judge.
   SHA-256 is a Section variable everywhere; [Concrete] instantiates it with a toy function
   because the judge only predicts the SHAPE of the proof (the bytes are checked on the Go side
   by a verifier with the real SHA-256, whose boolean result is part of the case). *)
From Coq Require Import ZArith NArith List Bool Lia.
From KV Require Import Common.Verdict.
Import ListNotations.

Definition bytes := list N.

Definition two64 : Z := 2 ^ 64.
Definition w64 (z : Z) : Z := (z mod two64)%Z.

(* binary.LittleEndian.PutUint32 *)
Definition le32 (v : N) : bytes :=
  [v mod 256; (v / 256) mod 256; (v / 65536) mod 256; (v / 16777216) mod 256]%N.

(* bitcoin.BlockHeader; the two hashes are [32]byte in Go *)
Record header := { h_version : N; h_prev : bytes; h_root : bytes; h_time : N; h_bits : N; h_nonce : N }.
(* BlockHeader.Serialize *)
Definition ser_header (h : header) : bytes :=
  le32 (h_version h) ++ h_prev h ++ h_root h ++ le32 (h_time h) ++ le32 (h_bits h) ++ le32 (h_nonce h).

(* bitcoin.TransactionMerkleProof: the nodes as served (hex strings; [None] = not decodable),
   in the byte order Electrum uses (reversed), deepest pairing first *)
Record merkle_branch := { mb_nodes : list (option bytes); mb_pos : Z }.

(* bitcoin.SpvProof *)
Record proof := { p_merkle : bytes; p_index : Z; p_headers : bytes; p_cb_preimage : bytes;
                  p_cb_proof : bytes }.

Inductive result := Assembled (p : proof) | NotEnoughConfirmations | Failed.

Fixpoint bytes_eqb (a b : bytes) : bool :=
  match a, b with
  | [], [] => true
  | x :: a', y :: b' => N.eqb x y && bytes_eqb a' b'
  | _, _ => false
  end.

(* split into pieces of [k] bytes (the last one may be shorter) *)
Fixpoint chunks_f (fuel k : nat) (b : bytes) : list bytes :=
  match fuel with
  | O => []
  | S f => match b with
           | [] => []
           | _ => firstn k b :: chunks_f f k (skipn k b)
           end
  end.
Definition chunks (k : nat) (b : bytes) : list bytes := chunks_f (length b) k b.

Section SPV.
  Variable sha256 : bytes -> bytes.
  Definition sha256d (b : bytes) : bytes := sha256 (sha256 b).

  (* ================= the code ================= *)
  Section Assemble.
    (* answers of the chain client; the first argument is the number of the query within the
       run (the chain may have grown between two queries) *)
    Variable q_conf : nat -> bytes -> option Z.      (* GetTransactionConfirmations *)
    Variable q_tx : nat -> bytes -> option bytes.     (* GetTransaction, as its Standard serialisation *)
    Variable q_latest : nat -> option Z.              (* GetLatestBlockHeight *)
    Variable q_header : nat -> Z -> option header.    (* GetBlockHeader *)
    Variable q_merkle : nat -> bytes -> Z -> option merkle_branch.  (* GetTransactionMerkleProof *)
    Variable q_cb : nat -> Z -> option bytes.         (* GetCoinbaseTxHash *)

    (* createMerkleProof: hex-decode every node, reverse it, concatenate *)
    Fixpoint create_merkle_proof (nodes : list (option bytes)) : option bytes :=
      match nodes with
      | [] => Some []
      | None :: _ => None
      | Some n :: r => option_map (app (rev n)) (create_merkle_proof r)
      end.

    (* getHeadersChain: for i := blockHeight; i < blockHeight+chainLength; i++ (uint arithmetic) *)
    Fixpoint headers_loop (t : nat) (i : Z) (n : nat) : option bytes :=
      match n with
      | O => Some []
      | S n' => match q_header t i with
                | None => None
                | Some hd => option_map (app (ser_header hd)) (headers_loop (S t) (i + 1) n')
                end
      end.
    Definition loop_count (start len : Z) : nat :=
      let bound := w64 (start + len) in
      if (start <? bound)%Z then Z.to_nat (bound - start) else O.
    Definition get_headers_chain (t : nat) (start len : Z) : option bytes :=
      headers_loop t start (loop_count start len).

    (* AssembleSpvProof; [t0] is the number of its first query *)
    Definition assemble (t0 : nat) (txh : bytes) (required : Z) : result :=
      match q_conf t0 txh with None => Failed | Some conf =>
      if (conf <? required)%Z then NotEnoughConfirmations else
      match q_tx (t0 + 1) txh with None => Failed | Some _ =>
      match q_latest (t0 + 2) with None => Failed | Some latest =>
      let h := w64 (latest - conf + 1) in
      match get_headers_chain (t0 + 3) h required with None => Failed | Some hdrs =>
      let t1 := (t0 + 3 + loop_count h required)%nat in
      match q_merkle t1 txh h with None => Failed | Some br =>
      match create_merkle_proof (mb_nodes br) with None => Failed | Some mp =>
      match q_cb (t1 + 1) h with None => Failed | Some cbh =>
      match q_tx (t1 + 2) cbh with None => Failed | Some cbser =>
      match q_merkle (t1 + 3) cbh h with None => Failed | Some cbr =>
      match create_merkle_proof (mb_nodes cbr) with None => Failed | Some cmp =>
      Assembled {| p_merkle := mp; p_index := mb_pos br; p_headers := hdrs;
                   p_cb_preimage := sha256 cbser; p_cb_proof := cmp |}
      end end end end end end end end end end.
  End Assemble.

  (* ================= the independent verifier ================= *)
  Definition merkle_step (cur sib : bytes) (idx : Z) : bytes :=
    if Z.odd idx then sha256d (sib ++ cur) else sha256d (cur ++ sib).
  Fixpoint merkle_fold (cur : bytes) (sibs : list bytes) (idx : Z) : bytes * Z :=
    match sibs with
    | [] => (cur, idx)
    | s :: r => merkle_fold (merkle_step cur s idx) r (idx / 2)
    end.
  (* the leaf hashes up to [root] along the path, whose left/right turns are the bits of
     [idx]; every bit of [idx] is consumed (idx < 2^depth) *)
  Definition merkle_ok (leaf proofb : bytes) (idx : Z) (root : bytes) : bool :=
    (Nat.eqb (length proofb mod 32) 0) && (0 <=? idx)%Z &&
    (let '(r, rest) := merkle_fold leaf (chunks 32 proofb) idx in
     bytes_eqb r root && (rest =? 0)%Z).
  Definition hdr_prev (h80 : bytes) : bytes := firstn 32 (skipn 4 h80).
  Definition hdr_root (h80 : bytes) : bytes := firstn 32 (skipn 36 h80).
  Fixpoint linked (hs : list bytes) : bool :=
    match hs with
    | a :: (b :: _) as t => bytes_eqb (hdr_prev b) (sha256d a) && linked t
    | _ => true
    end.
  Definition verify (txh : bytes) (required : Z) (p : proof) : bool :=
    (1 <=? required)%Z && (Z.of_nat (length (p_headers p)) =? 80 * required)%Z &&
    match chunks 80 (p_headers p) with
    | [] => false
    | (h0 :: _) as hs =>
        let root := hdr_root h0 in
        merkle_ok txh (p_merkle p) (p_index p) root
        && merkle_ok (sha256 (p_cb_preimage p)) (p_cb_proof p) 0 root
        && Nat.eqb (length (p_merkle p)) (length (p_cb_proof p))
        && linked hs
    end.

  (* ================= an honest server over a growing chain ================= *)
  (* Bitcoin's Merkle tree: an odd level repeats its last node *)
  Definition node (a b : bytes) : bytes := sha256d (a ++ b).
  Fixpoint pair_up (l : list bytes) : list bytes :=
    match l with
    | [] => []
    | [a] => [node a a]
    | a :: b :: t => node a b :: pair_up t
    end.
  Fixpoint root_f (fuel : nat) (l : list bytes) : bytes :=
    match l with
    | [] => []
    | [x] => x
    | _ => match fuel with O => [] | S f => root_f f (pair_up l) end
    end.
  Definition merkle_root (l : list bytes) : bytes := root_f (length l) l.
  Definition sibling (p : nat) (l : list bytes) : bytes :=
    if Nat.even p then nth (p + 1) l (nth p l []) else nth (p - 1) l [].
  Fixpoint branch_f (fuel p : nat) (l : list bytes) : list bytes :=
    match l with
    | [] => []
    | [_] => []
    | _ => match fuel with
           | O => []
           | S f => sibling p l :: branch_f f (Nat.div2 p) (pair_up l)
           end
    end.
  Definition branch (p : nat) (l : list bytes) : list bytes := branch_f (length l) p l.

  (* raw block data; the header's previous-hash and Merkle root are computed by [build] *)
  Record raw_block := { rb_version : N; rb_time : N; rb_bits : N; rb_nonce : N;
                        rb_txs : list bytes (* Standard serialisations; the first is the coinbase *) }.
  Record block := { b_hdr : header; b_sers : list bytes; b_ids : list bytes }.
  Fixpoint build (prev : bytes) (bs : list raw_block) : list block :=
    match bs with
    | [] => []
    | rb :: r =>
        let ids := map sha256d (rb_txs rb) in
        let hd := {| h_version := rb_version rb; h_prev := prev; h_root := merkle_root ids;
                     h_time := rb_time rb; h_bits := rb_bits rb; h_nonce := rb_nonce rb |} in
        {| b_hdr := hd; b_sers := rb_txs rb; b_ids := ids |} :: build (sha256d (ser_header hd)) r
    end.

  Fixpoint index_of (x : bytes) (l : list bytes) : option nat :=
    match l with
    | [] => None
    | y :: t => if bytes_eqb x y then Some O else option_map S (index_of x t)
    end.
  (* (height, position) of the first occurrence of a transaction id *)
  Fixpoint find_tx (x : bytes) (c : list block) : option (nat * nat) :=
    match c with
    | [] => None
    | b :: t => match index_of x (b_ids b) with
                | Some p => Some (O, p)
                | None => option_map (fun hp => (S (fst hp), snd hp)) (find_tx x t)
                end
    end.

  Section Honest.
    Variable chain : list block.
    Variable vis : nat -> nat.   (* number of blocks visible to query number t *)
    Definition view (t : nat) : list block := firstn (vis t) chain.
    Definition block_at (t : nat) (i : Z) : option block :=
      if (i <? 0)%Z then None else nth_error (view t) (Z.to_nat i).

    Definition hq_conf (t : nat) (x : bytes) : option Z :=
      match find_tx x (view t) with
      | Some (h, _) => Some (Z.of_nat (length (view t)) - Z.of_nat h)%Z
      | None => None
      end.
    Definition hq_tx (t : nat) (x : bytes) : option bytes :=
      match find_tx x (view t) with
      | Some (h, p) => match nth_error (view t) h with
                       | Some b => nth_error (b_sers b) p
                       | None => None
                       end
      | None => None
      end.
    Definition hq_latest (t : nat) : option Z :=
      match view t with [] => None | _ => Some (Z.of_nat (length (view t)) - 1)%Z end.
    Definition hq_header (t : nat) (i : Z) : option header := option_map b_hdr (block_at t i).
    Definition hq_merkle (t : nat) (x : bytes) (i : Z) : option merkle_branch :=
      match block_at t i with
      | None => None
      | Some b => match index_of x (b_ids b) with
                  | None => None      (* the transaction is not in that block *)
                  | Some p => Some {| mb_nodes := map (fun n => Some (rev n)) (branch p (b_ids b));
                                      mb_pos := Z.of_nat p |}
                  end
      end.
    Definition hq_cb (t : nat) (i : Z) : option bytes :=
      match block_at t i with
      | None => None
      | Some b => nth_error (b_ids b) 0
      end.
    Definition honest_assemble : nat -> bytes -> Z -> result :=
      assemble hq_conf hq_tx hq_latest hq_header hq_merkle hq_cb.
  End Honest.
End SPV.

(* ================= per-run judge ================= *)
(* what the driver observed of the returned proof *)
Inductive obs := OAssembled (merkle_len : N) (index : Z) (headers_len : N) (cb_len : N)
               | ONotEnough | OFailed | OPanic.

Record case := {
  c_sizes : list N;            (* number of transactions of every block of the final chain *)
  c_vis0 : N;                  (* blocks visible to the first query *)
  c_growth : list N;           (* blocks mined just before query 1, 2, 3, ... (0 afterwards) *)
  c_tx : option (N * N);       (* (height, position) of the transaction; None = unknown tx *)
  c_required : Z;
  c_obs : obs;
  c_go_verify : bool           (* verdict of the Go-side Bridge-rule verifier (real SHA-256) *)
}.

Module Concrete.
  (* shape-only stand-in for SHA-256: 32 bytes, injective on the synthetic transactions *)
  Definition toy (b : bytes) : bytes := firstn 32 (b ++ repeat 0%N 32).
  Definition tx_ser (h p : nat) : bytes := [N.of_nat (S h); N.of_nat (S p)].
  Definition raw (h : nat) (size : N) : raw_block :=
    {| rb_version := 1; rb_time := N.of_nat h; rb_bits := 0; rb_nonce := 0;
       rb_txs := map (tx_ser h) (seq 0 (N.to_nat size)) |}.
  Fixpoint raws (h : nat) (sizes : list N) : list raw_block :=
    match sizes with [] => [] | s :: r => raw h s :: raws (S h) r end.
  Definition chain_of (c : case) : list block := build toy (repeat 0%N 32) (raws 0 (c_sizes c)).
  Fixpoint vis_of (v : nat) (growth : list N) (t : nat) : nat :=
    match t, growth with
    | O, _ => v
    | S t', g :: r => vis_of (v + N.to_nat g) r t'
    | S _, [] => v
    end.
  Definition txid_of (c : case) : bytes :=
    match c_tx c with
    | Some (h, p) => sha256d toy (tx_ser (N.to_nat h) (N.to_nat p))
    | None => repeat 255%N 32
    end.
  Definition run (c : case) : result :=
    honest_assemble toy (chain_of c) (vis_of (N.to_nat (c_vis0 c)) (c_growth c)) 0 (txid_of c)
                    (c_required c).
  Definition shape (r : result) : obs :=
    match r with
    | Assembled p => OAssembled (N.of_nat (length (p_merkle p))) (p_index p)
                                (N.of_nat (length (p_headers p))) (N.of_nat (length (p_cb_proof p)))
    | NotEnoughConfirmations => ONotEnough
    | Failed => OFailed
    end.
  Definition obs_eqb (a b : obs) : bool :=
    match a, b with
    | OAssembled m i h c, OAssembled m' i' h' c' => N.eqb m m' && Z.eqb i i' && N.eqb h h' && N.eqb c c'
    | ONotEnough, ONotEnough | OFailed, OFailed | OPanic, OPanic => true
    | _, _ => false
    end.

  (* confirmations the first query reports: the property's "insufficient confirmations" *)
  Definition conf0 (c : case) : option Z :=
    match c_tx c with
    | Some (h, _) => if (h <? c_vis0 c)%N then Some (Z.of_N (c_vis0 c) - Z.of_N h)%Z else None
    | None => None
    end.

  (* the property on the implementation's output: a returned proof is accepted by the
     independent verifier, and no proof is returned when the confirmations are insufficient;
     never a panic *)
  Definition spec_ok (c : case) : bool :=
    match c_obs c with
    | OAssembled _ _ _ _ =>
        (if (1 <=? c_required c)%Z then c_go_verify c else true)
        && match conf0 c with
           | Some k => (c_required c <=? k)%Z
           | None => false
           end
    | OPanic => false
    | _ => true
    end.

  Definition well_formed (c : case) : bool :=
    forallb (fun s => (1 <=? s)%N && (s <=? 200)%N) (c_sizes c)
    && (N.of_nat (length (c_sizes c)) <? 100000)%N
    && (c_vis0 c <=? N.of_nat (length (c_sizes c)))%N
    && (0 <=? c_required c)%Z && (c_required c <? 1000)%Z
    && match c_tx c with
       | Some (h, p) => match nth_error (c_sizes c) (N.to_nat h) with
                        | Some s => (p <? s)%N
                        | None => false
                        end
       | None => true
       end.

  Definition judge (c : case) : verdict :=
    if negb (well_formed c) then BadCase else
    decide (spec_ok c) (obs_eqb (c_obs c) (shape (run c))).
  Definition explain (c : case) : obs * bool :=
    let r := run c in
    (shape r, match r with Assembled p => verify toy (txid_of c) (c_required c) p | _ => false end).
End Concrete.
