(* C45 — executable model of pkg/generator/scheduler.go and latch.go.

   The steps are the critical sections of the Go code: Lock / Unlock / IsExecuting of a latch
   (under the latch mutex), compute / stop / resume (under workMutex), RegisterProtocol
   (under protocolsMutex).  checkProtocols is NOT one critical section with respect to the
   latches: it holds protocolsMutex, asks the registered protocols one after the other
   (breaking at the first that is executing) and then stops or resumes.  The model therefore
   has the check both as micro steps (CheckBegin, then one CheckStep per protocol asked, the
   last one applying the decision) between which Lock / Unlock / Compute may happen, and as the
   atomic Check (= CheckBegin followed by all its CheckSteps with nothing in between).

   A worker context is (worker, context id); [live] are the contexts whose cancel functions
   the scheduler holds in s.stops, [dead] the cancelled ones.  A worker function observes the
   cancellation of its context only when it next polls ctx.Done(). *)
From Coq Require Import Arith NArith List Bool Lia.
From KV Require Import Common.Verdict.
Import ListNotations.

Record sched := {
  working : bool;
  live    : list (N * N);
  dead    : list (N * N);
  workers : list N;            (* registered worker functions, in registration order *)
  next    : N;                 (* next fresh context id *)
  latches : list N;            (* the counter of every latch that exists, by index *)
  regs    : list nat;          (* registered protocols (latch indices), in registration order *)
  chk     : option (list nat)  (* a checkProtocols in progress: the protocols still to be asked *)
}.

Inductive op :=
| Lock (p : nat) | Unlock (p : nat)
| Register (p : nat)
| Compute (w : N)
| Iter (w : N)          (* the worker function of w returns and is called again if its context is live *)
| Check                 (* a whole checkProtocols with nothing interleaved *)
| CheckBegin            (* checkProtocols takes protocolsMutex and reaches its first protocol *)
| CheckStep.            (* it asks that protocol; stops / moves on / resumes *)

Inductive res :=
| ROk
| RPanic      (* Unlock without Lock *)
| RMore       (* the check is still in progress *)
| RDone       (* the check returned *)
| RBlocked.   (* the call would block on protocolsMutex (never issued by the driver) *)

Definition latch (s : sched) (p : nat) : N := nth p (latches s) 0%N.
Definition executing (s : sched) (p : nat) : bool := (0 <? latch s p)%N.

Fixpoint upd (l : list N) (p : nat) (f : N -> N) : list N :=
  match l, p with
  | [], _ => []
  | x :: t, O => f x :: t
  | x :: t, S p' => x :: upd t p' f
  end.

Definition set_latches (s : sched) (l : list N) : sched :=
  {| working := working s; live := live s; dead := dead s; workers := workers s; next := next s;
     latches := l; regs := regs s; chk := chk s |}.
Definition set_chk (s : sched) (c : option (list nat)) : sched :=
  {| working := working s; live := live s; dead := dead s; workers := workers s; next := next s;
     latches := latches s; regs := regs s; chk := c |}.

(* startWorker: a fresh context for w, its cancel function appended to s.stops *)
Definition start (s : sched) (w : N) : sched :=
  {| working := working s; live := live s ++ [(w, next s)]; dead := dead s; workers := workers s;
     next := N.succ (next s); latches := latches s; regs := regs s; chk := chk s |}.

Definition stop (s : sched) : sched :=
  if working s then
    {| working := false; live := []; dead := dead s ++ live s; workers := workers s; next := next s;
       latches := latches s; regs := regs s; chk := chk s |}
  else s.

Definition resume (s : sched) : sched :=
  if working s then s else
  fold_left start (workers s)
    {| working := true; live := live s; dead := dead s; workers := workers s; next := next s;
       latches := latches s; regs := regs s; chk := chk s |}.

Definition compute (s : sched) (w : N) : sched :=
  let s1 := {| working := working s; live := live s; dead := dead s; workers := workers s ++ [w];
               next := next s; latches := latches s; regs := regs s; chk := chk s |} in
  if working s then start s1 w else s1.

(* one protocol asked *)
Definition check_step (s : sched) : sched * res :=
  match chk s with
  | None => (s, RBlocked)
  | Some [] => (set_chk (resume s) None, RDone)
  | Some (p :: rest) =>
      if executing s p then (set_chk (stop s) None, RDone)
      else match rest with
           | [] => (set_chk (resume s) None, RDone)
           | _ => (set_chk s (Some rest), RMore)
           end
  end.

Definition step (s : sched) (o : op) : sched * res :=
  match o with
  | Lock p => (set_latches s (upd (latches s) p N.succ), ROk)
  | Unlock p =>
      if (latch s p =? 0)%N then (s, RPanic)
      else (set_latches s (upd (latches s) p N.pred), ROk)
  | Register p =>
      match chk s with
      | Some _ => (s, RBlocked)
      | None => ({| working := working s; live := live s; dead := dead s; workers := workers s;
                    next := next s; latches := latches s; regs := regs s ++ [p]; chk := None |}, ROk)
      end
  | Compute w => (compute s w, ROk)
  | Iter w => (s, ROk)
  | Check =>
      match chk s with
      | Some _ => (s, RBlocked)
      | None =>
          match regs s with
          | [] => (s, RDone)
          | _ => ((if existsb (executing s) (regs s) then stop s else resume s), RDone)
          end
      end
  | CheckBegin =>
      match chk s with
      | Some _ => (s, RBlocked)
      | None =>
          match regs s with
          | [] => (s, RDone)
          | r => (set_chk s (Some r), RMore)
          end
      end
  | CheckStep => check_step s
  end.

Definition run (s : sched) (ops : list op) : sched :=
  fold_left (fun s o => fst (step s o)) ops s.

(* Locks minus Unlocks of latch p along a history, starting from d (an Unlock at 0 panics and
   leaves 0): what "nested executions are counted" means *)
Fixpoint depth (p : nat) (d : N) (ops : list op) : N :=
  match ops with
  | [] => d
  | Lock q :: t => depth p (if Nat.eqb q p then N.succ d else d) t
  | Unlock q :: t => depth p (if Nat.eqb q p then N.pred d else d) t
  | _ :: t => depth p d t
  end.

(* P holds in every state of the history *)
Fixpoint always (P : sched -> Prop) (s : sched) (ops : list op) : Prop :=
  P s /\ match ops with [] => True | o :: t => always P (fst (step s o)) t end.

(* &Scheduler{} and nl fresh latches *)
Definition init (nl : nat) : sched :=
  {| working := true; live := []; dead := []; workers := []; next := 0%N;
     latches := repeat 0%N nl; regs := []; chk := None |}.

(* number of live contexts of each worker, in registration order *)
Definition live_of (s : sched) (w : N) : N :=
  N.of_nat (length (filter (fun c => N.eqb (fst c) w) (live s))).
Definition live_counts (s : sched) : list N := map (live_of s) (workers s).

(* ------------------------------------------------------------------ *)
(* cases                                                               *)
(* ------------------------------------------------------------------ *)
Record obs := {
  o_res : res;
  o_working : bool;        (* scheduler state (hook VerifState) *)
  o_stops : N;             (* number of cancel functions it holds *)
  o_nworkers : N;          (* number of registered worker functions *)
  o_live : list N;         (* per worker: invocations currently holding a live context *)
  o_exec : list bool       (* IsExecuting() of every latch *)
}.
Record case := { c_nl : N; c_obs0 : obs; c_steps : list (op * obs) }.

Definition model_obs (s : sched) (r : res) : obs :=
  {| o_res := r; o_working := working s; o_stops := N.of_nat (length (live s));
     o_nworkers := N.of_nat (length (workers s)); o_live := live_counts s;
     o_exec := map (fun c => (0 <? c)%N) (latches s) |}.

Definition res_eqb (a b : res) : bool :=
  match a, b with
  | ROk, ROk | RPanic, RPanic | RMore, RMore | RDone, RDone | RBlocked, RBlocked => true
  | _, _ => false
  end.
Fixpoint listN_eqb (a b : list N) : bool :=
  match a, b with
  | [], [] => true
  | x :: a', y :: b' => N.eqb x y && listN_eqb a' b'
  | _, _ => false
  end.
Fixpoint listb_eqb (a b : list bool) : bool :=
  match a, b with
  | [], [] => true
  | x :: a', y :: b' => Bool.eqb x y && listb_eqb a' b'
  | _, _ => false
  end.
Definition obs_eqb (a b : obs) : bool :=
  res_eqb (o_res a) (o_res b) && Bool.eqb (o_working a) (o_working b) &&
  N.eqb (o_stops a) (o_stops b) && N.eqb (o_nworkers a) (o_nworkers b) &&
  listN_eqb (o_live a) (o_live b) && listb_eqb (o_exec a) (o_exec b).

Fixpoint agree_steps (s : sched) (steps : list (op * obs)) : bool :=
  match steps with
  | [] => true
  | (o, ob) :: t => obs_eqb ob (model_obs (fst (step s o)) (snd (step s o))) && agree_steps (fst (step s o)) t
  end.

(* ---- the property in executable form, on the IMPLEMENTATION's observations ---- *)

(* at every observation: working <-> exactly one live context per worker; stopped <-> none *)
Definition consistent (ob : obs) : bool :=
  Nat.eqb (length (o_live ob)) (N.to_nat (o_nworkers ob)) &&
  if o_working ob
  then N.eqb (o_stops ob) (o_nworkers ob) && forallb (N.eqb 1) (o_live ob)
  else N.eqb (o_stops ob) 0 && forallb (N.eqb 0) (o_live ob).

(* what the property tracks along a history:
   cnt  : Lock minus Unlock per latch (what "nested executions are counted" means)
   rg   : registered protocols
   win  : while a check is in progress, per latch "executing at every observation since the
          check began" and "no registered latch executing at any observation since it began" *)
Record track := { cnt : list N; rg : list nat; win : option (list bool * bool) }.

Definition any_reg_exec (rg : list nat) (ex : list bool) : bool :=
  existsb (fun p => nth p ex false) rg.
Definition window_add (rg : list nat) (w : list bool * bool) (ex : list bool) : list bool * bool :=
  (map (fun hb => fst hb && snd hb) (combine (fst w) ex), snd w && negb (any_reg_exec rg ex)).
Definition window_new (rg : list nat) (ex : list bool) : list bool * bool :=
  (ex, negb (any_reg_exec rg ex)).

(* the verdict of a check that returned, given its window [w]: some registered protocol was
   executing all along => stopped; none was executing at any point => working *)
Definition check_verdict (rg : list nat) (w : list bool * bool) (ob : obs) : bool :=
  match rg with
  | [] => true
  | _ => if any_reg_exec rg (fst w) then negb (o_working ob)
         else if snd w then o_working ob else true
  end.

Definition track_step (t : track) (o : op) (ob : obs) : track * bool :=
  let cnt' := match o, o_res ob with
              | Lock p, _ => upd (cnt t) p N.succ
              | Unlock p, ROk => upd (cnt t) p N.pred
              | _, _ => cnt t
              end in
  let base := consistent ob && listb_eqb (o_exec ob) (map (fun c => (0 <? c)%N) cnt')
              && negb (res_eqb (o_res ob) RBlocked) in
  match o with
  | Register p => ({| cnt := cnt'; rg := rg t ++ [p]; win := win t |}, base)
  | Check =>
      ({| cnt := cnt'; rg := rg t; win := win t |},
       base && check_verdict (rg t) (window_new (rg t) (o_exec ob)) ob)
  | CheckBegin =>
      match o_res ob with
      | RMore => ({| cnt := cnt'; rg := rg t; win := Some (window_new (rg t) (o_exec ob)) |}, base)
      | _ => ({| cnt := cnt'; rg := rg t; win := None |}, base)
      end
  | CheckStep =>
      match win t with
      | None => ({| cnt := cnt'; rg := rg t; win := None |}, base)
      | Some w =>
          let w' := window_add (rg t) w (o_exec ob) in
          match o_res ob with
          | RDone => ({| cnt := cnt'; rg := rg t; win := None |}, base && check_verdict (rg t) w' ob)
          | _ => ({| cnt := cnt'; rg := rg t; win := Some w' |}, base)
          end
      end
  | _ =>
      ({| cnt := cnt'; rg := rg t;
          win := option_map (fun w => window_add (rg t) w (o_exec ob)) (win t) |}, base)
  end.

Fixpoint steps_ok (t : track) (steps : list (op * obs)) : bool :=
  match steps with
  | [] => true
  | (o, ob) :: r => snd (track_step t o ob) && steps_ok (fst (track_step t o ob)) r
  end.

Definition spec_ok (c : case) : bool :=
  consistent (c_obs0 c) &&
  steps_ok {| cnt := repeat 0%N (N.to_nat (c_nl c)); rg := []; win := None |} (c_steps c).

Definition agree (c : case) : bool :=
  let s0 := init (N.to_nat (c_nl c)) in
  obs_eqb (c_obs0 c) (model_obs s0 ROk) && agree_steps s0 (c_steps c).

(* latch indices must exist *)
Definition wf (c : case) : bool :=
  forallb (fun so => match fst so with
                     | Lock p | Unlock p | Register p => Nat.ltb p (N.to_nat (c_nl c))
                     | _ => true
                     end) (c_steps c).

Definition judge (c : case) : verdict :=
  if negb (wf c) then BadCase else decide (spec_ok c) (agree c).

Fixpoint explain_steps (s : sched) (ops : list op) : list obs :=
  match ops with
  | [] => []
  | o :: t => model_obs (fst (step s o)) (snd (step s o)) :: explain_steps (fst (step s o)) t
  end.
Definition explain (c : case) : list obs :=
  let s0 := init (N.to_nat (c_nl c)) in
  model_obs s0 ROk :: explain_steps s0 (map fst (c_steps c)).
