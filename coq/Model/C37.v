(* C37 — executable model of the chain-event deduplicators
     pkg/tbtc/deduplicator.go          notifyDKGStarted / notifyDKGResultSubmitted / notifyWalletClosed
     pkg/beacon/event/deduplicator.go  NotifyDKGStarted
   as repaired by the two fix: commits (decision = the boolean returned by TimeCache.Add; the
   DKG-result cache key joins its parts with ':'), over keep-common's cache.TimeCache.

   A notify call is   cache.Sweep() ; return cache.Add(key)   — two critical sections of the
   TimeCache mutex.  The model's atomic steps are exactly these two ([OSweep], [OAdd]); the
   theorems quantify over ALL sequences of such steps (hence over all interleavings of any
   number of concurrent notify calls).  Time is explicit: every step carries the value of
   time.Now() it observes.

   The machine is generic in the event type E, the cache-key type K, the cache index I, the
   key function and the per-cache period, so that the same development covers a single
   TimeCache (E = K = string) and the four caches of the two deduplicators (E = ev). *)
From Coq Require Import ZArith NArith List Bool String Ascii.
From Coq Require DecimalString HexadecimalString DecimalZ HexadecimalZ.
From KV Require Import Common.Verdict.
Import ListNotations.
Open Scope Z_scope.

Section Machine.
  Variables E K I : Type.
  Variable eqbE : E -> E -> bool.
  Variable eqbK : K -> K -> bool.
  Variable eqbI : I -> I -> bool.
  Variable key : E -> K.        (* the cache key of an event *)
  Variable cid : E -> I.        (* which cache the event goes to *)
  Variable spanI : I -> Z.      (* caching period of each cache *)

  (* TimeCache: [indexer] list + map, oldest entry first (Go pushes to the front and sweeps
     from the back; only the relative order matters) *)
  Definition cache := list (K * Z).
  Definition has (c : cache) (k : K) : bool := existsb (fun e => eqbK k (fst e)) c.
  (* TimeCache.sweep: drop the oldest entries while time.Since(itemTime) > timespan *)
  Fixpoint sweep (span now : Z) (c : cache) : cache :=
    match c with
    | (k, t) :: c' => if span <? now - t then sweep span now c' else c
    | [] => []
    end.
  (* TimeCache.Add: present => false, no change; absent => sweep, insert, true *)
  Definition add (span now : Z) (c : cache) (k : K) : cache * bool :=
    if has c k then (c, false) else (sweep span now c ++ [(k, now)], true).

  Definition state := I -> cache.
  Definition init : state := fun _ => [].
  Definition set (s : state) (i : I) (c : cache) : state :=
    fun j => if eqbI j i then c else s j.

  Inductive op := OSweep (i : I) (t : Z) | OAdd (e : E) (t : Z).
  Definition op_time (o : op) : Z := match o with OSweep _ t => t | OAdd _ t => t end.

  Definition step (s : state) (o : op) : state * list (E * Z * bool) :=
    match o with
    | OSweep i t => (set s i (sweep (spanI i) t (s i)), [])
    | OAdd e t =>
        let cb := add (spanI (cid e)) t (s (cid e)) (key e) in
        (set s (cid e) (fst cb), [(e, t, snd cb)])
    end.
  (* the trace: one entry (event, time of the Add, returned boolean) per OAdd *)
  Fixpoint run (s : state) (ops : list op) : list (E * Z * bool) :=
    match ops with
    | [] => []
    | o :: r => let st := step s o in snd st ++ run (fst st) r
    end.

  (* ---- the property in executable form, on a trace ----
     [last] maps an event to the time of its latest handled (true) delivery.  A delivery of an
     event never handled before must be handled; a delivery handled again must come more than
     the caching period after the previous handled one; an ignored delivery must have an
     earlier handled one. *)
  Fixpoint lookup (last : list (E * Z)) (e : E) : option Z :=
    match last with
    | [] => None
    | (e', t) :: r => if eqbE e e' then Some t else lookup r e
    end.
  Fixpoint trace_ok (last : list (E * Z)) (tr : list (E * Z * bool)) : bool :=
    match tr with
    | [] => true
    | (e, t, b) :: r =>
        match lookup last e with
        | None => b && trace_ok ((e, t) :: last) r
        | Some t0 => if b then (spanI (cid e) <? t - t0) && trace_ok ((e, t) :: last) r
                     else trace_ok last r
        end
    end.

  Definition count_true (e : E) (tr : list (E * Z * bool)) : nat :=
    List.length (filter (fun x => eqbE e (fst (fst x)) && snd x) tr).
  Definition delivered (e : E) (ops : list op) : bool :=
    existsb (fun o => match o with OAdd e' _ => eqbE e e' | _ => false end) ops.
  (* time of the latest handled delivery of [e] in a trace *)
  Definition last_true (tr : list (E * Z * bool)) (e : E) : option Z :=
    lookup (rev (map fst (filter (fun x => snd x) tr))) e.

  Fixpoint mono (now : Z) (ops : list op) : bool :=
    match ops with
    | [] => true
    | o :: r => (now <=? op_time o) && mono (op_time o) r
    end.
End Machine.

Arguments OSweep {E I}.
Arguments OAdd {E I}.

(* ---------- one TimeCache with string keys ---------- *)
Definition cop := op string unit.
Definition cache_run (span : Z) : list cop -> list (string * Z * bool) :=
  run string string unit String.eqb (fun _ _ => true) (fun k => k) (fun _ => tt) (fun _ => span)
      (init string unit).

(* ---------- the events and their cache keys ---------- *)
Inductive ev :=
| DkgStarted (seed : Z)                                  (* tbtc   dkgSeedCache *)
| DkgResult (seed : Z) (hash : list N) (block : N)       (* tbtc   dkgResultHashCache *)
| WalletClosed (id : list N)                             (* tbtc   walletClosedCache *)
| BeaconDkgStarted (seed : Z).                           (* beacon dkgSeedCache *)

(* big.Int.Text(16): lower-case hexadecimal, no leading zeros, "-" for negative values *)
Definition hexZ (z : Z) : string := HexadecimalString.NilZero.string_of_int (Z.to_hex_int z).
(* strconv.Itoa *)
Definition decZ (z : Z) : string := DecimalString.NilZero.string_of_int (Z.to_int z).
Definition hex_digit (n : N) : ascii :=
  match n with
  | 0 => "0" | 1 => "1" | 2 => "2" | 3 => "3" | 4 => "4" | 5 => "5" | 6 => "6" | 7 => "7"
  | 8 => "8" | 9 => "9" | 10 => "a" | 11 => "b" | 12 => "c" | 13 => "d" | 14 => "e" | _ => "f"
  end%N%char.
(* hex.EncodeToString *)
Fixpoint hex_bytes (l : list N) : string :=
  match l with
  | [] => EmptyString
  | b :: t => String (hex_digit (b / 16)) (String (hex_digit (b mod 16)) (hex_bytes t))
  end.
(* int(uint64) *)
Definition int64_of_u64 (b : N) : Z :=
  if (b <? 9223372036854775808)%N then Z.of_N b else Z.of_N b - 18446744073709551616.

Definition sep : string := String ":" EmptyString.
Definition key_dkg_result (seed : Z) (hash : list N) (block : N) : string :=
  (hexZ seed ++ sep ++ hex_bytes hash ++ sep ++ decZ (int64_of_u64 block))%string.
(* the key before the fix: no separators *)
Definition old_key_dkg_result (seed : Z) (hash : list N) (block : N) : string :=
  (hexZ seed ++ hex_bytes hash ++ decZ (int64_of_u64 block))%string.

Definition key_of (e : ev) : string :=
  match e with
  | DkgStarted s | BeaconDkgStarted s => hexZ s
  | DkgResult s h b => key_dkg_result s h b
  | WalletClosed id => hex_bytes id
  end.
Definition cache_of (e : ev) : N :=
  match e with DkgStarted _ => 0 | DkgResult _ _ _ => 1 | WalletClosed _ => 2 | BeaconDkgStarted _ => 3 end%N.

Definition is_byte (b : N) : bool := (b <? 256)%N.
Definition bytes32 (l : list N) : bool := Nat.eqb (List.length l) 32 && forallb is_byte l.
Definition wf_ev (e : ev) : bool :=
  match e with
  | DkgStarted _ | BeaconDkgStarted _ => true
  | DkgResult _ h b => bytes32 h && (b <? 18446744073709551616)%N
  | WalletClosed id => bytes32 id
  end.

Fixpoint listN_eqb (a b : list N) : bool :=
  match a, b with
  | [], [] => true
  | x :: a', y :: b' => N.eqb x y && listN_eqb a' b'
  | _, _ => false
  end.
Definition ev_eqb (a b : ev) : bool :=
  match a, b with
  | DkgStarted s, DkgStarted s' | BeaconDkgStarted s, BeaconDkgStarted s' => Z.eqb s s'
  | DkgResult s h b, DkgResult s' h' b' => Z.eqb s s' && listN_eqb h h' && N.eqb b b'
  | WalletClosed i, WalletClosed i' => listN_eqb i i'
  | _, _ => false
  end.

(* ---------- single-position edits of the fields (near-collisions) ----------
   Used by the theorems "the cache key changes whenever a single digit of a single field
   changes" (Props/C37.v); the driver delivers such pairs of events on every run.
   [get_nibble l i] / [set_nibble l i v]: hex digit i (0 = first) of a byte string as rendered by
   hex.EncodeToString; [Z_nibble z i] / [Z_set_nibble z i v]: hex digit i (0 = last) of |z|;
   [N_digit b i] / [N_set_digit b i v]: decimal digit i (0 = last) of a block number. *)
Fixpoint get_nibble (l : list N) (i : nat) : option N :=
  match l, i with
  | [], _ => None
  | b :: _, O => Some (b / 16)%N
  | b :: _, S O => Some (b mod 16)%N
  | _ :: t, S (S j) => get_nibble t j
  end.
Fixpoint set_nibble (l : list N) (i : nat) (v : N) : list N :=
  match l, i with
  | [], _ => []
  | b :: t, O => (16 * v + b mod 16)%N :: t
  | b :: t, S O => (16 * (b / 16) + v)%N :: t
  | b :: t, S (S j) => b :: set_nibble t j v
  end.
Definition Z_nibble (z : Z) (i : N) : Z := (Z.abs z / 16 ^ Z.of_N i) mod 16.
Definition Z_set_nibble (z : Z) (i : N) (v : Z) : Z :=
  let m := Z.abs z + (v - Z_nibble z i) * 16 ^ Z.of_N i in if z <? 0 then - m else m.
Definition N_digit (b : N) (i : N) : N := ((b / 10 ^ i) mod 10)%N.
Definition N_set_digit (b : N) (i : N) (v : N) : N := (b - N_digit b i * 10 ^ i + v * 10 ^ i)%N.

(* compact rendering of byte strings in case terms: [H "01ff"] = [1; 255]; a malformed string
   yields a list that fails [bytes32] *)
Definition hex_val (c : ascii) : option N :=
  match c with
  | "0" => Some 0 | "1" => Some 1 | "2" => Some 2 | "3" => Some 3 | "4" => Some 4 | "5" => Some 5
  | "6" => Some 6 | "7" => Some 7 | "8" => Some 8 | "9" => Some 9 | "a" => Some 10 | "b" => Some 11
  | "c" => Some 12 | "d" => Some 13 | "e" => Some 14 | "f" => Some 15 | _ => None
  end%char%N.
Fixpoint H (s : string) : list N :=
  match s with
  | String a (String b r) =>
      match hex_val a, hex_val b with
      | Some x, Some y => (16 * x + y)%N :: H r
      | _, _ => [256%N]
      end
  | String _ EmptyString => [256%N]
  | EmptyString => []
  end.

(* ---------- the machine of the two deduplicators (four caches) ---------- *)
Definition dop := op ev N.
Definition span_of (spans : list Z) (i : N) : Z := nth (N.to_nat i) spans 0.
Definition drun (spans : list Z) : list dop -> list (ev * Z * bool) :=
  run ev string N String.eqb N.eqb key_of cache_of (span_of spans)
      (init string N).
Definition dtrace_ok (spans : list Z) : list (ev * Z) -> list (ev * Z * bool) -> bool :=
  trace_ok ev N ev_eqb cache_of (span_of spans).

(* ---------- the code before the race fix: Has and Add as two separate steps ---------- *)
(* thread [th] runs  if !Has(k) { Add(k); return true }; return false  *)
Inductive old_op := OHas (th : nat) (k : string) | OAddRet (th : nat) (k : string).
Fixpoint old_run (c : list string) (seen : list (nat * bool)) (ops : list old_op) : list (nat * bool) :=
  match ops with
  | [] => []
  | OHas th k :: r => old_run c ((th, existsb (String.eqb k) c) :: seen) r
  | OAddRet th k :: r =>
      match find (fun x => Nat.eqb th (fst x)) seen with
      | Some (_, false) => (th, true) :: old_run (if existsb (String.eqb k) c then c else k :: c) seen r
      | _ => (th, false) :: old_run c seen r
      end
  end.

(* ---------- cases of the correspondence check ---------- *)
(* one delivery: the event, the logical times of its Sweep and Add steps, the cache key the
   implementation computed (DKG results only), the boolean the implementation returned *)
Record delivery := { d_ev : ev; d_ts : Z; d_ta : Z; d_key : option string; d_res : bool }.
(* [c_hist]: batches in real-time order; the deliveries of one batch were all invoked before any
   of them returned (forced at the yield point), so every order inside a batch respects real time *)
(* [c_panic]: some notify call panicked (never expected) *)
Record case := { c_spans : list Z; c_panic : bool; c_hist : list (list delivery) }.

(* linearisation certificate: inside a batch the handled deliveries go first *)
Definition lin (hist : list (list delivery)) : list delivery :=
  flat_map (fun b => filter d_res b ++ filter (fun d => negb (d_res d)) b) hist.
Definition ops_of (l : list delivery) : list dop :=
  flat_map (fun d => [OSweep (cache_of (d_ev d)) (d_ts d); OAdd (d_ev d) (d_ta d)]) l.
Definition observed (l : list delivery) : list (ev * Z * bool) :=
  map (fun d => (d_ev d, d_ta d, d_res d)) l.

Definition key_agrees (d : delivery) : bool :=
  match d_key d with
  | None => true
  | Some k => String.eqb k (key_of (d_ev d))
  end.
Fixpoint res_eqb (a b : list (ev * Z * bool)) : bool :=
  match a, b with
  | [], [] => true
  | (_, _, x) :: a', (_, _, y) :: b' => Bool.eqb x y && res_eqb a' b'
  | _, _ => false
  end.

Definition spec_ok (c : case) : bool :=
  negb (c_panic c) && dtrace_ok (c_spans c) [] (observed (lin (c_hist c))).

Definition well_formed (c : case) : bool :=
  Nat.eqb (List.length (c_spans c)) 4
  && forallb (fun d => wf_ev (d_ev d)) (lin (c_hist c))
  && mono ev N (match ops_of (lin (c_hist c)) with o :: _ => op_time ev N o | [] => 0 end)
          (ops_of (lin (c_hist c))).

Definition judge (c : case) : verdict :=
  if negb (well_formed c) then BadCase else
  let l := lin (c_hist c) in
  decide (spec_ok c)
         (res_eqb (observed l) (drun (c_spans c) (ops_of l)) && forallb key_agrees l).

(* what --replay prints: the model's booleans and keys in certificate order *)
Definition explain (c : case) : list (bool * string) :=
  let l := lin (c_hist c) in
  combine (map snd (drun (c_spans c) (ops_of l))) (map (fun d => key_of (d_ev d)) l).
