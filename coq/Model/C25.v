(* C25 — executable model of pkg/tbtc/wallet.go walletDispatcher.
   Wallets are N identifiers.  The dispatcher's critical sections are the atomic steps of the
   model: [Dispatch] is the body of dispatch() under actionsMutex (lookup, insert, spawn the
   goroutine), [Release] is the deferred delete under the same mutex; between them the spawned
   goroutine [Begin]s and [EndExec]s action.execute() outside the mutex.  The state keeps, per
   wallet, the map entry and COUNTERS of goroutines in each phase, so that "two actions execute
   at the same time" is a state the type can express (running = 2) and its impossibility is a
   theorem (Props/C25.v), not a consequence of the representation. *)
From Coq Require Import ZArith NArith List Bool Arith.
From KV Require Import Common.Verdict.
Import ListNotations.

Record wst := { entry : bool;       (* key present in walletDispatcher.actions *)
                pending : nat;      (* goroutines spawned, execute() not yet entered *)
                running : nat;      (* goroutines inside action.execute() *)
                finishing : nat     (* execute() returned, deferred delete not yet done *) }.
Definition state := N -> wst.
Definition free : wst := {| entry := false; pending := 0; running := 0; finishing := 0 |}.
Definition init : state := fun _ => free.
Definition upd (s : state) (w : N) (x : wst) : state := fun v => if N.eqb v w then x else s v.

Inductive fop := Dispatch (w : N) | Begin (w : N) | EndExec (w : N) | Release (w : N).
Definition op_wallet (o : fop) : N :=
  match o with Dispatch w | Begin w | EndExec w | Release w => w end.

(* one atomic step; the boolean is: for Dispatch "accepted" (nil error; false = errWalletBusy),
   for the goroutine steps "enabled" (a goroutine in the right phase exists) *)
Definition step (s : state) (o : fop) : state * bool :=
  match o with
  | Dispatch w =>
      let x := s w in
      if entry x then (s, false)
      else (upd s w {| entry := true; pending := S (pending x); running := running x;
                       finishing := finishing x |}, true)
  | Begin w =>
      let x := s w in
      match pending x with
      | S p => (upd s w {| entry := entry x; pending := p; running := S (running x);
                           finishing := finishing x |}, true)
      | O => (s, false)
      end
  | EndExec w =>
      let x := s w in
      match running x with
      | S r => (upd s w {| entry := entry x; pending := pending x; running := r;
                           finishing := S (finishing x) |}, true)
      | O => (s, false)
      end
  | Release w =>
      let x := s w in
      match finishing x with
      | S f => (upd s w {| entry := false; pending := pending x; running := running x;
                           finishing := f |}, true)
      | O => (s, false)
      end
  end.

Fixpoint run (s : state) (ops : list fop) : state :=
  match ops with
  | [] => s
  | o :: t => run (fst (step s o)) t
  end.
Fixpoint results (s : state) (ops : list fop) : list bool :=
  match ops with
  | [] => []
  | o :: t => snd (step s o) :: results (fst (step s o)) t
  end.

(* ---------- observable operations of a history ---------- *)
(* ADisp w : one call of dispatch() for wallet w (result: accepted?)
   AFin w  : the running action of wallet w is allowed to end: execute() returns and the entry
             is released (result: the wallet was observed free again) *)
Inductive aop := ADisp (w : N) | AFin (w : N).
Definition astep (s : state) (a : aop) : state * bool :=
  match a with
  | ADisp w => step s (Dispatch w)
  | AFin w =>
      let s1 := fst (step s (Begin w)) in     (* no-op when execute() had already begun *)
      let r2 := step s1 (EndExec w) in
      let r3 := step (fst r2) (Release w) in
      (fst r3, snd r2 && snd r3)
  end.

(* an operation of a recorded history: logical-clock stamps of invocation and response *)
Record ev := { h_op : aop; h_inv : N; h_ret : N; h_res : bool }.

(* the history is given in the order of a linearisation certificate *)
Fixpoint replay (s : state) (h : list ev) : state * bool :=
  match h with
  | [] => (s, true)
  | e :: t =>
      let r := astep s (h_op e) in
      let r' := replay (fst r) t in
      (fst r', Bool.eqb (snd r) (h_res e) && snd r')
  end.
(* real-time order: an operation never precedes one that had returned before it was invoked *)
Fixpoint prec_ok (h : list ev) : bool :=
  match h with
  | [] => true
  | a :: t => forallb (fun b => negb (N.ltb (h_ret b) (h_inv a))) t && prec_ok t
  end.
Definition stamps_ok (h : list ev) : bool := forallb (fun e => N.leb (h_inv e) (h_ret e)) h.

Record case := {
  c_wallets : N;                   (* wallets are 1..c_wallets *)
  c_hist : list ev;                (* certificate order *)
  c_overlap : list (N * N);        (* per wallet: max number of simultaneous execute() observed *)
  c_stuck : bool;                  (* an operation predicted enabled never completed *)
  c_busy : list N                  (* wallets in walletDispatcher.actions at the end, ascending *)
}.

Definition overlap_ok (l : list (N * N)) : bool := forallb (fun p => N.leb (snd p) 1) l.

(* the executable form of the property on an observed history: never two execute() of one
   wallet at once; nothing blocked; and the history is linearisable to the sequential dispatcher
   (the given order respects real time and reproduces every observed result: refused exactly
   when busy, accepted exactly when free, free again after the action ended, other wallets
   irrelevant) *)
Definition spec_ok (c : case) : bool :=
  overlap_ok (c_overlap c) && negb (c_stuck c) && stamps_ok (c_hist c) && prec_ok (c_hist c)
  && snd (replay init (c_hist c)).

Fixpoint listN_eqb (a b : list N) : bool :=
  match a, b with
  | [], [] => true
  | x :: a', y :: b' => N.eqb x y && listN_eqb a' b'
  | _, _ => false
  end.
Definition wallets_upto (n : N) : list N := map N.of_nat (seq 1 (N.to_nat n)).
Definition busy_set (n : N) (s : state) : list N := filter (fun w => entry (s w)) (wallets_upto n).

Definition in_range (n : N) (e : ev) : bool :=
  match h_op e with ADisp w | AFin w => N.leb 1 w && N.leb w n end.

Definition judge (c : case) : verdict :=
  if negb (forallb (in_range (c_wallets c)) (c_hist c)) then BadCase else
  decide (spec_ok c)
         (listN_eqb (busy_set (c_wallets c) (fst (replay init (c_hist c)))) (c_busy c)).

(* what --replay prints: the model's result for every operation in certificate order and the
   model's final busy set *)
Fixpoint model_results (s : state) (h : list ev) : list bool :=
  match h with
  | [] => []
  | e :: t => snd (astep s (h_op e)) :: model_results (fst (astep s (h_op e))) t
  end.
Definition explain (c : case) : list bool * list N :=
  (model_results init (c_hist c), busy_set (c_wallets c) (fst (replay init (c_hist c)))).
