(* C43 — executable model of pkg/maintainer/btcdiff/bitcoin_difficulty.go AS WRITTEN:
   startControlLoop / proveEpochs / verifySubmissionEligibility / proveNextEpoch /
   getBlockHeaders / waitForCurrentEpochUpdate as ONE small-step machine.

   Every step of the machine is one call the maintainer makes on its two collaborators (the
   Bitcoin chain and the relay chain).  The environment is a script: the k-th call, whatever
   it is, is answered from the k-th [world] of the script (a snapshot of everything the
   collaborators could answer at that moment: chain height, relay epoch, proof length,
   readiness, authorisations, whether a header fetch / a submission succeeds; [None] /
   [false] = the call returns an error).  The sleeps of the code (idle back-off, restart
   back-off, the 1 s poll of waitForCurrentEpochUpdate) consume no world: they only separate
   calls.  Go's uint / uint64 arithmetic wraps modulo 2^64 and is modelled as such.

   The epoch length is a parameter [EL]; [Concrete] instantiates it with the constant that
   tools/constgen regenerates from /repo (Gen/Consts_C43.v). *)
From Coq Require Import ZArith List Bool Lia.
From KV Require Import Common.Verdict Gen.Consts_C43.
Import ListNotations.
Open Scope Z_scope.

Definition two64 : Z := 18446744073709551616.
Definition w64 (z : Z) : Z := z mod two64.

Record world := W {
  w_ready : option bool;    (* Ready() *)
  w_auth : option bool;     (* IsAuthorized(own address) *)
  w_authr : option bool;    (* IsAuthorizedForRefund(own address) *)
  w_height : option Z;      (* btcChain.GetLatestBlockHeight() *)
  w_epoch : option Z;       (* CurrentEpoch() *)
  w_plen : option Z;        (* ProofLength() *)
  w_header : bool;          (* btcChain.GetBlockHeader(_) succeeds *)
  w_submit : bool           (* Retarget / RetargetWithRefund succeeds *)
}.

(* the calls, with their arguments; [own] = the address passed is chain.Signing().Address();
   a header is identified by the height it was fetched at *)
Inductive call :=
| CReady
| CAuth (refund own : bool)
| CHeight
| CEpoch
| CPLen
| CHeader (h : Z)
| CSubmit (refund : bool) (hs : list Z).

Inductive vres := VOk | VNotReady | VNotAuth | VErr.     (* verifySubmissionEligibility returns *)
Inductive nres := NProven | NIdle | NErr.                (* proveNextEpoch returns *)
Inductive ret := RVerify (v : vres) | RNext (n : nres).

(* control points: the call the maintainer is about to make, with the locals that are live *)
Inductive state :=
| SReady                                  (* (re)start: proveEpochs -> verifySubmissionEligibility *)
| SAuth
| SHeight                                 (* top of proveNextEpoch *)
| SEpoch (h : Z)
| SPLen (h e : Z)
| SFetch (h e L cur : Z) (acc : list Z)   (* getBlockHeaders loop, about to fetch [cur] *)
| SSubmit (h e L : Z) (hs : list Z)
| SWait (T : Z).                          (* waitForCurrentEpochUpdate(T) *)

Definition isnone {A} (o : option A) : bool := match o with None => true | Some _ => false end.

Fixpoint zrange (a : Z) (n : nat) : list Z :=
  match n with O => [] | S n' => a :: zrange (a + 1) n' end.

Fixpoint list_eqb (a b : list Z) : bool :=
  match a, b with
  | [], [] => true
  | x :: a', y :: b' => (x =? y) && list_eqb a' b'
  | _, _ => false
  end.

Section Model.
  Variable EL : Z.      (* bitcoinDifficultyEpochLength *)
  Variable dp : bool.   (* config.DisableProxy *)

  (* ---------------- the maintainer ---------------- *)
  Definition new_epoch (e : Z) : Z := w64 (e + 1).                 (* uint(currentEpoch) + 1 *)
  Definition new_epoch_height (e : Z) : Z := w64 (new_epoch e * EL).
  Definition first_hdr (e L : Z) : Z := w64 (new_epoch_height e - L).
  Definition last_hdr (e L : Z) : Z := w64 (new_epoch_height e + L - 1).

  (* the entry of the getBlockHeaders loop (no iteration when first > last) *)
  Definition enter_fetch (h e L : Z) : state :=
    if first_hdr e L <=? last_hdr e L then SFetch h e L (first_hdr e L) [] else SSubmit h e L [].

  Definition step (st : state) (w : world) : state * call * option ret :=
    match st with
    | SReady =>
        match w_ready w with
        | None => (SReady, CReady, Some (RVerify VErr))
        | Some false => (SReady, CReady, Some (RVerify VNotReady))
        | Some true => (SAuth, CReady, None)
        end
    | SAuth =>
        let c := CAuth (negb dp) true in
        match (if dp then w_auth w else w_authr w) with
        | None => (SReady, c, Some (RVerify VErr))
        | Some false => (SReady, c, Some (RVerify VNotAuth))
        | Some true => (SHeight, c, Some (RVerify VOk))
        end
    | SHeight =>
        match w_height w with
        | None => (SReady, CHeight, Some (RNext NErr))
        | Some h => (SEpoch h, CHeight, None)
        end
    | SEpoch h =>
        match w_epoch w with
        | None => (SReady, CEpoch, Some (RNext NErr))
        | Some e => (SPLen h e, CEpoch, None)
        end
    | SPLen h e =>
        match w_plen w with
        | None => (SReady, CPLen, Some (RNext NErr))
        | Some L =>
            if last_hdr e L <=? h then (enter_fetch h e L, CPLen, None)
            else (SHeight, CPLen, Some (RNext NIdle))
        end
    | SFetch h e L cur acc =>
        if w_header w then
          let acc' := acc ++ [cur] in
          let nx := w64 (cur + 1) in
          (if nx <=? last_hdr e L then SFetch h e L nx acc' else SSubmit h e L acc', CHeader cur, None)
        else (SReady, CHeader cur, Some (RNext NErr))
    | SSubmit h e L hs =>
        if w_submit w then (SWait (new_epoch e), CSubmit (negb dp) hs, None)
        else (SReady, CSubmit (negb dp) hs, Some (RNext NErr))
    | SWait T =>
        match w_epoch w with
        | None => (SReady, CEpoch, Some (RNext NErr))
        | Some e' => if T <=? e' then (SHeight, CEpoch, Some (RNext NProven))
                     else (SWait T, CEpoch, None)
        end
    end.

  (* the whole control loop over a script: the calls made, in order *)
  Fixpoint run (st : state) (ws : list world) : list call :=
    match ws with
    | [] => []
    | w :: t => let '(st', c, _) := step st w in c :: run st' t
    end.
  Fixpoint state_after (st : state) (ws : list world) : state :=
    match ws with
    | [] => st
    | w :: t => state_after (fst (fst (step st w))) t
    end.

  (* the k-th call paired with the world that answered it *)
  Definition timeline (st : state) (ws : list world) : list (world * call) :=
    combine ws (run st ws).

  (* ---------------- the property in executable form: a monitor over (world, call) ------- *)
  Definition ans_auth (w : world) (refund : bool) : option bool :=
    if refund then w_authr w else w_auth w.

  (* the call returned an error *)
  Definition failed (w : world) (c : call) : bool :=
    match c with
    | CReady => isnone (w_ready w)
    | CAuth refund _ => isnone (ans_auth w refund)
    | CHeight => isnone (w_height w)
    | CEpoch => isnone (w_epoch w)
    | CPLen => isnone (w_plen w)
    | CHeader _ => negb (w_header w)
    | CSubmit _ _ => negb (w_submit w)
    end.

  (* the arithmetic of the property is exact: no 64-bit wrap-around, and the last required height
     is below 2^64-1 (at 2^64-1 the code's `height <= last; height++` loop never ends) *)
  Definition in_domain (e L : Z) : bool :=
    (0 <=? e) && (0 <=? L) && (L <=? (e + 1) * EL) && ((e + 1) * EL + L <? two64) && (e + 1 <? two64).
  Definition first_req (e L : Z) : Z := (e + 1) * EL - L.
  Definition last_req (e L : Z) : Z := (e + 1) * EL + L - 1.

  Record mstate := M {
    m_ready : bool;          (* the last Ready() call answered true *)
    m_auth : bool;           (* the last authorisation call of the configured kind, for the own
                                address, answered true *)
    m_h : option Z;          (* height / epoch / proof length answered in the current round, i.e. *)
    m_e : option Z;          (* since the last failed call or submission                           *)
    m_L : option Z;
    m_pend : option Z        (* epoch the relay must reach before the next submission *)
  }.
  Definition m_init (elig : bool) : mstate := M elig elig None None None None.
  Definition m_reset (m : mstate) : mstate := M (m_ready m) (m_auth m) None None None None.

  Definition is_true (o : option bool) : bool := match o with Some true => true | _ => false end.

  Definition submit_legal (m : mstate) (refund : bool) (hs : list Z) : bool :=
    isnone (m_pend m) && m_ready m && m_auth m && Bool.eqb refund (negb dp) &&
    match m_h m, m_e m, m_L m with
    | Some h, Some e, Some L =>
        if in_domain e L
        then (Z.of_nat (length hs) =? 2 * L) && list_eqb hs (zrange (first_req e L) (length hs))
             && (last_req e L <=? h)
        else true
    | _, _, _ => false
    end.

  Definition pend_after (m : mstate) : option Z :=
    match m_e m, m_L m with
    | Some e, Some L => if in_domain e L then Some (e + 1) else None
    | _, _ => None
    end.

  Definition observe (m : mstate) (w : world) (c : call) : mstate :=
    match c with
    | CReady => M (is_true (w_ready w)) (m_auth m) (m_h m) (m_e m) (m_L m) (m_pend m)
    | CAuth refund own =>
        if Bool.eqb refund (negb dp) && own
        then M (m_ready m) (is_true (ans_auth w refund)) (m_h m) (m_e m) (m_L m) (m_pend m)
        else m
    | CHeight => M (m_ready m) (m_auth m) (w_height w) (m_e m) (m_L m) (m_pend m)
    | CEpoch =>
        M (m_ready m) (m_auth m) (m_h m) (w_epoch w) (m_L m)
          (match m_pend m, w_epoch w with
           | Some T, Some e' => if T <=? e' then None else Some T
           | p, _ => p
           end)
    | CPLen => M (m_ready m) (m_auth m) (m_h m) (m_e m) (w_plen w) (m_pend m)
    | CHeader _ => m
    | CSubmit _ _ => m
    end.

  Definition mon_step (m : mstate) (x : world * call) : option mstate :=
    let '(w, c) := x in
    match c with
    | CSubmit refund hs =>
        if submit_legal m refund hs then
          Some (if w_submit w
                then M (m_ready m) (m_auth m) None None None (pend_after m)
                else m_reset m)
        else None
    | _ => let m' := observe m w c in
           Some (if failed w c then m_reset m' else m')
    end.

  Fixpoint mon_run (m : mstate) (obs : list (world * call)) : option mstate :=
    match obs with
    | [] => Some m
    | x :: t => match mon_step m x with Some m' => mon_run m' t | None => None end
    end.

  Definition monitor (m : mstate) (obs : list (world * call)) : bool :=
    negb (isnone (mon_run m obs)).

  (* ---------------- vocabulary of the theorems (Props/C43.v) ---------------------------- *)
  (* a round ends with a failed call or a submission *)
  Definition is_submit (c : call) : bool := match c with CSubmit _ _ => true | _ => false end.
  Definition boundary (x : world * call) : bool := failed (fst x) (snd x) || is_submit (snd x).
  Fixpoint round_acc (acc l : list (world * call)) : list (world * call) :=
    match l with
    | [] => acc
    | x :: t => if boundary x then round_acc [] t else round_acc (acc ++ [x]) t
    end.
  (* the calls made since the last failed call or submission *)
  Definition current_round (l : list (world * call)) : list (world * call) := round_acc [] l.

  (* the answer to the last call of a kind ([sel] recognises the kind and extracts the answer) *)
  Definition latest {A} (sel : world * call -> option A) (l : list (world * call)) : option A :=
    fold_left (fun a x => match sel x with Some v => Some v | None => a end) l None.
  Definition sel_height (x : world * call) : option (option Z) :=
    match snd x with CHeight => Some (w_height (fst x)) | _ => None end.
  Definition sel_epoch (x : world * call) : option (option Z) :=
    match snd x with CEpoch => Some (w_epoch (fst x)) | _ => None end.
  Definition sel_plen (x : world * call) : option (option Z) :=
    match snd x with CPLen => Some (w_plen (fst x)) | _ => None end.
  Definition sel_ready (x : world * call) : option (option bool) :=
    match snd x with CReady => Some (w_ready (fst x)) | _ => None end.
  (* authorisation calls of the kind the configuration requires, for the maintainer's address *)
  Definition sel_auth (x : world * call) : option (option bool) :=
    match snd x with
    | CAuth refund own => if Bool.eqb refund (negb dp) && own then Some (ans_auth (fst x) refund) else None
    | _ => None
    end.
  (* a CurrentEpoch call answered with an epoch >= T *)
  Definition epoch_reached (T : Z) (x : world * call) : Prop :=
    snd x = CEpoch /\ exists e', w_epoch (fst x) = Some e' /\ T <= e'.
  Definition flat {A} (o : option (option A)) : option A := match o with Some v => v | None => None end.
  Definition obs_height l := flat (latest sel_height l).
  Definition obs_epoch l := flat (latest sel_epoch l).
  Definition obs_plen l := flat (latest sel_plen l).
  Definition obs_ready l := is_true (flat (latest sel_ready l)).
  Definition obs_auth l := is_true (flat (latest sel_auth l)).

  (* ---------------- single-function runs (what the driver also exercises) -------------- *)
  Inductive fres := FNone | FOk | FIdle | FProven | FNotReady | FNotAuth | FErr.
  Inductive mode := MLoop | MEpochs | MVerify | MNext.

  (* does this return end the function under test, and with which result *)
  Definition stop (md : mode) (r : ret) : option fres :=
    match md, r with
    | MLoop, _ => None
    | MVerify, RVerify VOk => Some FOk
    | MVerify, RVerify VNotReady | MEpochs, RVerify VNotReady => Some FNotReady
    | MVerify, RVerify VNotAuth | MEpochs, RVerify VNotAuth => Some FNotAuth
    | MVerify, RVerify VErr | MEpochs, RVerify VErr => Some FErr
    | MVerify, RNext _ => Some FErr          (* not reachable from SReady before a RVerify *)
    | MEpochs, RNext NErr => Some FErr
    | MEpochs, _ => None
    | MNext, RNext NProven => Some FProven
    | MNext, RNext NIdle => Some FIdle
    | MNext, RNext NErr => Some FErr
    | MNext, RVerify _ => Some FErr          (* not reachable from SHeight before a RNext *)
    end.
  (* result when the (effective) script is used up before the function returned: only the
     control loop gets there, see [script_of] below *)
  Definition exhausted (md : mode) : fres := match md with MLoop => FNone | _ => FErr end.
  Definition start (md : mode) : state := match md with MNext => SHeight | _ => SReady end.

  Fixpoint run_fn (md : mode) (st : state) (ws : list world) : list call * fres :=
    match ws with
    | [] => ([], exhausted md)
    | w :: t =>
        let '(st', c, r) := step st w in
        match (match r with Some r => stop md r | None => None end) with
        | Some f => ([c], f)
        | None => let '(tr, f) := run_fn md st' t in (c :: tr, f)
        end
    end.
End Model.

(* ---------------- cases ---------------- *)
Definition call_eqb (a b : call) : bool :=
  match a, b with
  | CReady, CReady | CHeight, CHeight | CEpoch, CEpoch | CPLen, CPLen => true
  | CAuth r o, CAuth r' o' => Bool.eqb r r' && Bool.eqb o o'
  | CHeader h, CHeader h' => h =? h'
  | CSubmit r hs, CSubmit r' hs' => Bool.eqb r r' && list_eqb hs hs'
  | _, _ => false
  end.
Fixpoint trace_eqb (a b : list call) : bool :=
  match a, b with
  | [], [] => true
  | x :: a', y :: b' => call_eqb x y && trace_eqb a' b'
  | _, _ => false
  end.
Definition fres_eqb (a b : fres) : bool :=
  match a, b with
  | FNone, FNone | FOk, FOk | FIdle, FIdle | FProven, FProven | FNotReady, FNotReady
  | FNotAuth, FNotAuth | FErr, FErr => true
  | _, _ => false
  end.

Record case := {
  c_dp : bool;             (* config.DisableProxy *)
  c_mode : mode;           (* which real function was run *)
  c_ws : list world;       (* the script *)
  c_trace : list call;     (* calls the implementation made while the script lasted, and the
                              one call that found it empty *)
  c_res : fres;            (* the function's result class (FNone for the control loop) *)
  c_late : Z               (* submissions attempted after that call *)
}.

Definition is_u64 (z : Z) : bool := (0 <=? z) && (z <? two64).
Definition ou64 (o : option Z) : bool := match o with None => true | Some z => is_u64 z end.
Definition world_wf (w : world) : bool := ou64 (w_height w) && ou64 (w_epoch w) && ou64 (w_plen w).
(* When the script has run out, the call that finds it empty fails (and the driver cancels the
   context): the effective script ends with one all-errors world.  That call is still part of
   the observed trace; nothing after it is (every later call fails as well). *)
Definition err_world : world := W None None None None None None false false.
Definition script_of (c : case) : list world := c_ws c ++ [err_world].

Section Judge.
  Variable EL : Z.

  Definition wf (c : case) : bool :=
    forallb world_wf (c_ws c) && (length (c_trace c) <=? length (script_of c))%nat && (0 <=? c_late c).

  (* proveNextEpoch alone does not verify eligibility: its caller did *)
  Definition init_elig (md : mode) : bool := match md with MNext => true | _ => false end.

  Definition result_ok (c : case) (m : mstate) : bool :=
    match c_mode c, c_res c with
    | MVerify, FOk => m_ready m && m_auth m                 (* eligible only if ready and authorised *)
    | MNext, FProven => existsb is_submit (c_trace c) && isnone (m_pend m)
                                                             (* proven = submitted and the relay caught up *)
    | MNext, FIdle =>                                        (* "once all of them are mined": going idle
                                                                is right only while a header is missing *)
        match m_h m, m_e m, m_L m with
        | Some h, Some e, Some L => if in_domain EL e L then h <? last_req EL e L else true
        | _, _, _ => true
        end
    | _, _ => true
    end.

  Definition spec_ok (c : case) : bool :=
    (c_late c =? 0) &&
    match mon_run EL (c_dp c) (m_init (init_elig (c_mode c))) (combine (script_of c) (c_trace c)) with
    | Some m => result_ok c m
    | None => false
    end.

  Definition agree (c : case) : bool :=
    let '(tr, f) := run_fn EL (c_dp c) (c_mode c) (start (c_mode c)) (script_of c) in
    trace_eqb (c_trace c) tr && fres_eqb (c_res c) f.

  Definition judge_with (c : case) : verdict :=
    if wf c then decide (spec_ok c) (agree c) else BadCase.
  Definition explain_with (c : case) : list call * fres :=
    run_fn EL (c_dp c) (c_mode c) (start (c_mode c)) (script_of c).
End Judge.

Module Concrete.
  Definition EL : Z := bitcoinDifficultyEpochLength.
  Definition judge : case -> verdict := judge_with EL.
  Definition explain : case -> list call * fres := explain_with EL.
End Concrete.

(* compact constructors for the case terms the driver prints *)
Definition ob (z : Z) : option bool := if z =? 0 then Some false else if z =? 1 then Some true else None.
Definition oz (z : Z) : option Z := if z <? 0 then None else Some z.
(* mkw ready auth authRefund height epoch plen headerOk submitOk; -1 / 2 = error *)
Definition mkw (r a ar h e p : Z) (hk sk : bool) : world := W (ob r) (ob a) (ob ar) (oz h) (oz e) (oz p) hk sk.
