(* C22 — executable model of pkg/tbtc/coordination.go: getSeed / getLeader /
   getActionsChecklist (and coordinationWindow.index), as written.

   Operators are N identifiers whose order is the string order of the Go chain.Address values
   (the driver assigns identifiers by rank).  Bytes are N in [0,256).  Action types are the Z
   values of the Go constants (Gen/Consts_C22.v, regenerated from /repo on every run).
   SHA-256 and the chain's block hashes are function arguments (oracles); the seeded PRNG is
   the model of Go's math/rand of Common/GoRand.v, extended here with Rand.Float64. *)
From Coq Require Import ZArith NArith List Bool Lia.
From KV Require Import Common.Verdict Common.GoRand Gen.Consts_C22.
Import ListNotations.
Open Scope Z_scope.

(* ---------- generic helpers ---------- *)
Fixpoint insert_uniq (x : N) (l : list N) : list N :=
  match l with
  | [] => [x]
  | y :: t => if N.ltb x y then x :: l else if N.eqb x y then l else y :: insert_uniq x t
  end.
(* ascending list of the distinct members: the result of sort.Slice on a list of distinct
   addresses does not depend on the order they were collected in *)
Definition sort_uniq (l : list N) : list N := fold_right insert_uniq [] l.
Definition memN (x : N) (l : list N) : bool := existsb (N.eqb x) l.
Definition memZ (x : Z) (l : list Z) : bool := existsb (Z.eqb x) l.
Fixpoint listN_eqb (a b : list N) : bool :=
  match a, b with
  | [], [] => true
  | x :: a', y :: b' => N.eqb x y && listN_eqb a' b'
  | _, _ => false
  end.
Fixpoint listZ_eqb (a b : list Z) : bool :=
  match a, b with
  | [], [] => true
  | x :: a', y :: b' => Z.eqb x y && listZ_eqb a' b'
  | _, _ => false
  end.

(* ---------- coordinationWindow.index ---------- *)
Definition window_index (block : Z) : Z :=
  if block mod coordinationFrequencyBlocks =? 0 then block / coordinationFrequencyBlocks else 0.

(* ---------- getSeed ---------- *)
(* int64(binary.BigEndian.Uint64(seed[:8])) *)
Definition be_uint64 (bs : list N) : Z :=
  fold_left (fun acc b => acc * 256 + Z.of_N b) (firstn 8 bs) 0.
Definition to_int64 (u : Z) : Z := if u <? two63 then u else u - two64.
Definition seed_int64 (seed : list N) : Z := to_int64 (be_uint64 seed).

(* coordinationBlock - coordinationSafeBlockShift on uint64 *)
Definition safe_block (block : Z) : Z := (block - coordinationSafeBlockShift) mod two64.

Section Seed.
  Variable hash : list N -> list N.       (* sha256.Sum256 *)
  Variable block_hash : Z -> list N.      (* chain.GetBlockHashByNumber *)
  Definition get_seed (pkh : list N) (block : Z) : list N :=
    hash (pkh ++ block_hash (safe_block block)).
End Seed.

(* ---------- getLeader ---------- *)
Inductive lres := Leader (o : N) | LPanic.   (* uniqueOperators[0] on an empty list panics *)

Section Leader.
  Variable rngT : Type.
  Variable shuffle : rngT -> list N -> list N.
  (* [iter] stands for Go's iteration over the map allOperators.Set(): any rearrangement of
     the distinct operators *)
  Variable iter : list N -> list N.

  Definition unique_operators (ops : list N) : list N :=
    sort_uniq (iter (nodup N.eq_dec ops)).
  Definition get_leader (g : rngT) (ops : list N) : lres :=
    match shuffle g (unique_operators ops) with
    | [] => LPanic
    | o :: _ => Leader o
    end.
End Leader.

(* ---------- getActionsChecklist ---------- *)
Definition frequency_windows : Z := 4.      (* local variable frequencyWindows := uint64(4) *)

Definition checklist (idx : Z) (heartbeat : bool) : list Z :=
  if idx =? 0 then [] else
  [ActionRedemption]
  ++ (if idx mod frequency_windows =? 0 then [ActionDepositSweep] else [])
  ++ (if idx mod frequency_windows =? 0 then [ActionMovedFundsSweep] else [])
  ++ (if idx mod frequency_windows =? 0 then [ActionMovingFunds] else [])
  ++ (if heartbeat then [ActionHeartbeat] else []).

(* ---------- what coordinate() derives for one member: that member's view [ops] of the
   wallet's operators enters getLeader only ---------- *)
Section Member.
  Variable hash : list N -> list N.
  Variable block_hash : Z -> list N.
  Variable rngT : Type.
  Variable mkrng : Z -> rngT.                 (* rand.New(rand.NewSource(seed)) *)
  Variable shuffle : rngT -> list N -> list N.
  Variable heartbeat_of : rngT -> bool.       (* rng.Float64() < coordinationHeartbeatProbability *)
  Variable iter : list N -> list N.
  Definition member_view (pkh : list N) (block : Z) (ops : list N) : lres * list Z :=
    let seed := get_seed hash block_hash pkh block in
    (get_leader rngT shuffle iter (mkrng (seed_int64 seed)) ops,
     checklist (window_index block) (heartbeat_of (mkrng (seed_int64 seed)))).
End Member.

(* ---------- Rand.Float64 (go1.23 math/rand/rand.go):
     again: f := float64(r.Int63()) / (1 << 63); if f == 1 { goto again }; return f
   float64(int63) rounds to the nearest value with a 53-bit significand, ties to even; the
   division by 2^63 is exact.  A float in [0,1) is represented by the integer f * 2^63. *)
Definition two53 : Z := 9007199254740992.
Definition float64_of_int63 (v : Z) : Z :=
  if v <? two53 then v else
  let sh := Z.log2 v - 52 in
  let q := Z.shiftr v sh in
  let rem := v - Z.shiftl q sh in
  let half := Z.shiftl 1 (sh - 1) in
  let q' := if (half <? rem) || ((rem =? half) && Z.odd q) then q + 1 else q in
  Z.shiftl q' sh.

Fixpoint float64_loop (fuel : nat) (g : rng) : Z * bool :=
  let '(v, g') := rng_int63 g in
  let r := float64_of_int63 v in
  if r =? two63 then
    match fuel with O => (0, false) | S k => float64_loop k g' end
  else (r, true).
(* the first Float64() of a generator: (f * 2^63, fuel sufficed) *)
Definition float64_draw (g : rng) : Z * bool := float64_loop 16 g.

(* f < p for a float64 constant p = p_num / 2^p_log (exact) *)
Definition draw_lt (draw p_num p_log : Z) : bool := draw * 2 ^ p_log <? p_num * two63.

(* ---------- one member's view of a coordination window ---------- *)
Module Concrete.
  Definition shuffle (g : rng) (l : list N) : list N := fst (fst (shuffle_with g l)).
  Definition iter (l : list N) : list N := l.
  Definition get_leader (seed : list N) (ops : list N) : lres :=
    get_leader rng shuffle iter (rng_seed (seed_int64 seed)) ops.
  Definition heartbeat (seed : list N) (p_num p_log : Z) : bool :=
    draw_lt (fst (float64_draw (rng_seed (seed_int64 seed)))) p_num p_log.
  Definition get_actions_checklist (idx : Z) (seed : list N) (p_num p_log : Z) : list Z :=
    checklist idx (heartbeat seed p_num p_log).
End Concrete.

(* ---------- cases ---------- *)
(* what one member (one local view of the wallet's operator list) computed *)
Record view := {
  v_ops : list N;          (* its signingGroupOperators, as ranks (1-based) *)
  v_asked : Z;             (* the block number getSeed asked the chain for *)
  v_seed : list N;         (* getSeed result, 32 bytes *)
  v_leader : lres;         (* getLeader(seed); Leader 0 = an address that is no operator *)
  v_checklist : list Z     (* getActionsChecklist(index, seed) *)
}.
Record case := {
  c_block : Z;             (* coordination block *)
  c_index : Z;             (* window.index() computed by the implementation *)
  c_seed_exp : list N;     (* sha256(pkh ++ hash of the asked block), computed by the driver *)
  c_draw : Z;              (* 2^63 * rand.New(rand.NewSource(seed_int64)).Float64(), by the driver *)
  c_p_num : Z; c_p_log : Z;(* coordinationHeartbeatProbability = c_p_num / 2^c_p_log *)
  c_views : list view
}.

Definition lres_eqb (a b : lres) : bool :=
  match a, b with
  | Leader x, Leader y => N.eqb x y
  | LPanic, LPanic => true
  | _, _ => false
  end.

Definition same_set (a b : list N) : bool :=
  forallb (fun x => memN x b) a && forallb (fun x => memN x a) b.

(* ---------- executable form of the property, on the implementation's outputs ---------- *)
Definition leader_ok (v : view) : bool :=
  match v_ops v, v_leader v with
  | [], _ => true                      (* a wallet without operators: nothing is claimed *)
  | _, Leader o => memN o (v_ops v)
  | _, LPanic => false
  end.

(* the checklist demanded by the property for window index [idx] when the seeded draw says
   [hb]: Redemption first; the three sweep / moving-funds actions exactly every fourth
   window; heartbeat exactly by the draw *)
Definition checklist_ok (idx : Z) (hb : bool) (l : list Z) : bool :=
  if idx =? 0 then true else
  match l with
  | a :: rest =>
      (a =? ActionRedemption)
      && Bool.eqb (memZ ActionDepositSweep rest) (idx mod 4 =? 0)
      && Bool.eqb (memZ ActionMovedFundsSweep rest) (idx mod 4 =? 0)
      && Bool.eqb (memZ ActionMovingFunds rest) (idx mod 4 =? 0)
      && Bool.eqb (memZ ActionHeartbeat rest) hb
      && forallb (fun x => memZ x [ActionDepositSweep; ActionMovedFundsSweep;
                                   ActionMovingFunds; ActionHeartbeat]) rest
  | [] => false
  end.

Definition spec_ok (c : case) : bool :=
  match c_views c with
  | [] => true
  | v0 :: rest =>
      forallb leader_ok (c_views c)
      && forallb (fun v => lres_eqb (v_leader v) (v_leader v0)) rest
      && forallb (fun v => listZ_eqb (v_checklist v) (v_checklist v0)) rest
      && checklist_ok (c_index c) (draw_lt (c_draw c) (c_p_num c) (c_p_log c)) (v_checklist v0)
  end.

(* ---------- agreement of the model with the implementation ---------- *)
Definition bytes_ok (l : list N) : bool :=
  Nat.eqb (length l) 32 && forallb (fun b => N.ltb b 256) l.

Definition agree (c : case) : bool :=
  let g := rng_seed (seed_int64 (c_seed_exp c)) in
  let '(d, okd) := float64_draw g in
  let hb := draw_lt d (c_p_num c) (c_p_log c) in
  okd
  && (c_index c =? window_index (c_block c))
  && (d =? c_draw c)
  && forallb (fun v =>
        (v_asked v =? safe_block (c_block c))
        && listN_eqb (v_seed v) (c_seed_exp c)
        && lres_eqb (v_leader v) (get_leader rng Concrete.shuffle Concrete.iter g (v_ops v))
        && snd (shuffle_with g (sort_uniq (v_ops v)))
        && listZ_eqb (v_checklist v) (checklist (c_index c) hb)) (c_views c).

Definition well_formed (c : case) : bool :=
  bytes_ok (c_seed_exp c)
  && (0 <=? c_block c) && (c_block c <? two64)
  && (0 <? c_p_num c) && (0 <=? c_p_log c)
  && match c_views c with
     | [] => false
     | v0 :: rest => forallb (fun v => same_set (v_ops v) (v_ops v0)) rest
     end.

Definition judge (c : case) : verdict :=
  if negb (well_formed c) then BadCase else decide (spec_ok c) (agree c).

(* the case the model itself produces for the given views (used to state that every model
   output passes the executable property) *)
Definition model_case (block : Z) (seed : list N) (p_num p_log : Z) (opss : list (list N)) : case :=
  let g := rng_seed (seed_int64 seed) in
  let d := fst (float64_draw g) in
  {| c_block := block; c_index := window_index block; c_seed_exp := seed; c_draw := d;
     c_p_num := p_num; c_p_log := p_log;
     c_views := map (fun ops =>
        {| v_ops := ops; v_asked := safe_block block; v_seed := seed;
           v_leader := get_leader rng Concrete.shuffle Concrete.iter g ops;
           v_checklist := checklist (window_index block) (draw_lt d p_num p_log) |}) opss |}.

(* what --replay prints: the model's leader per view, the model's draw and checklist *)
Definition explain (c : case) : list lres * Z * list Z :=
  let g := rng_seed (seed_int64 (c_seed_exp c)) in
  let d := fst (float64_draw g) in
  (map (fun v => get_leader rng Concrete.shuffle Concrete.iter g (v_ops v)) (c_views c),
   d, checklist (c_index c) (draw_lt d (c_p_num c) (c_p_log c))).

(* ====================================================================================== *)
(* Call histories on ONE executor instance                                                 *)
(* ====================================================================================== *)
(* Production keeps one coordinationExecutor per wallet and calls getSeed / getLeader /
   getActionsChecklist on it for every coordination window.  The only executor state these
   methods can see is the wallet's signingGroupOperators (a slice shared with the caller).  As
   written, neither method assigns a field of the executor or writes through that slice:
   getLeader collects the operators into a FRESH slice (make + append) and sorts / shuffles
   that one.  The executor is modelled as a state machine whose state is the operator list;
   a call returns the state unchanged and the answer.  Go's map iteration order may differ
   from call to call, so every history entry carries its own [iter] oracle. *)
Record hentry := {
  e_idx : Z;                        (* window index handed to getActionsChecklist *)
  e_seed : list N;                  (* coordination seed handed to both methods *)
  e_iter : list N -> list N         (* this call's iteration order over allOperators.Set() *)
}.

Section Executor.
  Variable rngT : Type.
  Variable mkrng : Z -> rngT.
  Variable shuffle : rngT -> list N -> list N.
  Variable heartbeat_of : rngT -> bool.

  (* the pure function: what a member with operator view [ops] answers for one window *)
  Definition answer_of (ops : list N) (e : hentry) : lres * list Z :=
    let g := mkrng (seed_int64 (e_seed e)) in
    (get_leader rngT shuffle (e_iter e) g ops, checklist (e_idx e) (heartbeat_of g)).

  (* one getLeader + getActionsChecklist round on the executor in state [st] *)
  Definition exec_call (st : list N) (e : hentry) : list N * (lres * list Z) :=
    (st, answer_of st e).

  Fixpoint run_history (st : list N) (h : list hentry) : list N * list (lres * list Z) :=
    match h with
    | [] => (st, [])
    | e :: t =>
        let '(st1, a) := exec_call st e in
        let '(st2, r) := run_history st1 t in
        (st2, a :: r)
    end.
End Executor.

(* the concrete executor: Go's math/rand, map iteration in any fixed order *)
Definition concrete_heartbeat_of (p_num p_log : Z) (g : rng) : bool :=
  draw_lt (fst (float64_draw g)) p_num p_log.
Definition concrete_entry (w : Z * list N) : hentry :=
  {| e_idx := fst w; e_seed := snd w; e_iter := Concrete.iter |}.
Definition concrete_answer (p_num p_log : Z) (ops : list N) (w : Z * list N) : lres * list Z :=
  answer_of rng rng_seed Concrete.shuffle (concrete_heartbeat_of p_num p_log) ops (concrete_entry w).
(* (final operator list, answers) of the history [h] of (window index, seed) calls *)
Definition concrete_run (p_num p_log : Z) (ops : list N) (h : list (Z * list N))
  : list N * list (lres * list Z) :=
  run_history rng rng_seed Concrete.shuffle (concrete_heartbeat_of p_num p_log) ops
    (map concrete_entry h).

(* ---------- history cases ---------- *)
(* one round (getSeed, getLeader, getActionsChecklist) of one member for coordination block
   k_block, on the executor it has been using all along *)
Record hcall := {
  k_block : Z;             (* coordination block *)
  k_index : Z;             (* window.index() computed by the implementation *)
  k_seed_exp : list N;     (* sha256(pkh ++ hash of block (k_block - shift)), by the driver *)
  k_draw : Z;              (* 2^63 * first Float64 of the generator seeded by k_seed_exp, by the driver *)
  k_asked : Z;             (* the block this getSeed call asked the chain for (-1: none / several) *)
  k_seed : list N;         (* what getSeed returned *)
  k_leader : lres;         (* getLeader(that seed) *)
  k_checklist : list Z     (* getActionsChecklist(index, that seed) *)
}.
Record hmember := {
  m_ops : list N;          (* the signingGroupOperators slice handed to the executor, as ranks *)
  m_ops_after : list N;    (* the same slice as the caller sees it after the last call *)
  m_calls : list hcall     (* this member's history, oldest first *)
}.
Record hcase := { h_p_num : Z; h_p_log : Z; h_members : list hmember }.

Definition all_calls (h : hcase) : list hcall := flat_map m_calls (h_members h).

(* the same wallet (one case = one wallet), the same window, the same safe block hash *)
Definition key_eqb (a b : hcall) : bool :=
  (k_block a =? k_block b) && listN_eqb (k_seed_exp a) (k_seed_exp b).
Definition same_answer (a b : hcall) : bool :=
  lres_eqb (k_leader a) (k_leader b) && listZ_eqb (k_checklist a) (k_checklist b).
Definition hleader_ok (ops : list N) (k : hcall) : bool :=
  match ops, k_leader k with
  | [], _ => true
  | _, Leader o => memN o ops
  | _, LPanic => false
  end.

(* executable form of the property over histories: at EVERY position of EVERY member's
   history the leader is one of that member's operators and the checklist has the demanded
   shape; any two rounds -- of two members or of one member, at any two positions, whatever
   came before them -- for the same window and safe block hash gave the same leader and
   checklist (in particular: the members agree position by position when they went through
   the same windows, a fresh member agrees with a long-running one, and asking again repeats
   the answer) *)
Definition hspec_ok (h : hcase) : bool :=
  let ks := all_calls h in
  forallb (fun m => forallb (hleader_ok (m_ops m)) (m_calls m)) (h_members h)
  && forallb (fun a => forallb (fun b => implb (key_eqb a b) (same_answer a b)) ks) ks
  && forallb (fun k => checklist_ok (k_index k)
                         (draw_lt (k_draw k) (h_p_num h) (h_p_log h)) (k_checklist k)) ks.

Fixpoint answers_eqb (a b : list (lres * list Z)) : bool :=
  match a, b with
  | [], [] => true
  | (l1, c1) :: a', (l2, c2) :: b' => lres_eqb l1 l2 && listZ_eqb c1 c2 && answers_eqb a' b'
  | _, _ => false
  end.

(* oracle / bookkeeping values of one round *)
Definition hcall_agree (ops : list N) (k : hcall) : bool :=
  let g := rng_seed (seed_int64 (k_seed_exp k)) in
  let '(d, okd) := float64_draw g in
  okd
  && (k_index k =? window_index (k_block k))
  && (d =? k_draw k)
  && (k_asked k =? safe_block (k_block k))
  && listN_eqb (k_seed k) (k_seed_exp k)
  && snd (shuffle_with g (sort_uniq ops)).

(* the implementation's answers along the history are the model's run of the same history on
   one executor, and the caller's operator slice is what the model's final state says *)
Definition hmember_agree (p_num p_log : Z) (m : hmember) : bool :=
  let '(st, ans) := concrete_run p_num p_log (m_ops m)
                      (map (fun k => (window_index (k_block k), k_seed_exp k)) (m_calls m)) in
  listN_eqb (m_ops_after m) st
  && forallb (hcall_agree (m_ops m)) (m_calls m)
  && answers_eqb (map (fun k => (k_leader k, k_checklist k)) (m_calls m)) ans.

Definition hagree (h : hcase) : bool :=
  forallb (hmember_agree (h_p_num h) (h_p_log h)) (h_members h).

Definition hwell_formed (h : hcase) : bool :=
  (0 <? h_p_num h) && (0 <=? h_p_log h)
  && forallb (fun k => bytes_ok (k_seed_exp k) && (0 <=? k_block k) && (k_block k <? two64))
       (all_calls h)
  && match h_members h with
     | [] => false
     | m0 :: rest => forallb (fun m => same_set (m_ops m) (m_ops m0)) rest
     end.

Definition hjudge (h : hcase) : verdict :=
  if negb (hwell_formed h) then BadCase else decide (hspec_ok h) (hagree h).

(* the history case the model itself produces: every member (operator view, list of
   (coordination block, seed) rounds) run on one model executor *)
Definition model_hcall (p_num p_log : Z) (wa : (Z * list N) * (lres * list Z)) : hcall :=
  let '((block, seed), (ld, cl)) := wa in
  {| k_block := block; k_index := window_index block; k_seed_exp := seed;
     k_draw := fst (float64_draw (rng_seed (seed_int64 seed)));
     k_asked := safe_block block; k_seed := seed; k_leader := ld; k_checklist := cl |}.
Definition model_hmember (p_num p_log : Z) (mw : list N * list (Z * list N)) : hmember :=
  let '(ops, ws) := mw in
  let '(st, ans) := concrete_run p_num p_log ops
                      (map (fun w => (window_index (fst w), snd w)) ws) in
  {| m_ops := ops; m_ops_after := st; m_calls := map (model_hcall p_num p_log) (combine ws ans) |}.
Definition model_hcase (p_num p_log : Z) (ms : list (list N * list (Z * list N))) : hcase :=
  {| h_p_num := p_num; h_p_log := p_log; h_members := map (model_hmember p_num p_log) ms |}.

(* ---------- what the driver emits: a one-window case or a history case ---------- *)
Inductive anycase := CView (c : case) | CHist (h : hcase).
Definition judge_any (a : anycase) : verdict :=
  match a with CView c => judge c | CHist h => hjudge h end.
(* --replay: the model's own output (per member: final operator list and answers) *)
Definition explain_any (a : anycase)
  : (list lres * Z * list Z) + list (list N * list (lres * list Z)) :=
  match a with
  | CView c => inl (explain c)
  | CHist h => inr (map (fun m => concrete_run (h_p_num h) (h_p_log h) (m_ops m)
                       (map (fun k => (window_index (k_block k), k_seed_exp k)) (m_calls m)))
                     (h_members h))
  end.
