(* C08 — tECDSA signing by any honest quorum of the final group: pkg/tbtc/dkg.go finalSigningGroup,
   the signing identityConverter over keys = Ks (pkg/tecdsa/signing/member.go), exclusion marking
   and message admission of signing.Execute (same text as key generation, ten message kinds,
   twelve states) and pkg/tecdsa/signature.go NewSignature.  tss-lib signing is an oracle; signature
   validity and low S are checked in Go by the driver and judged here.  No proofs here. *)
From Coq Require Import ZArith NArith List Bool.
From KV Require Import Common.Verdict.
From KV Require Export Model.C07.
Import ListNotations.
Open Scope N_scope.

(* ------------------------------------------------------------------ finalSigningGroup *)
Inductive fsg_res :=
| FErr                                             (* "invalid input parameters" *)
| FPanic                                           (* index out of range *)
| FOk (operators : list N) (indexes : list (N * N)). (* the map, as (key, value) sorted by key *)

(* Go map assignment: the last write to a key wins; kept sorted by key for comparison *)
Fixpoint map_set (k v : N) (m : list (N * N)) : list (N * N) :=
  match m with
  | [] => [(k, v)]
  | (k', v') :: t => if N.eqb k k' then (k, v) :: t
                     else if N.ltb k k' then (k, v) :: m else (k', v') :: map_set k v t
  end.

(* the loop  for i, m := range sorted { finalOperators[i] = selected[m-1]; final[m] = MemberIndex(i+1) }
   with uint8 arithmetic: selected[m-1] panics for m = 0 (index 255) or m > len(selected) *)
Fixpoint fsg_loop (selected : list N) (sorted : list N) (i : nat) (ops : list N) (idx : list (N * N))
  : option (list N * list (N * N)) :=
  match sorted with
  | [] => Some (ops, idx)
  | m :: t =>
      match nth_error selected (N.to_nat ((m + 255) mod 256)) with
      | None => None
      | Some o => fsg_loop selected t (S i) (ops ++ [o]) (map_set m ((N.of_nat i + 1) mod 256) idx)
      end
  end.

Definition final_signing_group (selected operating : list N) (group_size group_quorum : Z) : fsg_res :=
  if negb (Z.eqb (Z.of_nat (length selected)) group_size)
     || Z.ltb (Z.of_nat (length operating)) group_quorum then FErr
  else match fsg_loop selected (sortN operating) 0 [] [] with
       | None => FPanic
       | Some (ops, idx) => FOk ops idx
       end.

Definition map_get (k : N) (m : list (N * N)) : option N :=
  match find (fun kv => N.eqb (fst kv) k) m with Some kv => Some (snd kv) | None => None end.

(* ------------------------------------------------------------------ signing identity converter *)
(* MemberIndexToTssPartyIDKey: keys[memberIndex-1]   (None = index out of range panic) *)
Definition sc_key (keys : list Z) (m : N) : option Z := nth_error keys (N.to_nat ((m + 255) mod 256)).
(* TssPartyIDToMemberIndex: MemberIndex(slices.IndexFunc(keys, == key) + 1) *)
Fixpoint index_of (k : Z) (keys : list Z) (i : nat) : option nat :=
  match keys with [] => None | x :: t => if Z.eqb x k then Some i else index_of k t (S i) end.
Definition sc_index (keys : list Z) (k : Z) : N :=
  match index_of k keys 0 with Some i => (N.of_nat i + 1) mod 256 | None => 0 end.

(* ------------------------------------------------------------------ NewSignature *)
Fixpoint be_to_Z (acc : Z) (bytes : list N) : Z :=
  match bytes with [] => acc | b :: t => be_to_Z (acc * 256 + Z.of_N b)%Z t end.
Inductive sig_res := SPanic | SOk (r s : Z) (recovery : Z).
Definition new_signature (rb sb recb : list N) : sig_res :=
  match recb with
  | [] => SPanic                                                   (* recoveryBytes[0] *)
  | b :: _ => SOk (be_to_Z 0 rb) (be_to_Z 0 sb)
                  (if N.ltb b 128 then Z.of_N b else Z.of_N b - 256)%Z  (* int8(int(byte)) *)
  end.

(* ------------------------------------------------------------------ signing admission *)
(* states 0 ephemeral, 1 symmetric, 2..10 TSS rounds one..nine, 11 finalization (ignores every
   message); kinds 0 ephemeral key msg, 1..9 TSS round msgs *)
Definition s_state_kind (s : N) : option N :=
  match s with 0 => Some 0 | 1 => None | 11 => None | _ => if N.ltb s 11 then Some (s - 1) else None end.
Definition s_receive (mb : member) (s : N) (h : history) (m : msg) : history :=
  if N.eqb s 11 then h else receive mb h m.
Definition s_can_transition (mb : member) (h : history) (s : N) : bool :=
  match s with
  | 1 => true | 11 => true
  | _ => match s_state_kind s with
         | Some k => Z.eqb (Z.of_nat (length (received h k)))
                           (Z.of_nat (length (operating (mb_group mb))) - 1)
         | None => false
         end
  end.
(* party ids of a signing member: keys[m-1] for every operating m, sorted; None = panic *)
Fixpoint all_some {A} (l : list (option A)) : option (list A) :=
  match l with
  | [] => Some []
  | None :: _ => None
  | Some x :: t => match all_some t with Some r => Some (x :: r) | None => None end
  end.
Definition s_party_keys (keys : list Z) (g : group) : option (list Z) :=
  match all_some (map (sc_key keys) (operating g)) with Some l => Some (sortZ l) | None => None end.

(* ------------------------------------------------------------------ cases *)
Definition pair_eqb (a b : N * N) : bool := N.eqb (fst a) (fst b) && N.eqb (snd a) (snd b).
Definition fsg_eqb (a b : fsg_res) : bool :=
  match a, b with
  | FErr, FErr | FPanic, FPanic => true
  | FOk o1 i1, FOk o2 i2 => list_eqb N.eqb o1 o2 && list_eqb pair_eqb i1 i2
  | _, _ => false
  end.
Definition optZ_list_eqb (a b : option (list Z)) : bool :=
  match a, b with Some x, Some y => list_eqb Z.eqb x y | None, None => true | _, _ => false end.

(* --- finalSigningGroup on arbitrary inputs, plus converter probes over a key list *)
Record fsg_case := {
  f_selected : list N;          (* operator of every selected seat, by rank *)
  f_operating : list N;         (* in the order given to the function *)
  f_size : Z; f_quorum : Z;
  f_seed : Z;                   (* keys the wallet's shares hold: sorted seed + operating member *)
  f_out : fsg_res;
  f_conv : list N }.            (* observed: the real signing converter over those keys maps the
                                   party key seed + m of every m of f_operating (in the given
                                   order) to this member index (TssPartyIDToMemberIndex) *)

(* what registerSigner passes: the operating members of a group of f_size < 256 selected seats
   (distinct, within 1..size), at least the quorum of them, a non-negative seed *)
Definition f_valid (c : fsg_case) : bool :=
  Z.eqb (Z.of_nat (length (f_selected c))) (f_size c) && Z.ltb (f_size c) 256
  && Z.leb (f_quorum c) (Z.of_nat (length (f_operating c)))
  && nodupb (f_operating c)
  && forallb (fun m => N.leb 1 m && Z.leb (Z.of_N m) (f_size c)) (f_operating c)
  && Z.leb 0 (f_seed c).

Definition wallet_keys (seed : Z) (operating : list N) : list Z := sortZ (map (party_key seed) operating).

(* the property on the implementation's output, for a valid wallet: final indexes 1..k, each
   operating member's final index points at its own key-generation party key and at its own
   operator, distinct members get distinct final indexes *)
Definition spec_fsg (c : fsg_case) : bool :=
  negb (f_valid c) ||
  match f_out c with
  | FOk ops idx =>
      let keys := wallet_keys (f_seed c) (f_operating c) in
      Nat.eqb (length ops) (length (f_operating c))
      && Nat.eqb (length idx) (length (f_operating c))
      && nodupb (map snd idx)
      && forallb (fun m =>
           match map_get m idx with
           | Some fi =>
               N.leb 1 fi && N.leb fi (N.of_nat (length (f_operating c)))
               && match sc_key keys fi with Some k => Z.eqb k (party_key (f_seed c) m) | None => false end
               && N.eqb (sc_index keys (party_key (f_seed c) m)) fi
               && match nth_error ops (N.to_nat (fi - 1)), nth_error (f_selected c) (N.to_nat (m - 1)) with
                  | Some a, Some b => N.eqb a b | _, _ => false end
           | None => false
           end) (f_operating c)
      (* the REAL converter maps every member's key-generation identity to its stored index,
         whatever the magnitude of the keys (digit counts, word sizes) *)
      && list_eqb N.eqb (f_conv c)
           (map (fun m => match map_get m idx with Some fi => fi | None => 0 end) (f_operating c))
  | _ => false
  end.
Definition agree_fsg (c : fsg_case) : bool :=
  fsg_eqb (f_out c) (final_signing_group (f_selected c) (f_operating c) (f_size c) (f_quorum c))
  && list_eqb N.eqb (f_conv c)
       (map (fun m => sc_index (wallet_keys (f_seed c) (f_operating c)) (party_key (f_seed c) m))
            (f_operating c)).

(* --- converter + NewSignature + signing admission probes *)
Record conv_case := {
  v_keys : list Z;
  v_idx : list N; v_idx_out : list (option Z);      (* MemberIndexToTssPartyIDKey, None = panic *)
  v_key : list Z; v_key_out : list N;               (* TssPartyIDToMemberIndex *)
  v_sig : list (list N * list N * list N); v_sig_out : list sig_res }.

Definition sig_eqb (a b : sig_res) : bool :=
  match a, b with
  | SPanic, SPanic => true
  | SOk r s v, SOk r' s' v' => Z.eqb r r' && Z.eqb s s' && Z.eqb v v'
  | _, _ => false
  end.
(* the part of the property these functions carry: on distinct keys a valid index round-trips,
   and the signature's R and S are the big-endian values of the bytes tss-lib returned *)
Fixpoint nodupZb (l : list Z) : bool :=
  match l with [] => true | x :: t => negb (memZ x t) && nodupZb t end.
Definition spec_conv (c : conv_case) : bool :=
  let n := N.of_nat (length (v_keys c)) in
  Nat.eqb (length (v_idx c)) (length (v_idx_out c)) &&
  (negb (nodupZb (v_keys c) && N.ltb n 256) ||
   forallb (fun io => negb (N.leb 1 (fst io) && N.leb (fst io) n)
                      || match snd io with
                         | Some k => N.eqb (sc_index (v_keys c) k) (fst io)
                         | None => false
                         end) (combine (v_idx c) (v_idx_out c)))
  (* a party key of the wallet maps to an index that holds this very key: never to 0, never to
     another member, for keys of ANY magnitude (first occurrence when keys repeat) *)
  && Nat.eqb (length (v_key c)) (length (v_key_out c))
  && (negb (N.ltb n 256) ||
      forallb (fun ko => negb (memZ (fst ko) (v_keys c))
                         || optZ_eqb (sc_key (v_keys c) (snd ko)) (Some (fst ko)))
              (combine (v_key c) (v_key_out c))).
Definition agree_conv (c : conv_case) : bool :=
  list_eqb optZ_eqb (v_idx_out c) (map (sc_key (v_keys c)) (v_idx c))
  && list_eqb N.eqb (v_key_out c) (map (sc_index (v_keys c)) (v_key c))
  && list_eqb sig_eqb (v_sig_out c)
       (map (fun t => new_signature (fst (fst t)) (snd (fst t)) (snd t)) (v_sig c)).

Record sprobe_case := {
  sp_size : N; sp_t : Z; sp_self : N; sp_keys : list Z; sp_dq : list N; sp_ops : list N;
  sp_session : N; sp_msgs : list (N * msg);
  so_operating : list N; so_own : option Z; so_keys : option (list Z);  (* None = panic *)
  so_history : list (list N); so_received : list (list N); so_can : list bool;
  so_index : list N }.   (* the real TssPartyIDToMemberIndex of every key of so_keys ([] on panic) *)
Definition s_kinds : list N := [0; 1; 2; 3; 4; 5; 6; 7; 8; 9].
Definition s_states : list N := [0; 1; 2; 3; 4; 5; 6; 7; 8; 9; 10; 11].
Definition sprobe_member (c : sprobe_case) : member :=
  {| mb_id := sp_self c; mb_group := fold_left mark_dq (sp_dq c) (new_group (sp_t c) (N.to_nat (sp_size c)));
     mb_ops := sp_ops c; mb_session := sp_session c; mb_seed := 0 |}.
Definition s_legit (c : sprobe_case) (sm : N * msg) : bool :=
  let m := snd sm in
  negb (N.eqb (fst sm) 11)
  && negb (N.eqb (m_sender m) (sp_self c))
  && N.leb 1 (m_sender m) && N.leb (m_sender m) (sp_size c)
  && negb (memN (m_sender m) (sp_dq c))
  && match nth_error (sp_ops c) (N.to_nat (m_sender m - 1)) with
     | Some o => N.eqb o (m_op m) | None => false end
  && N.eqb (m_session m) (sp_session c).
Definition spec_sprobe (c : sprobe_case) : bool :=
  N.ltb (sp_size c) 256 &&
  (Nat.eqb (length (so_history c)) 10) && (Nat.eqb (length (so_received c)) 10) &&
  forallb (fun k =>
     let hk := nth (N.to_nat k) (so_history c) [] in
     let rk := nth (N.to_nat k) (so_received c) [] in
     sublistN hk (senders (map snd (filter (fun sm => N.eqb (m_kind (snd sm)) k && s_legit c sm) (sp_msgs c))))
     && nodupb rk && sublistN rk hk && subsetN hk rk) s_kinds
  (* admitted senders always have a party key when the wallet is well formed (no panic) *)
  && (negb (N.leb (sp_size c) (N.of_nat (length (sp_keys c))))
      || match so_keys c with Some _ => true | None => false end)
  (* every party id the member built maps back to an index holding that key *)
  && (negb (N.ltb (N.of_nat (length (sp_keys c))) 256)
      || match so_keys c with
         | Some l => Nat.eqb (length l) (length (so_index c))
                     && forallb (fun ki => optZ_eqb (sc_key (sp_keys c) (snd ki)) (Some (fst ki)))
                                (combine l (so_index c))
         | None => true
         end).
Definition agree_sprobe (c : sprobe_case) : bool :=
  let mb := sprobe_member c in
  let h := fold_left (fun h sm => s_receive mb (fst sm) h (snd sm)) (sp_msgs c) [] in
  list_eqb N.eqb (so_operating c) (operating (mb_group mb))
  && optZ_list_eqb (so_keys c) (s_party_keys (sp_keys c) (mb_group mb))
  && (match so_keys c with
      | Some _ => optZ_eqb (so_own c)
                    (if memN (sp_self c) (operating (mb_group mb)) then sc_key (sp_keys c) (sp_self c) else None)
      | None => true end)
  && list_eqb (list_eqb N.eqb) (so_history c) (map (fun k => senders (all_received h k)) s_kinds)
  && list_eqb (list_eqb N.eqb) (so_received c) (map (fun k => senders (received h k)) s_kinds)
  && list_eqb Bool.eqb (so_can c) (map (s_can_transition mb h) s_states)
  && list_eqb N.eqb (so_index c)
       (match so_keys c with Some l => map (sc_index (sp_keys c)) l | None => [] end).

(* --- a real signing run of one subset of a wallet's final signing group *)
Record sign_obs := { sg_member : N;            (* final signing group index *)
                     sg_status : status;
                     sg_sig : N;               (* (r, s, recovery id) identifier by first occurrence *)
                     sg_valid : bool;          (* ecdsa.Verify under the wallet public key *)
                     sg_low_s : bool }.        (* 0 < s <= n/2 *)
Record sign_case := {
  w_seed : Z;
  w_selected : list N; w_size : Z; w_quorum : Z;   (* what registerSigner passed to finalSigningGroup *)
  w_final_ops : list N;              (* finalSigningGroup's operators (observed) *)
  w_dkg_operating : list N;          (* key-generation member indexes that operated, ascending *)
  w_final : list (N * N);            (* finalSigningGroup's index map for them (observed) *)
  w_ks : list Z;                     (* Ks stored in every share of the wallet (observed) *)
  w_share_ids : list (N * Z);        (* final index -> ShareID of the share registered under it *)
  w_honest : N;                      (* honest threshold *)
  w_signers : list N;                (* final indexes that sign; the others are excluded *)
  w_obs : list sign_obs }.

Definition spec_sign (c : sign_case) : bool :=
  let k := N.of_nat (length (w_dkg_operating c)) in
  (* the stored index of every operating member maps to the party identity it used in DKG *)
  forallb (fun m => match map_get m (w_final c) with
                    | Some fi => match sc_key (w_ks c) fi with
                                 | Some key => Z.eqb key (party_key (w_seed c) m) | None => false end
                                 && match map_get fi (map (fun p => (fst p, Z.to_N (snd p))) (w_share_ids c)) with
                                    | Some sid => Z.eqb (Z.of_N sid) (party_key (w_seed c) m)
                                    | None => true end
                    | None => false end) (w_dkg_operating c)
  (* an honest-threshold subset of the final group signs *)
  && nodupb (w_signers c) && N.leb (w_honest c) (N.of_nat (length (w_signers c)))
  && forallb (fun s => N.leb 1 s && N.leb s k) (w_signers c)
  && forallb (fun o => memN (sg_member o) (w_signers c)
                       && match sg_status o with Done | Inconclusive => true | _ => false end) (w_obs c)
  && match filter (fun o => match sg_status o with Done => true | _ => false end) (w_obs c) with
     | [] => true
     | o0 :: rest =>   (* (an [as] pattern here would bind the TAIL only: o0 must be checked too) *)
         forallb (fun o => N.eqb (sg_sig o) (sg_sig o0) && sg_valid o && sg_low_s o) (o0 :: rest)
     end.

Definition agree_sign (c : sign_case) : bool :=
  fsg_eqb (FOk (w_final_ops c) (w_final c))
          (final_signing_group (w_selected c) (w_dkg_operating c) (w_size c) (w_quorum c))
  && list_eqb Z.eqb (w_ks c) (wallet_keys (w_seed c) (w_dkg_operating c)).

Inductive case := CFsg (c : fsg_case) | CConv (c : conv_case) | CSProbe (c : sprobe_case) | CSign (c : sign_case).

Definition judge (c : case) : verdict :=
  match c with
  | CFsg c => decide (spec_fsg c) (agree_fsg c)
  | CConv c => decide (spec_conv c) (agree_conv c)
  | CSProbe c =>
      if negb (forallb (fun sm => N.ltb (fst sm) 12 && N.ltb (m_kind (snd sm)) 10) (sp_msgs c)
               && Nat.eqb (length (sp_ops c)) (N.to_nat (sp_size c))) then BadCase
      else decide (spec_sprobe c) (agree_sprobe c)
  | CSign c => decide (spec_sign c) (agree_sign c)
  end.

(* what --replay prints *)
Inductive explained :=
| EFsg (r : fsg_res)
| EConv (keys : list (option Z)) (idx : list N) (sigs : list sig_res)
| ESProbe (operating : list N) (keys : option (list Z)) (hist recv : list (list N)) (can : list bool)
| ESign (r : fsg_res) (ks : list Z).
Definition explain (c : case) : explained :=
  match c with
  | CFsg c => EFsg (final_signing_group (f_selected c) (f_operating c) (f_size c) (f_quorum c))
  | CConv c => EConv (map (sc_key (v_keys c)) (v_idx c)) (map (sc_index (v_keys c)) (v_key c))
                     (map (fun t => new_signature (fst (fst t)) (snd (fst t)) (snd t)) (v_sig c))
  | CSProbe c =>
      let mb := sprobe_member c in
      let h := fold_left (fun h sm => s_receive mb (fst sm) h (snd sm)) (sp_msgs c) [] in
      ESProbe (operating (mb_group mb)) (s_party_keys (sp_keys c) (mb_group mb))
              (map (fun k => senders (all_received h k)) s_kinds)
              (map (fun k => senders (received h k)) s_kinds) (map (s_can_transition mb h) s_states)
  | CSign c => ESign (final_signing_group (w_selected c) (w_dkg_operating c) (w_size c) (w_quorum c))
                     (wallet_keys (w_seed c) (w_dkg_operating c))
  end.
