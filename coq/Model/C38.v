(* C38 — executable model of the two write-ahead registries
     pkg/tbtc/registry.go            walletRegistry: registerSigner / archiveWallet / loadSigners /
                                     getSigners / getWalletsPublicKeys / getWalletByPublicKeyHash / getWalletByID
     pkg/beacon/registry/groups.go   Groups: RegisterGroup / UnregisterStaleGroups / LoadExistingGroups / GetGroup
     pkg/beacon/registry/storage.go  persistentStorage: save / archive / readAll
   over keep-common's persistence.ProtectedHandle (Save / Archive / ReadAll).

   An item is one persisted membership: the group (tbtc: wallet) it belongs to, the member index
   (= the file name membership_<m> inside the directory of the group) and an identifier of its
   key material (the marshalled bytes; the driver numbers distinct byte strings).  The storage is
   the content of the handle's "current" directory: at most one item per (group, member).
   Both registries write to the storage first and update their in-memory map afterwards; a
   restart rebuilds the map from ReadAll.  Storage calls can be made to fail, or the process to
   crash right before / right after a storage call ([fault]); a crash is followed by a restart. *)
From Coq Require Import ZArith NArith List Bool.
From KV Require Import Common.Verdict.
Import ListNotations.
Open Scope N_scope.

Record item := It { it_g : N; it_m : N; it_k : N }.
Definition item_eqb (a b : item) : bool :=
  N.eqb (it_g a) (it_g b) && N.eqb (it_m a) (it_m b) && N.eqb (it_k a) (it_k b).
Definition same_file (a b : item) : bool := N.eqb (it_g a) (it_g b) && N.eqb (it_m a) (it_m b).

(* ---------- storage: persistence.ProtectedHandle, "current" directory ---------- *)
Definition store := list item.
(* Save(data, dir g, file membership_m): create or overwrite the file *)
Definition save (st : store) (it : item) : store :=
  filter (fun x => negb (same_file x it)) st ++ [it].
Definition has_dir (st : store) (g : N) : bool := existsb (fun x => N.eqb (it_g x) g) st.
(* Archive(dir g): move the directory out of "current"; an error if it does not exist *)
Definition archive (st : store) (g : N) : store := filter (fun x => negb (N.eqb (it_g x) g)) st.

(* ---------- the in-memory map: group -> memberships, in insertion order ---------- *)
Definition cache := list (N * list item).
Fixpoint cache_add (c : cache) (it : item) : cache :=
  match c with
  | [] => [(it_g it, [it])]
  | (g, l) :: r => if N.eqb g (it_g it) then (g, l ++ [it]) :: r else (g, l) :: cache_add r it
  end.
Definition cache_del (c : cache) (g : N) : cache := filter (fun e => negb (N.eqb (fst e) g)) c.
Definition cache_has (c : cache) (g : N) : bool := existsb (fun e => N.eqb (fst e) g) c.
(* getSigners / GetGroup *)
Fixpoint cache_get (c : cache) (g : N) : list item :=
  match c with
  | [] => []
  | (g', l) :: r => if N.eqb g' g then l else cache_get r g
  end.
(* loadSigners / LoadExistingGroups: group every readable file by the group of its content *)
Definition load (st : store) : cache := fold_left cache_add st [].

Record state := { s_store : store; s_cache : cache }.
Definition init : state := {| s_store := []; s_cache := [] |}.
Definition restart (s : state) : state := {| s_store := s_store s; s_cache := load (s_store s) |}.

(* ---------- faults at storage calls ---------- *)
Inductive fkind := FFail | FCrashBefore | FCrashAfter.
(* [Fault k n]: the n-th (0-based) storage call of the operation *)
Inductive fault := NoFault | Fault (k : fkind) (n : nat).
Definition fault_at (f : fault) (n : nat) : option fkind :=
  match f with
  | NoFault => None
  | Fault k m => if Nat.eqb m n then Some k else None
  end.

Inductive outcome := OOk | OErr | OCrashed | OBadOracle.
Definition outcome_eqb (a b : outcome) : bool :=
  match a, b with
  | OOk, OOk | OErr, OErr | OCrashed, OCrashed | OBadOracle, OBadOracle => true
  | _, _ => false
  end.

Inductive opk :=
| Register (it : item)                       (* registerSigner / RegisterGroup *)
| ArchiveOne (g : N)                         (* tbtc archiveWallet(pkh of g) *)
| ArchiveStale (stale : list N) (latest : option N) (order : list N)
    (* beacon UnregisterStaleGroups(latest) with the chain calling [stale] stale; [order] is the
       oracle for Go's map iteration: the groups for which storage.archive was called, in order *)
| Restart.

(* what an operation did to the storage (the log "persisted / archived") *)
Inductive effect := Wrote (it : item) | Archived (g : N).

Definition memN (x : N) (l : list N) : bool := existsb (N.eqb x) l.

(* the archive loop: [n] counts the storage calls made so far in this operation.
   Result: store, cache, crashed?, some error?, effects *)
Fixpoint archive_loop (f : fault) (st : store) (c : cache) (gs : list N) (n : nat)
  : store * cache * bool * bool * list effect :=
  match gs with
  | [] => (st, c, false, false, [])
  | g :: r =>
      if negb (cache_has c g) then
        let '(st', c', cr, _, ef) := archive_loop f st c r n in (st', c', cr, true, ef)
      else
      match fault_at f n with
      | Some FCrashBefore => (st, c, true, false, [])
      | Some FCrashAfter =>
          if has_dir st g then (archive st g, c, true, false, [Archived g]) else (st, c, true, false, [])
      | Some FFail =>
          let '(st', c', cr, _, ef) := archive_loop f st c r (S n) in (st', c', cr, true, ef)
      | None =>
          if has_dir st g then
            let '(st', c', cr, er, ef) := archive_loop f (archive st g) (cache_del c g) r (S n) in
            (st', c', cr, er, Archived g :: ef)
          else
            let '(st', c', cr, _, ef) := archive_loop f st c r (S n) in (st', c', cr, true, ef)
      end
  end.

(* beacon: the groups UnregisterStaleGroups calls storage.archive for *)
Definition eligible (c : cache) (stale : list N) (latest : option N) : list N :=
  filter (fun g => memN g stale && negb (match latest with Some l => N.eqb g l | None => false end))
         (map fst c).
Fixpoint nodupb (l : list N) : bool :=
  match l with [] => true | x :: r => negb (memN x r) && nodupb r end.
Definition order_ok (c : cache) (stale : list N) (latest : option N) (order : list N) (f : fault) : bool :=
  let el := eligible c stale latest in
  nodupb order && forallb (fun g => memN g el) order &&
  match f with
  | Fault FCrashBefore n | Fault FCrashAfter n =>
      if (n <? length el)%nat then Nat.eqb (length order) (S n)        (* stopped at the crash *)
      else Nat.eqb (length order) (length el)
  | _ => Nat.eqb (length order) (length el)
  end.

Definition finish (st : store) (c : cache) (crashed err : bool) (ef : list effect)
  : state * outcome * list effect :=
  if crashed then ({| s_store := st; s_cache := load st |}, OCrashed, ef)
  else ({| s_store := st; s_cache := c |}, if err then OErr else OOk, ef).

Definition step (s : state) (o : opk) (f : fault) : state * outcome * list effect :=
  match o with
  | Register it =>
      match fault_at f 0 with
      | Some FFail => (s, OErr, [])
      | Some FCrashBefore => (restart s, OCrashed, [])
      | Some FCrashAfter => (restart {| s_store := save (s_store s) it; s_cache := s_cache s |}, OCrashed, [Wrote it])
      | None => ({| s_store := save (s_store s) it; s_cache := cache_add (s_cache s) it |}, OOk, [Wrote it])
      end
  | ArchiveOne g =>
      let '(st, c, cr, er, ef) := archive_loop f (s_store s) (s_cache s) [g] 0 in finish st c cr er ef
  | ArchiveStale stale latest order =>
      if negb (order_ok (s_cache s) stale latest order f) then (s, OBadOracle, []) else
      let '(st, c, cr, _, ef) := archive_loop f (s_store s) (s_cache s) order 0 in finish st c cr false ef
  | Restart => (restart s, OOk, [])
  end.

(* "persisted and not archived", as a function of the storage log alone *)
Definition apply_effect (p : list item) (e : effect) : list item :=
  match e with Wrote it => save p it | Archived g => archive p g end.
Definition persisted (log : list effect) : list item := fold_left apply_effect log [].

(* ---------- lookups (tbtc) ---------- *)
Section Lookups.
  Variable pkh : N -> N.      (* HASH160 of the compressed wallet public key *)
  Variable wid : N -> N.      (* keccak256 of the wallet public key *)
  Definition list_wallets (c : cache) : list N := map fst c.
  Definition by_pkh (c : cache) (h : N) : option N :=
    option_map fst (find (fun e => N.eqb (pkh (fst e)) h) c).
  Definition by_id (c : cache) (i : N) : option N :=
    option_map fst (find (fun e => N.eqb (wid (fst e)) i) c).
End Lookups.

(* ---------- canonical forms for comparison ---------- *)
Definition item_leb (a b : item) : bool :=
  (it_g a <? it_g b) ||
  (N.eqb (it_g a) (it_g b) &&
   ((it_m a <? it_m b) || (N.eqb (it_m a) (it_m b) && (it_k a <=? it_k b)))).
Fixpoint insert_item (x : item) (l : list item) : list item :=
  match l with
  | [] => [x]
  | y :: r => if item_leb x y then x :: l else y :: insert_item x r
  end.
Definition sort_items (l : list item) : list item := fold_right insert_item [] l.
Fixpoint insertN (x : N) (l : list N) : list N :=
  match l with [] => [x] | y :: r => if x <=? y then x :: l else y :: insertN x r end.
Definition sortN (l : list N) : list N := fold_right insertN [] l.
Fixpoint items_eqb (a b : list item) : bool :=
  match a, b with
  | [], [] => true
  | x :: a', y :: b' => item_eqb x y && items_eqb a' b'
  | _, _ => false
  end.
Fixpoint listN_eqb (a b : list N) : bool :=
  match a, b with
  | [], [] => true
  | x :: a', y :: b' => N.eqb x y && listN_eqb a' b'
  | _, _ => false
  end.
Definition optN_eqb (a b : option N) : bool :=
  match a, b with Some x, Some y => N.eqb x y | None, None => true | _, _ => false end.

(* ---------- cases ---------- *)
(* what the driver sees of one group after an operation *)
Record gsnap := Gs { gs_g : N; gs_items : list item;         (* getSigners / GetGroup, any order *)
                  gs_pkh : option N; gs_id : option N }.  (* tbtc lookups by hash / by ID *)
Record obs := Ob { ob_op : opk; ob_fault : fault; ob_out : outcome;
                ob_list : list N;                          (* getWalletsPublicKeys (beacon: groups with members) *)
                ob_groups : list gsnap;                    (* one per group of the universe *)
                ob_store : list item }.                    (* dump of the storage's current directory *)
Record case := { c_tbtc : bool; c_universe : list N; c_hist : list obs }.

Definition restarted (o : obs) : bool :=
  match ob_op o, ob_out o with
  | Restart, _ | _, OCrashed => true
  | _, _ => false
  end.
Definition items_of (g : N) (l : list item) : list item :=
  sort_items (filter (fun x => N.eqb (it_g x) g) l).
Definition subset_items (a b : list item) : bool :=
  forallb (fun x => existsb (item_eqb x) b) a.

(* the three lookups and the list agree on every group of the universe, with the identity of
   the wallet they return *)
Definition lookups_ok (tbtc : bool) (o : obs) : bool :=
  forallb (fun g =>
    let present := negb (match gs_items g with [] => true | _ => false end) in
    Bool.eqb (memN (gs_g g) (ob_list o)) present &&
    (negb tbtc ||
     (optN_eqb (gs_pkh g) (if present then Some (gs_g g) else None) &&
      optN_eqb (gs_id g) (if present then Some (gs_g g) else None))) &&
    forallb (fun x => N.eqb (it_g x) (gs_g g)) (gs_items g)) (ob_groups o)
  && forallb (fun w => existsb (fun g => N.eqb (gs_g g) w) (ob_groups o)) (ob_list o).

(* the registry against the storage: after a restart exactly the stored memberships, with the same
   key material; while running, at least those and the same set of groups *)
Definition registry_vs_store (o : obs) : bool :=
  forallb (fun g =>
    let stored := items_of (gs_g g) (ob_store o) in
    if restarted o then items_eqb (sort_items (gs_items g)) stored
    else subset_items stored (gs_items g) &&
         Bool.eqb (match stored with [] => true | _ => false end)
                  (match gs_items g with [] => true | _ => false end)) (ob_groups o).

(* the storage against the history: a successful (or crashed-after-storage) registration is
   persisted, a successful archival removes exactly the directory of the group, nothing else
   changes the storage *)
Definition removed_dirs (before after : list item) : list N :=
  sortN (nodup N.eq_dec (map it_g (filter (fun x => negb (existsb (item_eqb x) after)) before))).
Definition store_step_ok (tbtc : bool) (before : list item) (o : obs) : bool :=
  let after := ob_store o in
  match ob_op o with
  | Register it =>
      match ob_out o, ob_fault o with
      | OOk, _ | OCrashed, Fault FCrashAfter _ => items_eqb (sort_items after) (sort_items (save before it))
      | _, _ => items_eqb (sort_items after) (sort_items before)
      end
  | Restart => items_eqb (sort_items after) (sort_items before)
  | ArchiveOne g =>
      let gone := match ob_out o, ob_fault o with
                  | OOk, _ | OCrashed, Fault FCrashAfter _ => true
                  | _, _ => false
                  end in
      items_eqb (sort_items after) (sort_items (if gone then archive before g else before))
  | ArchiveStale stale latest order =>
      let r := removed_dirs before after in
      items_eqb (sort_items after) (sort_items (filter (fun x => negb (memN (it_g x) r)) before)) &&
      forallb (fun g => memN g stale && negb (match latest with Some l => N.eqb g l | None => false end)) r &&
      (* without faults every stale group of the registry is archived *)
      match ob_fault o with
      | NoFault => forallb (fun g => negb (memN g stale) || (match latest with Some l => N.eqb g l | None => false end))
                           (map it_g after)
      | _ => true
      end
  end.

Fixpoint hist_ok (tbtc : bool) (before : list item) (h : list obs) : bool :=
  match h with
  | [] => true
  | o :: r =>
      negb (outcome_eqb (ob_out o) OBadOracle) &&
      lookups_ok tbtc o && registry_vs_store o && store_step_ok tbtc before o &&
      hist_ok tbtc (ob_store o) r
  end.
Definition spec_ok (c : case) : bool := hist_ok (c_tbtc c) [] (c_hist c).

(* ---------- the model's own observation of a state ---------- *)
Definition idN (x : N) : N := x.
Definition snap_model (tbtc : bool) (universe : list N) (s : state) : list N * list gsnap :=
  (sortN (list_wallets (s_cache s)),
   map (fun g => {| gs_g := g; gs_items := sort_items (cache_get (s_cache s) g);
                    gs_pkh := if tbtc then by_pkh idN (s_cache s) g else None;
                    gs_id := if tbtc then by_id idN (s_cache s) g else None |}) universe).

Definition gsnap_eqb (a b : gsnap) : bool :=
  N.eqb (gs_g a) (gs_g b) && items_eqb (sort_items (gs_items a)) (gs_items b) &&
  optN_eqb (gs_pkh a) (gs_pkh b) && optN_eqb (gs_id a) (gs_id b).
Fixpoint gsnaps_eqb (a b : list gsnap) : bool :=
  match a, b with
  | [], [] => true
  | x :: a', y :: b' => gsnap_eqb x y && gsnaps_eqb a' b'
  | _, _ => false
  end.

Fixpoint agree_hist (tbtc : bool) (universe : list N) (s : state) (h : list obs) : bool :=
  match h with
  | [] => true
  | o :: r =>
      let '(s', out, _) := step s (ob_op o) (ob_fault o) in
      let '(l, gs) := snap_model tbtc universe s' in
      outcome_eqb out (ob_out o) && listN_eqb (sortN (ob_list o)) l && gsnaps_eqb (ob_groups o) gs &&
      items_eqb (sort_items (ob_store o)) (sort_items (s_store s')) &&
      agree_hist tbtc universe s' r
  end.

Definition op_wf (tbtc : bool) (o : opk) : bool :=
  match o with
  | ArchiveOne _ => tbtc
  | ArchiveStale _ _ _ => negb tbtc
  | _ => true
  end.
Definition well_formed (c : case) : bool :=
  forallb (fun o => op_wf (c_tbtc c) (ob_op o) &&
                    listN_eqb (map gs_g (ob_groups o)) (c_universe c)) (c_hist c).

Definition judge (c : case) : verdict :=
  if negb (well_formed c) then BadCase else
  decide (spec_ok c) (agree_hist (c_tbtc c) (c_universe c) init (c_hist c)).

(* what --replay prints: outcome, wallet list, per-group items and the storage after every step *)
Fixpoint explain_from (tbtc : bool) (universe : list N) (s : state) (h : list obs)
  : list (outcome * list N * list gsnap * list item) :=
  match h with
  | [] => []
  | o :: r =>
      let '(s', out, _) := step s (ob_op o) (ob_fault o) in
      let '(l, gs) := snap_model tbtc universe s' in
      (out, l, gs, sort_items (s_store s')) :: explain_from tbtc universe s' r
  end.
Definition explain (c : case) := explain_from (c_tbtc c) (c_universe c) init (c_hist c).
