(* C05 — executable model of the tail of pkg/beacon/dkg/dkg.go ExecuteDKG, as it is written:
   waitForDkgResultEvent, decideMemberFate, resolveGroupOperators and their composition.

   Member indexes are uint8 values (N below 256); keys are byte strings (lists of N);
   operator addresses are N identifiers (the driver numbers the distinct addresses by first
   occurrence, 0 = an address that is not among the selected ones).  The chain is an external
   collaborator: [hist] says whether a DKG result event is ever emitted and in which block,
   the fake block counter of the driver makes the event available to the select statement when
   its block is <= the timeout block and fires the timeout when there is no event or its block
   is >= the timeout block; when both are ready Go's select picks either: oracle [pick_event]. *)
From Coq Require Import ZArith NArith List Bool Lia.
From KV Require Import Common.Verdict Gen.Consts_C05.
Import ListNotations.
Open Scope Z_scope.

Definition two64 : Z := 18446744073709551616.
Definition u64 (z : Z) : Z := z mod two64.
Definition len {A} (l : list A) : Z := Z.of_nat (length l).
Definition memN (x : N) (l : list N) : bool := existsb (N.eqb x) l.

Fixpoint bytes_eqb (a b : list N) : bool :=
  match a, b with
  | [], [] => true
  | x :: a', y :: b' => N.eqb x y && bytes_eqb a' b'
  | _, _ => false
  end.

(* beaconchain.Config: GroupSize and HonestThreshold are Go ints, the step is a uint64 *)
Record cfg := { group_size : Z; honest_threshold : Z; step : Z }.

(* event.DKGResultSubmission, the fields the code reads *)
Record event := { ev_key : list N; ev_misbehaved : list N }.
Inductive hist := NoEvent | EventAt (b : Z) (e : event).

(* ---------- waitForDkgResultEvent ---------- *)
(* dkgResult.PrePublicationBlocks(), from the constants translator *)
Definition pre_publication_blocks : Z :=
  resultSigningStateDelayBlocks + resultSigningStateActiveBlocks.
(* uint64 arithmetic, uint64(config.GroupSize) of a Go int *)
Definition timeout_block (start : Z) (c : cfg) : Z :=
  u64 (u64 (start + pre_publication_blocks) + u64 (u64 (group_size c) * step c)).

Inductive wait_res := WEvent (e : event) | WTimeout | WErr.

Definition wait_for_event (start : Z) (c : cfg) (waiter_err : bool) (h : hist)
           (pick_event : bool) : wait_res :=
  if waiter_err then WErr else
  match h with
  | NoEvent => WTimeout
  | EventAt b e =>
      let t := timeout_block start c in
      if b <? t then WEvent e else
      if t <? b then WTimeout else
      if pick_event then WEvent e else WTimeout
  end.

(* ---------- decideMemberFate ---------- *)
Inductive err_kind := EWaiter | ETimeout | ENilKey | EKeyMismatch | EMisbehaved | EOther.
Inductive fate := FateOk (operating : list N) | FateErr (k : err_kind) | FatePanic.

(* group.NewGroup(_, size).MemberIndexes(): MemberIndex(i+1) for i < size, a uint8 *)
Definition members (size : nat) : list N :=
  map (fun i => (N.of_nat i mod 256)%N) (seq 1 size).

Definition non_misbehaved (e : event) (ms : list N) : list N :=
  filter (fun m => negb (memN m (ev_misbehaved e))) ms.

Definition decide_fate (me : N) (local_key : option (list N)) (size : nat) (w : wait_res) : fate :=
  match w with
  | WErr => FateErr EWaiter
  | WTimeout => FateErr ETimeout
  | WEvent e =>
      match local_key with
      | None => FateErr ENilKey
      | Some k =>
          if negb (bytes_eqb k (ev_key e)) then FateErr EKeyMismatch else
          if memN me (ev_misbehaved e) then FateErr EMisbehaved else
          FateOk (non_misbehaved e (members size))
      end
  end.

(* ---------- resolveGroupOperators ---------- *)
Inductive rres := ROk (l : list N) | RErrInvalid | RPanic.

Fixpoint insert (x : N) (l : list N) : list N :=
  match l with
  | [] => [x]
  | y :: t => if (x <=? y)%N then x :: l else y :: insert x t
  end.
(* sort.Slice with < on uint8 values: equal elements are indistinguishable, so every correct
   sort yields this list *)
Definition sort_ids (l : list N) : list N := fold_right insert [] l.

(* selectedOperators[operatingMemberID-1] with the subtraction in uint8: 0 wraps to 255;
   an index beyond the slice panics *)
Definition index_of (id : N) : nat := N.to_nat ((id + 255) mod 256)%N.
Fixpoint lookup_all (selected : list N) (ids : list N) : option (list N) :=
  match ids with
  | [] => Some []
  | id :: t =>
      match nth_error selected (index_of id) with
      | None => None
      | Some a => option_map (cons a) (lookup_all selected t)
      end
  end.

Definition sizes_consistent (selected operating : list N) (c : cfg) : bool :=
  (len selected =? group_size c) && negb (len operating <? honest_threshold c).

Definition resolve (selected operating : list N) (c : cfg) : rres :=
  if negb (sizes_consistent selected operating c) then RErrInvalid else
  match lookup_all selected (sort_ids operating) with
  | Some l => ROk l
  | None => RPanic
  end.

(* ---------- the tail of ExecuteDKG ---------- *)
(* Group.OperatingMemberIndexes(): the members not marked inactive or disqualified locally *)
Definition local_operating (size : nat) (marked : list N) : list N :=
  filter (fun m => negb (memN m marked)) (members size).

Inductive tail_res :=
  | TSigner (group_operators : list N)
  | TErrFate (k : err_kind)
  | TErrResolve
  | TPanic.

Definition execute_tail (me : N) (local_key : option (list N)) (size : nat) (marked : list N)
           (publish_ok : bool) (w : wait_res) (selected : list N) (c : cfg) : tail_res :=
  let continue operating :=
    match resolve selected operating c with
    | ROk l => TSigner l
    | RErrInvalid => TErrResolve
    | RPanic => TPanic
    end in
  if publish_ok then continue (local_operating size marked) else
  match decide_fate me local_key size w with
  | FateOk operating => continue operating
  | FateErr k => TErrFate k
  | FatePanic => TPanic
  end.

(* ---------- the property in executable form, evaluated on observed outputs ---------- *)
Fixpoint listN_eqb (a b : list N) : bool :=
  match a, b with
  | [], [] => true
  | x :: a', y :: b' => N.eqb x y && listN_eqb a' b'
  | _, _ => false
  end.

(* the member stays (observed operating list [ops]) only as the chain decided: there is an
   accepted result, it carries the member's own group public key, does not list the member as
   misbehaving, and [ops] are exactly the non-misbehaving members in index order *)
Definition stays_ok (me : N) (local_key : option (list N)) (size : nat) (h : hist)
           (ops : list N) : bool :=
  match h, local_key with
  | EventAt _ e, Some k =>
      bytes_eqb k (ev_key e) && negb (memN me (ev_misbehaved e))
      && listN_eqb ops (non_misbehaved e (members size))
  | _, _ => false
  end.

Definition spec_fate (me : N) (local_key : option (list N)) (size : nat) (h : hist)
           (o : fate) : bool :=
  match o with
  | FateOk ops => stays_ok me local_key size h ops
  | FateErr _ => true
  | FatePanic => false
  end.

Definition in_range (selected : list N) (id : N) : bool :=
  (1 <=? id)%N && (id <=? 255)%N && (Z.of_N id <=? len selected).

(* selected[id-1] for every id of the sorted list *)
Definition pick (selected : list N) (ids : list N) : list N :=
  map (fun id => nth (N.to_nat id - 1) selected 0%N) ids.

Definition spec_resolve (selected operating : list N) (c : cfg) (o : rres) : bool :=
  match o with
  | ROk l =>
      sizes_consistent selected operating c
      && (negb (forallb (in_range selected) operating)
          || listN_eqb l (pick selected (sort_ids operating)))
  | RErrInvalid => negb (sizes_consistent selected operating c)
  | RPanic => negb (forallb (in_range selected) operating)
  end.

Definition spec_tail (me : N) (local_key : option (list N)) (size : nat) (marked : list N)
           (publish_ok : bool) (h : hist) (selected : list N) (c : cfg) (o : tail_res) : bool :=
  match o with
  | TSigner l =>
      sizes_consistent selected l c &&
      if publish_ok then listN_eqb l (pick selected (local_operating size marked))
      else
        match h, local_key with
        | EventAt _ e, Some k =>
            bytes_eqb k (ev_key e) && negb (memN me (ev_misbehaved e))
            && listN_eqb l (pick selected (non_misbehaved e (members size)))
        | _, _ => false
        end
  | TErrFate _ => negb publish_ok
  | TErrResolve => true
  | TPanic => false
  end.

(* ---------- cases ---------- *)
Record fate_in := { f_me : N; f_key : option (list N); f_size : nat; f_cfg : cfg;
                    f_start : Z; f_werr : bool; f_hist : hist }.

Definition err_eqb (a b : err_kind) : bool :=
  match a, b with
  | EWaiter, EWaiter | ETimeout, ETimeout | ENilKey, ENilKey | EKeyMismatch, EKeyMismatch
  | EMisbehaved, EMisbehaved | EOther, EOther => true
  | _, _ => false
  end.
Definition fate_eqb (a b : fate) : bool :=
  match a, b with
  | FateOk x, FateOk y => listN_eqb x y
  | FateErr x, FateErr y => err_eqb x y
  | FatePanic, FatePanic => true
  | _, _ => false
  end.
Definition rres_eqb (a b : rres) : bool :=
  match a, b with
  | ROk x, ROk y => listN_eqb x y
  | RErrInvalid, RErrInvalid | RPanic, RPanic => true
  | _, _ => false
  end.
Definition tail_eqb (a b : tail_res) : bool :=
  match a, b with
  | TSigner x, TSigner y => listN_eqb x y
  | TErrFate x, TErrFate y => err_eqb x y
  | TErrResolve, TErrResolve | TPanic, TPanic => true
  | _, _ => false
  end.

Inductive case :=
  (* decideMemberFate run several times on the same input; every run reports the block height
     it asked the block counter to wait for, and its result *)
  | CFate (i : fate_in) (obs : list (option Z * fate))
  | CResolve (selected operating : list N) (c : cfg) (obs : rres)
  (* the tail of ExecuteDKG, composed by the driver exactly as ExecuteDKG composes it *)
  | CTail (i : fate_in) (marked : list N) (publish_ok : bool) (selected : list N)
          (obs : list tail_res).

Definition waits (i : fate_in) : list wait_res :=
  [wait_for_event (f_start i) (f_cfg i) (f_werr i) (f_hist i) true;
   wait_for_event (f_start i) (f_cfg i) (f_werr i) (f_hist i) false].
Definition model_fates (i : fate_in) : list fate :=
  map (decide_fate (f_me i) (f_key i) (f_size i)) (waits i).
Definition model_tails (i : fate_in) (marked : list N) (publish_ok : bool) (selected : list N)
  : list tail_res :=
  map (fun w => execute_tail (f_me i) (f_key i) (f_size i) marked publish_ok w selected (f_cfg i))
      (waits i).

Definition optZ_eqb (a b : option Z) : bool :=
  match a, b with
  | Some x, Some y => x =? y
  | None, None => true
  | _, _ => false
  end.

Definition bytes_ok (l : list N) : bool := forallb (fun x => (x <? 256)%N) l.
Definition hist_ok (h : hist) : bool :=
  match h with
  | NoEvent => true
  | EventAt b e => (0 <=? b) && (b <? two64) && bytes_ok (ev_key e) && bytes_ok (ev_misbehaved e)
  end.
Definition fate_in_ok (i : fate_in) : bool :=
  (f_me i <? 256)%N && (0 <=? f_start i) && (f_start i <? two64)
  && (0 <=? step (f_cfg i)) && (step (f_cfg i) <? two64) && hist_ok (f_hist i)
  && match f_key i with Some k => bytes_ok k | None => true end.

Definition judge (c : case) : verdict :=
  match c with
  | CFate i obs =>
      if negb (fate_in_ok i && negb (Nat.eqb (length obs) 0)) then BadCase else
      decide (forallb (fun o => spec_fate (f_me i) (f_key i) (f_size i) (f_hist i) (snd o)) obs)
             (forallb (fun o => optZ_eqb (fst o) (Some (timeout_block (f_start i) (f_cfg i)))
                                && existsb (fate_eqb (snd o)) (model_fates i)) obs)
  | CResolve selected operating c obs =>
      if negb (bytes_ok operating) then BadCase else
      decide (spec_resolve selected operating c obs)
             (rres_eqb obs (resolve selected operating c))
  | CTail i marked publish_ok selected obs =>
      (* ExecuteDKG runs GJKR with beaconConfig.GroupSize members *)
      if negb (fate_in_ok i && bytes_ok marked && negb (Nat.eqb (length obs) 0)
               && (Z.of_nat (f_size i) =? group_size (f_cfg i))
               && (group_size (f_cfg i) <=? 255)) then BadCase else
      decide (forallb (spec_tail (f_me i) (f_key i) (f_size i) marked publish_ok (f_hist i)
                                 selected (f_cfg i)) obs)
             (forallb (fun o => existsb (tail_eqb o) (model_tails i marked publish_ok selected)) obs)
  end.

(* what --replay prints: the timeout block and the model's possible outputs *)
Inductive explanation :=
  | XFate (timeout : Z) (outs : list fate)
  | XResolve (out : rres)
  | XTail (timeout : Z) (outs : list tail_res).
Definition explain (c : case) : explanation :=
  match c with
  | CFate i _ => XFate (timeout_block (f_start i) (f_cfg i)) (model_fates i)
  | CResolve selected operating c _ => XResolve (resolve selected operating c)
  | CTail i marked publish_ok selected _ =>
      XTail (timeout_block (f_start i) (f_cfg i)) (model_tails i marked publish_ok selected)
  end.
