(* C12 — executable model of the message admission rules of keep-core, as written:
     pkg/protocol/group/membership_validator.go  IsValidMembership
     pkg/protocol/group/group.go                 IsOperating
     shouldAcceptMessage in gjkr / beacon result / tecdsa dkg (2x) / tecdsa signing / inactivity
     the Receive methods calling it (27 call sites)
     announcer.Announce, coordinationExecutor.executeFollowerRoutine,
     signingDoneCheck.isValidDoneMessage (3 direct IsValidMembership call sites; the done check
     as repaired by /repo commit 85c6ed7 "fix: tbtc signing done check must count confirmations
     only from members included in the attempt").
   Member indexes, operator addresses, keys, session ids ... are N identifiers.  The function
   from a network public key to a chain address (chain.Signing.PublicKeyBytesToAddress) is an
   oracle: a Section variable.  No proofs here. *)
From Coq Require Import ZArith NArith List Bool.
From KV Require Import Common.Verdict.
Import ListNotations.
Open Scope N_scope.

Definition memN (x : N) (l : list N) : bool := existsb (N.eqb x) l.

(* ---------- MembershipValidator ---------- *)
(* [index := int(memberID - 1)] on a uint8: 0 wraps to 255 *)
Definition wrap_pred (idx : N) : N := (idx + 255) mod 256.

(* NewMembershipValidator: address -> positions (0-based, ascending) *)
Fixpoint positions_from (a : N) (ops : list N) (i : N) : list N :=
  match ops with
  | [] => []
  | o :: t => if o =? a then i :: positions_from a t (i + 1) else positions_from a t (i + 1)
  end.
Definition positions (a : N) (ops : list N) : list N := positions_from a ops 0.

(* the [members] field: operator address -> positions, as NewMembershipValidator fills it
   (one append per seat, in seat order); an association list stands for the Go map *)
Definition members := list (N * list N).
Fixpoint members_append (a p : N) (m : members) : members :=
  match m with
  | [] => [(a, [p])]                                     (* members[a] = []int{position} *)
  | (b, ps) :: t => if b =? a then (b, ps ++ [p]) :: t   (* append(positions, position) *)
                    else (b, ps) :: members_append a p t
  end.
Fixpoint members_from (ops : list N) (i : N) (m : members) : members :=
  match ops with
  | [] => m
  | o :: t => members_from t (i + 1) (members_append o i m)
  end.
Definition new_validator (ops : list N) : members := members_from ops 0 [].
Fixpoint members_get (a : N) (m : members) : option (list N) :=
  match m with
  | [] => None
  | (b, ps) :: t => if b =? a then Some ps else members_get a t
  end.

(* ---------- group.Group ---------- *)
Record grp := { g_size : N; g_ia : list N; g_dq : list N }.
(* NewGroup: memberIndexes[i] = MemberIndex(i+1), a uint8 *)
Definition member_indexes (size : N) : list N :=
  map (fun i => (N.of_nat i + 1) mod 256) (seq 0 (N.to_nat size)).
Definition is_operating (g : grp) (idx : N) : bool :=
  memN idx (member_indexes (g_size g)) && negb (memN idx (g_ia g)) && negb (memN idx (g_dq g)).

(* ---------- the protocol steps = the call sites ---------- *)
Inductive step :=
  (* pkg/beacon/gjkr/states.go: 7 calls in 6 Receive methods *)
  | GjkrEphemeralKey | GjkrPeerShares | GjkrCommitments | GjkrSharesAccusations
  | GjkrSharePoints | GjkrPointsAccusations | GjkrKeyReveal
  (* pkg/beacon/dkg/result/states.go *)
  | BeaconResultSigning
  (* pkg/tecdsa/dkg/states.go: 6 key-generation states + resultSigningState *)
  | TdkgEphemeralKey | TdkgSymmetricKey | TdkgRoundOne | TdkgRoundTwo | TdkgRoundThree
  | TdkgFinalization | TdkgResultSigning
  (* pkg/tecdsa/signing/states.go: 11 states *)
  | TsigEphemeralKey | TsigSymmetricKey | TsigRoundOne | TsigRoundTwo | TsigRoundThree
  | TsigRoundFour | TsigRoundFive | TsigRoundSix | TsigRoundSeven | TsigRoundEight
  | TsigRoundNine
  (* pkg/protocol/inactivity/states.go *)
  | InactivityClaimSigning
  (* direct IsValidMembership calls *)
  | AnnouncerAnnounce | CoordinationFollower | SigningDoneCheck.

Inductive kind := KPlain | KKeyed | KAnnounce | KFollower | KDone.
Definition kind_of (s : step) : kind :=
  match s with
  | BeaconResultSigning | TdkgResultSigning | InactivityClaimSigning => KKeyed
  | AnnouncerAnnounce => KAnnounce
  | CoordinationFollower => KFollower
  | SigningDoneCheck => KDone
  | _ => KPlain
  end.

(* what the step-specific part of a message carries *)
Inductive payload :=
  | PPlain (session : N)
  | PKeyed (session pubkey : N)                 (* pubkey: the key named inside the payload *)
  | PAnnounce (protocol session : N)
  | PCoord (block wallet action : N)
  | PDone (message attempt endblock : N) (has_sig : bool).

Record msg := { m_idx : N;         (* claimed member index (uint8) *)
                m_key : N;         (* network public key of the sender (pinned by the network layer) *)
                m_pay : payload }.

(* the receiver *)
Record ctx := { x_self : list N;   (* own member index(es); several only for the coordination follower *)
                x_ops : list N;    (* operator address of every seat, seat order *)
                x_grp : grp;       (* only read by the 27 shouldAcceptMessage steps *)
                x_session : N;     (* session id / coordination block / attempt number *)
                x_protocol : N;    (* announcer protocol id / wallet / signed message *)
                x_leader : N;      (* follower: address of the leader *)
                x_allowed : list N;(* follower: allowed actions *)
                x_timeout : N;     (* done check: attempt timeout block *)
                x_done : list N;   (* done check: members whose done message is already stored *)
                x_attempt : list N }. (* done check: members included in the signing attempt *)

Inductive outcome := Ignored | Stored | FaultImpersonation | FaultMistake | Proposal | Malformed.

Section Admission.
  (* chain.Signing.PublicKeyBytesToAddress *)
  Variable addr_of : N -> N.

  (* MembershipValidator.IsValidMembership *)
  Definition valid_membership (ops : list N) (idx key : N) : bool :=
    match positions (addr_of key) ops with
    | [] => false                                         (* !isInGroup *)
    | ps => existsb (N.eqb (wrap_pred idx)) ps
    end.

  (* the validator as the OBJECT every protocol step shares between the member goroutines of
     one operator: the members map is built once by NewMembershipValidator; a call reads the
     map and the oracle and leaves the object as it was (no field is written) *)
  Definition validator_call (mv : members) (idx key : N) : members * bool :=
    (mv, match members_get (addr_of key) mv with
         | None => false                                    (* !isInGroup *)
         | Some ps => existsb (N.eqb (wrap_pred idx)) ps
         end).
  (* a history of calls (claimed index, sender key) on one validator: the answers in order *)
  Fixpoint validator_run (mv : members) (calls : list (N * N)) : list bool :=
    match calls with
    | [] => []
    | (idx, key) :: t =>
        let (mv', b) := validator_call mv idx key in b :: validator_run mv' t
    end.

  (* shouldAcceptMessage: the six definitions are textually the same function *)
  Definition should_accept (self : N) (g : grp) (ops : list N) (idx key : N) : bool :=
    let is_from_self := idx =? self in
    let is_valid := valid_membership ops idx key in
    let is_accepted := is_operating g idx in
    negb is_from_self && is_valid && is_accepted.

  Definition self1 (x : ctx) : N := hd 0 (x_self x).

  (* leaderID := membersByOperator(leader)[0] *)
  Definition leader_id (x : ctx) : option N :=
    match positions (x_leader x) (x_ops x) with
    | [] => None
    | p :: _ => Some ((p + 1) mod 256)
    end.

  Definition admission (s : step) (x : ctx) (m : msg) : outcome :=
    match kind_of s, m_pay m with
    | KPlain, PPlain session =>
        if should_accept (self1 x) (x_grp x) (x_ops x) (m_idx m) (m_key m)
           && (x_session x =? session)
        then Stored else Ignored
    | KKeyed, PKeyed session pubkey =>
        if should_accept (self1 x) (x_grp x) (x_ops x) (m_idx m) (m_key m)
           && (pubkey =? m_key m)                       (* isValidKeyUsed *)
           && (x_session x =? session)
        then Stored else Ignored
    | KAnnounce, PAnnounce protocol session =>
        if m_idx m =? self1 x then Ignored
        else if negb (valid_membership (x_ops x) (m_idx m) (m_key m)) then Ignored
        else if negb (protocol =? x_protocol x) then Ignored
        else if negb (session =? x_session x) then Ignored
        else Stored
    | KFollower, PCoord block wallet action =>
        match leader_id x with
        | None => Malformed                              (* [0] of an empty slice *)
        | Some lid =>
            if memN (m_idx m) (x_self x) then Ignored
            else if negb (valid_membership (x_ops x) (m_idx m) (m_key m)) then Ignored
            else if negb (x_session x =? block) then Ignored
            else if negb (x_protocol x =? wallet) then Ignored
            else if negb (lid =? m_idx m) then FaultImpersonation
            else if negb (memN action (x_allowed x)) then FaultMistake
            else Proposal
        end
    | KDone, PDone message attempt endblock has_sig =>
        if memN (m_idx m) (x_done x) then Ignored
        else if negb (memN (m_idx m) (x_attempt x)) then Ignored
        else if negb (valid_membership (x_ops x) (m_idx m) (m_key m)) then Ignored
        else if negb (message =? x_protocol x) then Ignored
        else if negb (attempt =? x_session x) then Ignored
        else if x_timeout x <? endblock then Ignored
        else if negb has_sig then Ignored
        else Stored
    | _, _ => Malformed
    end.

  (* a whole history of arrivals at one step.  Only the done check keeps state between messages
     (doneSigners); the follower routine returns at the first proposal. *)
  Definition after (s : step) (x : ctx) (m : msg) (o : outcome) : ctx :=
    match kind_of s, o with
    | KDone, Stored =>
        {| x_self := x_self x; x_ops := x_ops x; x_grp := x_grp x; x_session := x_session x;
           x_protocol := x_protocol x; x_leader := x_leader x; x_allowed := x_allowed x;
           x_timeout := x_timeout x; x_done := m_idx m :: x_done x;
           x_attempt := x_attempt x |}
    | _, _ => x
    end.
  Fixpoint run (s : step) (x : ctx) (msgs : list msg) : list (msg * outcome) :=
    match msgs with
    | [] => []
    | m :: t =>
        let o := admission s x m in
        match o with
        | Proposal => [(m, o)]
        | _ => (m, o) :: run s (after s x m o) t
        end
    end.
End Admission.

(* ---------- the property ---------- *)
(* seat [idx] (1-based) of the group belongs to address [a] *)
Definition holds_index (ops : list N) (idx a : N) : Prop :=
  1 <= idx /\ nth_error ops (N.to_nat (idx - 1)) = Some a.

(* ---------- ... in executable form ---------- *)
Definition holds_index_b (ops : list N) (idx a : N) : bool :=
  (1 <=? idx) &&
  match nth_error ops (N.to_nat (idx - 1)) with
  | Some o => o =? a
  | None => false
  end.

(* where the code documents that own messages / excluded members are ignored *)
Definition documents_self (s : step) : bool :=
  match kind_of s with KDone => false | _ => true end.
Definition documents_excluded (s : step) : bool :=
  match kind_of s with KPlain | KKeyed | KDone => true | _ => false end.
(* excluded: marked inactive / disqualified / not a member index (the 27 shouldAcceptMessage
   steps); not included in the signing attempt (done check) *)
Definition excluded_at (s : step) (x : ctx) (idx : N) : bool :=
  match kind_of s with
  | KPlain | KKeyed => negb (is_operating (x_grp x) idx)
  | KDone => negb (memN idx (x_attempt x))
  | _ => false
  end.

(* the message belongs to the receiver's session (session id; announcer: and protocol;
   follower: coordination block and wallet; done check: attempt and message) *)
Definition same_session (x : ctx) (m : msg) : bool :=
  match m_pay m with
  | PPlain session | PKeyed session _ => x_session x =? session
  | PAnnounce protocol session => (protocol =? x_protocol x) && (session =? x_session x)
  | PCoord block wallet _ => (x_session x =? block) && (x_protocol x =? wallet)
  | PDone message attempt _ _ => (message =? x_protocol x) && (attempt =? x_session x)
  end.

(* the receiver stored the message or acted on it (Malformed: the code panics / ill-typed case) *)
Definition acted (o : outcome) : bool :=
  match o with Ignored | Malformed => false | _ => true end.

Definition outcome_eqb (a b : outcome) : bool :=
  match a, b with
  | Ignored, Ignored | Stored, Stored | FaultImpersonation, FaultImpersonation
  | FaultMistake, FaultMistake | Proposal, Proposal | Malformed, Malformed => true
  | _, _ => false
  end.

(* [a] = address of the sender's network key *)
Definition spec_ok (s : step) (x : ctx) (m : msg) (a : N) (o : outcome) : bool :=
  match o with
  | Ignored => true
  | Malformed => false
  | _ =>
      holds_index_b (x_ops x) (m_idx m) a
      && (negb (documents_self s) || negb (memN (m_idx m) (x_self x)))
      && same_session x m
      && negb (excluded_at s x (m_idx m))
  end.

(* ---------- cases of the correspondence check ---------- *)
Record msg_case := { c_step : step; c_ctx : ctx; c_msg : msg;
                     c_addr : N;          (* PublicKeyBytesToAddress(sender key), by the real signer *)
                     c_obs : outcome }.   (* what the implementation did with the message *)
(* --- histories on ONE shared MembershipValidator ("the validator has no memory") ---
   one entry = one (claimed index, sender key) pair validated [v_acc + v_rej] times on the
   shared validator: [v_acc] answers true, [v_rej] answers false.  Sequential histories: one call
   per entry, in call order.  Concurrent histories: one entry per goroutine, all goroutines
   hammering the same validator at the same time. *)
Record vcall := { v_idx : N; v_key : N; v_acc : N; v_rej : N }.
Record hist_case := { h_conc : bool;
                      h_ops : list N;          (* operator address of every seat *)
                      h_tab : list (N * N);    (* sender key -> address, by the real signer on a
                                                  private copy of the key *)
                      h_calls : list vcall }.
(* --- a history of messages delivered to ONE receiving state (with its one validator) --- *)
Record run_case := { r_step : step; r_ctx : ctx; r_tab : list (N * N);
                     r_msgs : list (msg * outcome) }.   (* message, what the state did with it *)

Definition tab_addr (tab : list (N * N)) (k : N) : N :=
  match find (fun p => fst p =? k) tab with Some p => snd p | None => 0 end.
Definition tab_has (tab : list (N * N)) (k : N) : bool := existsb (fun p => fst p =? k) tab.

(* the model's answers for a history: the validator object run over the calls *)
Definition hist_model (h : hist_case) : list bool :=
  validator_run (tab_addr (h_tab h)) (new_validator (h_ops h))
                (map (fun c => (v_idx c, v_key c)) (h_calls h)).
(* no call ever accepts an index whose seat is not held by the operator of the key *)
Definition hist_spec_ok (ops : list N) (tab : list (N * N)) (calls : list vcall) : bool :=
  forallb (fun c => (v_acc c =? 0) || holds_index_b ops (v_idx c) (tab_addr tab (v_key c))) calls.
(* every single answer is the model's answer *)
Fixpoint hist_agree (answers : list bool) (calls : list vcall) : bool :=
  match answers, calls with
  | [], [] => true
  | b :: ta, c :: tc => (if b then v_rej c =? 0 else v_acc c =? 0) && hist_agree ta tc
  | _, _ => false
  end.
Definition hist_well_formed (h : hist_case) : bool :=
  (length (h_ops h) <=? 255)%nat
  && match h_calls h with [] => false | _ => true end
  && forallb (fun c => (v_idx c <? 256) && tab_has (h_tab h) (v_key c)
                       && (1 <=? v_acc c + v_rej c)
                       && (h_conc h || (v_acc c + v_rej c =? 1))) (h_calls h).

Definition run_model (r : run_case) : list (msg * outcome) :=
  run (tab_addr (r_tab r)) (r_step r) (r_ctx r) (map fst (r_msgs r)).
Definition run_spec_ok (r : run_case) : bool :=
  forallb (fun mo => spec_ok (r_step r) (r_ctx r) (fst mo) (tab_addr (r_tab r) (m_key (fst mo))) (snd mo))
          (r_msgs r).
Fixpoint run_agree (model obs : list (msg * outcome)) : bool :=
  match model, obs with
  | [], [] => true
  | (_, o) :: tm, (_, o') :: to => outcome_eqb o o' && run_agree tm to
  | _, _ => false
  end.
Definition run_well_formed (r : run_case) : bool :=
  (length (x_ops (r_ctx r)) <=? 255)%nat
  && match x_self (r_ctx r) with [] => false | _ => true end
  && match r_msgs r with [] => false | _ => true end
  && forallb (fun mo => (m_idx (fst mo) <? 256) && tab_has (r_tab r) (m_key (fst mo))
                        && negb (outcome_eqb (snd mo) Malformed)) (r_msgs r).

(* --- admission AFTER the production result pipeline, on ONE group object ---
   The group is built the way the protocol builds it (NewGroup, then MarkMemberAsInactive /
   MarkMemberAsDisqualified in some order; a mark of a member that is not operating does nothing),
   then goes through the steps of result preparation that only READ it (beacon: convertGjkrResult,
   OperatingMemberIndexes, SignDKGResult; tecdsa: Result.MisbehavedMembersIndexes,
   OperatingMemberIndexes; inactivity: the getters), and then the very same object answers
   IsOperating for the result / claim signing admission. *)
Definition mark_inactive (g : grp) (i : N) : grp :=
  if is_operating g i then {| g_size := g_size g; g_ia := g_ia g ++ [i]; g_dq := g_dq g |} else g.
Definition mark_disqualified (g : grp) (i : N) : grp :=
  if is_operating g i then {| g_size := g_size g; g_ia := g_ia g; g_dq := g_dq g ++ [i] |} else g.
(* a mark: (true = disqualified / false = inactive, member index) *)
Definition apply_mark (g : grp) (m : bool * N) : grp :=
  if fst m then mark_disqualified g (snd m) else mark_inactive g (snd m).
Definition apply_marks (size : N) (marks : list (bool * N)) : grp :=
  fold_left apply_mark marks {| g_size := size; g_ia := []; g_dq := [] |}.
Definition operating (g : grp) : list N := filter (is_operating g) (member_indexes (g_size g)).
(* merge into a set, sorted ascending (convertToMisbehaved / MisbehavedMembersIndexes) *)
Fixpoint insert_u (x : N) (l : list N) : list N :=
  match l with
  | [] => [x]
  | y :: t => if x <? y then x :: l else if x =? y then l else y :: insert_u x t
  end.
Definition misbehaved (g : grp) : list N := fold_right insert_u [] (g_ia g ++ g_dq g).

(* the read-only steps: each returns the group it was given and a list of member indexes *)
Inductive pstep := PConvert | POperating | PSign.
Definition pstep_run (s : pstep) (g : grp) : grp * list N :=
  (g, match s with PConvert => misbehaved g | POperating => operating g | PSign => [] end).
Fixpoint pipe_run (g : grp) (steps : list pstep) : grp * list (list N) :=
  match steps with
  | [] => (g, [])
  | s :: t => let (g1, o) := pstep_run s g in let (g2, os) := pipe_run g1 t in (g2, o :: os)
  end.

(* what is observed of the group object: the three exported views *)
Record snap := { s_ia : list N; s_dq : list N; s_op : list N }.
Definition snap_of (g : grp) : snap := {| s_ia := g_ia g; s_dq := g_dq g; s_op := operating g |}.
Definition listN_eqb (a b : list N) : bool :=
  (length a =? length b)%nat && forallb (fun p => fst p =? snd p) (combine a b).
Definition snap_eqb (a b : snap) : bool :=
  listN_eqb (s_ia a) (s_ia b) && listN_eqb (s_dq a) (s_dq b) && listN_eqb (s_op a) (s_op b).

Record pipe_case := { q_step : step; q_self : N; q_ops : list N; q_session : N;
                      q_marks : list (bool * N);
                      q_first : snap;                           (* the group after the marks *)
                      q_pipe : list (pstep * list N * snap);    (* read-only step, its output, the group after it *)
                      q_tab : list (N * N);
                      q_msgs : list (msg * outcome * snap) }.   (* message, what the state did, the group after it *)
Definition pipe_grp (q : pipe_case) : grp := apply_marks (N.of_nat (length (q_ops q))) (q_marks q).
(* the receiver: its group is the group AS MARKED - what the protocol decided - not whatever the
   object holds after the pipeline *)
Definition pipe_ctx (q : pipe_case) : ctx :=
  {| x_self := [q_self q]; x_ops := q_ops q; x_grp := pipe_grp q; x_session := q_session q;
     x_protocol := 0; x_leader := 0; x_allowed := []; x_timeout := 0; x_done := []; x_attempt := [] |}.
Definition pipe_as_run (q : pipe_case) : run_case :=
  {| r_step := q_step q; r_ctx := pipe_ctx q; r_tab := q_tab q; r_msgs := map fst (q_msgs q) |}.
Definition pipe_well_formed (q : pipe_case) : bool :=
  match kind_of (q_step q) with KPlain | KKeyed => true | _ => false end
  && forallb (fun m => snd m <? 256) (q_marks q).
(* spec: every message obeys the admission property with "excluded" = excluded by the marks *)
Definition pipe_spec_ok (q : pipe_case) : bool := run_spec_ok (pipe_as_run q).
(* agree: outcomes as the model's; every read-only step returned the model's output; the object
   shows the marked group after the marks, after every read-only step and after every message *)
Definition pipe_agree (q : pipe_case) : bool :=
  let g := pipe_grp q in
  run_agree (run_model (pipe_as_run q)) (map fst (q_msgs q))
  && snap_eqb (q_first q) (snap_of g)
  && forallb (fun e => snap_eqb (snd e) (snap_of g)) (q_pipe q)
  && forallb (fun e => snap_eqb (snd e) (snap_of g)) (q_msgs q)
  && forallb (fun e => listN_eqb (snd (fst e)) (snd (pstep_run (fst (fst e)) g))) (q_pipe q).

Inductive case :=
  | CMsg (c : msg_case)
  (* call sites of shouldAcceptMessage / IsValidMembership found in the source tree that the
     driver's table does not know, and table entries that no longer exist *)
  | CSites (unknown missing : N)
  | CHist (h : hist_case)
  | CRun (r : run_case)
  | CPipe (q : pipe_case).

Definition well_formed (c : msg_case) : bool :=
  (m_idx (c_msg c) <? 256) && (length (x_ops (c_ctx c)) <=? 255)%nat
  && negb (outcome_eqb (c_obs c) Malformed)
  && match x_self (c_ctx c) with [] => false | _ => true end.

Definition model_outcome (c : msg_case) : outcome :=
  admission (fun _ => c_addr c) (c_step c) (c_ctx c) (c_msg c).

Definition judge (c : case) : verdict :=
  match c with
  | CMsg c =>
      if negb (well_formed c) then BadCase else
      match model_outcome c with
      | Malformed => BadCase
      | o => decide (spec_ok (c_step c) (c_ctx c) (c_msg c) (c_addr c) (c_obs c))
                    (outcome_eqb o (c_obs c))
      end
  | CSites unknown missing =>
      if (unknown =? 0) && (missing =? 0) then Agree else Mismatch
  | CHist h =>
      if negb (hist_well_formed h) then BadCase else
      decide (hist_spec_ok (h_ops h) (h_tab h) (h_calls h)) (hist_agree (hist_model h) (h_calls h))
  | CRun r =>
      if negb (run_well_formed r) then BadCase else
      if existsb (fun mo => outcome_eqb (snd mo) Malformed) (run_model r) then BadCase else
      decide (run_spec_ok r) (run_agree (run_model r) (r_msgs r))
  | CPipe q =>
      if negb (pipe_well_formed q && run_well_formed (pipe_as_run q)) then BadCase else
      if existsb (fun mo => outcome_eqb (snd mo) Malformed) (run_model (pipe_as_run q)) then BadCase else
      decide (pipe_spec_ok q) (pipe_agree q)
  end.

(* what --replay prints: the model's own outcomes / validator answers *)
Definition explain (c : case) : list outcome * list bool :=
  match c with
  | CMsg c => ([model_outcome c], [])
  | CSites _ _ => ([], [])
  | CHist h => ([], hist_model h)
  | CRun r => (map snd (run_model r), [])
  | CPipe q => (map snd (run_model (pipe_as_run q)), map (fun i => negb (is_operating (pipe_grp q) i)) (map snd (q_marks q)))
  end.
