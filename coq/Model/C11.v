(* C11 — executable model of the two retry loops, signingRetryLoop.start
   (pkg/tbtc/signing_loop.go) and dkgRetryLoop.start (pkg/tbtc/dkg_loop.go), as far as block
   windows are concerned.  The block constants come from the constants translator
   (Gen/Consts_C11.v, regenerated from /repo on every run); the member selection is the C10 model.

   A loop run is driven by a SCRIPT: one [step] per loop iteration giving what the
   collaborators answer in that iteration (current block, result of waiting for the announcement
   start block, result of the announcement, of the attempt function, of the done checks, and the
   point at which the context gets cancelled).  The model returns one [iter] record per loop
   iteration — everything the loop asked its collaborators in that iteration — and the way the
   loop ended.  Block numbers are mathematical integers: uint64 wrap-around is not modelled
   (props/C11.json, assumptions). *)
From Coq Require Import ZArith NArith List Bool Lia.
From KV Require Import Common.Verdict Common.GoRand Model.C09 Model.C10 Gen.Consts_C11.
Import ListNotations.
Open Scope Z_scope.

Record consts := { k_delay : Z; k_active : Z; k_protocol : Z; k_cooldown : Z }.
Definition sign_consts : consts :=
  {| k_delay := signingAttemptAnnouncementDelayBlocks;
     k_active := signingAttemptAnnouncementActiveBlocks;
     k_protocol := signingAttemptMaximumProtocolBlocks;
     k_cooldown := signingAttemptCoolDownBlocks |}.
Definition dkg_consts : consts :=
  {| k_delay := dkgAttemptAnnouncementDelayBlocks;
     k_active := dkgAttemptAnnouncementActiveBlocks;
     k_protocol := dkgAttemptMaximumProtocolBlocks;
     k_cooldown := dkgAttemptCoolDownBlocks |}.
(* signingAttemptMaximumBlocks() / dkgAttemptMaximumBlocks() *)
Definition max_blocks (k : consts) : Z := k_delay k + k_active k + k_protocol k + k_cooldown k.

(* ---------- the block window of attempt n (n >= 1) for a loop started at block s0 ---------- *)
Definition att_start (k : consts) (s0 : Z) (n : N) : Z := s0 + (Z.of_N n - 1) * max_blocks k.
Definition ann_start (k : consts) (s0 : Z) (n : N) : Z := att_start k s0 n + k_delay k.
Definition ann_end (k : consts) (s0 : Z) (n : N) : Z := ann_start k s0 n + k_active k.
Definition timeout (k : consts) (s0 : Z) (n : N) : Z := ann_end k s0 n + k_protocol k.
Definition window (k : consts) (s0 : Z) (n : N) : Z * Z * Z :=
  (ann_start k s0 n, ann_end k s0 n, timeout k s0 n).

(* ---------- scripts and observations ---------- *)
(* st_cancel: 0 = the context stays alive in this iteration; otherwise it is cancelled during
   1 getCurrentBlockFn, 2 waitForBlockFn(announcement start), 3 Announce, 4 the attempt
   function, 6 waitUntilAllDone — of this iteration *)
Record step := { st_cancel : N; st_cur : option Z; st_wait : bool; st_ann : option (list N);
                 st_att : bool; st_sig : bool; st_done : bool }.

Record iter := {
  i_cur : option (option Z);                       (* getCurrentBlockFn: Some None = error *)
  i_wait : option (Z * bool);                      (* waitForBlockFn called by the loop: block, ok *)
  i_watch : list Z;                                (* blocks a cancel-on-block watcher was started for *)
  i_ann : option (N * option (list N));            (* Announce: attempt number in the session id, result *)
  i_listen : option (N * Z * list N);              (* doneCheck.listen: attempt, timeout block, members *)
  i_attempt : option (N * Z * Z * list N * bool);  (* attempt fn: number, start, timeout, excluded, ok *)
  i_signal : option bool;                          (* doneCheck.signalDone ok *)
  i_done : option bool }.                          (* doneCheck.waitUntilAllDone ok *)

Inductive outcome :=
| ODone (timeout_block : Z)   (* a result was returned; the successful attempt's timeout block *)
| OCtx                        (* returned ctx.Err() *)
| OSelect                     (* "cannot select members" *)
| OLimit                      (* dkg: "reached the limit of attempts" *)
| OWaitErr                    (* dkg: "failed waiting for announcement start block" *)
| OPanic
| OExhausted.                 (* the script ended while the loop was still running (never observed) *)

Definition it_empty : iter :=
  {| i_cur := None; i_wait := None; i_watch := []; i_ann := None; i_listen := None;
     i_attempt := None; i_signal := None; i_done := None |}.
Definition prepend (it : iter) (r : list iter * outcome) : list iter * outcome :=
  (it :: fst r, snd r).

Section Loops.
  Variable k : consts.
  Variable ops : list N.          (* the group's seats *)
  Variable count : N.             (* HonestThreshold / GroupQuorum *)
  Variable self : N.              (* the member index running the loop *)
  Variable limit : N.             (* dkg attemptsLimit, 0 = none *)
  Variable select : N -> list N -> sel.   (* performMembersSelection at attempt n on a ready list *)

  (* signingRetryLoop.start; [counter] = attemptCounter, [start] = attemptStartBlock on entry of
     the iteration, [cancelled] = ctx.Err() != nil *)
  Fixpoint sign_loop (script : list step) (counter : N) (start : Z) (cancelled : bool)
    : list iter * outcome :=
    if cancelled then ([], OCtx) else
    match script with
    | [] => ([], OExhausted)
    | s :: rest =>
        let counter := (counter + 1)%N in
        let start := if (1 <? counter)%N then start + max_blocks k else start in
        let annS := start + k_delay k in
        let annE := annS + k_active k in
        let c1 := N.eqb (st_cancel s) 1 in
        let it0 := {| i_cur := Some (st_cur s); i_wait := None; i_watch := []; i_ann := None;
                      i_listen := None; i_attempt := None; i_signal := None; i_done := None |} in
        match st_cur s with
        | None => prepend it0 (sign_loop rest counter start c1)
        | Some cur =>
            if annE <=? cur then prepend it0 (sign_loop rest counter start c1) else
            let c2 := c1 || N.eqb (st_cancel s) 2 in
            if negb (st_wait s) then
              prepend {| i_cur := Some (st_cur s); i_wait := Some (annS, false); i_watch := [];
                         i_ann := None; i_listen := None; i_attempt := None; i_signal := None;
                         i_done := None |}
                      (sign_loop rest counter start c2)
            else
            let c3 := c2 || N.eqb (st_cancel s) 3 in
            let it1 := {| i_cur := Some (st_cur s); i_wait := Some (annS, true);
                          i_watch := [annE]; i_ann := Some (counter, st_ann s); i_listen := None;
                          i_attempt := None; i_signal := None; i_done := None |} in
            match st_ann s with
            | None => prepend it1 (sign_loop rest counter start c3)
            | Some ready =>
                if c3 then ([it1], OCtx) else
                if len ready <? Z.of_N count then prepend it1 (sign_loop rest counter start false)
                else
                match select counter ready with
                | SOk excl =>
                    let tb := annE + k_protocol k in
                    let c4 := N.eqb (st_cancel s) 4 in
                    let c6 := N.eqb (st_cancel s) 6 in
                    let mk att sg dn :=
                      {| i_cur := Some (st_cur s); i_wait := Some (annS, true);
                         i_watch := [annE; tb]; i_ann := Some (counter, st_ann s);
                         i_listen := Some (counter, tb, included_of ops excl);
                         i_attempt := att; i_signal := sg; i_done := dn |} in
                    if memN self excl then
                      if st_done s then ([mk None None (Some true)], ODone tb)
                      else prepend (mk None None (Some false)) (sign_loop rest counter start c6)
                    else
                    if negb (st_att s) then
                      prepend (mk (Some (counter, annE, tb, excl, false)) None None)
                              (sign_loop rest counter start c4)
                    else if negb (st_sig s) then
                      prepend (mk (Some (counter, annE, tb, excl, true)) (Some false) None)
                              (sign_loop rest counter start c4)
                    else if st_done s then
                      ([mk (Some (counter, annE, tb, excl, true)) (Some true) (Some true)], ODone tb)
                    else
                      prepend (mk (Some (counter, annE, tb, excl, true)) (Some true) (Some false))
                              (sign_loop rest counter start (c4 || c6))
                | SPanic => ([it1], OPanic)
                | _ => ([it1], OSelect)
                end
            end
        end
    end.

  (* dkgRetryLoop.start *)
  Fixpoint dkg_loop (script : list step) (counter : N) (start : Z) (cancelled : bool)
    : list iter * outcome :=
    match script with
    | [] => ([], OExhausted)
    | s :: rest =>
        let counter := (counter + 1)%N in
        if negb (N.eqb limit 0) && (limit <? counter)%N then ([], OLimit) else
        let start := if (1 <? counter)%N then start + max_blocks k else start in
        let annS := start + k_delay k in
        let c2 := cancelled || N.eqb (st_cancel s) 2 in
        if negb (st_wait s) then
          ([{| i_cur := None; i_wait := Some (annS, false); i_watch := []; i_ann := None;
               i_listen := None; i_attempt := None; i_signal := None; i_done := None |}], OWaitErr)
        else
        let annE := annS + k_active k in
        let c3 := c2 || N.eqb (st_cancel s) 3 in
        let mk att :=
          {| i_cur := None; i_wait := Some (annS, true); i_watch := [annE];
             i_ann := Some (counter, st_ann s); i_listen := None; i_attempt := att;
             i_signal := None; i_done := None |} in
        match st_ann s with
        | None => prepend (mk None) (dkg_loop rest counter start c3)
        | Some ready =>
            if c3 then ([mk None], OCtx) else
            if len ready <? Z.of_N count then prepend (mk None) (dkg_loop rest counter start false)
            else
            match select counter ready with
            | SOk excl =>
                if memN self excl then prepend (mk None) (dkg_loop rest counter start false) else
                let tb := annE + k_protocol k in
                if st_att s then ([mk (Some (counter, annE, tb, excl, true))], ODone tb)
                else prepend (mk (Some (counter, annE, tb, excl, false)))
                             (dkg_loop rest counter start (N.eqb (st_cancel s) 4))
            | SPanic => ([mk None], OPanic)
            | _ => ([mk None], OSelect)
            end
        end
    end.
End Loops.

(* ---------- the property in executable form, on observed iteration records ---------- *)
Definition memZ (x : Z) (l : list Z) : bool := existsb (Z.eqb x) l.
Definition is_none {A} (o : option A) : bool := match o with None => true | Some _ => false end.

(* iteration [it] is the iteration of attempt n of a loop started at s0: every block it mentions
   is the one [window k s0 n] prescribes; it announces only after a successful wait for the
   announcement start block, with a watcher on the announcement end block and (signing) a current
   block observed below the announcement end block; it listens / attempts only if it announced *)
Definition iter_at (sign : bool) (k : consts) (s0 : Z) (n : N) (it : iter) : bool :=
  N.leb 1 n &&
  match i_wait it with Some (b, _) => b =? ann_start k s0 n | None => true end &&
  match i_ann it with
  | Some (m, _) =>
      N.eqb m n &&
      match i_wait it with Some (_, true) => true | _ => false end &&
      memZ (ann_end k s0 n) (i_watch it) &&
      (if sign then match i_cur it with Some (Some c) => c <? ann_end k s0 n | _ => false end
       else true)
  | None => is_none (i_listen it) && is_none (i_attempt it)
  end &&
  match i_listen it with
  | Some (m, tb, _) => N.eqb m n && (tb =? timeout k s0 n)
  | None => true
  end &&
  match i_attempt it with
  | Some (m, sb, tb, _, _) => N.eqb m n && (sb =? ann_end k s0 n) && (tb =? timeout k s0 n)
  | None => true
  end.

(* the attempt number is read off the announcement *)
Definition iter_ok (sign : bool) (k : consts) (s0 : Z) (it : iter) : bool :=
  match i_ann it with
  | Some (n, _) => iter_at sign k s0 n it
  | None => is_none (i_listen it) && is_none (i_attempt it)
  end.

Definition timeouts (it : iter) : list Z :=
  match i_listen it with Some (_, tb, _) => [tb] | None => [] end ++
  match i_attempt it with Some (_, _, tb, _, _) => [tb] | None => [] end.
Definition ann_no (it : iter) : option N :=
  match i_ann it with Some (n, _) => Some n | None => None end.

(* [a] is an earlier iteration than [b]: b's attempt begins (its announcement start block minus
   the announcement delay) only after every timeout block of a; attempt numbers increase *)
Definition pair_ok (k : consts) (a b : iter) : bool :=
  match i_wait b with
  | Some (w, _) => forallb (fun tb => tb <? w - k_delay k) (timeouts a)
  | None => true
  end &&
  match ann_no a, ann_no b with
  | Some n, Some m => N.ltb n m
  | _, _ => true
  end.
Fixpoint ordered_ok (k : consts) (its : list iter) : bool :=
  match its with
  | [] => true
  | a :: t => forallb (pair_ok k a) t && ordered_ok k t
  end.

Definition spec_its (sign : bool) (k : consts) (s0 : Z) (its : list iter) : bool :=
  forallb (iter_ok sign k s0) its && ordered_ok k its.

(* the chain's TRUE height during every iteration (what the scripted chain stood at, whether or
   not the loop asked for it, and whatever the loop believes): an iteration that announces for
   attempt n runs while the chain is still below the announcement end block of attempt n *)
Definition height_ok (k : consts) (s0 : Z) (it : iter) (h : Z) : bool :=
  match i_ann it with
  | Some (n, _) => h <? ann_end k s0 n
  | None => true
  end.
Fixpoint truth_ok (k : consts) (s0 : Z) (its : list iter) (hs : list Z) : bool :=
  match its, hs with
  | [], [] => true
  | it :: t, h :: t' => height_ok k s0 it h && truth_ok k s0 t t'
  | _, _ => false
  end.

(* ---------- boolean equality of observations ---------- *)
Definition opt_eqb {A} (f : A -> A -> bool) (a b : option A) : bool :=
  match a, b with
  | Some x, Some y => f x y
  | None, None => true
  | _, _ => false
  end.
Fixpoint lst_eqb {A} (f : A -> A -> bool) (a b : list A) : bool :=
  match a, b with
  | [], [] => true
  | x :: a', y :: b' => f x y && lst_eqb f a' b'
  | _, _ => false
  end.
Definition iter_eqb (a b : iter) : bool :=
  opt_eqb (opt_eqb Z.eqb) (i_cur a) (i_cur b) &&
  opt_eqb (fun x y => Z.eqb (fst x) (fst y) && Bool.eqb (snd x) (snd y)) (i_wait a) (i_wait b) &&
  lst_eqb Z.eqb (i_watch a) (i_watch b) &&
  opt_eqb (fun x y => N.eqb (fst x) (fst y) && opt_eqb (lst_eqb N.eqb) (snd x) (snd y))
          (i_ann a) (i_ann b) &&
  opt_eqb (fun x y => let '(n, tb, l) := x in let '(n', tb', l') := y in
                      N.eqb n n' && Z.eqb tb tb' && lst_eqb N.eqb l l')
          (i_listen a) (i_listen b) &&
  opt_eqb (fun x y => let '(n, sb, tb, l, ok) := x in let '(n', sb', tb', l', ok') := y in
                      N.eqb n n' && Z.eqb sb sb' && Z.eqb tb tb' && lst_eqb N.eqb l l' &&
                      Bool.eqb ok ok')
          (i_attempt a) (i_attempt b) &&
  opt_eqb Bool.eqb (i_signal a) (i_signal b) && opt_eqb Bool.eqb (i_done a) (i_done b).
Definition outcome_eqb (a b : outcome) : bool :=
  match a, b with
  | ODone x, ODone y => Z.eqb x y
  | OCtx, OCtx | OSelect, OSelect | OLimit, OLimit | OWaitErr, OWaitErr | OPanic, OPanic
  | OExhausted, OExhausted => true
  | _, _ => false
  end.

(* ---------- cases ---------- *)
Inductive kind := KSign | KDkg.
(* one run of a real loop by member [c_self] of the group [c_ops], started at block [c_start],
   driven by [c_script]; [c_its] / [c_out] are what the implementation did; [c_truth] is the
   scripted chain's true height during each observed iteration (one entry per entry of [c_its]) *)
Record case := { c_kind : kind; c_ops : list N; c_count : N; c_seed : Z; c_self : N;
                 c_limit : N; c_start : Z; c_script : list step;
                 c_its : list iter; c_truth : list Z; c_out : outcome }.

Definition consts_of (kd : kind) : consts :=
  match kd with KSign => sign_consts | KDkg => dkg_consts end.
Definition is_sign (kd : kind) : bool := match kd with KSign => true | KDkg => false end.

(* the property on the implementation's observations: windows are the closed-form function of
   (start block, attempt number), attempts are disjoint and ordered, and (signing) the member
   announces for attempt n only while the chain's true height is below ann_end n.  The loop's own
   belief about the height ([i_cur]) is NOT part of the executable property ([spec_its false]):
   it is compared with the model's by [agree] only.  The key-generation loop observes no current
   block: its announcement is bounded by the watcher on ann_end n ([iter_at]). *)
Definition spec_ok (c : case) : bool :=
  spec_its false (consts_of (c_kind c)) (c_start c) (c_its c) &&
  (if is_sign (c_kind c)
   then truth_ok (consts_of (c_kind c)) (c_start c) (c_its c) (c_truth c) else true).

Module Concrete.
  Definition run (c : case) : list iter * outcome :=
    match c_kind c with
    | KSign =>
        sign_loop sign_consts (c_ops c) (c_count c) (c_self c)
                  (fun n ready => C10.Concrete.signing_select (c_ops c) (c_count c) (c_seed c) n ready)
                  (c_script c) 0 (c_start c) false
    | KDkg =>
        (* the retry algorithm for key generation seeds its generator with the attempt seed alone:
           it is built once and shared by all attempts ([fun _ => g] IS [rng_seed] at the only
           argument it is ever applied to, the case's seed) *)
        let g := rng_seed (c_seed c) in
        dkg_loop dkg_consts (c_count c) (c_self c) (c_limit c)
                 (fun n ready => C10.dkg_select rng (fun _ => g) C09.Concrete.shuffle C09.Concrete.iter
                                                (c_ops c) (c_count c) (c_seed c) n ready)
                 (c_script c) 0 (c_start c) false
    end.

  Definition agree (c : case) : bool :=
    let r := run c in
    lst_eqb iter_eqb (fst r) (c_its c) && outcome_eqb (snd r) (c_out c).

  (* outside the model's domain: block numbers that would overflow uint64 (the scripted world
     stops a loop at most 8 iterations after the end of its script), groups above 255; one true
     height per observed iteration.  A loop that outruns its script is NOT outside the domain: the
     scripted collaborators answer with errors and a cancelled context, the model answers
     [OExhausted], which no implementation outcome equals. *)
  Definition case_ok (c : case) : bool :=
    (0 <=? c_start c) &&
    (c_start c + (Z.of_nat (length (c_script c)) + 16) * max_blocks (consts_of (c_kind c)) <? two64) &&
    Nat.leb (length (c_ops c)) 255 &&
    Nat.eqb (length (c_truth c)) (length (c_its c)).

  Definition judge (c : case) : verdict :=
    if case_ok c then decide (spec_ok c) (agree c) else BadCase.

  Definition explain (c : case) : list iter * outcome := run c.
End Concrete.
