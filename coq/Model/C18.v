(* C18 — executable model of pkg/net/libp2p/channel.go processContainerMessage (+ deliver) and
   of what it uses of identity.go.

   processContainerMessage(proposedSender, envelope):
     1. unmarshaler registered for string(envelope.Type)?          else error, nothing delivered
     2. fresh unmarshaler decodes envelope.Payload?                else error
     3. identity.Unmarshal(envelope.Sender) gives (pubKey, id)?    else error
     4. proposedSender == id?                                      else error
     5. pubKey converts to an operator (secp256k1) key?            else error
     6. deliver(BasicMessage(id, decoded payload, type, uncompressed operator key, seqno))
        to every registered handler.
   The external functions (protobuf/libp2p key decoding, peer.IDFromPublicKey, the payload
   unmarshalers registered by the protocol) are parameters of the model; the theorems hold for
   all of them.  In the correspondence check they are instantiated per case by tables that the
   driver fills from identity.go itself (exported Unmarshal) and from libp2p. *)
From Coq Require Import ZArith NArith List Bool Lia.
From KV Require Import Common.Verdict.
Import ListNotations.

Inductive drop_reason := ErrType | ErrPayload | ErrIdentity | ErrMismatch | ErrKeyType.

Section Channel.
  Variables Ty Payload Val Bytes Key Peer OpKey : Type.
  Variable registry : Ty -> option (Payload -> option Val).   (* unmarshalersByType + Unmarshal *)
  Variable decode_id : Bytes -> option Key.                   (* identity.Unmarshal succeeds *)
  Variable idOf : Key -> Peer.                                (* peer.IDFromPublicKey *)
  Variable to_op : Key -> option OpKey.                       (* networkPublicKeyToOperatorPublicKey *)
  Variable peer_eqb : Peer -> Peer -> bool.

  Record envelope := { e_type : Ty; e_payload : Payload; e_sender : Bytes; e_seqno : N }.
  Record message := { m_sender : Peer; m_payload : Val; m_type : Ty; m_key : OpKey; m_seqno : N }.
  Inductive outcome := Deliver (m : message) | Drop (r : drop_reason).

  Definition process (from : Peer) (e : envelope) : outcome :=
    match registry (e_type e) with
    | None => Drop ErrType
    | Some dec =>
    match dec (e_payload e) with
    | None => Drop ErrPayload
    | Some v =>
    match decode_id (e_sender e) with
    | None => Drop ErrIdentity
    | Some k =>
    if negb (peer_eqb from (idOf k)) then Drop ErrMismatch else
    match to_op k with
    | None => Drop ErrKeyType
    | Some ok => Deliver {| m_sender := idOf k; m_payload := v; m_type := e_type e;
                            m_key := ok; m_seqno := e_seqno e |}
    end end end end.

  (* the channel: what each registered handler has been handed so far (deliver appends to
     every handler's queue; queues are assumed not to overflow: 512 slots) *)
  Definition chan := list (list message).
  Definition step (hs : chan) (fe : Peer * envelope) : chan :=
    match process (fst fe) (snd fe) with
    | Deliver m => map (fun q => q ++ [m]) hs
    | Drop _ => hs
    end.
  Definition run (hs : chan) (es : list (Peer * envelope)) : chan := fold_left step es hs.

  Definition delivered (fe : Peer * envelope) : option message :=
    match process (fst fe) (snd fe) with Deliver m => Some m | Drop _ => None end.
  Fixpoint filter_map {A B} (f : A -> option B) (l : list A) : list B :=
    match l with
    | [] => []
    | a :: t => match f a with Some b => b :: filter_map f t | None => filter_map f t end
    end.
End Channel.

Arguments e_type {Ty Payload Bytes}. Arguments e_payload {Ty Payload Bytes}.
Arguments e_sender {Ty Payload Bytes}. Arguments e_seqno {Ty Payload Bytes}.
Arguments m_sender {Ty Val Peer OpKey}. Arguments m_payload {Ty Val Peer OpKey}.
Arguments m_type {Ty Val Peer OpKey}. Arguments m_key {Ty Val Peer OpKey}.
Arguments m_seqno {Ty Val Peer OpKey}.
Arguments Deliver {Ty Val Peer OpKey}. Arguments Drop {Ty Val Peer OpKey}.

(* ---------- correspondence cases: everything is a small N identifier ---------- *)
Open Scope N_scope.
(* what the driver learnt about the identity bytes of an envelope *)
Record inner := { i_key : N;           (* the public key identity.Unmarshal decoded *)
                  i_pid : N;           (* the peer ID identity.Unmarshal returned *)
                  i_peer : N;          (* peer.IDFromPublicKey of that key, computed by the driver *)
                  i_op : option N }.   (* its uncompressed secp256k1 operator key, if it is one *)
Record cenv := { c_from : N;                 (* authenticated author (pubsub message's From) *)
                 c_type : N;
                 c_payload : option N;       (* Some content-id when the registered decoder accepts *)
                 c_inner : option inner;     (* None: identity.Unmarshal fails *)
                 c_seqno : N }.
Record dmsg := { d_sender : N; d_key : N; d_type : N; d_seqno : N; d_payload : N }.
Record case := { c_registered : list N;      (* type ids with an unmarshaler *)
                 c_envs : list cenv;
                 c_errs : list bool;         (* processContainerMessage returned an error *)
                 c_handlers : list (list dmsg);   (* per handler: messages handed to it, in order *)
                 c_roundtrip : list (N * option (N * N * N)) }.
                 (* (key, peer of key) |-> Unmarshal(Marshal(identity)) = (key, pid) *)

Definition memN (x : N) (l : list N) : bool := existsb (N.eqb x) l.

Definition c_registry (reg : list N) (ty : N) : option (option N -> option N) :=
  if memN ty reg then Some (fun p => p) else None.
Definition to_envelope (c : cenv) : N * envelope N (option N) (option inner) :=
  (c_from c, {| e_type := c_type c; e_payload := c_payload c; e_sender := c_inner c; e_seqno := c_seqno c |}).

Definition c_process (reg : list N) :=
  process N (option N) N (option inner) inner N N (c_registry reg) (fun b => b) i_pid i_op N.eqb.
Definition c_run (reg : list N) :=
  run N (option N) N (option inner) inner N N (c_registry reg) (fun b => b) i_pid i_op N.eqb.

Definition to_dmsg (m : message N N N N) : dmsg :=
  {| d_sender := m_sender m; d_key := m_key m; d_type := m_type m; d_seqno := m_seqno m;
     d_payload := m_payload m |}.
Definition dmsg_eqb (a b : dmsg) : bool :=
  (d_sender a =? d_sender b) && (d_key a =? d_key b) && (d_type a =? d_type b)
  && (d_seqno a =? d_seqno b) && (d_payload a =? d_payload b).
Fixpoint list_eqb {A} (eqb : A -> A -> bool) (a b : list A) : bool :=
  match a, b with
  | [], [] => true
  | x :: a', y :: b' => eqb x y && list_eqb eqb a' b'
  | _, _ => false
  end.

(* ---- the property in executable form, on the implementation's observations ---- *)
(* "delivered only if the sender identity inside matches the authenticated author, with that
    peer's key": the message the property allows for an envelope, if any *)
Definition allowed (reg : list N) (c : cenv) : option dmsg :=
  match c_inner c, c_payload c with
  | Some i, Some p =>
      if memN (c_type c) reg && (i_peer i =? c_from c) && (i_pid i =? i_peer i)
      then match i_op i with
           | Some k => Some {| d_sender := c_from c; d_key := k; d_type := c_type c;
                               d_seqno := c_seqno c; d_payload := p |}
           | None => None
           end
      else None
  | _, _ => None
  end.

(* Prop form of what spec_ok says about one delivered message *)
Definition attributed (reg : list N) (envs : list cenv) (d : dmsg) : Prop :=
  exists e i p k, In e envs /\
    c_inner e = Some i /\ c_payload e = Some p /\ In (c_type e) reg /\
    i_peer i = c_from e /\                (* the inner key's peer ID is the authenticated author *)
    i_op i = Some k /\
    d = {| d_sender := c_from e; d_key := k; d_type := c_type e; d_seqno := c_seqno e; d_payload := p |}.

(* remove one occurrence *)
Fixpoint remove1 (d : dmsg) (l : list dmsg) : option (list dmsg) :=
  match l with
  | [] => None
  | x :: t => if dmsg_eqb d x then Some t
              else match remove1 d t with Some t' => Some (x :: t') | None => None end
  end.
Fixpoint same_multiset (a b : list dmsg) : bool :=
  match a with
  | [] => match b with [] => true | _ => false end
  | x :: t => match remove1 x b with Some b' => same_multiset t b' | None => false end
  end.

Definition roundtrip_ok (r : N * option (N * N * N)) : bool :=
  match r with
  | (k, Some (k', pid, peer)) => (k =? k') && (pid =? peer)
  | (_, None) => false
  end.

Definition spec_ok (c : case) : bool :=
  let exp := filter_map (allowed (c_registered c)) (c_envs c) in
  forallb (fun h => same_multiset h exp) (c_handlers c)
  && forallb (fun e => match c_inner e with Some i => i_pid i =? i_peer i | None => true end) (c_envs c)
  && forallb roundtrip_ok (c_roundtrip c).

(* ---- agreement with the model ---- *)
Definition is_drop (o : outcome N N N N) : bool := match o with Drop _ => true | Deliver _ => false end.
Definition agree (c : case) : bool :=
  let reg := c_registered c in
  let es := map to_envelope (c_envs c) in
  let final := c_run reg (map (fun _ => []) (c_handlers c)) es in
  list_eqb (list_eqb dmsg_eqb) (c_handlers c) (map (map to_dmsg) final)
  && list_eqb Bool.eqb (c_errs c) (map (fun fe => is_drop (c_process reg (fst fe) (snd fe))) es).

Definition wf_case (c : case) : bool :=
  Nat.eqb (length (c_errs c)) (length (c_envs c)) && (length (c_envs c) <=? 512)%nat.

Definition judge (c : case) : verdict :=
  if negb (wf_case c) then BadCase else decide (spec_ok c) (agree c).

(* what --replay prints: the model's outcome for every envelope *)
Inductive shown := SDeliver (d : dmsg) | SDrop (r : drop_reason).
Definition explain (c : case) : list shown :=
  map (fun e => let fe := to_envelope e in
                match c_process (c_registered c) (fst fe) (snd fe) with
                | Deliver m => SDeliver (to_dmsg m)
                | Drop r => SDrop r
                end) (c_envs c).
