(* C46 — executable model of the deadline computations of the tBTC wallet actions:
     node.go processCoordinationResult   start = window.endBlock(), expiry = start + ValidityBlocks()
     deposit_sweep.go / redemption.go / moving_funds.go / moved_funds_sweep.go  execute():
        signTransaction(start, expiry - signingTimeoutSafetyMarginBlocks), then
        broadcastTransaction(broadcastTimeout, broadcastCheckDelay)
     wallet.go signTransaction            signing context cancelled at the timeout block,
                                          signBatch started at the start block
     signing.go sign                      loop timeout = start + signingAttemptsLimit *
                                          signingAttemptMaximumBlocks()
     heartbeat.go execute()               signing context cancelled at expiry -
                                          heartbeatInactivityClaimValidityBlocks, claim context
                                          cancelled at expiry - heartbeatTimeoutSafetyMarginBlocks
   Every number comes from Gen.Consts_C46 (regenerated from /repo on every run); durations are
   nanoseconds.  Block numbers are Go uint64 values (wrap modulo 2^64).  The only value typed
   here is the nominal host-chain block time of the property statement (12 s). *)
From Coq Require Import ZArith List Bool.
From KV Require Import Common.Verdict Gen.Consts_C46.
Import ListNotations.
Open Scope Z_scope.

Definition two64 : Z := 18446744073709551616.
Definition u64 (z : Z) : Z := z mod two64.

(* nominal block time of the property statement, in nanoseconds *)
Definition block_time_ns : Z := 12000000000.
(* blocks mined during a duration at the nominal block time, rounded up *)
Definition blocks_of_ns (d : Z) : Z := (d + block_time_ns - 1) / block_time_ns.

Inductive action := DepositSweep | Redemption | MovingFunds | MovedFundsSweep | Heartbeat.

Definition is_tx (a : action) : bool := match a with Heartbeat => false | _ => true end.

(* Proposal.ValidityBlocks() *)
Definition validity (a : action) : Z :=
  match a with
  | DepositSweep => depositSweepProposalValidityBlocks
  | Redemption => redemptionProposalValidityBlocks
  | MovingFunds => movingFundsProposalValidityBlocks
  | MovedFundsSweep => movedFundsSweepProposalValidityBlocks
  | Heartbeat => heartbeatTotalProposalValidityBlocks
  end.

(* blocks between the end of the signing phase and the proposal expiry *)
Definition signing_end_offset (a : action) : Z :=
  match a with
  | DepositSweep => depositSweepSigningTimeoutSafetyMarginBlocks
  | Redemption => redemptionSigningTimeoutSafetyMarginBlocks
  | MovingFunds => movingFundsSigningTimeoutSafetyMarginBlocks
  | MovedFundsSweep => movedFundsSweepSigningTimeoutSafetyMarginBlocks
  | Heartbeat => heartbeatInactivityClaimValidityBlocks
  end.

(* the documented safety margin that must remain after the signing phase *)
Definition safety_margin (a : action) : Z :=
  match a with
  | Heartbeat => heartbeatTimeoutSafetyMarginBlocks
  | _ => signing_end_offset a
  end.

Definition broadcast_timeout_ns (a : action) : Z :=
  match a with
  | DepositSweep => depositSweepBroadcastTimeout
  | Redemption => redemptionBroadcastTimeout
  | MovingFunds => movingFundsBroadcastTimeout
  | MovedFundsSweep => movedFundsSweepBroadcastTimeout
  | Heartbeat => 0
  end.

Definition broadcast_check_delay_ns (a : action) : Z :=
  match a with
  | DepositSweep => depositSweepBroadcastCheckDelay
  | Redemption => redemptionBroadcastCheckDelay
  | MovingFunds => movingFundsBroadcastCheckDelay
  | MovedFundsSweep => movedFundsSweepBroadcastCheckDelay
  | Heartbeat => 0
  end.

(* signingAttemptMaximumBlocks() *)
Definition attempt_max_blocks : Z :=
  signingAttemptAnnouncementDelayBlocks + signingAttemptAnnouncementActiveBlocks +
  signingAttemptMaximumProtocolBlocks + signingAttemptCoolDownBlocks.

(* uint64(signingAttemptsLimit * signingAttemptMaximumBlocks()): one complete retry loop *)
Definition loop_blocks : Z := u64 (signingAttemptsLimit * attempt_max_blocks).

(* processCoordinationResult *)
Definition action_start (coordination_block : Z) : Z := u64 (coordination_block + coordinationDurationBlocks).
Definition expiry (a : action) (start : Z) : Z := u64 (start + validity a).

(* the block at which the signing context is cancelled; None = "invalid proposal expiry
   block" (the guard before the subtraction) *)
Definition signing_end_of (offset start_expiry : Z) : option Z :=
  if start_expiry <? offset then None else Some (u64 (start_expiry - offset)).
Definition signing_end (a : action) (exp : Z) : option Z := signing_end_of (signing_end_offset a) exp.

(* the first message's signing: starts at the action's start block *)
Definition signing_start (start : Z) : Z := start.
Definition loop_timeout (start : Z) : Z := u64 (start + loop_blocks).

(* heartbeat: the inactivity claim context is cancelled here (no guard in the code) *)
Definition claim_end (exp : Z) : Z := u64 (exp - heartbeatTimeoutSafetyMarginBlocks).

(* ---------------- what the property demands, on arbitrary numbers ---------------- *)
(* [v] validity, [off] signing end offset, [mg] safety margin, [lp] blocks of one retry loop,
   [bt] broadcast timeout in ns *)
Definition constants_ok (tx : bool) (v off mg lp bt : Z) : bool :=
  (0 <=? mg) && (mg <=? off) && (off <=? v)      (* signing ends >= margin before expiry, after start *)
  && (lp <=? v - off)                             (* one complete retry loop fits *)
  && (if tx then blocks_of_ns bt <=? off          (* broadcast ends before expiry at 12 s/block *)
      else 0 <? mg).                              (* heartbeat claim window ends before expiry *)

(* the windows of one execution: start <= signing start, signing end <= expiry - margin, a
   complete loop fits, post-signing step ends by the expiry *)
Definition windows_ok (start exp mg lp : Z) (sign_start sign_end : Z) (post_end : option Z) : bool :=
  (start <=? sign_start) && (sign_end <=? exp - mg) && (lp <=? sign_end - start)
  && match post_end with None => true | Some pe => (sign_end <=? pe) && (pe <=? exp) end.

(* ---------------- cases ---------------- *)
Record static_obs := {
  s_validity : Z;      (* proposal.ValidityBlocks() *)
  s_offset : Z;        (* constructor: signingTimeoutSafetyMarginBlocks / heartbeat: see driver *)
  s_bt : Z;            (* constructor: broadcastTimeout, ns *)
  s_cd : Z;            (* constructor: broadcastCheckDelay, ns *)
  s_start : Z;         (* constructor: proposalProcessingStartBlock *)
  s_expiry : Z;        (* constructor: proposalExpiryBlock *)
  s_limit : Z;         (* signingExecutor.signingAttemptsLimit *)
  s_attempt : Z;       (* signingAttemptMaximumBlocks() *)
  s_loop : Z           (* uint64(limit * attempt) *)
}.

Inductive hb_result := HbOk | HbErr | HbPanic.

Record hb_obs := {
  h_sign_start : option Z;   (* startBlock passed to the signing executor *)
  h_sign_end : option Z;     (* block at which the signing context is cancelled *)
  h_claim_end : option Z;    (* block at which the inactivity claim context is cancelled *)
  h_result : hb_result
}.

Inductive case :=
(* a transaction action built by its production constructor for (start, expiry) *)
| CStatic (a : action) (start exp : Z) (o : static_obs)
(* window.endBlock() for a coordination block *)
| CStart (coordination_block : Z) (observed : Z)
(* walletTransactionExecutor.signTransaction(start, timeout): start block handed to signBatch
   and block at which the signing context is cancelled *)
| CSign (start timeout : Z) (sign_start sign_end : Z)
(* heartbeatAction.execute() for (start, expiry); [claims] = the heartbeat fails and the failure
   threshold is reached, so the inactivity claim is issued *)
| CHeartbeat (start exp : Z) (claims : bool) (o : hb_obs).

Definition optZ_eqb (a b : option Z) : bool :=
  match a, b with Some x, Some y => x =? y | None, None => true | _, _ => false end.
Definition hb_eqb (a b : hb_result) : bool :=
  match a, b with HbOk, HbOk | HbErr, HbErr | HbPanic, HbPanic => true | _, _ => false end.

Definition is_u64 (z : Z) : bool := (0 <=? z) && (z <? two64).

(* model of heartbeat execute() as far as the deadlines go *)
Definition heartbeat_model (start exp : Z) (claims : bool) : hb_obs :=
  match signing_end Heartbeat exp with
  | None => {| h_sign_start := None; h_sign_end := None; h_claim_end := None; h_result := HbErr |}
  | Some se => {| h_sign_start := Some (signing_start start); h_sign_end := Some se;
                  h_claim_end := if claims then Some (claim_end exp) else None; h_result := HbOk |}
  end.

(* does a heartbeat with [prior] consecutive failures already counted and [active] members
   active during signing issue an inactivity claim? *)
Definition hb_claims (prior active : Z) : bool :=
  (active <? heartbeatSigningMinimumActiveMembers) &&
  (heartbeatConsecutiveFailureThreshold <=? prior + 1).

Definition spec_ok (c : case) : bool :=
  match c with
  | CStatic a start exp o =>
      (* the constants wired into the action satisfy the nesting, and so do the windows this
         very action instance will use when its expiry is start + validity *)
      constants_ok true (s_validity o) (s_offset o) (s_offset o) (s_loop o) (s_bt o)
      && (s_start o =? start) && (s_expiry o =? exp)
      && (s_loop o =? s_limit o * s_attempt o)
      && (if (exp =? start + s_validity o) && (s_offset o <=? s_expiry o) then
            windows_ok start exp (s_offset o) (s_loop o) (s_start o) (s_expiry o - s_offset o)
                       (Some (s_expiry o - s_offset o + blocks_of_ns (s_bt o)))
          else true)
  | CStart cb obs => cb <=? obs
  | CSign start timeout ss se => (start <=? ss) && (se <=? timeout)
  | CHeartbeat start exp claims o =>
      match h_result o with
      | HbPanic => false
      | HbErr => true      (* refused before signing: nothing is signed *)
      | HbOk =>
          match h_sign_start o, h_sign_end o with
          | Some ss, Some se =>
              (start <=? ss) && (se <=? exp - heartbeatTimeoutSafetyMarginBlocks)
              && (if exp =? start + heartbeatTotalProposalValidityBlocks
                  then loop_blocks <=? se - start else true)
              && match h_claim_end o with
                 | None => true
                 | Some ce => (se <=? ce) && (ce <? exp)
                 end
          | _, _ => false
          end
      end
  end.

Definition agree (c : case) : bool :=
  match c with
  | CStatic a start exp o =>
      (s_validity o =? validity a) && (s_offset o =? signing_end_offset a)
      && (s_bt o =? broadcast_timeout_ns a) && (s_cd o =? broadcast_check_delay_ns a)
      && (s_limit o =? signingAttemptsLimit) && (s_attempt o =? attempt_max_blocks)
      && (s_loop o =? loop_blocks)
  | CStart cb obs => obs =? action_start cb
  | CSign start timeout ss se => (ss =? signing_start start) && (se =? timeout)
  | CHeartbeat start exp claims o =>
      let m := heartbeat_model start exp claims in
      optZ_eqb (h_sign_start o) (h_sign_start m) && optZ_eqb (h_sign_end o) (h_sign_end m)
      && optZ_eqb (h_claim_end o) (h_claim_end m) && hb_eqb (h_result o) (h_result m)
  end.

Definition well_formed (c : case) : bool :=
  match c with
  | CStatic a start exp o => is_tx a && is_u64 start && is_u64 exp
  | CStart cb obs => is_u64 cb && (cb <? 4611686018427387904)
  | CSign start timeout _ _ => is_u64 start && is_u64 timeout
  | CHeartbeat start exp _ _ => is_u64 start && is_u64 exp
  end.

Definition judge (c : case) : verdict :=
  if well_formed c then decide (spec_ok c) (agree c) else BadCase.

(* what --replay prints: the model's own numbers for the case *)
Definition explain (c : case) : list (option Z) :=
  match c with
  | CStatic a start exp o =>
      [Some (validity a); Some (signing_end_offset a); Some (broadcast_timeout_ns a);
       Some loop_blocks; signing_end a exp]
  | CStart cb _ => [Some (action_start cb)]
  | CSign start timeout _ _ => [Some (signing_start start); Some timeout]
  | CHeartbeat start exp claims _ =>
      let m := heartbeat_model start exp claims in [h_sign_start m; h_sign_end m; h_claim_end m]
  end.
