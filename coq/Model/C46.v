(* C46 — executable model of the deadline computations of the tBTC wallet actions:
     node.go processCoordinationResult   start = window.endBlock(), expiry = start + ValidityBlocks()
     deposit_sweep.go / redemption.go / moving_funds.go / moved_funds_sweep.go  execute():
        signTransaction(start, expiry - signingTimeoutSafetyMarginBlocks), then
        broadcastTransaction(broadcastTimeout, broadcastCheckDelay)
     wallet.go signTransaction            signing context cancelled at the timeout block,
                                          signBatch started at the start block
     signing.go sign                      loop timeout = start + signingAttemptsLimit *
                                          signingAttemptMaximumBlocks()
     heartbeat.go execute()               signing context cancelled at expiry -
                                          heartbeatInactivityClaimValidityBlocks, claim context
                                          cancelled at expiry - heartbeatTimeoutSafetyMarginBlocks
     node.go withCancelOnBlock           the helper every block deadline above is armed with: a
                                          machine (derived context open / cancelled; events: parent
                                          done, block reached, waiter error) with the rule of the
                                          code as written — `defer cancelBlockCtx()` runs whatever
                                          waitForBlockFn returned — and the scripted block waiter /
                                          block clock of the driver as its environment
   Every number comes from Gen.Consts_C46 (regenerated from /repo on every run); durations are
   nanoseconds.  Block numbers are Go uint64 values (wrap modulo 2^64).  The only value typed
   here is the nominal host-chain block time of the property statement (12 s). *)
From Coq Require Import ZArith List Bool.
From KV Require Import Common.Verdict Gen.Consts_C46.
Import ListNotations.
Open Scope Z_scope.

Definition two64 : Z := 18446744073709551616.
Definition u64 (z : Z) : Z := z mod two64.

(* nominal block time of the property statement, in nanoseconds *)
Definition block_time_ns : Z := 12000000000.
(* blocks mined during a duration at the nominal block time, rounded up *)
Definition blocks_of_ns (d : Z) : Z := (d + block_time_ns - 1) / block_time_ns.

Inductive action := DepositSweep | Redemption | MovingFunds | MovedFundsSweep | Heartbeat.

Definition is_tx (a : action) : bool := match a with Heartbeat => false | _ => true end.

(* Proposal.ValidityBlocks() *)
Definition validity (a : action) : Z :=
  match a with
  | DepositSweep => depositSweepProposalValidityBlocks
  | Redemption => redemptionProposalValidityBlocks
  | MovingFunds => movingFundsProposalValidityBlocks
  | MovedFundsSweep => movedFundsSweepProposalValidityBlocks
  | Heartbeat => heartbeatTotalProposalValidityBlocks
  end.

(* blocks between the end of the signing phase and the proposal expiry *)
Definition signing_end_offset (a : action) : Z :=
  match a with
  | DepositSweep => depositSweepSigningTimeoutSafetyMarginBlocks
  | Redemption => redemptionSigningTimeoutSafetyMarginBlocks
  | MovingFunds => movingFundsSigningTimeoutSafetyMarginBlocks
  | MovedFundsSweep => movedFundsSweepSigningTimeoutSafetyMarginBlocks
  | Heartbeat => heartbeatInactivityClaimValidityBlocks
  end.

(* the documented safety margin that must remain after the signing phase *)
Definition safety_margin (a : action) : Z :=
  match a with
  | Heartbeat => heartbeatTimeoutSafetyMarginBlocks
  | _ => signing_end_offset a
  end.

Definition broadcast_timeout_ns (a : action) : Z :=
  match a with
  | DepositSweep => depositSweepBroadcastTimeout
  | Redemption => redemptionBroadcastTimeout
  | MovingFunds => movingFundsBroadcastTimeout
  | MovedFundsSweep => movedFundsSweepBroadcastTimeout
  | Heartbeat => 0
  end.

Definition broadcast_check_delay_ns (a : action) : Z :=
  match a with
  | DepositSweep => depositSweepBroadcastCheckDelay
  | Redemption => redemptionBroadcastCheckDelay
  | MovingFunds => movingFundsBroadcastCheckDelay
  | MovedFundsSweep => movedFundsSweepBroadcastCheckDelay
  | Heartbeat => 0
  end.

(* signingAttemptMaximumBlocks() *)
Definition attempt_max_blocks : Z :=
  signingAttemptAnnouncementDelayBlocks + signingAttemptAnnouncementActiveBlocks +
  signingAttemptMaximumProtocolBlocks + signingAttemptCoolDownBlocks.

(* uint64(signingAttemptsLimit * signingAttemptMaximumBlocks()): one complete retry loop *)
Definition loop_blocks : Z := u64 (signingAttemptsLimit * attempt_max_blocks).

(* processCoordinationResult *)
Definition action_start (coordination_block : Z) : Z := u64 (coordination_block + coordinationDurationBlocks).
Definition expiry (a : action) (start : Z) : Z := u64 (start + validity a).

(* the block at which the signing context is cancelled; None = "invalid proposal expiry
   block" (the guard before the subtraction) *)
Definition signing_end_of (offset start_expiry : Z) : option Z :=
  if start_expiry <? offset then None else Some (u64 (start_expiry - offset)).
Definition signing_end (a : action) (exp : Z) : option Z := signing_end_of (signing_end_offset a) exp.

(* the first message's signing: starts at the action's start block *)
Definition signing_start (start : Z) : Z := start.
(* ... except that moving_funds.go execute() first waits for the commitment confirmations and
   hands proposalProcessingStartBlock + movingFundsCommitmentConfirmationBlocks to signTransaction *)
Definition signing_delay (a : action) : Z :=
  match a with MovingFunds => movingFundsCommitmentConfirmationBlocks | _ => 0 end.
Definition action_signing_start (a : action) (start : Z) : Z := u64 (start + signing_delay a).
Definition loop_timeout (start : Z) : Z := u64 (start + loop_blocks).

(* heartbeat: the inactivity claim context is cancelled here (no guard in the code) *)
Definition claim_end (exp : Z) : Z := u64 (exp - heartbeatTimeoutSafetyMarginBlocks).

(* ---------------- what the property demands, on arbitrary numbers ---------------- *)
(* [v] validity, [off] signing end offset, [mg] safety margin, [lp] blocks of one retry loop,
   [bt] broadcast timeout in ns *)
Definition constants_ok (tx : bool) (v off mg lp bt : Z) : bool :=
  (0 <=? mg) && (mg <=? off) && (off <=? v)      (* signing ends >= margin before expiry, after start *)
  && (lp <=? v - off)                             (* one complete retry loop fits *)
  && (if tx then blocks_of_ns bt <=? off          (* broadcast ends before expiry at 12 s/block *)
      else 0 <? mg).                              (* heartbeat claim window ends before expiry *)

(* the windows of one execution: start <= signing start, signing end <= expiry - margin, a
   complete loop fits, post-signing step ends by the expiry *)
Definition windows_ok (start exp mg lp : Z) (sign_start sign_end : Z) (post_end : option Z) : bool :=
  (start <=? sign_start) && (sign_end <=? exp - mg) && (lp <=? sign_end - start)
  && match post_end with None => true | Some pe => (sign_end <=? pe) && (pe <=? exp) end.

(* ---------------- withCancelOnBlock: is the deadline ENFORCED ---------------- *)
(* node.go withCancelOnBlock(ctx, block, waitForBlockFn):
     blockCtx, cancelBlockCtx := context.WithCancel(ctx)
     go func() { defer cancelBlockCtx(); err := waitForBlockFn(ctx, block); if err != nil { log } }()
   The derived context is a two-state machine.  Events: the parent context is done
   (context.WithCancel propagates), the waiter returned nil (the target block arrived — or the
   waiter's own context, the parent, was done), the waiter returned an error, anything else. *)
Inductive ctx_state := CtxOpen | CtxCancelled.
Inductive event := EvParentDone | EvBlockReached | EvWaiterError | EvQuiet.

(* [on_error]: is the derived context cancelled when the waiter fails.  The code as written:
   yes (the cancel is deferred, so it runs after an error as well) *)
Definition closing (on_error : bool) (e : event) : bool :=
  match e with
  | EvParentDone => true
  | EvBlockReached => true
  | EvWaiterError => on_error
  | EvQuiet => false
  end.
Definition ctx_step (on_error : bool) (s : ctx_state) (e : event) : ctx_state :=
  match s with
  | CtxCancelled => CtxCancelled
  | CtxOpen => if closing on_error e then CtxCancelled else CtxOpen
  end.
Definition ctx_run (on_error : bool) (s : ctx_state) (h : list event) : ctx_state :=
  fold_left (ctx_step on_error) h s.
Definition code_on_error : bool := true.
Definition is_closed (s : ctx_state) : bool := match s with CtxCancelled => true | CtxOpen => false end.

(* the environment: a scripted block waiter and a scripted block clock (the driver's fakes).
   WOk returns nil once the clock shows the target block; WErrAfter k returns an error once the
   clock shows (block at arming) + k  (k = 0: at once); WHang never returns by itself.  Every
   pending waiter returns nil when its context (the parent) is done, as waitForBlockHeight does *)
Inductive wmode := WOk | WErrAfter (k : Z) | WHang.
Inductive wret := NotReturned | RetNil | RetErr.
Inductive dstep := SAdvance (b : Z) | SCancelParent.

Definition fires (m : wmode) (armed target b : Z) : wret :=
  match m with
  | WOk => if target <=? b then RetNil else NotReturned
  | WErrAfter k => if armed + k <=? b then RetErr else NotReturned
  | WHang => NotReturned
  end.

Record wstate := { w_ret : wret; w_parent : bool; w_ctx : ctx_state }.
Definition w_init : wstate := {| w_ret := NotReturned; w_parent := false; w_ctx := CtxOpen |}.

(* the machine events one scripted step gives rise to, the waiter's state and the parent's *)
Definition step_events (m : wmode) (armed target : Z) (st : wstate) (d : dstep)
  : list event * wret * bool :=
  match d with
  | SCancelParent =>
      if w_parent st then ([EvQuiet], w_ret st, true)
      else match w_ret st with
           | NotReturned => ([EvParentDone; EvBlockReached], RetNil, true)
           | r => ([EvParentDone], r, true)
           end
  | SAdvance b =>
      match w_ret st with
      | NotReturned =>
          match fires m armed target b with
          | NotReturned => ([EvQuiet], NotReturned, w_parent st)
          | RetNil => ([EvBlockReached], RetNil, w_parent st)
          | RetErr => ([EvWaiterError], RetErr, w_parent st)
          end
      | r => ([EvQuiet], r, w_parent st)
      end
  end.

Definition world_step (on_error : bool) (m : wmode) (armed target : Z) (st : wstate) (d : dstep) : wstate :=
  match step_events m armed target st d with
  | (evs, r, pd) => {| w_ret := r; w_parent := pd; w_ctx := ctx_run on_error (w_ctx st) evs |}
  end.
Definition world_run (on_error : bool) (m : wmode) (armed target : Z) (st : wstate) (steps : list dstep) : wstate :=
  fold_left (world_step on_error m armed target) steps st.

(* what the driver records after the arming and after every scripted step: has the waiter
   returned (a positive signal of the fake), is the derived context closed *)
Record cobs := { o_ret : wret; o_closed : bool }.
Definition obs_of (st : wstate) : cobs := {| o_ret := w_ret st; o_closed := is_closed (w_ctx st) |}.
Fixpoint world_obs (on_error : bool) (m : wmode) (armed target : Z) (st : wstate) (steps : list dstep) : list cobs :=
  match steps with
  | [] => []
  | d :: ds => let st' := world_step on_error m armed target st d in
               obs_of st' :: world_obs on_error m armed target st' ds
  end.
(* arming at clock [armed] is the first step: the waiter is called and looks at the clock *)
Definition all_steps (armed : Z) (steps : list dstep) : list dstep := SAdvance armed :: steps.
Definition model_obs (m : wmode) (armed target : Z) (steps : list dstep) : list cobs :=
  world_obs code_on_error m armed target w_init (all_steps armed steps).

(* who armed the deadline *)
Inductive armer :=
| APrim (target : Z) (has_parent : bool)   (* withCancelOnBlock called directly *)
| ASignTx (start timeout : Z)               (* walletTransactionExecutor.signTransaction: signBatch's context *)
| AHbSign (start exp : Z)                   (* heartbeatAction.execute(): the signing executor's context *)
| AHbClaim (start exp : Z)                  (* heartbeatAction.execute(): the inactivity claim executor's context *)
| AExec (a : action) (start exp : Z).       (* a transaction action's execute(): the signing executor's context *)

Definition armer_target (ar : armer) : option Z :=
  match ar with
  | APrim t _ => Some t
  | ASignTx _ timeout => Some timeout
  | AHbSign _ exp => signing_end Heartbeat exp
  | AHbClaim _ exp => match signing_end Heartbeat exp with None => None | Some _ => Some (claim_end exp) end
  | AExec a _ exp => signing_end a exp
  end.
(* the start block handed to the executor whose context is observed *)
Definition armer_sign_start (ar : armer) : option Z :=
  match ar with
  | APrim _ _ => None
  | ASignTx start _ => Some (signing_start start)
  | AHbSign start _ => Some (signing_start start)
  | AHbClaim _ _ => None
  | AExec a start _ => Some (action_signing_start a start)
  end.
(* the latest block the property allows for this deadline *)
Definition armer_latest (ar : armer) : Z :=
  match ar with
  | APrim t _ => t
  | ASignTx _ timeout => timeout
  | AHbSign _ exp => exp - heartbeatTimeoutSafetyMarginBlocks
  | AHbClaim _ exp => exp - 1
  | AExec a _ exp => exp - safety_margin a
  end.
Definition armer_start (ar : armer) : option Z :=
  match ar with
  | APrim _ _ => None
  | ASignTx start _ | AHbSign start _ | AHbClaim start _ | AExec _ start _ => Some start
  end.
Definition armer_has_parent (ar : armer) : bool :=
  match ar with APrim _ p => p | _ => false end.   (* the actions derive from context.Background() *)

Definition is_cancel (d : dstep) : bool := match d with SCancelParent => true | SAdvance _ => false end.
Definition returned (r : wret) : bool := match r with NotReturned => false | _ => true end.

(* the deadline is enforced, on the observations alone: after the arming and after every
   scripted step the derived context is closed exactly when a closing event has been seen —
   the waiter returned (nil: the block arrived; an error: the block counter failed) or the
   parent was cancelled; in particular it never stays open after a waiter error, and it is not
   closed (the phase is not cut short) while none of them has happened *)
Fixpoint enforce_ok (parent_done : bool) (steps : list dstep) (obs : list cobs) : bool :=
  match steps, obs with
  | [], [] => true
  | d :: ds, o :: os =>
      let pd := parent_done || is_cancel d in
      Bool.eqb (o_closed o) (pd || returned (o_ret o)) && enforce_ok pd ds os
  | _, _ => false
  end.

(* ---------------- cases ---------------- *)
Record static_obs := {
  s_validity : Z;      (* proposal.ValidityBlocks() *)
  s_offset : Z;        (* constructor: signingTimeoutSafetyMarginBlocks / heartbeat: see driver *)
  s_bt : Z;            (* constructor: broadcastTimeout, ns *)
  s_cd : Z;            (* constructor: broadcastCheckDelay, ns *)
  s_start : Z;         (* constructor: proposalProcessingStartBlock *)
  s_expiry : Z;        (* constructor: proposalExpiryBlock *)
  s_limit : Z;         (* signingExecutor.signingAttemptsLimit *)
  s_attempt : Z;       (* signingAttemptMaximumBlocks() *)
  s_loop : Z           (* uint64(limit * attempt) *)
}.

Inductive hb_result := HbOk | HbErr | HbPanic.

Record hb_obs := {
  h_sign_start : option Z;   (* startBlock passed to the signing executor *)
  h_sign_end : option Z;     (* block at which the signing context is cancelled *)
  h_claim_end : option Z;    (* block at which the inactivity claim context is cancelled *)
  h_result : hb_result
}.

(* ---------------- the signing executor's retry loop under the action deadline ----------------
   signing.go sign() + signing_loop.go start(), for a member whose attempts all fail, in the
   driver's simulated world: the block clock moves only when nothing else can happen and then
   jumps to the earliest awaited block; the caller's context is cancelled in the step in which
   the clock reaches the deadline [d].  [par] = the loop context is derived from the caller's
   context (the code as written: withCancelOnBlock(ctx, loopTimeoutBlock, ...)); [par = false] is
   the variant whose loop context has no parent, kept for the refutation theorem.
   An attempt [k] (from 0) of a message starting at [s]: announcement from [ann_start] to
   [ann_end]; the real announcer on a silent channel reports a minority ready at [ann_end] and
   the loop moves on (FMinority), or the loop's wait for [ann_start] fails at once (FWaitErr). *)
Inductive fail_kind := FMinority | FWaitErr.

Record loop_obs := {
  l_sends : list (Z * bool);  (* clock at every announcement sent, and whether its context was live *)
  l_end : Z;                  (* clock when sign() returned; -1: never (out of fuel / at rest, not returned) *)
  l_err : bool                (* returned an error and no signature *)
}.

Definition ann_start (s k : Z) : Z := s + k * attempt_max_blocks + signingAttemptAnnouncementDelayBlocks.
Definition ann_end (s k : Z) : Z := ann_start s k + signingAttemptAnnouncementActiveBlocks.
(* the clock value from which the loop context is done *)
Definition close_time (par : bool) (s d : Z) : Z :=
  if par then Z.min (s + loop_blocks) d else s + loop_blocks.
(* a wait for block [b] entered at clock [t] returns at this clock value (block reached or loop
   context done, whichever the clock meets first) *)
Definition wait_until (cl t b : Z) : Z := Z.max t (Z.min b cl).

Fixpoint run_loop (cl s : Z) (script : list fail_kind) (fuel : nat) (k t : Z) (acc : list (Z * bool))
  : loop_obs :=
  match fuel with
  | O => {| l_sends := rev acc; l_end := -1; l_err := false |}
  | S f =>
      if cl <=? t then {| l_sends := rev acc; l_end := t; l_err := true |}   (* loop top: ctx.Err() *)
      else if ann_end s k <=? t then run_loop cl s (tl script) f (k + 1) t acc  (* announcement window in the past: skipped *)
      else match hd FMinority script with
           | FWaitErr => run_loop cl s (tl script) f (k + 1) t acc
           | FMinority =>
               let t1 := wait_until cl t (ann_start s k) in
               let acc' := (t1, negb (cl <=? t1)) :: acc in          (* Announce sends first *)
               if cl <=? t1 then {| l_sends := rev acc'; l_end := t1; l_err := true |}
               else let t2 := wait_until cl t1 (ann_end s k) in       (* ... and blocks until its context is done *)
                    if cl <=? t2 then {| l_sends := rev acc'; l_end := t2; l_err := true |}
                    else run_loop cl s (tl script) f (k + 1) t2 acc'
           end
  end.

Definition loop_fuel (script : list fail_kind) : nat :=
  (length script + Z.to_nat signingAttemptsLimit + 3)%nat.

(* sign(ctx, message, s) called at clock [c0] with the caller's context cancelled at [d] *)
Definition sign_model (par : bool) (s d c0 : Z) (script : list fail_kind) : loop_obs :=
  run_loop (close_time par s d) s script (loop_fuel script) 0 c0 [].

(* the property on an observation: sign() has returned, with an error, by the time the clock
   shows the deadline (or at the clock of the call if that is later, or earlier when its own loop
   timeout comes first), and no attempt was started (announced on a live context) at or after
   the deadline block *)
Definition live_before (d : Z) (x : Z * bool) : bool := negb (snd x) || (fst x <? d).
Definition loop_spec_ok (s d c0 : Z) (o : loop_obs) : bool :=
  (0 <=? l_end o) && (l_end o <=? Z.max c0 (Z.min (s + loop_blocks) d))
  && forallb (live_before d) (l_sends o) && l_err o.

Fixpoint sends_eqb (a b : list (Z * bool)) : bool :=
  match a, b with
  | [], [] => true
  | (x, p) :: a', (y, q) :: b' => (x =? y) && Bool.eqb p q && sends_eqb a' b'
  | _, _ => false
  end.
Definition loop_obs_eqb (a b : loop_obs) : bool :=
  sends_eqb (l_sends a) (l_sends b) && (l_end a =? l_end b) && Bool.eqb (l_err a) (l_err b).

Inductive case :=
(* a transaction action built by its production constructor for (start, expiry) *)
| CStatic (a : action) (start exp : Z) (o : static_obs)
(* window.endBlock() for a coordination block *)
| CStart (coordination_block : Z) (observed : Z)
(* walletTransactionExecutor.signTransaction(start, timeout): start block handed to signBatch
   and block at which the signing context is cancelled *)
| CSign (start timeout : Z) (sign_start sign_end : Z)
(* heartbeatAction.execute() for (start, expiry); [claims] = the heartbeat fails and the failure
   threshold is reached, so the inactivity claim is issued *)
| CHeartbeat (start exp : Z) (claims : bool) (o : hb_obs)
(* a deadline armed by [ar] when the block clock shows [armed], with the scripted waiter [m],
   followed by the scripted steps: the start block handed to the executor, the block the waiter
   was asked for, and one observation after the arming and after every step *)
| CEnforce (ar : armer) (armed : Z) (m : wmode) (steps : list dstep)
           (sign_start : option Z) (target_obs : option Z) (obs : list cobs)
(* signingExecutor.sign (or signBatch) for a message starting at [s], called when the simulated
   clock shows [c0], the caller's context cancelled at [d], every attempt failing as scripted *)
| CLoop (s d c0 : Z) (script : list fail_kind) (o : loop_obs).

Definition optZ_eqb (a b : option Z) : bool :=
  match a, b with Some x, Some y => x =? y | None, None => true | _, _ => false end.
Definition hb_eqb (a b : hb_result) : bool :=
  match a, b with HbOk, HbOk | HbErr, HbErr | HbPanic, HbPanic => true | _, _ => false end.

Definition is_u64 (z : Z) : bool := (0 <=? z) && (z <? two64).

(* model of heartbeat execute() as far as the deadlines go *)
Definition heartbeat_model (start exp : Z) (claims : bool) : hb_obs :=
  match signing_end Heartbeat exp with
  | None => {| h_sign_start := None; h_sign_end := None; h_claim_end := None; h_result := HbErr |}
  | Some se => {| h_sign_start := Some (signing_start start); h_sign_end := Some se;
                  h_claim_end := if claims then Some (claim_end exp) else None; h_result := HbOk |}
  end.

(* does a heartbeat with [prior] consecutive failures already counted and [active] members
   active during signing issue an inactivity claim? *)
Definition hb_claims (prior active : Z) : bool :=
  (active <? heartbeatSigningMinimumActiveMembers) &&
  (heartbeatConsecutiveFailureThreshold <=? prior + 1).

Definition spec_ok (c : case) : bool :=
  match c with
  | CStatic a start exp o =>
      (* the constants wired into the action satisfy the nesting, and so do the windows this
         very action instance will use when its expiry is start + validity *)
      constants_ok true (s_validity o) (s_offset o) (s_offset o) (s_loop o) (s_bt o)
      && (s_start o =? start) && (s_expiry o =? exp)
      && (s_loop o =? s_limit o * s_attempt o)
      && (if (exp =? start + s_validity o) && (s_offset o <=? s_expiry o) then
            windows_ok start exp (s_offset o) (s_loop o) (s_start o) (s_expiry o - s_offset o)
                       (Some (s_expiry o - s_offset o + blocks_of_ns (s_bt o)))
          else true)
  | CStart cb obs => cb <=? obs
  | CSign start timeout ss se => (start <=? ss) && (se <=? timeout)
  | CHeartbeat start exp claims o =>
      match h_result o with
      | HbPanic => false
      | HbErr => true      (* refused before signing: nothing is signed *)
      | HbOk =>
          match h_sign_start o, h_sign_end o with
          | Some ss, Some se =>
              (start <=? ss) && (se <=? exp - heartbeatTimeoutSafetyMarginBlocks)
              && (if exp =? start + heartbeatTotalProposalValidityBlocks
                  then loop_blocks <=? se - start else true)
              && match h_claim_end o with
                 | None => true
                 | Some ce => (se <=? ce) && (ce <? exp)
                 end
          | _, _ => false
          end
      end
  | CEnforce ar armed m steps ss t obs =>
      match t with
      | None =>
          (* no deadline armed: fine only if nothing was signed either (execute() refused before
             the signing step) *)
          match ar, ss, obs with
          | APrim _ _, _, _ => false
          | _, None, [] => true
          | _, _, _ => false
          end
      | Some t =>
          (t <=? armer_latest ar)
          && match armer_start ar, ss with Some s0, Some s => s0 <=? s | _, _ => true end
          && match ar, ss with
             | AExec a start exp, Some s =>
                 (* expiry as node.go sets it: one complete retry loop fits after the real start *)
                 if exp =? start + validity a then s + loop_blocks <=? t else true
             | _, _ => true
             end
          && enforce_ok false (all_steps armed steps) obs
      end
  | CLoop s d c0 script o => loop_spec_ok s d c0 o
  end.

Definition wret_eqb (a b : wret) : bool :=
  match a, b with NotReturned, NotReturned | RetNil, RetNil | RetErr, RetErr => true | _, _ => false end.
Definition cobs_eqb (a b : cobs) : bool :=
  wret_eqb (o_ret a) (o_ret b) && Bool.eqb (o_closed a) (o_closed b).
Fixpoint obs_eqb (a b : list cobs) : bool :=
  match a, b with
  | [], [] => true
  | x :: a', y :: b' => cobs_eqb x y && obs_eqb a' b'
  | _, _ => false
  end.

Definition agree (c : case) : bool :=
  match c with
  | CStatic a start exp o =>
      (s_validity o =? validity a) && (s_offset o =? signing_end_offset a)
      && (s_bt o =? broadcast_timeout_ns a) && (s_cd o =? broadcast_check_delay_ns a)
      && (s_limit o =? signingAttemptsLimit) && (s_attempt o =? attempt_max_blocks)
      && (s_loop o =? loop_blocks)
  | CStart cb obs => obs =? action_start cb
  | CSign start timeout ss se => (ss =? signing_start start) && (se =? timeout)
  | CHeartbeat start exp claims o =>
      let m := heartbeat_model start exp claims in
      optZ_eqb (h_sign_start o) (h_sign_start m) && optZ_eqb (h_sign_end o) (h_sign_end m)
      && optZ_eqb (h_claim_end o) (h_claim_end m) && hb_eqb (h_result o) (h_result m)
  | CEnforce ar armed m steps ss t obs =>
      optZ_eqb t (armer_target ar) && optZ_eqb ss (armer_sign_start ar)
      && match armer_target ar with
         | Some tm => obs_eqb obs (model_obs m armed tm steps)
         | None => false
         end
  | CLoop s d c0 script o => loop_obs_eqb o (sign_model true s d c0 script)
  end.

Definition step_wf (d : dstep) : bool := match d with SAdvance b => is_u64 b | SCancelParent => true end.
Definition mode_wf (armed : Z) (m : wmode) : bool :=
  match m with WErrAfter k => (0 <=? k) && (armed + k <? two64) | _ => true end.
Definition armer_wf (ar : armer) : bool :=
  match ar with
  | APrim t _ => is_u64 t
  | ASignTx start timeout => is_u64 start && is_u64 timeout
  | AHbSign start exp | AHbClaim start exp =>
      is_u64 start && is_u64 exp && (heartbeatInactivityClaimValidityBlocks <=? exp)
  | AExec a start exp =>
      is_tx a && is_u64 start && is_u64 exp && (signing_end_offset a <=? exp)
      && (start + signing_delay a <? two64)
  end.

Definition well_formed (c : case) : bool :=
  match c with
  | CStatic a start exp o => is_tx a && is_u64 start && is_u64 exp
  | CStart cb obs => is_u64 cb && (cb <? 4611686018427387904)
  | CSign start timeout _ _ => is_u64 start && is_u64 timeout
  | CHeartbeat start exp _ _ => is_u64 start && is_u64 exp
  | CEnforce ar armed m steps _ _ _ =>
      armer_wf ar && is_u64 armed && mode_wf armed m && forallb step_wf steps
      && (armer_has_parent ar || negb (existsb is_cancel steps))
  | CLoop s d c0 _ _ =>
      is_u64 s && is_u64 d && is_u64 c0 && (s + loop_blocks + attempt_max_blocks <? two64)
  end.

Definition judge (c : case) : verdict :=
  if well_formed c then decide (spec_ok c) (agree c) else BadCase.

(* what --replay prints: the model's own numbers for the case *)
Definition explain (c : case) : list (option Z) :=
  match c with
  | CStatic a start exp o =>
      [Some (validity a); Some (signing_end_offset a); Some (broadcast_timeout_ns a);
       Some loop_blocks; signing_end a exp]
  | CStart cb _ => [Some (action_start cb)]
  | CSign start timeout _ _ => [Some (signing_start start); Some timeout]
  | CHeartbeat start exp claims _ =>
      let m := heartbeat_model start exp claims in [h_sign_start m; h_sign_end m; h_claim_end m]
  | CEnforce ar armed m steps _ _ _ =>
      (* the deadline block, then per observation: 0 not returned / 1 nil / 2 error, closed 0 / 1 *)
      armer_target ar ::
      match armer_target ar with
      | None => []
      | Some tm =>
          flat_map (fun o => [Some (match o_ret o with NotReturned => 0 | RetNil => 1 | RetErr => 2 end);
                              Some (if o_closed o then 1 else 0)])
                   (model_obs m armed tm steps)
      end
  | CLoop s d c0 script _ =>
      (* clock at the return, then the clock of every announcement and 1 live / 0 done *)
      let m := sign_model true s d c0 script in
      Some (l_end m) :: flat_map (fun x : Z * bool => [Some (fst x); Some (if snd x then 1 else 0)]) (l_sends m)
  end.
