(* C10 — executable model of the two performMembersSelection methods
   (pkg/tbtc/signing_loop.go: performMembersSelection / qualifiedOperatorsSet /
   excludedMembersIndexes; pkg/tbtc/dkg_loop.go: performMembersSelection / qualifiedOperatorsSet)
   on top of the model of pkg/tecdsa/retry (Model/C09.v, imported, not copied).

   A group is the list [ops] of its seats' operators (operator identifiers = ranks of the
   chain.Address strings); member index i (1-based, Go's group.MemberIndex = uint8) sits on
   ops[i-1].  The selection functions take NO member index: in the Go code the receiver's own
   index is not read by these methods, which is what "every member derives the same
   participants" rests on; the driver checks it by running them for every member.
   The model covers groups of at most 255 seats (uint8 member indexes do not wrap). *)
From Coq Require Import ZArith NArith List Bool Lia.
From KV Require Import Common.Verdict Common.GoRand Model.C09.
Import ListNotations.

Inductive sel := SOk (excluded : list N) | SErrTooMany | SErrRetry | SPanic.

(* member indexes 1..n in seat order *)
Definition members (ops : list N) : list N := map N.of_nat (seq 1 (length ops)).

(* operators[memberIndex-1]; index 0 wraps to 255 (uint8) which is out of range for <= 255 seats *)
Definition op_of (ops : list N) (i : N) : option N :=
  if N.eqb i 0 then None else nth_error ops (N.to_nat (i - 1)).

(* the operators of the ready members, in the order of the ready list; None = index out of range *)
Fixpoint ready_ops (ops ready : list N) : option (list N) :=
  match ready with
  | [] => Some []
  | i :: t =>
      match op_of ops i, ready_ops ops t with
      | Some o, Some r => Some (o :: r)
      | _, _ => None
      end
  end.

(* the loop over the group's seats: (member index, operator) *)
Definition indexed (ops : list N) : list (N * N) := combine (members ops) ops.
Definition is_included (q : N -> bool) (ready : list N) (io : N * N) : bool :=
  q (snd io) && memN (fst io) ready.
Definition included (q : N -> bool) (ops ready : list N) : list N :=
  map fst (filter (is_included q ready) (indexed ops)).
Definition excluded (q : N -> bool) (ops ready : list N) : list N :=
  map fst (filter (fun io => negb (is_included q ready io)) (indexed ops)).

(* sort.Slice(... <) on member indexes: the ascending arrangement (duplicates kept) *)
Fixpoint insertN (x : N) (l : list N) : list N :=
  match l with
  | [] => [x]
  | y :: t => if N.leb x y then x :: l else y :: insertN x t
  end.
Definition sortN (l : list N) : list N := fold_right insertN [] l.

Section Select.
  Variable rngT : Type.
  Variable mkrng : Z -> rngT.
  Variable shuffle : forall A : Type, rngT -> list A -> list A.
  Variable iter : list N -> list N.          (* Go map iteration inside pkg/tecdsa/retry *)

  (* signingRetryLoop.qualifiedOperatorsSet with attemptCounter = att, attemptSeed = seed,
     HonestThreshold = thr: the result of the retry algorithm on the ready members' operators
     (the Go code turns the returned seat list into a set) *)
  Definition signing_qualified (ops : list N) (thr : N) (seed : Z) (att : N) (ready : list N) : res :=
    match ready_ops ops ready with
    | None => Panic
    | Some rops => signing rngT mkrng shuffle iter rops seed (att - 1) thr
    end.

  (* signingRetryLoop.excludedMembersIndexes, given the outcome of qualifiedOperatorsSet *)
  Definition signing_finish (ops : list N) (thr : N) (seed : Z) (att : N) (ready : list N)
             (qualified : res) : sel :=
    match qualified with
    | Ok l =>
        let q := fun o => memN o l in
        let inc := included q ops ready in
        let exc := excluded q ops ready in
        if Z.of_N thr <? len inc then
          let sh := shuffle N (mkrng (wrap_int64 (seed + Z.of_N att))) (sortN inc) in
          SOk (sortN (exc ++ skipn (N.to_nat thr) sh))
        else SOk exc
    | ErrTooMany => SErrTooMany
    | ErrRetry => SErrRetry
    | Panic => SPanic
    end.

  (* signingRetryLoop.performMembersSelection *)
  Definition signing_select (ops : list N) (thr : N) (seed : Z) (att : N) (ready : list N) : sel :=
    signing_finish ops thr seed att ready (signing_qualified ops thr seed att ready).

  (* dkgRetryLoop.qualifiedOperatorsSet with GroupQuorum = quorum *)
  Definition dkg_qualified (ops : list N) (quorum : N) (seed : Z) (att : N) (ready : list N) : res :=
    match ready_ops ops ready with
    | None => Panic
    | Some rops =>
        if N.eqb att 1 then Ok rops
        else keygen rngT mkrng shuffle iter rops seed (att - 1) quorum
    end.

  Definition dkg_finish (ops ready : list N) (qualified : res) : sel :=
    match qualified with
    | Ok l => SOk (excluded (fun o => memN o l) ops ready)
    | ErrTooMany => SErrTooMany
    | ErrRetry => SErrRetry
    | Panic => SPanic
    end.

  (* dkgRetryLoop.performMembersSelection *)
  Definition dkg_select (ops : list N) (quorum : N) (seed : Z) (att : N) (ready : list N) : sel :=
    dkg_finish ops ready (dkg_qualified ops quorum seed att ready).
End Select.

(* ---------- selection HISTORIES on one retry-loop object ----------
   What a signingRetryLoop / dkgRetryLoop object keeps from attempt to attempt and the selection
   methods read: the seat list, the threshold / quorum and the attempt seed are set by the
   constructor and never written again; attemptCounter is overwritten by the loop before every
   attempt.  The selection methods write no field.  A history is the list of (map-iteration
   oracle of that call, attempt number, ready list) the object went through; a member that
   skipped early attempts is a fresh object running a suffix. *)
Inductive kind := KSign | KDkg.

Record loop := { l_kind : kind; l_ops : list N; l_count : N; l_seed : Z;
                 l_att : N (* attemptCounter *) }.

Section History.
  Variable rngT : Type.
  Variable mkrng : Z -> rngT.
  Variable shuffle : forall A : Type, rngT -> list A -> list A.

  (* the pure selection function of (ready list, attempt number, seed) *)
  Definition select_of (iter : list N -> list N) (k : kind) (ops : list N) (count : N) (seed : Z)
             (att : N) (ready : list N) : sel :=
    match k with
    | KSign => signing_select rngT mkrng shuffle iter ops count seed att ready
    | KDkg => dkg_select rngT mkrng shuffle iter ops count seed att ready
    end.

  Definition hstep := ((list N -> list N) * N * list N)%type.

  (* one attempt on the object: the loop sets attemptCounter, then selects *)
  Definition attempt_step (l : loop) (s : hstep) : loop * sel :=
    let '(iter, att, ready) := s in
    let l' := {| l_kind := l_kind l; l_ops := l_ops l; l_count := l_count l; l_seed := l_seed l;
                 l_att := att |} in
    (l', select_of iter (l_kind l') (l_ops l') (l_count l') (l_seed l') (l_att l') ready).

  (* the answer to step [s] as a function of the wallet's constants only *)
  Definition pure_sel (l : loop) (s : hstep) : sel :=
    let '(iter, att, ready) := s in
    select_of iter (l_kind l) (l_ops l) (l_count l) (l_seed l) att ready.

  Fixpoint run_history (l : loop) (h : list hstep) : loop * list sel :=
    match h with
    | [] => (l, [])
    | s :: t =>
        let (l1, o) := attempt_step l s in
        let (l2, rest) := run_history l1 t in
        (l2, o :: rest)
    end.
End History.

(* two loop objects of the same wallet for the same message / DKG seed (their attempt counters,
   i.e. where they are in their own histories, may differ) *)
Definition same_wallet (l l' : loop) : Prop :=
  l_kind l = l_kind l' /\ l_ops l = l_ops l' /\ l_count l = l_count l' /\ l_seed l = l_seed l'.

(* ---------- executable form of the property, on the implementation's outputs ---------- *)

Definition sel_eqb (a b : sel) : bool :=
  match a, b with
  | SOk x, SOk y => list_eqb x y
  | SErrTooMany, SErrTooMany | SErrRetry, SErrRetry | SPanic, SPanic => true
  | _, _ => false
  end.

Fixpoint nodupb (l : list N) : bool :=
  match l with
  | [] => true
  | a :: t => negb (memN a t) && nodupb t
  end.

(* the members a client that received [ex] takes as included (signing_loop.go start:
   every member index of the group that is not in the excluded list) *)
Definition included_of (ops ex : list N) : list N :=
  filter (fun i => negb (memN i ex)) (members ops).

Definition in_range (ops : list N) (i : N) : bool :=
  N.leb 1 i && N.leb i (N.of_nat (length ops)).

(* a ready SET: distinct member indexes of the group *)
Definition ready_wf (ops ready : list N) : bool :=
  nodupb ready && forallb (in_range ops) ready.

(* every included member is ready and sits on an operator of the observed qualified set *)
Definition inc_ready_qualified (ops ready qual inc : list N) : bool :=
  forallb (fun i => memN i ready &&
                    match op_of ops i with Some o => memN o qual | None => false end) inc.

Definition spec_sign_out (ops : list N) (thr : N) (ready qual : list N) (o : sel) : bool :=
  match o with
  | SOk ex =>
      let inc := included_of ops ex in
      (len inc =? Z.of_N thr) && inc_ready_qualified ops ready qual inc
  | SErrTooMany => len ready <? Z.of_N thr
  | SErrRetry | SPanic => false
  end.

Definition spec_dkg_out (ops : list N) (quorum att : N) (ready qual : list N) (o : sel) : bool :=
  match o with
  | SOk ex =>
      let inc := included_of ops ex in
      inc_ready_qualified ops ready qual inc
      && ((len ready <? Z.of_N quorum) || (Z.of_N quorum <=? len inc))
  | SErrTooMany => negb (N.eqb att 1) && (len ready <? Z.of_N quorum)
  | SErrRetry => negb (N.eqb att 1)
  | SPanic => false
  end.

(* One case = one (group, count, seed, attempt, ready set).  [c_readys] are orderings of the
   same ready list (the first one is the reference); the selection was run for EVERY member
   index of the group on EVERY ordering; [c_outs] are the DISTINCT results observed (the driver
   drops exact repetitions, so "all equal" is "exactly one element"); [c_qual] is the sorted
   qualified-operator set observed on the first ordering ([] when that call failed). *)
Record case := { c_kind : kind; c_ops : list N; c_count : N; c_seed : Z; c_att : N;
                 c_readys : list (list N); c_outs : list sel; c_qual : list N }.

Definition case_ok (c : case) : bool :=
  (Nat.leb (length (c_ops c)) 255) && N.leb 1 (c_att c) &&
  match c_readys c with
  | [] => false
  | r :: t => forallb (fun r' => list_eqb (sortN r) (sortN r')) t
  end &&
  negb (Nat.eqb (length (c_outs c)) 0).

Definition first_ready (c : case) : list N := hd [] (c_readys c).

Definition spec_out (c : case) (o : sel) : bool :=
  match c_kind c with
  | KSign => spec_sign_out (c_ops c) (c_count c) (first_ready c) (c_qual c) o
  | KDkg => spec_dkg_out (c_ops c) (c_count c) (c_att c) (first_ready c) (c_qual c) o
  end.

(* The property speaks about ready SETS of group members; on anything else (duplicates, indexes
   outside the group) nothing is demanded, the model must still agree. *)
Definition spec_ok (c : case) : bool :=
  if ready_wf (c_ops c) (first_ready c) then
    Nat.eqb (length (c_outs c)) 1 && forallb (spec_out c) (c_outs c)
  else true.

(* ---------- history cases ----------
   Several members of ONE wallet, each with its own long-lived loop object, go through the same
   consecutive attempts with CHANGING ready sets.  A member with [hm_skip] = k was not there for
   the first k attempts (its object is fresh at step k).  [hm_outs] are its selections from step
   k on.  [hs_qual] is the sorted qualified-operator set observed at that step on a long-lived
   object ([] when that call failed). *)
Record hstep_obs := { hs_att : N; hs_ready : list N; hs_qual : list N }.
Record hmember := { hm_index : N; hm_skip : nat; hm_outs : list sel }.
Record hcase := { h_kind : kind; h_ops : list N; h_count : N; h_seed : Z;
                  h_steps : list hstep_obs; h_members : list hmember }.

(* the outputs of the members present at step j, in member order *)
Definition outs_at (ms : list hmember) (j : nat) : list sel :=
  flat_map (fun m => if Nat.leb (hm_skip m) j
                     then match nth_error (hm_outs m) (j - hm_skip m) with
                          | Some o => [o]
                          | None => []
                          end
                     else []) ms.

Definition step_case (h : hcase) (s : hstep_obs) : case :=
  {| c_kind := h_kind h; c_ops := h_ops h; c_count := h_count h; c_seed := h_seed h;
     c_att := hs_att s; c_readys := [hs_ready s]; c_outs := []; c_qual := hs_qual s |}.

Definition numbered {A} (l : list A) : list (nat * A) := combine (seq 0 (length l)) l.

Definition hcase_ok (h : hcase) : bool :=
  (Nat.leb (length (h_ops h)) 255) && forallb (fun s => N.leb 1 (hs_att s)) (h_steps h) &&
  negb (Nat.eqb (length (h_steps h)) 0) &&
  existsb (fun m => Nat.eqb (hm_skip m) 0) (h_members h) &&
  forallb (fun m => Nat.eqb (hm_skip m + length (hm_outs m)) (length (h_steps h))) (h_members h).

(* The property at one step, on the outputs of the members present: on a ready SET of group
   members all of them derived the same lists and these satisfy the per-output property
   (included = exactly the threshold for signing, included are ready members of THIS attempt on
   qualified operators, at least the quorum for key generation) *)
Definition hspec_step (h : hcase) (js : nat * hstep_obs) : bool :=
  let s := snd js in
  if ready_wf (h_ops h) (hs_ready s) then
    match outs_at (h_members h) (fst js) with
    | [] => false
    | o :: t => forallb (sel_eqb o) t && spec_out (step_case h s) o
    end
  else true.
Definition hspec_ok (h : hcase) : bool := forallb (hspec_step h) (numbered (h_steps h)).

Module Concrete.
  Definition signing_select := signing_select rng rng_seed C09.Concrete.shuffle C09.Concrete.iter.
  Definition dkg_select := dkg_select rng rng_seed C09.Concrete.shuffle C09.Concrete.iter.
  Definition signing_qualified := signing_qualified rng rng_seed C09.Concrete.shuffle C09.Concrete.iter.
  Definition dkg_qualified := dkg_qualified rng rng_seed C09.Concrete.shuffle C09.Concrete.iter.

  (* the model's (selection, sorted qualified operator set) on one ordering of the ready list;
     the qualified set is computed once and shared *)
  Definition model (c : case) (ready : list N) : sel * list N :=
    let q := match c_kind c with
             | KSign => signing_qualified (c_ops c) (c_count c) (c_seed c) (c_att c) ready
             | KDkg => dkg_qualified (c_ops c) (c_count c) (c_seed c) (c_att c) ready
             end in
    (match c_kind c with
     | KSign => signing_finish rng rng_seed C09.Concrete.shuffle
                               (c_ops c) (c_count c) (c_seed c) (c_att c) ready q
     | KDkg => dkg_finish (c_ops c) ready q
     end,
     match q with Ok l => sort_keys l | _ => [] end).

  (* The model is evaluated on the reference ordering only: by Props/C10 order_invariant it
     returns the same on every other ordering, and the outputs observed on ALL orderings (and all
     member indexes) must equal it. *)
  Definition agree (c : case) : bool :=
    let m := model c (first_ready c) in
    forallb (sel_eqb (fst m)) (c_outs c) && list_eqb (snd m) (c_qual c).

  Definition judge (c : case) : verdict :=
    if case_ok c then decide (spec_ok c) (agree c) else BadCase.

  Definition explain (c : case) : sel * list N := model c (first_ready c).

  (* --- histories: the model's answers are its pure selection mapped over the steps --- *)
  Definition hmodel (h : hcase) : list (sel * list N) :=
    map (fun s => model (step_case h s) (hs_ready s)) (h_steps h).

  Definition hagree (h : hcase) : bool :=
    forallb (fun jsm => let '(j, s, m) := jsm in
                        forallb (sel_eqb (fst m)) (outs_at (h_members h) j)
                        && list_eqb (snd m) (hs_qual s))
            (combine (numbered (h_steps h)) (hmodel h)).

  (* the history case the model itself produces for members (index, number of skipped steps) *)
  Definition model_hcase (k : kind) (ops : list N) (count : N) (seed : Z)
             (steps : list (N * list N)) (ms : list (N * nat)) : hcase :=
    let h0 := {| h_kind := k; h_ops := ops; h_count := count; h_seed := seed;
                 h_steps := map (fun ar => {| hs_att := fst ar; hs_ready := snd ar; hs_qual := [] |}) steps;
                 h_members := [] |} in
    let ms0 := hmodel h0 in
    {| h_kind := k; h_ops := ops; h_count := count; h_seed := seed;
       h_steps := map (fun arm => {| hs_att := fst (fst arm); hs_ready := snd (fst arm);
                                     hs_qual := snd (snd arm) |}) (combine steps ms0);
       h_members := map (fun m => {| hm_index := fst m; hm_skip := snd m;
                                     hm_outs := skipn (snd m) (map fst ms0) |}) ms |}.

  Definition hjudge (h : hcase) : verdict :=
    if hcase_ok h then decide (hspec_ok h) (hagree h) else BadCase.

  (* what the driver emits: a one-attempt case or a history case *)
  Inductive anycase := COne (c : case) | CHist (h : hcase).
  Definition judge_any (a : anycase) : verdict :=
    match a with COne c => judge c | CHist h => hjudge h end.
  Definition explain_any (a : anycase) : list (sel * list N) :=
    match a with COne c => [explain c] | CHist h => hmodel h end.
End Concrete.
