(* C10 — executable model of the two performMembersSelection methods
   (pkg/tbtc/signing_loop.go: performMembersSelection / qualifiedOperatorsSet /
   excludedMembersIndexes; pkg/tbtc/dkg_loop.go: performMembersSelection / qualifiedOperatorsSet)
   on top of the model of pkg/tecdsa/retry (Model/C09.v, imported, not copied).

   A group is the list [ops] of its seats' operators (operator identifiers = ranks of the
   chain.Address strings); member index i (1-based, Go's group.MemberIndex = uint8) sits on
   ops[i-1].  The selection functions take NO member index: in the Go code the receiver's own
   index is not read by these methods, which is what "every member derives the same
   participants" rests on; the driver checks it by running them for every member.
   The model covers groups of at most 255 seats (uint8 member indexes do not wrap). *)
From Coq Require Import ZArith NArith List Bool Lia.
From KV Require Import Common.Verdict Common.GoRand Model.C09.
Import ListNotations.

Inductive sel := SOk (excluded : list N) | SErrTooMany | SErrRetry | SPanic.

(* member indexes 1..n in seat order *)
Definition members (ops : list N) : list N := map N.of_nat (seq 1 (length ops)).

(* operators[memberIndex-1]; index 0 wraps to 255 (uint8) which is out of range for <= 255 seats *)
Definition op_of (ops : list N) (i : N) : option N :=
  if N.eqb i 0 then None else nth_error ops (N.to_nat (i - 1)).

(* the operators of the ready members, in the order of the ready list; None = index out of range *)
Fixpoint ready_ops (ops ready : list N) : option (list N) :=
  match ready with
  | [] => Some []
  | i :: t =>
      match op_of ops i, ready_ops ops t with
      | Some o, Some r => Some (o :: r)
      | _, _ => None
      end
  end.

(* the loop over the group's seats: (member index, operator) *)
Definition indexed (ops : list N) : list (N * N) := combine (members ops) ops.
Definition is_included (q : N -> bool) (ready : list N) (io : N * N) : bool :=
  q (snd io) && memN (fst io) ready.
Definition included (q : N -> bool) (ops ready : list N) : list N :=
  map fst (filter (is_included q ready) (indexed ops)).
Definition excluded (q : N -> bool) (ops ready : list N) : list N :=
  map fst (filter (fun io => negb (is_included q ready io)) (indexed ops)).

(* sort.Slice(... <) on member indexes: the ascending arrangement (duplicates kept) *)
Fixpoint insertN (x : N) (l : list N) : list N :=
  match l with
  | [] => [x]
  | y :: t => if N.leb x y then x :: l else y :: insertN x t
  end.
Definition sortN (l : list N) : list N := fold_right insertN [] l.

Section Select.
  Variable rngT : Type.
  Variable mkrng : Z -> rngT.
  Variable shuffle : forall A : Type, rngT -> list A -> list A.
  Variable iter : list N -> list N.          (* Go map iteration inside pkg/tecdsa/retry *)

  (* signingRetryLoop.qualifiedOperatorsSet with attemptCounter = att, attemptSeed = seed,
     HonestThreshold = thr: the result of the retry algorithm on the ready members' operators
     (the Go code turns the returned seat list into a set) *)
  Definition signing_qualified (ops : list N) (thr : N) (seed : Z) (att : N) (ready : list N) : res :=
    match ready_ops ops ready with
    | None => Panic
    | Some rops => signing rngT mkrng shuffle iter rops seed (att - 1) thr
    end.

  (* signingRetryLoop.excludedMembersIndexes, given the outcome of qualifiedOperatorsSet *)
  Definition signing_finish (ops : list N) (thr : N) (seed : Z) (att : N) (ready : list N)
             (qualified : res) : sel :=
    match qualified with
    | Ok l =>
        let q := fun o => memN o l in
        let inc := included q ops ready in
        let exc := excluded q ops ready in
        if Z.of_N thr <? len inc then
          let sh := shuffle N (mkrng (wrap_int64 (seed + Z.of_N att))) (sortN inc) in
          SOk (sortN (exc ++ skipn (N.to_nat thr) sh))
        else SOk exc
    | ErrTooMany => SErrTooMany
    | ErrRetry => SErrRetry
    | Panic => SPanic
    end.

  (* signingRetryLoop.performMembersSelection *)
  Definition signing_select (ops : list N) (thr : N) (seed : Z) (att : N) (ready : list N) : sel :=
    signing_finish ops thr seed att ready (signing_qualified ops thr seed att ready).

  (* dkgRetryLoop.qualifiedOperatorsSet with GroupQuorum = quorum *)
  Definition dkg_qualified (ops : list N) (quorum : N) (seed : Z) (att : N) (ready : list N) : res :=
    match ready_ops ops ready with
    | None => Panic
    | Some rops =>
        if N.eqb att 1 then Ok rops
        else keygen rngT mkrng shuffle iter rops seed (att - 1) quorum
    end.

  Definition dkg_finish (ops ready : list N) (qualified : res) : sel :=
    match qualified with
    | Ok l => SOk (excluded (fun o => memN o l) ops ready)
    | ErrTooMany => SErrTooMany
    | ErrRetry => SErrRetry
    | Panic => SPanic
    end.

  (* dkgRetryLoop.performMembersSelection *)
  Definition dkg_select (ops : list N) (quorum : N) (seed : Z) (att : N) (ready : list N) : sel :=
    dkg_finish ops ready (dkg_qualified ops quorum seed att ready).
End Select.

(* ---------- executable form of the property, on the implementation's outputs ---------- *)

Definition sel_eqb (a b : sel) : bool :=
  match a, b with
  | SOk x, SOk y => list_eqb x y
  | SErrTooMany, SErrTooMany | SErrRetry, SErrRetry | SPanic, SPanic => true
  | _, _ => false
  end.

Fixpoint nodupb (l : list N) : bool :=
  match l with
  | [] => true
  | a :: t => negb (memN a t) && nodupb t
  end.

(* the members a client that received [ex] takes as included (signing_loop.go start:
   every member index of the group that is not in the excluded list) *)
Definition included_of (ops ex : list N) : list N :=
  filter (fun i => negb (memN i ex)) (members ops).

Definition in_range (ops : list N) (i : N) : bool :=
  N.leb 1 i && N.leb i (N.of_nat (length ops)).

(* a ready SET: distinct member indexes of the group *)
Definition ready_wf (ops ready : list N) : bool :=
  nodupb ready && forallb (in_range ops) ready.

(* every included member is ready and sits on an operator of the observed qualified set *)
Definition inc_ready_qualified (ops ready qual inc : list N) : bool :=
  forallb (fun i => memN i ready &&
                    match op_of ops i with Some o => memN o qual | None => false end) inc.

Definition spec_sign_out (ops : list N) (thr : N) (ready qual : list N) (o : sel) : bool :=
  match o with
  | SOk ex =>
      let inc := included_of ops ex in
      (len inc =? Z.of_N thr) && inc_ready_qualified ops ready qual inc
  | SErrTooMany => len ready <? Z.of_N thr
  | SErrRetry | SPanic => false
  end.

Definition spec_dkg_out (ops : list N) (quorum att : N) (ready qual : list N) (o : sel) : bool :=
  match o with
  | SOk ex =>
      let inc := included_of ops ex in
      inc_ready_qualified ops ready qual inc
      && ((len ready <? Z.of_N quorum) || (Z.of_N quorum <=? len inc))
  | SErrTooMany => negb (N.eqb att 1) && (len ready <? Z.of_N quorum)
  | SErrRetry => negb (N.eqb att 1)
  | SPanic => false
  end.

Inductive kind := KSign | KDkg.

(* One case = one (group, count, seed, attempt, ready set).  [c_readys] are orderings of the
   same ready list (the first one is the reference); the selection was run for EVERY member
   index of the group on EVERY ordering; [c_outs] are the DISTINCT results observed (the driver
   drops exact repetitions, so "all equal" is "exactly one element"); [c_qual] is the sorted
   qualified-operator set observed on the first ordering ([] when that call failed). *)
Record case := { c_kind : kind; c_ops : list N; c_count : N; c_seed : Z; c_att : N;
                 c_readys : list (list N); c_outs : list sel; c_qual : list N }.

Definition case_ok (c : case) : bool :=
  (Nat.leb (length (c_ops c)) 255) && N.leb 1 (c_att c) &&
  match c_readys c with
  | [] => false
  | r :: t => forallb (fun r' => list_eqb (sortN r) (sortN r')) t
  end &&
  negb (Nat.eqb (length (c_outs c)) 0).

Definition first_ready (c : case) : list N := hd [] (c_readys c).

Definition spec_out (c : case) (o : sel) : bool :=
  match c_kind c with
  | KSign => spec_sign_out (c_ops c) (c_count c) (first_ready c) (c_qual c) o
  | KDkg => spec_dkg_out (c_ops c) (c_count c) (c_att c) (first_ready c) (c_qual c) o
  end.

(* The property speaks about ready SETS of group members; on anything else (duplicates, indexes
   outside the group) nothing is demanded, the model must still agree. *)
Definition spec_ok (c : case) : bool :=
  if ready_wf (c_ops c) (first_ready c) then
    Nat.eqb (length (c_outs c)) 1 && forallb (spec_out c) (c_outs c)
  else true.

Module Concrete.
  Definition signing_select := signing_select rng rng_seed C09.Concrete.shuffle C09.Concrete.iter.
  Definition dkg_select := dkg_select rng rng_seed C09.Concrete.shuffle C09.Concrete.iter.
  Definition signing_qualified := signing_qualified rng rng_seed C09.Concrete.shuffle C09.Concrete.iter.
  Definition dkg_qualified := dkg_qualified rng rng_seed C09.Concrete.shuffle C09.Concrete.iter.

  (* the model's (selection, sorted qualified operator set) on one ordering of the ready list;
     the qualified set is computed once and shared *)
  Definition model (c : case) (ready : list N) : sel * list N :=
    let q := match c_kind c with
             | KSign => signing_qualified (c_ops c) (c_count c) (c_seed c) (c_att c) ready
             | KDkg => dkg_qualified (c_ops c) (c_count c) (c_seed c) (c_att c) ready
             end in
    (match c_kind c with
     | KSign => signing_finish rng rng_seed C09.Concrete.shuffle
                               (c_ops c) (c_count c) (c_seed c) (c_att c) ready q
     | KDkg => dkg_finish (c_ops c) ready q
     end,
     match q with Ok l => sort_keys l | _ => [] end).

  (* The model is evaluated on the reference ordering only: by Props/C10 order_invariant it
     returns the same on every other ordering, and the outputs observed on ALL orderings (and all
     member indexes) must equal it. *)
  Definition agree (c : case) : bool :=
    let m := model c (first_ready c) in
    forallb (sel_eqb (fst m)) (c_outs c) && list_eqb (snd m) (c_qual c).

  Definition judge (c : case) : verdict :=
    if case_ok c then decide (spec_ok c) (agree c) else BadCase.

  Definition explain (c : case) : sel * list N := model c (first_ready c).
End Concrete.
