(* C09 — executable model of pkg/tecdsa/retry/retry.go (as repaired by the fix: commit that
   makes the triplet stage read operators[k]).  Operators are N identifiers whose order is the
   string order of the Go chain.Address values (the driver assigns identifiers by rank).
   The model is parameterised by the shuffle so that the theorems hold for every permutation
   source; [Concrete] instantiates it with the model of Go's math/rand. *)
From Coq Require Import ZArith NArith List Bool Lia.
From KV Require Import Common.Verdict Common.GoRand.
Import ListNotations.

Inductive res := Ok (l : list N) | ErrTooMany | ErrRetry | Panic.

(* ---------- generic list helpers ---------- *)
Fixpoint insert_uniq (x : N) (l : list N) : list N :=
  match l with
  | [] => [x]
  | y :: t => if N.ltb x y then x :: l else if N.eqb x y then l else y :: insert_uniq x t
  end.
(* sorted list of distinct keys: Go builds the key list by iterating a map (any order) and
   then sort.Sort(byAddress); the result does not depend on the iteration order
   (Proofs/C09: sort_keys_perm). *)
Definition sort_keys (l : list N) : list N := fold_right insert_uniq [] l.

Definition memN (x : N) (l : list N) : bool := existsb (N.eqb x) l.
Definition seat_count (seats : list N) (o : N) : Z :=
  Z.of_nat (length (filter (N.eqb o) seats)).
Definition len {A} (l : list A) : Z := Z.of_nat (length l).

Definition wrap_int64 (z : Z) : Z := (z + two63) mod two64 - two63.

(* all (i,j), i<j, in the order of the two nested Go loops *)
Fixpoint pairs_from {A} (l : list A) : list (A * A) :=
  match l with
  | [] => []
  | a :: t => map (fun b => (a, b)) t ++ pairs_from t
  end.
Fixpoint triples_from {A} (l : list A) : list (A * A * A) :=
  match l with
  | [] => []
  | a :: t => map (fun bc => (a, fst bc, snd bc)) (pairs_from t) ++ triples_from t
  end.

Section Retry.
  (* rand.New(rand.NewSource(seed)) and one Shuffle on the fresh generator *)
  Variable rngT : Type.
  Variable mkrng : Z -> rngT.
  Variable shuffle : forall A : Type, rngT -> list A -> list A.
  (* [iter] stands for Go's map iteration: any rearrangement of the distinct keys *)
  Variable iter : list N -> list N.

  Definition distinct_keys (seats : list N) : list N := iter (nodup N.eq_dec seats).

  (* ---- EvaluateRetryParticipantsForSigning ---- *)
  Fixpoint accept_until (seats ops : list N) (need : Z) (acc : list N) (got : Z)
    : option (list N) :=
    if need <=? got then Some acc else
    match ops with
    | [] => None                      (* operators[j] out of range: panic *)
    | o :: t => accept_until seats t need (o :: acc) (got + seat_count seats o)
    end.

  Definition signing (seats : list N) (seed : Z) (retry count : N) : res :=
    if len seats <? Z.of_N count then ErrTooMany else
    let ops := shuffle N (mkrng (wrap_int64 (seed + Z.of_N retry))) (sort_keys (distinct_keys seats)) in
    match accept_until seats ops (Z.of_N count) [] 0 with
    | None => Panic
    | Some acc => Ok (filter (fun o => memN o acc) seats)
    end.

  (* ---- EvaluateRetryParticipantsForKeyGeneration ---- *)
  Definition eligible1 (seats : list N) (count : Z) (o : N) : bool :=
    count <=? len seats - seat_count seats o.
  Definition eligible2 (seats : list N) (count : Z) (p : N * N) : bool :=
    count <=? len seats - seat_count seats (fst p) - seat_count seats (snd p).
  Definition eligible3 (seats : list N) (count : Z) (p : N * N * N) : bool :=
    let '(a, b, c) := p in
    count <=? len seats - seat_count seats a - seat_count seats b - seat_count seats c.

  Definition singles (seats : list N) (count : Z) : list N :=
    sort_keys (filter (eligible1 seats count) (distinct_keys seats)).
  Definition pairs (seats : list N) (count : Z) : list (N * N) :=
    filter (eligible2 seats count) (pairs_from (singles seats count)).
  Definition triples (seats : list N) (count : Z) : list (N * N * N) :=
    filter (eligible3 seats count) (triples_from (singles seats count)).

  (* the operators excluded at a given retry, None when every single, pair and triplet has
     been used up *)
  Definition exclusion (seats : list N) (seed : rngT) (retry : N) (count : Z) : option (list N) :=
    let r := Z.of_N retry in
    let s1 := singles seats count in
    if r <? len s1 then
      option_map (fun o => [o]) (nth_error (shuffle N seed s1) (Z.to_nat r))
    else
    let r := r - len s1 in
    let s2 := pairs seats count in
    if r <? len s2 then
      option_map (fun p => [fst p; snd p]) (nth_error (shuffle (N * N)%type seed s2) (Z.to_nat r))
    else
    let r := r - len s2 in
    let s3 := triples seats count in
    if r <? len s3 then
      option_map (fun p => let '(a, b, c) := p in [a; b; c])
                 (nth_error (shuffle (N * N * N)%type seed s3) (Z.to_nat r))
    else None.

  (* [g] is the generator seeded with [seed]; exactly one Shuffle is ever drawn from it *)
  Definition keygen_g (seats : list N) (g : rngT) (retry count : N) : res :=
    if len seats <? Z.of_N count then ErrTooMany else
    match exclusion seats g retry (Z.of_N count) with
    | Some ex => Ok (filter (fun o => negb (memN o ex)) seats)
    | None => ErrRetry
    end.
  Definition keygen (seats : list N) (seed : Z) (retry count : N) : res :=
    keygen_g seats (mkrng seed) retry count.
End Retry.

(* ---------- executable form of the property, evaluated on implementation outputs ---------- *)
Fixpoint list_eqb (a b : list N) : bool :=
  match a, b with
  | [], [] => true
  | x :: a', y :: b' => N.eqb x y && list_eqb a' b'
  | _, _ => false
  end.
Definition res_eqb (a b : res) : bool :=
  match a, b with
  | Ok x, Ok y => list_eqb x y
  | ErrTooMany, ErrTooMany | ErrRetry, ErrRetry | Panic, Panic => true
  | _, _ => false
  end.

(* [l] keeps or drops each operator's seats together, in seat order *)
Definition whole_sublist (seats l : list N) : bool :=
  list_eqb l (filter (fun o => memN o l) seats).
Definition dropped (seats l : list N) : list N :=
  sort_keys (filter (fun o => negb (memN o l)) seats).

Definition out_ok (seats : list N) (count : N) (r : res) : bool :=
  match r with
  | Ok l => whole_sublist seats l && (Z.of_N count <=? len l)
  | ErrTooMany => len seats <? Z.of_N count
  | ErrRetry => true
  | Panic => false
  end.

Fixpoint all_same (l : list res) : bool :=
  match l with
  | a :: (b :: _) as t => res_eqb a b && all_same t
  | _ => true
  end.

(* enumeration: successful outputs at distinct retries exclude distinct operator sets, of
   sizes 1..3, the size never decreasing with the retry number, and once a retry fails every
   larger retry fails *)
Fixpoint assoc_sorted_ok (seats : list N) (prev_size : nat) (failed : bool)
         (seen : list (list N)) (outs : list res) : bool :=
  match outs with
  | [] => true
  | Ok l :: t =>
      let d := dropped seats l in
      negb failed && (1 <=? length d)%nat && (length d <=? 3)%nat && (prev_size <=? length d)%nat
      && negb (existsb (list_eqb d) seen)
      && assoc_sorted_ok seats (length d) failed (d :: seen) t
  | ErrRetry :: t => assoc_sorted_ok seats prev_size true seen t
  | _ :: t => assoc_sorted_ok seats prev_size failed seen t
  end.

Record sign_case := { s_seats : list N; s_seed : Z; s_retry : N; s_count : N;
                      s_outs : list res (* the same call repeated *) }.
(* k_retries strictly increasing; k_outs the outputs in the same order; k_rep a repeat of the
   first call *)
Record keygen_case := { k_seats : list N; k_seed : Z; k_count : N; k_retries : list N;
                        k_outs : list res; k_rep : res }.
Inductive case := CSign (c : sign_case) | CKeygen (c : keygen_case).

Fixpoint strictly_increasing (l : list N) : bool :=
  match l with
  | a :: (b :: _) as t => N.ltb a b && strictly_increasing t
  | _ => true
  end.

Module Concrete.
  Definition shuffle (A : Type) (g : rng) (l : list A) : list A := fst (fst (shuffle_with g l)).
  Definition iter (l : list N) : list N := l.
  Definition signing := signing rng rng_seed shuffle iter.
  Definition keygen_g := keygen_g rng shuffle iter.
  Definition keygen := keygen rng rng_seed shuffle iter.

  Definition spec_sign (c : sign_case) : bool :=
    forallb (out_ok (s_seats c) (s_count c)) (s_outs c) && all_same (s_outs c).
  Definition spec_keygen (c : keygen_case) : bool :=
    forallb (out_ok (k_seats c) (k_count c)) (k_outs c)
    && all_same (k_rep c :: firstn 1 (k_outs c))
    && assoc_sorted_ok (k_seats c) 0 false [] (k_outs c).

  Definition judge (c : case) : verdict :=
    match c with
    | CSign c =>
        match s_outs c with
        | [] => BadCase
        | o :: _ =>
            decide (spec_sign c)
                   (res_eqb o (signing (s_seats c) (s_seed c) (s_retry c) (s_count c)))
        end
    | CKeygen c =>
        if negb (strictly_increasing (k_retries c)
                 && Nat.eqb (length (k_retries c)) (length (k_outs c))) then BadCase else
        let g := rng_seed (k_seed c) in
        decide (spec_keygen c)
               (forallb (fun ro => res_eqb (snd ro)
                                     (keygen_g (k_seats c) g (fst ro) (k_count c)))
                        (combine (k_retries c) (k_outs c)))
    end.

  (* what --replay prints *)
  Definition explain (c : case) : list res :=
    match c with
    | CSign c => [signing (s_seats c) (s_seed c) (s_retry c) (s_count c)]
    | CKeygen c => let g := rng_seed (k_seed c) in
        map (fun r => keygen_g (k_seats c) g r (k_count c)) (k_retries c)
    end.
End Concrete.
