(* C32 — executable model of pkg/maintainer/spv/spv.go getProofInfo, as written: Go uint/uint64
   arithmetic wraps modulo 2^64, big.Int.Uint64 takes the low 64 bits of the absolute value,
   big.Int.DivMod is Euclidean and panics on a zero divisor.  The epoch length is a
   parameter of the model; [Concrete] instantiates it with the constant that tools/constgen
   regenerates from /repo (Gen/Consts_C32.v), so that the theorems are re-proved against the
   value the code uses. *)
From Coq Require Import ZArith List Bool Lia.
From KV Require Import Common.Verdict Gen.Consts_C32.
Import ListNotations.
Open Scope Z_scope.

Definition two64 : Z := 2 ^ 64.
Definition w64 (z : Z) : Z := z mod two64.
(* big.Int.Uint64 *)
Definition big_u64 (z : Z) : Z := Z.abs z mod two64.
(* big.Int.DivMod x y: q, m with x = q*y + m, 0 <= m < |y| (y <> 0) *)
Definition euclid_mod (x y : Z) : Z := x mod Z.abs y.
Definition euclid_div (x y : Z) : Z := (x - euclid_mod x y) / y.

(* which of the chain calls fails (the stubs of the driver can make exactly one call fail) *)
Inductive failure := NoFail | FailLatest | FailConf | FailFactor | FailEpoch | FailDiff.

Record input := { i_latest : Z; i_conf : Z; i_factor : Z; i_epoch : Z; i_dcur : Z; i_dprev : Z;
                  i_fail : failure }.

(* observable result of getProofInfo: (within relay range, accumulated, required) | error |
   panic (division by zero inside big.Int.DivMod) *)
Inductive result := Info (within : bool) (acc req : Z) | Err | Panic.

Section Model.
  Variable L : Z.  (* difficultyEpochLength *)

  Definition proof_start (latest conf : Z) : Z := w64 (latest - conf + 1).
  Definition proof_end (start factor : Z) : Z := w64 (start + big_u64 factor - 1).
  (* uint64(difficultyEpochLength - proofStartBlock%difficultyEpochLength) *)
  Definition n_prev (start : Z) : Z := w64 (L - start mod L).
  (* numberOfBlocksCurrentEpoch, a big.Int *)
  Definition n_cur (dprev dcur factor start : Z) : Z :=
    let total_required := dprev * factor in
    let total_prev := n_prev start * dprev in
    let total_cur := total_required - total_prev in
    let q := euclid_div total_cur dcur in
    let r := euclid_mod total_cur dcur in
    if 0 <? r then q + 1 else q.
  Definition span_required (dprev dcur factor start : Z) : Z :=
    w64 (n_prev start + big_u64 (n_cur dprev dcur factor start)).

  Definition is_fail (a b : failure) : bool :=
    match a, b with
    | FailLatest, FailLatest | FailConf, FailConf | FailFactor, FailFactor
    | FailEpoch, FailEpoch | FailDiff, FailDiff => true
    | _, _ => false
    end.

  Definition get_proof_info (i : input) : result :=
    if is_fail (i_fail i) FailLatest then Err else
    if is_fail (i_fail i) FailConf then Err else
    if is_fail (i_fail i) FailFactor then Err else
    let start := proof_start (i_latest i) (i_conf i) in
    let se := start / L in
    let ee := proof_end start (i_factor i) / L in
    if is_fail (i_fail i) FailEpoch then Err else
    let cur := i_epoch i in
    let prev := w64 (cur - 1) in
    if (se =? cur) && (ee =? cur) then Info true (i_conf i) (big_u64 (i_factor i)) else
    if (se =? prev) && (ee =? prev) then Info true (i_conf i) (big_u64 (i_factor i)) else
    if (se =? prev) && (ee =? cur) then
      if is_fail (i_fail i) FailDiff then Err else
      if i_dcur i =? 0 then Panic else
      Info true (i_conf i) (span_required (i_dprev i) (i_dcur i) (i_factor i) start)
    else Info false 0 0.

  (* ---------- the property in executable form, evaluated on the implementation's output ----- *)

  (* the guards under which the property speaks: all quantities are in the range of their Go
     types, the transaction is confirmed in a block of the chain (conf <= latest+1), the factor
     and both difficulties are positive, and the required header count cannot overflow *)
  Definition in_domain (i : input) : bool :=
    (0 <=? i_latest i) && (i_latest i <? two64) && (0 <=? i_conf i) && (i_conf i <=? i_latest i + 1)
    && (1 <=? i_factor i) && (i_factor i <? two64) && (i_latest i - i_conf i + 1 + i_factor i - 1 <? two64)
    && (0 <=? i_epoch i) && (i_epoch i <? two64)
    && (1 <=? i_dcur i) && (1 <=? i_dprev i)
    && (i_dprev i * i_factor i <=? i_dcur i * 2 ^ 63).

  (* work accumulated by [n] consecutive headers starting at [start], the first [np] of which
     are in the previous epoch and the others in the current one *)
  Definition acc_work (np dprev dcur n : Z) : Z :=
    Z.min n np * dprev + Z.max 0 (n - np) * dcur.

  Definition spec_ok (i : input) (r : result) : bool :=
    if negb (in_domain i) then true else
    match i_fail i, r with
    | NoFail, Info w acc req =>
        let s := i_latest i - i_conf i + 1 in
        let e := s + i_factor i - 1 in
        let cur := i_epoch i in
        let in2 x := (x =? cur - 1) || (x =? cur) in
        let expect := in2 (s / L) && in2 (e / L) in
        Bool.eqb w expect &&
        (if w then
           (acc =? i_conf i) &&
           (if s / L =? e / L then req =? i_factor i
            else
              let np := L - s mod L in
              (i_factor i * i_dprev i <=? acc_work np (i_dprev i) (i_dcur i) req)
              && (acc_work np (i_dprev i) (i_dcur i) (req - 1) <? i_factor i * i_dprev i))
         else true)
    | NoFail, _ => false
    | _, _ => true
    end.

  Definition result_eqb (a b : result) : bool :=
    match a, b with
    | Info w a r, Info w' a' r' => Bool.eqb w w' && (a =? a') && (r =? r')
    | Err, Err | Panic, Panic => true
    | _, _ => false
    end.
End Model.

Record case := { c_in : input; c_out : result }.

Definition range_ok (i : input) : bool :=
  (0 <=? i_latest i) && (i_latest i <? two64) && (0 <=? i_conf i) && (i_conf i <? two64)
  && (0 <=? i_epoch i) && (i_epoch i <? two64).

Module Concrete.
  Definition L := difficultyEpochLength.
  Definition get_proof_info := get_proof_info L.
  Definition spec_ok := spec_ok L.
  Definition judge (c : case) : verdict :=
    if negb (range_ok (c_in c)) then BadCase else
    decide (spec_ok (c_in c) (c_out c)) (result_eqb (c_out c) (get_proof_info (c_in c))).
  Definition explain (c : case) : result := get_proof_info (c_in c).
End Concrete.
