(* C32 — executable model of pkg/maintainer/spv/spv.go getProofInfo and of its caller
   proveTransactions (one proving round), as written: Go uint/uint64
   arithmetic wraps modulo 2^64, big.Int.Uint64 takes the low 64 bits of the absolute value,
   big.Int.DivMod is Euclidean and panics on a zero divisor.  The epoch length is a
   parameter of the model; [Concrete] instantiates it with the constant that tools/constgen
   regenerates from /repo (Gen/Consts_C32.v), so that the theorems are re-proved against the
   value the code uses. *)
From Coq Require Import ZArith List Bool Lia.
From KV Require Import Common.Verdict Gen.Consts_C32.
Import ListNotations.
Open Scope Z_scope.

Definition two64 : Z := 2 ^ 64.
Definition w64 (z : Z) : Z := z mod two64.
(* big.Int.Uint64 *)
Definition big_u64 (z : Z) : Z := Z.abs z mod two64.
(* big.Int.DivMod x y: q, m with x = q*y + m, 0 <= m < |y| (y <> 0) *)
Definition euclid_mod (x y : Z) : Z := x mod Z.abs y.
Definition euclid_div (x y : Z) : Z := (x - euclid_mod x y) / y.

(* which of the chain calls fails (the stubs of the driver can make exactly one call fail) *)
Inductive failure := NoFail | FailLatest | FailConf | FailFactor | FailEpoch | FailDiff.

Record input := { i_latest : Z; i_conf : Z; i_factor : Z; i_epoch : Z; i_dcur : Z; i_dprev : Z;
                  i_fail : failure }.

(* observable result of getProofInfo: (within relay range, accumulated, required) | error |
   panic (division by zero inside big.Int.DivMod) *)
Inductive result := Info (within : bool) (acc req : Z) | Err | Panic.

Section Model.
  Variable L : Z.  (* difficultyEpochLength *)

  Definition proof_start (latest conf : Z) : Z := w64 (latest - conf + 1).
  Definition proof_end (start factor : Z) : Z := w64 (start + big_u64 factor - 1).
  (* uint64(difficultyEpochLength - proofStartBlock%difficultyEpochLength) *)
  Definition n_prev (start : Z) : Z := w64 (L - start mod L).
  (* numberOfBlocksCurrentEpoch, a big.Int *)
  Definition n_cur (dprev dcur factor start : Z) : Z :=
    let total_required := dprev * factor in
    let total_prev := n_prev start * dprev in
    let total_cur := total_required - total_prev in
    let q := euclid_div total_cur dcur in
    let r := euclid_mod total_cur dcur in
    if 0 <? r then q + 1 else q.
  Definition span_required (dprev dcur factor start : Z) : Z :=
    w64 (n_prev start + big_u64 (n_cur dprev dcur factor start)).

  Definition is_fail (a b : failure) : bool :=
    match a, b with
    | FailLatest, FailLatest | FailConf, FailConf | FailFactor, FailFactor
    | FailEpoch, FailEpoch | FailDiff, FailDiff => true
    | _, _ => false
    end.

  Definition get_proof_info (i : input) : result :=
    if is_fail (i_fail i) FailLatest then Err else
    if is_fail (i_fail i) FailConf then Err else
    if is_fail (i_fail i) FailFactor then Err else
    let start := proof_start (i_latest i) (i_conf i) in
    let se := start / L in
    let ee := proof_end start (i_factor i) / L in
    if is_fail (i_fail i) FailEpoch then Err else
    let cur := i_epoch i in
    let prev := w64 (cur - 1) in
    if (se =? cur) && (ee =? cur) then Info true (i_conf i) (big_u64 (i_factor i)) else
    if (se =? prev) && (ee =? prev) then Info true (i_conf i) (big_u64 (i_factor i)) else
    if (se =? prev) && (ee =? cur) then
      if is_fail (i_fail i) FailDiff then Err else
      if i_dcur i =? 0 then Panic else
      Info true (i_conf i) (span_required (i_dprev i) (i_dcur i) (i_factor i) start)
    else Info false 0 0.

  (* ---------- the property in executable form, evaluated on the implementation's output ----- *)

  (* the guards under which the property speaks: all quantities are in the range of their Go
     types, the transaction is confirmed in a block of the chain (conf <= latest+1), the factor
     and both difficulties are positive, and the required header count cannot overflow *)
  Definition in_domain (i : input) : bool :=
    (0 <=? i_latest i) && (i_latest i <? two64) && (0 <=? i_conf i) && (i_conf i <=? i_latest i + 1)
    && (1 <=? i_factor i) && (i_factor i <? two64) && (i_latest i - i_conf i + 1 + i_factor i - 1 <? two64)
    && (0 <=? i_epoch i) && (i_epoch i <? two64)
    && (1 <=? i_dcur i) && (1 <=? i_dprev i)
    && (i_dprev i * i_factor i <=? i_dcur i * 2 ^ 63).

  (* work accumulated by [n] consecutive headers starting at [start], the first [np] of which
     are in the previous epoch and the others in the current one *)
  Definition acc_work (np dprev dcur n : Z) : Z :=
    Z.min n np * dprev + Z.max 0 (n - np) * dcur.

  Definition spec_ok (i : input) (r : result) : bool :=
    if negb (in_domain i) then true else
    match i_fail i, r with
    | NoFail, Info w acc req =>
        let s := i_latest i - i_conf i + 1 in
        let e := s + i_factor i - 1 in
        let cur := i_epoch i in
        let in2 x := (x =? cur - 1) || (x =? cur) in
        let expect := in2 (s / L) && in2 (e / L) in
        Bool.eqb w expect &&
        (if w then
           (acc =? i_conf i) &&
           (if s / L =? e / L then req =? i_factor i
            else
              let np := L - s mod L in
              (i_factor i * i_dprev i <=? acc_work np (i_dprev i) (i_dcur i) req)
              && (acc_work np (i_dprev i) (i_dcur i) (req - 1) <? i_factor i * i_dprev i))
         else true)
    | NoFail, _ => false
    | _, _ => true
    end.

  Definition result_eqb (a b : result) : bool :=
    match a, b with
    | Info w a r, Info w' a' r' => Bool.eqb w w' && (a =? a') && (r =? r')
    | Err, Err | Panic, Panic => true
    | _, _ => false
    end.

  (* ---------- one proving round: spvMaintainer.proveTransactions, as written ----------
     The round's unproven transactions are processed in order.  For every transaction the code
     calls getProofInfo with the maintainer's chains (so with the Bridge's proof difficulty
     factor, the relay epoch and the two difficulties of the round), skips the transaction when
     the proof range is outside the relay's range or the accumulated confirmations are below the
     required number, and otherwise submits the proof with the required number.  An error of
     getProofInfo or of the submitter ends the round with that error.  Nothing is carried from
     one transaction to the next. *)
  Record rtx := { t_latest : Z; t_conf : Z; t_fail : failure; t_subfail : bool }.
  Record round := { r_factor : Z; r_epoch : Z; r_dcur : Z; r_dprev : Z; r_txs : list rtx }.
  Inductive tx_out := Submitted (req : Z) | Skipped.
  Inductive round_end := Done | Failed | Panicked.

  (* what getProofInfo sees for transaction [t] of round [r] *)
  Definition tx_input (r : round) (t : rtx) : input :=
    {| i_latest := t_latest t; i_conf := t_conf t; i_factor := r_factor r; i_epoch := r_epoch r;
       i_dcur := r_dcur r; i_dprev := r_dprev r; i_fail := t_fail t |}.

  (* the skip / submit decision of the loop body on a getProofInfo result *)
  Definition outcome_of (res : result) : tx_out :=
    match res with
    | Info w acc req => if w && negb (acc <? req) then Submitted req else Skipped
    | _ => Skipped
    end.
  Definition tx_outcome (r : round) (t : rtx) : tx_out := outcome_of (get_proof_info (tx_input r t)).

  Definition cons_out (o : tx_out) (p : list tx_out * round_end) : list tx_out * round_end :=
    (o :: fst p, snd p).

  Fixpoint run_txs (r : round) (txs : list rtx) : list tx_out * round_end :=
    match txs with
    | [] => ([], Done)
    | t :: ts =>
        match get_proof_info (tx_input r t) with
        | Err => ([], Failed)
        | Panic => ([], Panicked)
        | Info w acc req =>
            if negb w then cons_out Skipped (run_txs r ts)
            else if acc <? req then cons_out Skipped (run_txs r ts)
            else if t_subfail t then ([Submitted req], Failed)
            else cons_out (Submitted req) (run_txs r ts)
        end
    end.
  Definition prove_round (r : round) : list tx_out * round_end := run_txs r (r_txs r).

  (* the property on one transaction of a round, on the implementation's outcome: a submitted
     proof lies in the relay's range, carries the minimal sufficient number of confirmations
     ([spec_ok] above, with the ROUND's factor) and the transaction has accumulated at least as
     many; a skipped transaction is out of the relay's range or its confirmations do not reach
     the proof difficulty (fewer than factor headers in one epoch / accumulated work below
     factor * dPrev across the boundary) *)
  Definition tx_ok (i : input) (o : tx_out) : bool :=
    if negb (in_domain i) then true else
    match i_fail i with
    | NoFail =>
        match o with
        | Submitted req => spec_ok i (Info true (i_conf i) req) && (req <=? i_conf i)
        | Skipped =>
            let s := i_latest i - i_conf i + 1 in
            let e := s + i_factor i - 1 in
            let cur := i_epoch i in
            let in2 x := (x =? cur - 1) || (x =? cur) in
            negb (in2 (s / L) && in2 (e / L))
            || (if s / L =? e / L then i_conf i <? i_factor i
                else acc_work (L - s mod L) (i_dprev i) (i_dcur i) (i_conf i) <? i_factor i * i_dprev i)
        end
    | _ => true
    end.

  (* the property on a round: every transaction is judged on its own, with the round's factor;
     a round without injected failures ends normally with one outcome per transaction.  From the
     first transaction outside the guards, or whose chain calls fail, the property is silent; a
     failing submitter legitimately ends the round after that submission. *)
  Fixpoint round_ok (r : round) (txs : list rtx) (outs : list tx_out) (e : round_end) : bool :=
    match txs with
    | [] => match outs, e with [], Done => true | _, _ => false end
    | t :: ts =>
        let i := tx_input r t in
        if negb (in_domain i) then true else
        match t_fail t with
        | NoFail =>
            match outs with
            | [] => false
            | o :: os =>
                tx_ok i o &&
                (match o with
                 | Submitted _ => if t_subfail t then true else round_ok r ts os e
                 | Skipped => round_ok r ts os e
                 end)
            end
        | _ => true
        end
    end.

  Definition tx_out_eqb (a b : tx_out) : bool :=
    match a, b with
    | Submitted x, Submitted y => x =? y
    | Skipped, Skipped => true
    | _, _ => false
    end.
  Fixpoint outs_eqb (a b : list tx_out) : bool :=
    match a, b with
    | [], [] => true
    | x :: a', y :: b' => tx_out_eqb x y && outs_eqb a' b'
    | _, _ => false
    end.
  Definition end_eqb (a b : round_end) : bool :=
    match a, b with
    | Done, Done | Failed, Failed | Panicked, Panicked => true
    | _, _ => false
    end.
End Model.

(* A case is either ONE call of getProofInfo or ONE proving round of proveTransactions.
   [kept]: the driver's observation that every big.Int handed to the code (the factor and the
   two difficulties; the objects are long-lived and reused by the driver's chains) still holds
   the value it was handed out with when the call / round returns.  The model is a pure function
   of the values, so the observation has to be [true]. *)
Inductive case :=
| Single (i : input) (o : result) (kept : bool)
| Round (r : round) (outs : list tx_out) (e : round_end) (kept : bool).

Inductive explained := ESingle (o : result) | ERound (outs : list tx_out) (e : round_end).

Definition range_ok (i : input) : bool :=
  (0 <=? i_latest i) && (i_latest i <? two64) && (0 <=? i_conf i) && (i_conf i <? two64)
  && (0 <=? i_epoch i) && (i_epoch i <? two64).

Module Concrete.
  Definition L := difficultyEpochLength.
  Definition get_proof_info := get_proof_info L.
  Definition spec_ok := spec_ok L.
  Definition prove_round := prove_round L.
  Definition round_ok := round_ok L.
  (* where the property speaks (guards hold, no injected chain failure) the handed-out objects
     must be intact as part of the property; elsewhere a modified argument is a disagreement
     with the (pure) model *)
  Definition speaks (i : input) : bool :=
    in_domain i && match i_fail i with NoFail => true | _ => false end.
  Definition single_ok (i : input) (o : result) (kept : bool) : bool :=
    spec_ok i o && (kept || negb (speaks i)).
  Definition round_case_ok (r : round) (outs : list tx_out) (e : round_end) (kept : bool) : bool :=
    round_ok r (r_txs r) outs e
    && (kept || negb (forallb (fun t => speaks (tx_input r t)) (r_txs r))).
  Definition judge (c : case) : verdict :=
    match c with
    | Single i o kept =>
        if negb (range_ok i) then BadCase else
        decide (single_ok i o kept) (result_eqb o (get_proof_info i) && kept)
    | Round r outs e kept =>
        if negb (forallb (fun t => range_ok (tx_input r t)) (r_txs r)) then BadCase else
        decide (round_case_ok r outs e kept)
               (outs_eqb outs (fst (prove_round r)) && end_eqb e (snd (prove_round r)) && kept)
    end.
  Definition explain (c : case) : explained :=
    match c with
    | Single i _ _ => ESingle (get_proof_info i)
    | Round r _ _ _ => let p := prove_round r in ERound (fst p) (snd p)
    end.
End Concrete.
