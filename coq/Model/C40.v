(* C40 — key generation results and inactivity claims satisfy the on-chain rules.

   Part 1  Contract ABI encoding as byte-list functions: [abi_encode] (the head/tail layout of
           `abi.encode` for uint<M>/bool, bytes and T[] of static uints), `abi.encodePacked` /
           `bytes.concat` (plain concatenation) and [go_pack], go-ethereum's
           accounts/abi Arguments.Pack loop as it is written (running offset, two buffers).
   Part 2  The Go glue AS WRITTEN in pkg/chain/ethereum/tbtc.go (AssembleDKGResult,
           convertSignaturesToChainFormat, convertPubKeyToChainFormat, computeOperatorsIDsHash,
           CalculateDKGResultSignatureHash, CalculateInactivityClaimHash, AssembleInactivityClaim,
           calculateWalletID), pkg/protocol/inactivity NewClaimPreimage, the gate of
           pkg/tbtc/dkg_submit.go and keep-common's ethereumPrefixedHash.
   Part 3  A HAND TRANSCRIPTION of the Solidity rules (not executed: no solc / EVM offline; this
           transcription is part of the trusted base).  File + line of every rule is cited:
             V   = solidity/ecdsa/contracts/EcdsaDkgValidator.sol
             I   = solidity/ecdsa/contracts/libraries/EcdsaInactivity.sol
             W   = solidity/ecdsa/contracts/libraries/Wallets.sol
             R   = solidity/ecdsa/contracts/WalletRegistry.sol
             B   = solidity/random-beacon/contracts/libraries/BytesLib.sol
             OZ  = @openzeppelin/contracts ^4.6 utils/cryptography/ECDSA.sol (not vendored in
                   /repo; transcribed from the published 4.6 source)
           Solidity 0.8 checked arithmetic / array bounds are modelled by [None] = revert.
   Keccak-256, ecrecover and the sortition pool's id -> operator map are Section variables.
   Part 4  The case type, the executable property and [judge].  No proofs here.
   Part 5  Prop readings of the input preconditions ([valid_in], [valid_claim]) and the named
           hypotheses of the signature theorems ([ecdsa_recovers], [supporters_signed],
           [claim_supporters_signed]). *)
From Coq Require Import ZArith NArith List Bool Permutation.
From KV Require Import Common.Verdict.
Import ListNotations.
Open Scope N_scope.

Definition bytes := list N.
Definition lenN {A} (l : list A) : N := N.of_nat (length l).

(* byte strings are written in case terms as [hb len 0x...] (one numeral parses much faster
   than a list of bytes): the [len] big-endian bytes of the number *)
Fixpoint hb_f (len : nat) (n : N) (acc : bytes) : bytes :=
  match len with
  | O => acc
  | S l => hb_f l (N.shiftr n 8) (N.land n 255 :: acc)
  end.
Definition hb (len n : N) : bytes := hb_f (N.to_nat len) n [].
Definition hbs (len : N) (ws : list N) : bytes := flat_map (hb len) ws.

Fixpoint list_eqb (a b : list N) : bool :=
  match a, b with
  | [], [] => true
  | x :: a', y :: b' => (x =? y) && list_eqb a' b'
  | _, _ => false
  end.
Definition memN (x : N) (l : list N) : bool := existsb (N.eqb x) l.
Fixpoint nodupb (l : list N) : bool :=
  match l with
  | [] => true
  | x :: t => negb (memN x t) && nodupb t
  end.
(* [a; a+1; ...], n elements *)
Fixpoint seqN (a : N) (n : nat) : list N :=
  match n with O => [] | S k => a :: seqN (a + 1) k end.

(* ------------------------------------------------------------------ Part 1: encodings *)

(* the [n] low-order bytes of [v], most significant first *)
Fixpoint be_bytes (n : nat) (v : N) : bytes :=
  match n with
  | O => []
  | S k => be_bytes k (v / 256) ++ [v mod 256]
  end.
Definition be_value (b : bytes) : N := fold_left (fun acc x => acc * 256 + x) b 0.

(* one ABI word: uint<M> / bool as a 32-byte big-endian number (values are reduced mod 2^256,
   which is what go-ethereum's math.U256Bytes does) *)
Definition word (v : N) : bytes := be_bytes 32 v.
Definition pad32 (b : bytes) : bytes :=
  b ++ repeat 0 (N.to_nat ((32 - lenN b mod 32) mod 32)).

Inductive aval :=
| AUint (v : N)        (* uint<M>, bool: static, one word *)
| ABytes (b : bytes)   (* bytes: dynamic, length word + right-padded data *)
| AArr (l : list N).   (* T[] with T a static uint type: dynamic, length word + one word each *)

Definition is_dyn (a : aval) : bool := match a with AUint _ => false | _ => true end.
Definition enc_val (a : aval) : bytes :=
  match a with
  | AUint v => word v
  | ABytes b => word (lenN b) ++ pad32 b
  | AArr l => word (lenN l) ++ flat_map word l
  end.

(* abi.encode(v1, ..., vn) = head(v1) ... head(vn) tail(v1) ... tail(vn): a static value is its
   own head and has no tail; the head of a dynamic value is the offset of its tail from the
   start of the encoding *)
Fixpoint heads (args : list aval) (off : N) : bytes :=
  match args with
  | [] => []
  | a :: t => if is_dyn a then word off ++ heads t (off + lenN (enc_val a))
              else enc_val a ++ heads t off
  end.
Fixpoint tails (args : list aval) : bytes :=
  match args with
  | [] => []
  | a :: t => (if is_dyn a then enc_val a else []) ++ tails t
  end.
Definition abi_encode (args : list aval) : bytes := heads args (32 * lenN args) ++ tails args.

(* go-ethereum accounts/abi/argument.go, Arguments.Pack: inputOffset starts at the sum of the
   head sizes (32 per argument for the types used here); for a dynamic argument the offset goes
   to [ret], the packed value to [variableInput] and the offset advances by its length *)
Fixpoint go_pack_loop (args : list aval) (inputOffset : N) (ret variableInput : bytes) : bytes :=
  match args with
  | [] => ret ++ variableInput
  | a :: t =>
      let packed := enc_val a in
      if is_dyn a then
        go_pack_loop t (inputOffset + lenN packed) (ret ++ word inputOffset) (variableInput ++ packed)
      else go_pack_loop t inputOffset (ret ++ packed) variableInput
  end.
Definition go_pack (args : list aval) : bytes :=
  go_pack_loop args (fold_left (fun acc _ => acc + 32) args 0) [] [].

(* "\x19Ethereum Signed Message:\n" *)
Definition eth_head : bytes :=
  [25; 69; 116; 104; 101; 114; 101; 117; 109; 32; 83; 105; 103; 110; 101; 100; 32;
   77; 101; 115; 115; 97; 103; 101; 58; 10].
(* OZ ECDSA.toEthSignedMessageHash(bytes32 hash):
     keccak256(abi.encodePacked("\x19Ethereum Signed Message:\n32", hash)) — the preimage *)
Definition eth_signed_preimage (h : bytes) : bytes := eth_head ++ [51; 50] ++ h.

(* ------------------------------------------------------------------ Part 2: the Go side *)

(* sort.Slice with `<` on uint8 values: the sorted rearrangement (unique, whatever the algorithm) *)
Fixpoint insert (x : N) (l : list N) : list N :=
  match l with
  | [] => [x]
  | y :: t => if x <=? y then x :: l else y :: insert x t
  end.
Definition sortN (l : list N) : list N := fold_right insert [] l.

(* big.Int.Bytes(): minimal big-endian representation *)
Fixpoint min_be_f (fuel : nat) (v : N) : bytes :=
  match fuel with
  | O => []
  | S f => if v =? 0 then [] else min_be_f f (v / 256) ++ [v mod 256]
  end.
Definition min_be (v : N) : bytes := min_be_f (N.to_nat (N.size v)) v.
(* keep-common byteutils.LeftPadTo32Bytes: error when longer than 32 bytes *)
Definition left_pad32 (b : bytes) : option bytes :=
  if 32 <? lenN b then None else Some (repeat 0 (32 - length b) ++ b).
(* convertPubKeyToChainFormat (tbtc.go:795-813) *)
Definition pubkey_chain_format (x y : N) : option bytes :=
  match left_pad32 (min_be x) with
  | None => None
  | Some a => match left_pad32 (min_be y) with
              | None => None
              | Some b => Some (a ++ b)
              end
  end.
(* elliptic.Marshal on a 256-bit curve: 04 || FillBytes(X) || FillBytes(Y); FillBytes panics
   when the number does not fit (None).  (Go >= 1.19 also panics when the point is not on the
   curve; the curve equation is not modelled.) *)
Definition two256 : N := 2 ^ 256.
Definition marshal_uncompressed (x y : N) : option bytes :=
  if (x <? two256) && (y <? two256) then Some (4 :: be_bytes 32 x ++ be_bytes 32 y) else None.

(* Go map[group.MemberIndex][]byte = association list with distinct keys, in any order *)
Fixpoint assoc (k : N) (m : list (N * bytes)) : bytes :=
  match m with
  | [] => []                                  (* a missing key reads as nil *)
  | (k', v) :: t => if k =? k' then v else assoc k t
  end.
(* convertSignaturesToChainFormat (tbtc.go:758-790): keys sorted ascending, signatures
   concatenated in that order, each must be exactly 65 bytes *)
Fixpoint concat_sigs (m : list (N * bytes)) (keys : list N) : option bytes :=
  match keys with
  | [] => Some []
  | k :: t => let s := assoc k m in
              if lenN s =? 65 then
                match concat_sigs m t with Some r => Some (s ++ r) | None => None end
              else None
  end.
Definition sigs_chain_format (m : list (N * bytes)) : option (list N * bytes) :=
  let keys := sortN (map fst m) in
  match concat_sigs m keys with
  | Some b => Some (keys, b)
  | None => None
  end.

(* OperatorsIDs[operatingMemberIndex-1] with a uint8 index: 0-1 wraps to 255; out of range
   panics (None) *)
Definition member_at (members : list N) (idx : N) : option N :=
  nth_error members (N.to_nat ((idx + 255) mod 256)).
Fixpoint members_at (members : list N) (idxs : list N) : option (list N) :=
  match idxs with
  | [] => Some []
  | i :: t => match member_at members i, members_at members t with
              | Some a, Some r => Some (a :: r)
              | _, _ => None
              end
  end.

Record dkg_in := {
  i_chainid : N;                 (* tc.chainID *)
  i_start : N;                   (* DKG start block (uint64) *)
  i_x : N; i_y : N;              (* group public key coordinates *)
  i_members : list N;            (* groupSelectionResult.OperatorsIDs *)
  i_submitter : N;
  i_operating : list N;          (* operatingMembersIndexes as passed *)
  i_misbehaved : list N;         (* misbehavedMembersIndexes as passed *)
  i_sigs : list (N * bytes)      (* the signatures map *)
}.

(* tbtc.DKGChainResult after convertDkgResultToAbiType = EcdsaDkg.Result (EcdsaDkg.sol:88-116);
   the members hash is kept as its preimage so that the model needs no hash function *)
Record assembled := {
  a_submitter : N; a_pubkey : bytes; a_misbehaved : list N; a_sigs : bytes;
  a_signing : list N; a_members : list N; a_mh_pre : bytes
}.
Inductive outcome (A : Type) := Ok (a : A) | ErrKey | ErrSigSize | Panic | NotSubmitted.
Arguments Ok {A}. Arguments ErrKey {A}. Arguments ErrSigSize {A}. Arguments Panic {A}.
Arguments NotSubmitted {A}.

(* computeOperatorsIDsHash (tbtc.go:739-751): Keccak256 of Pack(uint32[] ids) — the preimage *)
Definition client_members_preimage (ids : list N) : bytes := go_pack [AArr ids].

(* AssembleDKGResult (tbtc.go:666-725), in the order the code runs *)
Definition assemble (i : dkg_in) : outcome assembled :=
  match pubkey_chain_format (i_x i) (i_y i) with
  | None => ErrKey
  | Some pk =>
      let misb := sortN (i_misbehaved i) in
      match sigs_chain_format (i_sigs i) with
      | None => ErrSigSize
      | Some (signing, sg) =>
          let oper := sortN (i_operating i) in
          match members_at (i_members i) oper with
          | None => Panic
          | Some ids =>
              Ok {| a_submitter := i_submitter i; a_pubkey := pk; a_misbehaved := misb;
                    a_sigs := sg; a_signing := signing; a_members := i_members i;
                    a_mh_pre := client_members_preimage ids |}
          end
      end
  end.
(* dkgResultSubmitter.SubmitResult (pkg/tbtc/dkg_submit.go:115-152): refuses below the quorum *)
Definition submit (quorum : N) (i : dkg_in) : outcome assembled :=
  if lenN (i_sigs i) <? quorum then NotSubmitted else assemble i.

(* big.NewInt(int64(startBlock)) packed as uint256: a start block >= 2^63 turns negative and
   U256Bytes stores its two's complement *)
Definition start_word_value (s : N) : N :=
  if s <? 2 ^ 63 then s else two256 - (2 ^ 64 - s mod 2 ^ 64).
(* CalculateDKGResultSignatureHash + calculateDKGResultSignatureHash (tbtc.go:848-923):
   the bytes handed to Keccak256; None = error / panic *)
Definition client_sig_preimage (chainid x y : N) (misb : list N) (start : N) : option bytes :=
  match marshal_uncompressed x y with
  | None => None
  | Some m =>
      let pk := tl m in
      if lenN pk =? 64 then
        Some (go_pack [AUint chainid; ABytes pk; AArr (sortN misb); AUint (start_word_value start)])
      else None
  end.

(* keep-common ethutil ethereumPrefixedHash: Keccak256(prefix ++ decimal(len) , message) *)
Fixpoint dec_f (fuel : nat) (n : N) : bytes :=
  match fuel with
  | O => []
  | S f => (if n <? 10 then [] else dec_f f (n / 10)) ++ [48 + n mod 10]
  end.
Definition decimal (n : N) : bytes := dec_f 20 n.
Definition client_eth_preimage (msg : bytes) : bytes := eth_head ++ decimal (lenN msg) ++ msg.

(* ---- inactivity claims *)
(* inactivity.NewClaimPreimage: first occurrences, then sort *)
Fixpoint dedup (l seen : list N) : list N :=
  match l with
  | [] => []
  | x :: t => if memN x seen then dedup t seen else x :: dedup t (x :: seen)
  end.
Definition new_claim_inactive (raw : list N) : list N := sortN (dedup raw []).

Definition b2n (b : bool) : N := if b then 1 else 0.
(* CalculateInactivityClaimHash + calculateInactivityClaimHash (tbtc.go:1092-1171) *)
Definition client_claim_preimage (chainid nonce x y : N) (inactive : list N) (hbf : bool)
  : option bytes :=
  match marshal_uncompressed x y with
  | None => None
  | Some m =>
      let pk := tl m in
      if lenN pk =? 64 then
        Some (go_pack [AUint chainid; AUint nonce; ABytes pk; AArr inactive; AUint (b2n hbf)])
      else None
  end.
(* EcdsaInactivity.Claim (I:28-57) as produced by AssembleInactivityClaim +
   convertInactivityClaimToAbiType (tbtc.go:1026-1076) *)
Record claim := { k_wallet : bytes; k_inactive : list N; k_hbf : bool; k_sigs : bytes;
                  k_signing : list N }.
Definition assemble_claim (wallet : bytes) (inactive : list N) (sigs : list (N * bytes))
           (hbf : bool) : outcome claim :=
  match sigs_chain_format sigs with
  | None => ErrSigSize
  | Some (signing, sg) =>
      Ok {| k_wallet := wallet; k_inactive := inactive; k_hbf := hbf; k_sigs := sg;
            k_signing := signing |}
  end.
(* calculateWalletID (tbtc.go:1424-1434): Keccak256 of the 64-byte key — the preimage *)
Definition client_wallet_preimage (x y : N) : option bytes := pubkey_chain_format x y.

(* ------------------------------------------------------------------ Part 3: the contracts *)

(* V:45, V:51, V:57 (publicKeyByteSize V:61 = 64 and signatureByteSize V:65 = 65 are literals
   below; the driver reads all of them from the .sol files and has them checked by [consts_ok]) *)
Record params := { groupSize : N; groupThreshold : N; activeThreshold : N }.

Inductive vres :=
| Valid
| BadKey            (* "Malformed group public key" *)
| TooManyMisbehaved (* "Too many members misbehaving during DKG" *)
| BadMisbehaved     (* "Corrupted misbehaved members indices" *)
| NoSigs            (* "No signatures provided" *)
| BadSigsLen        (* "Malformed signatures array" *)
| BadSigCount       (* "Unexpected signatures count" *)
| TooFewSigs        (* "Too few signatures" *)
| TooManySigs       (* "Too many signatures" *)
| BadSigning        (* "Corrupted signing member indices" *)
| Revert.           (* arithmetic underflow / array index out of bounds *)

(* `for (i = 1; i < a.length; i++) if (a[i-1] >= a[i]) return false` (V:135-142, V:176-180) *)
Fixpoint strictly_increasing (l : list N) : bool :=
  match l with
  | a :: (b :: _) as t => (a <? b) && strictly_increasing t
  | _ => true
  end.

(* EcdsaDkgValidator.validateFields, V:110-183 *)
Definition validate_fields (p : params) (pk : bytes) (misb : list N) (sigs : bytes)
           (signing : list N) : vres :=
  (* V:115 *)
  if negb (lenN pk =? 64) then BadKey else
  (* V:124  groupSize - misbehavedMembersIndices.length  (checked subtraction) *)
  if groupSize p <? lenN misb then Revert else
  if groupSize p - lenN misb <? activeThreshold p then TooManyMisbehaved else
  (* V:127-143: the range check applies only when there is more than one index *)
  if (1 <? lenN misb)
     && ((nth 0 misb 0 <? 1) || (groupSize p <? last misb 0) || negb (strictly_increasing misb))
  then BadMisbehaved else
  (* V:147-153 *)
  let count := lenN sigs / 65 in
  if lenN sigs =? 0 then NoSigs else
  if negb (lenN sigs mod 65 =? 0) then BadSigsLen else
  (* V:157-166 *)
  if negb (count =? lenN signing) then BadSigCount else
  if count <? groupThreshold p then TooFewSigs else
  if groupSize p <? count then TooManySigs else
  (* V:170-180: signingMembersIndices[0] on an empty array reverts *)
  match signing with
  | [] => Revert
  | first :: _ =>
      if (first <? 1) || (groupSize p <? last signing 0) || negb (strictly_increasing signing)
      then BadSigning else Valid
  end.

(* validateMembersHash, V:265-291: the loop that drops the misbehaved members.
   State: k (misbehaved counter), out (groupMembers written so far, j = length out).
   `new uint32[](members.length - misbehaved.length)` reverts on underflow; writing
   groupMembers[j] with j = its length reverts; `misbehaved[k] - 1` reverts for index 0;
   slots never written stay 0. *)
Fixpoint mh_loop (members : list N) (i : N) (misb : list N) (k : N) (cap : N) (out : list N)
  : option (list N) :=
  match members with
  | [] => Some (out ++ repeat 0 (N.to_nat (cap - lenN out)))
  | m :: t =>
      match nth_error misb (N.to_nat k) with
      | None => None
      | Some mk =>
          if mk =? 0 then None else
          if negb (i =? mk - 1) then
            if lenN out <? cap then mh_loop t (i + 1) misb k cap (out ++ [m]) else None
          else if k <? lenN misb - 1 then mh_loop t (i + 1) misb (k + 1) cap out
          else mh_loop t (i + 1) misb k cap out
      end
  end.
Definition contract_group_members (members misb : list N) : option (list N) :=
  match misb with
  | [] => Some members                                              (* V:290 *)
  | _ => if lenN members <? lenN misb then None
         else mh_loop members 0 misb 0 (lenN members - lenN misb) []  (* V:270-287 *)
  end.
(* the bytes whose keccak256 is compared with result.membersHash: abi.encode(groupMembers) *)
Definition contract_members_preimage (members misb : list N) : option bytes :=
  match contract_group_members members misb with
  | Some g => Some (abi_encode [AArr g])
  | None => None
  end.

(* validateSignatures, V:221-228: abi.encode(block.chainid, result.groupPubKey,
   result.misbehavedMembersIndices, startBlock) *)
Definition contract_sig_preimage (chainid : N) (pk : bytes) (misb : list N) (start : N) : bytes :=
  abi_encode [AUint chainid; ABytes pk; AArr misb; AUint start].

(* BytesLib.slice, B:345-351: require(_end > _start && _bytes.length >= _end) *)
Definition slice (b : bytes) (start len : N) : option bytes :=
  if (0 <? len) && (start + len <=? lenN b)
  then Some (firstn (N.to_nat len) (skipn (N.to_nat start) b)) else None.

(* signingMemberIds[i] = result.members[signingMembersIndices[i] - 1], V:234-236 *)
Fixpoint signing_ids (members signing : list N) : option (list N) :=
  match signing with
  | [] => Some []
  | s :: t =>
      if s =? 0 then None else
      match nth_error members (N.to_nat (s - 1)), signing_ids members t with
      | Some a, Some r => Some (a :: r)
      | _, _ => None
      end
  end.

(* secp256k1 group order / 2, OZ ECDSA.tryRecover: "s" must be in the lower half *)
Definition half_n : N := 0x7FFFFFFFFFFFFFFFFFFFFFFFFFFFFFFF5D576E7357A4501DDFE92F46681B20A0.
(* the fields of a 65-byte [R || S || V] signature as OZ ECDSA.tryRecover reads them
   (mload(signature + 0x20), mload(signature + 0x40), byte(0, mload(signature + 0x60))) *)
Definition sig_r (sig : bytes) : bytes := firstn 32 sig.
Definition sig_s (sig : bytes) : bytes := firstn 32 (skipn 32 sig).
Definition sig_v (sig : bytes) : N := nth 64 sig 0.

Section Contract.
  Variable keccak : bytes -> bytes.
  (* the ecrecover precompile: hash, v, r, s -> address, 0 when it fails *)
  Variable ecrecover : bytes -> N -> bytes -> bytes -> N.
  (* SortitionPool.getIDOperators, element-wise *)
  Variable id_operator : N -> N.

  Definition to_result_hash (a : assembled) : bytes := keccak (a_mh_pre a).

  (* OZ 4.6 ECDSA.recover(hash, signature) for a 65-byte signature: r, s, v = bytes 0..31,
     32..63, 64; reverts (None) unless s is in the lower half order, v is 27 or 28 and
     ecrecover returns a non-zero address.  (64-byte compact signatures cannot occur: slices
     are 65 bytes long.) *)
  Definition oz_recover (hash sig : bytes) : option N :=
    if negb (lenN sig =? 65) then None else
    let r := sig_r sig in
    let s := sig_s sig in
    let v := sig_v sig in
    if half_n <? be_value s then None else
    if negb ((v =? 27) || (v =? 28)) then None else
    let a := ecrecover hash v r s in
    if a =? 0 then None else Some a.

  Definition eth_signed_hash (h : bytes) : bytes := keccak (eth_signed_preimage h).

  (* the loop V:245-255 *)
  Fixpoint sig_loop (n : nat) (i : N) (hash sigs : bytes) (addrs : list N) : option bool :=
    match n with
    | O => Some true
    | S n' =>
        match slice sigs (65 * i) 65 with
        | None => None
        | Some cur =>
            match oz_recover hash cur with
            | None => None
            | Some a =>
                match nth_error addrs (N.to_nat i) with
                | None => None
                | Some e => if e =? a then sig_loop n' (i + 1) hash sigs addrs else Some false
                end
            end
        end
    end.
  (* validateSignatures, V:217-258; None = revert *)
  Definition validate_signatures (chainid start : N) (pk : bytes) (misb : list N) (sigs : bytes)
             (signing members : list N) : option bool :=
    let hash := eth_signed_hash (keccak (contract_sig_preimage chainid pk misb start)) in
    match signing_ids members signing with
    | None => None
    | Some ids =>
        sig_loop (N.to_nat (lenN sigs / 65)) 0 hash sigs (map id_operator ids)
    end.

  (* validateMembersHash, V:265-291; None = revert *)
  Definition validate_members_hash (members misb : list N) (mhash : bytes) : option bool :=
    match contract_members_preimage members misb with
    | Some pre => Some (list_eqb (keccak pre) mhash)
    | None => None
    end.
End Contract.

(* ---- inactivity, I:78-193 *)
(* validateMembersIndices, I:170-193 (all three are `require`s: false = revert) *)
Definition validate_members_indices (idx : list N) (gsize : N) : bool :=
  (0 <? lenN idx) && (lenN idx <=? gsize)
  && (0 <? nth 0 idx 0) && (last idx 0 <=? gsize)
  && strictly_increasing idx.
(* the static part of verifyClaim, I:88-114, with groupThreshold I:62 and signatureByteSize I:66 *)
Definition verify_claim_static (inact_threshold : N) (c : claim) (n_members : N) : bool :=
  validate_members_indices (k_inactive c) n_members
  && negb (lenN (k_sigs c) =? 0)
  && (lenN (k_sigs c) mod 65 =? 0)
  && (lenN (k_sigs c) / 65 =? lenN (k_signing c))
  && (inact_threshold <=? lenN (k_sigs c) / 65)
  && (lenN (k_sigs c) / 65 <=? n_members)
  && validate_members_indices (k_signing c) n_members.
(* I:116-124 with walletPubKey = bytes.concat(pubKeyX, pubKeyY) (R:886-899) *)
Definition contract_claim_preimage (chainid nonce : N) (pkx pky : bytes) (c : claim) : bytes :=
  abi_encode [AUint chainid; AUint nonce; ABytes (pkx ++ pky); AArr (k_inactive c);
              AUint (b2n (k_hbf c))].
(* the signature part of verifyClaim, I:116-163.  NOTE: this loop is transcribed for the theorem
   claim_signatures_recover only; the per-run check does not evaluate it (claim signatures are
   canonicalised to identifiers in case terms and the driver does not recover them). *)
Section ContractClaim.
  Variable keccak : bytes -> bytes.
  Variable ecrecover : bytes -> N -> bytes -> bytes -> N.
  Variable id_operator : N -> N.
  (* the loop I:140-160.  [seen] = senderSignatureExists.  None = revert: "Invalid signature",
     signingMembersIndices[i] / groupMembersAddresses[memberIndex - 1] out of bounds,
     memberIndex - 1 underflow, BytesLib.slice, ECDSA.recover *)
  Fixpoint claim_sig_loop (n : nat) (i : N) (hash sigs : bytes) (signing addrs : list N)
           (sender : N) (seen : bool) : option bool :=
    match n with
    | O => Some seen
    | S n' =>
        match nth_error signing (N.to_nat i), slice sigs (65 * i) 65 with
        | Some mi, Some cur =>
            match oz_recover ecrecover hash cur with
            | None => None
            | Some a =>
                if mi =? 0 then None else
                match nth_error addrs (N.to_nat (mi - 1)) with
                | None => None
                | Some e =>
                    if e =? a
                    then claim_sig_loop n' (i + 1) hash sigs signing addrs sender
                                        (seen || (sender =? a))
                    else None
                end
            end
        | _, _ => None
        end
    end.
  (* true = no revert, including the final require(senderSignatureExists) I:162 *)
  Definition verify_claim_signatures (chainid nonce : N) (pkx pky : bytes) (c : claim)
             (members : list N) (sender : N) : bool :=
    let hash := eth_signed_hash keccak (keccak (contract_claim_preimage chainid nonce pkx pky c)) in
    match claim_sig_loop (N.to_nat (lenN (k_sigs c) / 65)) 0 hash (k_sigs c) (k_signing c)
                         (map id_operator members) sender false with
    | Some true => true
    | _ => false
    end.
End ContractClaim.
(* Wallets.addWallet, W:83-86: walletID = keccak256(publicKey), X = publicKey[:32],
   Y = publicKey[32:]; validatePublicKey W:50-58: 64 bytes, X non-zero *)
Definition wallet_x (pk : bytes) : bytes := firstn 32 pk.
Definition wallet_y (pk : bytes) : bytes := skipn 32 pk.
Definition contract_wallet_preimage (pk : bytes) : bytes := pk.
Definition validate_public_key (pk : bytes) : bool :=
  (lenN pk =? 64) && negb (be_value (wallet_x pk) =? 0).

(* ------------------------------------------------------------------ Part 4: cases and judge *)

(* inputs the property speaks about: a full group, distinct misbehaved members, the operating
   members are the others, every supporter is an operating member (tecdsa/dkg member.go
   shouldAcceptMessage) with a 65-byte signature, the quorum is met (dkg_submit.go:115) and the
   client's quorum is at least the contract's thresholds *)
Definition in_range (n x : N) : bool := (1 <=? x) && (x <=? n).
Definition valid_inb (p : params) (quorum : N) (i : dkg_in) : bool :=
  let n := lenN (i_members i) in
  (n =? groupSize p) && (n <=? 255)
  && (1 <=? quorum) && (groupThreshold p <=? quorum) && (activeThreshold p <=? quorum)
  && nodupb (i_misbehaved i) && forallb (in_range n) (i_misbehaved i)
  && list_eqb (sortN (i_operating i))
              (filter (fun k => negb (memN k (i_misbehaved i))) (seqN 1 (length (i_members i))))
  && nodupb (map fst (i_sigs i))
  && forallb (fun kv => memN (fst kv) (i_operating i) && (lenN (snd kv) =? 65)) (i_sigs i)
  && (quorum <=? lenN (i_sigs i))
  && (i_x i <? two256) && (i_y i <? two256)
  && (i_start i <? 2 ^ 63) && (i_chainid i <? two256).

(* what the driver observed *)
Record dkg_result := {
  r_submitter : N; r_pubkey : bytes; r_misbehaved : list N; r_sigs : bytes;
  r_signing : list N; r_members : list N; r_mhash : bytes
}.
Record dkg_obs := {
  o_out : outcome dkg_result;      (* submit / AssembleDKGResult, through convertDkgResultToAbiType *)
  o_hash : option bytes;           (* CalculateDKGResultSignatureHash (None: error or panic) *)
  o_cli_pre : bytes;               (* the driver's guess of the bytes the client hashed ... *)
  o_cli_ok : bool;                 (* ... confirmed: the client's hash = Keccak256(o_cli_pre) *)
  o_cmh_pre : bytes;               (* the driver's guess of the bytes hashed into result.MembersHash ... *)
  o_cmh_ok : bool;                 (* ... confirmed: result.MembersHash = Keccak256(o_cmh_pre) *)
  o_mh_pre : bytes;                (* the driver's own encoding of the contract's members-hash preimage *)
  o_mh_ok : bool;                  (* result.MembersHash = Keccak256(o_mh_pre) *)
  o_sig_pre : bytes;               (* ... of the contract's signature-hash preimage *)
  o_sig_ok : bool;                 (* the client's hash = Keccak256(o_sig_pre) *)
  o_eth_pre : bytes;               (* "\x19Ethereum Signed Message:\n32" ++ the client's hash *)
  o_recovered : list N             (* per 65-byte chunk of result.signatures: the operator id whose
                                      address OZ-recover yields under Keccak256(o_eth_pre); 0 = none *)
}.
Definition bytes_opt_eqb (a b : option bytes) : bool :=
  match a, b with
  | Some x, Some y => list_eqb x y
  | None, None => true
  | _, _ => false
  end.

(* validateSignatures with the recovered signers read from the observation; operators are
   identified with their ids (the sortition pool map is injective) *)
Fixpoint zip_eqb (a b : list N) : bool :=
  match a, b with
  | [], [] => true
  | x :: a', y :: b' => negb (x =? 0) && (x =? y) && zip_eqb a' b'
  | _, _ => false
  end.
Definition signatures_ok_tbl (r : dkg_result) (recovered : list N) : bool :=
  match signing_ids (r_members r) (r_signing r) with
  | Some ids => (lenN recovered =? lenN (r_sigs r) / 65) && zip_eqb recovered ids
  | None => false
  end.

Definition vres_valid (v : vres) : bool := match v with Valid => true | _ => false end.

Definition spec_dkg (p : params) (quorum : N) (genuine : bool) (i : dkg_in) (o : dkg_obs) : bool :=
  if negb (valid_inb p quorum i) then true else
  match o_out o with
  | Ok r =>
      vres_valid (validate_fields p (r_pubkey r) (r_misbehaved r) (r_sigs r) (r_signing r))
      (* members hash = keccak256 of the contract's preimage *)
      && bytes_opt_eqb (contract_members_preimage (r_members r) (r_misbehaved r)) (Some (o_mh_pre o))
      && o_mh_ok o
      (* the hash the supporters signed = keccak256 of the contract's preimage *)
      && list_eqb (contract_sig_preimage (i_chainid i) (r_pubkey r) (r_misbehaved r) (i_start i))
                  (o_sig_pre o)
      && o_sig_ok o
      && match o_hash o with
         | Some h => list_eqb (eth_signed_preimage h) (o_eth_pre o)
         | None => false
         end
      (* every signature recovers to the operator of its seat *)
      && (negb genuine || signatures_ok_tbl r (o_recovered o))
  | _ => false          (* a valid input at quorum must be assembled *)
  end.

Definition result_eqb (a : assembled) (r : dkg_result) : bool :=
  (a_submitter a =? r_submitter r) && list_eqb (a_pubkey a) (r_pubkey r)
  && list_eqb (a_misbehaved a) (r_misbehaved r) && list_eqb (a_sigs a) (r_sigs r)
  && list_eqb (a_signing a) (r_signing r) && list_eqb (a_members a) (r_members r).
Definition agree_dkg (quorum : N) (via_submit : bool) (i : dkg_in) (o : dkg_obs) : bool :=
  match (if via_submit then submit quorum i else assemble i), o_out o with
  | Ok a, Ok r =>
      result_eqb a r
      (* the model's client-side preimages are the bytes the client hashed *)
      && list_eqb (a_mh_pre a) (o_cmh_pre o) && o_cmh_ok o
  | ErrKey, ErrKey | ErrSigSize, ErrSigSize | Panic, Panic | NotSubmitted, NotSubmitted => true
  | _, _ => false
  end
  && match client_sig_preimage (i_chainid i) (i_x i) (i_y i) (i_misbehaved i) (i_start i), o_hash o with
     | Some pre, Some _ => list_eqb pre (o_cli_pre o) && o_cli_ok o
     | None, None => true
     | _, _ => false
     end.

Record claim_in := {
  c_chainid : N; c_nonce : N; c_x : N; c_y : N;
  c_raw : list N;                (* inactive member indexes handed to NewClaimPreimage *)
  c_hbf : bool;
  c_wallet : bytes;              (* ecdsaWalletID handed to AssembleInactivityClaim *)
  c_sigs : list (N * bytes);
  c_nmembers : N;                (* groupMembers.length *)
  c_threshold : N                (* the client's HonestThreshold gate, tbtc/inactivity.go:349 *)
}.
Record claim_obs := {
  q_out : outcome claim;         (* AssembleInactivityClaim through convertInactivityClaimToAbiType *)
  q_hash_some : bool;            (* CalculateInactivityClaimHash returned a hash *)
  q_pre : bytes;                 (* driver's encoding of the contract preimage (from the ABI claim
                                    and the key stored by Wallets.addWallet) *)
  q_ok : bool;                   (* the client's claim hash = Keccak256(q_pre) *)
  q_wallet_pre : bytes;          (* driver's copy of the contract's wallet-ID preimage *)
  q_wallet_ok : bool;            (* CalculateWalletID = Keccak256(q_wallet_pre) *)
  q_accepted : bool;             (* every signature in the map passed inactivityClaimSigner.VerifySignature
                                    with the public key of its seat's operator *)
  q_members : list N;            (* groupMembers: the operator id of every seat *)
  q_recovered : list N           (* per 65-byte chunk of claim.signatures: the operator id whose address
                                    OZ-recover yields under the contract's message hash
                                    Keccak256(prefix ++ Keccak256(q_pre)); 0 = none *)
}.
(* the signature loop of verifyClaim (I:140-155) with the recovered signers read from the
   observation: chunk i must recover to the operator of seat signingMembersIndices[i] *)
Definition claim_signatures_ok_tbl (k : claim) (members recovered : list N) : bool :=
  match signing_ids members (k_signing k) with
  | Some ids => (lenN recovered =? lenN (k_sigs k) / 65) && zip_eqb recovered ids
  | None => false
  end.
Definition valid_claimb (inact_threshold : N) (c : claim_in) : bool :=
  let n := c_nmembers c in
  (n <=? 255) && negb (lenN (c_raw c) =? 0) && forallb (in_range n) (c_raw c)
  && nodupb (map fst (c_sigs c))
  && forallb (fun kv => in_range n (fst kv) && (lenN (snd kv) =? 65)) (c_sigs c)
  && (c_threshold c <=? lenN (c_sigs c)) && (inact_threshold <=? c_threshold c)
  && (1 <=? c_threshold c)
  && (c_x c <? two256) && (c_y c <? two256) && (c_chainid c <? two256) && (c_nonce c <? two256)
  && (lenN (c_wallet c) =? 32).
Definition claim_eqb (a b : claim) : bool :=
  list_eqb (k_wallet a) (k_wallet b) && list_eqb (k_inactive a) (k_inactive b)
  && Bool.eqb (k_hbf a) (k_hbf b) && list_eqb (k_sigs a) (k_sigs b)
  && list_eqb (k_signing a) (k_signing b).
Definition spec_claim (inact_threshold : N) (c : claim_in) (o : claim_obs) : bool :=
  if negb (valid_claimb inact_threshold c) then true else
  match q_out o, pubkey_chain_format (c_x c) (c_y c) with
  | Ok k, Some pk =>
      verify_claim_static inact_threshold k (c_nmembers c)
      && q_hash_some o
      && list_eqb (contract_claim_preimage (c_chainid c) (c_nonce c) (wallet_x pk) (wallet_y pk) k)
                  (q_pre o)
      && q_ok o
      && list_eqb (contract_wallet_preimage pk) (q_wallet_pre o) && q_wallet_ok o
      (* every signature the client accepted recovers to the operator of its seat *)
      && (negb (q_accepted o && (lenN (q_members o) =? c_nmembers c))
          || claim_signatures_ok_tbl k (q_members o) (q_recovered o))
  | _, _ => false
  end.
Definition agree_claim (c : claim_in) (o : claim_obs) : bool :=
  let inactive := new_claim_inactive (c_raw c) in
  match assemble_claim (c_wallet c) inactive (c_sigs c) (c_hbf c), q_out o with
  | Ok a, Ok b => claim_eqb a b
  | ErrSigSize, ErrSigSize => true
  | _, _ => false
  end
  && match client_claim_preimage (c_chainid c) (c_nonce c) (c_x c) (c_y c) inactive (c_hbf c) with
     | Some pre => q_hash_some o
                   && match q_out o with Ok _ => list_eqb pre (q_pre o) && q_ok o | _ => true end
     | None => negb (q_hash_some o)
     end
  && match client_wallet_preimage (c_x c) (c_y c) with
     | Some pre => list_eqb pre (q_wallet_pre o) && q_wallet_ok o
     | None => negb (q_wallet_ok o)
     end.

(* the constants of both sides, read from the sources by the driver on every run *)
Record consts := {
  go_size : N; go_quorum : N; go_honest : N;                  (* pkg/tbtc/tbtc.go Initialize *)
  sol_size : N; sol_threshold : N; sol_active : N;            (* V:45, V:51, V:57 *)
  sol_pk_size : N; sol_sig_size : N;                          (* V:61, V:65 *)
  inact_threshold : N; inact_sig_size : N                     (* I:62, I:66 *)
}.
Definition consts_ok (k : consts) : bool :=
  (go_size k =? sol_size k) && (go_size k <=? 255)
  && (1 <=? go_quorum k) && (sol_threshold k <=? go_quorum k) && (sol_active k <=? go_quorum k)
  && (sol_pk_size k =? 64) && (sol_sig_size k =? 65)
  && (1 <=? go_honest k) && (inact_threshold k <=? go_honest k) && (inact_sig_size k =? 65).

(* ---- call histories on ONE long-lived chain handle.
   TbtcChain is built once per node and every local member of every group calls its hash /
   assembly methods on it.  The model of these methods is a pure function of the call's own
   arguments and of the handle's (immutable) chain id: a history of calls is the [map] of that
   function (Proofs/C40.v history_is_map), so EVERY field of the contract preimage decides the
   hash of the call it is passed to, whatever was asked before. *)
Inductive hop :=
| HHash        (* CalculateDKGResultSignatureHash *)
| HSign        (* pkg/tbtc dkgResultSigner.SignResult on the handle: hash + operator signature *)
| HAssemble    (* the hash, the supporters' signatures over it and AssembleDKGResult *)
| HClaim       (* NewClaimPreimage + CalculateInactivityClaimHash *)
| HClaimSign   (* pkg/tbtc inactivityClaimSigner.SignClaim on the handle *)
| HWallet.     (* CalculateWalletID *)
Record hcall := {
  h_op : hop;
  h_chainid : N;        (* the chain id of the handle the call was made on *)
  h_x : N; h_y : N;     (* group / wallet public key *)
  h_start : N;          (* DKG start block (result calls) *)
  h_list : list N;      (* misbehaved members as passed (result calls) / raw inactive members *)
  h_nonce : N; h_hbf : bool   (* claim calls *)
}.
Definition is_result_op (o : hop) : bool :=
  match o with HHash | HSign | HAssemble => true | _ => false end.
Definition dummy_claim (inactive : list N) (hbf : bool) : claim :=
  {| k_wallet := []; k_inactive := inactive; k_hbf := hbf; k_sigs := []; k_signing := [] |}.
(* the bytes the CLIENT hashes in this call (None: error / panic) *)
Definition call_client_preimage (c : hcall) : option bytes :=
  match h_op c with
  | HHash | HSign | HAssemble =>
      client_sig_preimage (h_chainid c) (h_x c) (h_y c) (h_list c) (h_start c)
  | HClaim | HClaimSign =>
      client_claim_preimage (h_chainid c) (h_nonce c) (h_x c) (h_y c)
                            (new_claim_inactive (h_list c)) (h_hbf c)
  | HWallet => client_wallet_preimage (h_x c) (h_y c)
  end.
(* the bytes the CONTRACT hashes for the result / claim / wallet these arguments describe *)
Definition call_contract_preimage (c : hcall) : option bytes :=
  match pubkey_chain_format (h_x c) (h_y c) with
  | None => None
  | Some pk =>
      Some match h_op c with
           | HHash | HSign | HAssemble =>
               contract_sig_preimage (h_chainid c) pk (sortN (h_list c)) (h_start c)
           | HClaim | HClaimSign =>
               contract_claim_preimage (h_chainid c) (h_nonce c) (wallet_x pk) (wallet_y pk)
                                       (dummy_claim (new_claim_inactive (h_list c)) (h_hbf c))
           | HWallet => contract_wallet_preimage pk
           end
  end.
(* the handle as a state machine: its state is the log of what it answered; a step appends the
   answer to the call and reads nothing of the log *)
Definition handle_step (log : list (option bytes)) (c : hcall) : list (option bytes) :=
  log ++ [call_client_preimage c].
Definition run_history (calls : list hcall) : list (option bytes) := fold_left handle_step calls [].

Definition call_validb (c : hcall) : bool :=
  (h_x c <? two256) && (h_y c <? two256) && (h_chainid c <? two256) && (h_nonce c <? two256)
  && (h_start c <? 2 ^ 63) && forallb (fun m => m <? 256) (h_list c)
  && (negb (is_result_op (h_op c)) || nodupb (h_list c)).
(* what the driver observed for one call of a history *)
Record hobs := {
  b_some : bool;      (* the call returned a hash / result *)
  b_pre : bytes;      (* the driver's own encoding of the contract preimage of THIS call (for
                         HAssemble: built from the fields of the assembled result) *)
  b_ok : bool;        (* the hash the handle returned in THIS call = Keccak256 b_pre *)
  b_recovers : bool;  (* HSign / HClaimSign / HAssemble: every signature made over the returned hash
                         recovers (OZ rules) to the operator under the contract's message hash
                         Keccak256(prefix ++ Keccak256 b_pre); true for the other calls *)
  b_late : bool       (* the result, re-read after all later calls of the history and after the
                         caller's argument slices were overwritten, is what it was *)
}.
Definition hspec_entry (e : hcall * hobs) : bool :=
  let (c, o) := e in
  if negb (call_validb c) then true else
  b_some o && bytes_opt_eqb (call_contract_preimage c) (Some (b_pre o)) && b_ok o
  && b_recovers o && b_late o.
Definition hagree_entry (e : hcall * hobs) : bool :=
  let (c, o) := e in
  match call_client_preimage c with
  | Some pre => b_some o && list_eqb pre (b_pre o) && b_ok o
  | None => negb (b_some o)
  end.
Definition hspec_ok (h : list (hcall * hobs)) : bool := forallb hspec_entry h.
Definition hagree (h : list (hcall * hobs)) : bool :=
  forallb hagree_entry h
  && (lenN (run_history (map fst h)) =? lenN h).

Inductive case :=
(* via_submit: through pkg/tbtc dkgResultSubmitter.SubmitResult (quorum gate), otherwise
   AssembleDKGResult directly; genuine: every signature in the map was ACCEPTED by the client,
   i.e. passed dkgResultSigner.VerifySignature with the public key of its seat's operator over
   the client's hash (what tecdsa/dkg verifyDKGResultSignatures demands before a signature
   enters the map) *)
| CDkg (p : params) (quorum : N) (via_submit genuine : bool) (i : dkg_in) (o : dkg_obs)
| CClaim (inact_thr : N) (c : claim_in) (o : claim_obs)
| CConsts (k : consts)
(* go-ethereum's Arguments.Pack and the driver's own encoder on the same argument list *)
| CAbi (args : list aval) (packed : bytes) (own : bytes)
(* keep-common's signer: message, and whether the 65-byte signature it produced recovers to the
   signer under Keccak256(eth_signed_preimage message) as rebuilt by the driver *)
| CEth (msg : bytes) (pre : bytes) (recovers : bool)
(* a history of calls on long-lived chain handles (one per chain id), every call with what the
   driver observed for it *)
| CHist (h : list (hcall * hobs)).

Definition distinct_keys (m : list (N * bytes)) : bool := nodupb (map fst m).

Definition judge (c : case) : verdict :=
  match c with
  | CDkg p quorum via genuine i o =>
      if negb (distinct_keys (i_sigs i)) then BadCase else
      decide (spec_dkg p quorum genuine i o) (agree_dkg quorum via i o)
  | CClaim thr c o =>
      if negb (distinct_keys (c_sigs c)) then BadCase else
      decide (spec_claim thr c o) (agree_claim c o)
  | CConsts k => decide (consts_ok k) true
  | CAbi args packed own =>
      decide (list_eqb (abi_encode args) own) (list_eqb (go_pack args) packed)
  | CEth msg pre recovers =>
      if negb (lenN msg =? 32) then BadCase else
      decide (list_eqb (eth_signed_preimage msg) pre && recovers)
             (list_eqb (client_eth_preimage msg) pre)
  | CHist h => if lenN h =? 0 then BadCase else decide (hspec_ok h) (hagree h)
  end.

(* what --replay prints: the model's own result and the contract-side preimages *)
Inductive explanation :=
| EDkg (model : outcome assembled) (valid_input : bool) (fields : option vres)
       (client_sig_pre : option bytes) (contract_sig_pre contract_mh_pre : option bytes)
| EClaim (model : outcome claim) (valid_input : bool) (client_pre : option bytes)
         (contract_pre : option bytes)
| EConsts (ok : bool)
| EAbi (model : bytes)
| EEth (contract_pre client_pre : bytes)
| EHist (per_call : list (bool * option bytes * option bytes * bool)).
Definition explain (c : case) : explanation :=
  match c with
  | CDkg p quorum via _ i o =>
      let m := if via then submit quorum i else assemble i in
      EDkg m (valid_inb p quorum i)
           (match o_out o with
            | Ok r => Some (validate_fields p (r_pubkey r) (r_misbehaved r) (r_sigs r) (r_signing r))
            | _ => None end)
           (client_sig_preimage (i_chainid i) (i_x i) (i_y i) (i_misbehaved i) (i_start i))
           (match o_out o with
            | Ok r => Some (contract_sig_preimage (i_chainid i) (r_pubkey r) (r_misbehaved r) (i_start i))
            | _ => None end)
           (match o_out o with
            | Ok r => contract_members_preimage (r_members r) (r_misbehaved r)
            | _ => None end)
  | CClaim thr c o =>
      let inactive := new_claim_inactive (c_raw c) in
      EClaim (assemble_claim (c_wallet c) inactive (c_sigs c) (c_hbf c)) (valid_claimb thr c)
             (client_claim_preimage (c_chainid c) (c_nonce c) (c_x c) (c_y c) inactive (c_hbf c))
             (match q_out o, pubkey_chain_format (c_x c) (c_y c) with
              | Ok k, Some pk => Some (contract_claim_preimage (c_chainid c) (c_nonce c)
                                                               (wallet_x pk) (wallet_y pk) k)
              | _, _ => None end)
  | CConsts k => EConsts (consts_ok k)
  | CAbi args _ _ => EAbi (abi_encode args)
  | CEth msg _ _ => EEth (eth_signed_preimage msg) (client_eth_preimage msg)
  | CHist h => EHist (map (fun e => (call_validb (fst e), call_client_preimage (fst e),
                                     call_contract_preimage (fst e), hspec_entry e)) h)
  end.

(* ------------------------------------------------------------------ Part 5: Prop reading of [valid_inb]
   (Proofs/C40.v valid_inb_sound); used as the premise of the theorems in Props/C40.v *)
Definition valid_in (p : params) (quorum : N) (i : dkg_in) : Prop :=
  let n := lenN (i_members i) in
  n = groupSize p /\ n <= 255
  /\ 1 <= quorum /\ groupThreshold p <= quorum /\ activeThreshold p <= quorum
  /\ NoDup (i_misbehaved i) /\ (forall m, In m (i_misbehaved i) -> 1 <= m <= n)
  /\ NoDup (i_operating i)
  /\ (forall k, In k (i_operating i) <-> (1 <= k <= n /\ ~ In k (i_misbehaved i)))
  /\ NoDup (map fst (i_sigs i))
  /\ (forall k s, In (k, s) (i_sigs i) -> In k (i_operating i) /\ lenN s = 65)
  /\ quorum <= lenN (i_sigs i)
  /\ i_x i < two256 /\ i_y i < two256 /\ i_start i < 2 ^ 63 /\ i_chainid i < two256.

(* Prop reading of [valid_claimb] (Proofs/C40.v valid_claimb_sound).  The client has NO guard
   against an empty inactive-member list (the contract rejects it, I:174): [c_raw c <> []] is an
   explicit precondition here. *)
Definition valid_claim (inact_thr : N) (c : claim_in) : Prop :=
  let n := c_nmembers c in
  n <= 255 /\ c_raw c <> [] /\ (forall m, In m (c_raw c) -> 1 <= m <= n)
  /\ NoDup (map fst (c_sigs c))
  /\ (forall k s, In (k, s) (c_sigs c) -> 1 <= k <= n /\ lenN s = 65)
  /\ c_threshold c <= lenN (c_sigs c) /\ inact_thr <= c_threshold c /\ 1 <= c_threshold c
  /\ c_x c < two256 /\ c_y c < two256 /\ c_chainid c < two256 /\ c_nonce c < two256
  /\ lenN (c_wallet c) = 32.

(* ---- the hypotheses of the signature theorems, as named predicates.
   [signed addr digest sig]: the 65-byte [R || S || V] signature [sig] was produced by
   keep-common's EthereumSigner.Sign with the key whose address is [addr] over a message whose
   prefixed hash is the 32-byte [digest] (crypto.Sign: canonical low s, V = recovery id + 27).
   (EthereumSigner.VerifyWithPublicKey, the check other members apply, strips V before
   verifying R || S; a signature it accepts satisfies [signed] only if its V byte is the
   recovery id + 27.)
   ECDSA correctness, the only cryptographic assumption: such a signature satisfies the two
   `require`s of OZ ECDSA.recover and the ecrecover precompile returns the signer's address,
   which is not the zero address. *)
Definition ecdsa_recovers (ecrecover : bytes -> N -> bytes -> bytes -> N)
           (signed : N -> bytes -> bytes -> Prop) : Prop :=
  forall addr digest sig, signed addr digest sig -> lenN sig = 65 ->
    be_value (sig_s sig) <= half_n /\ (sig_v sig = 27 \/ sig_v sig = 28)
    /\ ecrecover digest (sig_v sig) (sig_r sig) (sig_s sig) = addr /\ addr <> 0.
(* every entry (k, s) of the signatures map: s was signed by the operator of seat k (the k-th
   member id through the sortition pool's id -> operator map) over the prefixed hash
   (ethereumPrefixedHash) of the hash that supporter computed with
   CalculateDKGResultSignatureHash, listing the misbehaved members in ANY order *)
Definition supporters_signed (keccak : bytes -> bytes) (operator_of : N -> N)
           (signed : N -> bytes -> bytes -> Prop) (i : dkg_in) : Prop :=
  forall k s id, In (k, s) (i_sigs i) -> nth_error (i_members i) (N.to_nat (k - 1)) = Some id ->
    exists misb' pre, Permutation misb' (i_misbehaved i)
      /\ client_sig_preimage (i_chainid i) (i_x i) (i_y i) misb' (i_start i) = Some pre
      /\ signed (operator_of id) (keccak (client_eth_preimage (keccak pre))) s.
(* the same for an inactivity claim over CalculateInactivityClaimHash of the claim preimage
   NewClaimPreimage built; [members] are the wallet's member ids *)
Definition claim_supporters_signed (keccak : bytes -> bytes) (operator_of : N -> N)
           (signed : N -> bytes -> bytes -> Prop) (c : claim_in) (members : list N) : Prop :=
  forall k s id, In (k, s) (c_sigs c) -> nth_error members (N.to_nat (k - 1)) = Some id ->
    exists pre,
      client_claim_preimage (c_chainid c) (c_nonce c) (c_x c) (c_y c)
                            (new_claim_inactive (c_raw c)) (c_hbf c) = Some pre
      /\ signed (operator_of id) (keccak (client_eth_preimage (keccak pre))) s.

(* pkg/chain/ethereum/signer.go, signer.VerifyWithPublicKey AS REPAIRED (/repo commit "fix:
   ethereum signer verifies the recovery byte of operator signatures"), read on the contract's
   terms: keep-common's verification of R || S (go-ethereum crypto.VerifySignature: lower-S only)
   succeeded, the signature has 65 bytes, V is 27 or 28 and Ecrecover(prefixed hash,
   R || S || V - 27) is the given public key.  Keys are identified with their addresses and
   go-ethereum's Ecrecover with the precompile [ecrecover]. *)
Definition client_accepts (ecrecover : bytes -> N -> bytes -> bytes -> N)
           (addr : N) (digest sig : bytes) : bool :=
  (lenN sig =? 65) && (be_value (sig_s sig) <=? half_n)
  && ((sig_v sig =? 27) || (sig_v sig =? 28))
  && (ecrecover digest (sig_v sig) (sig_r sig) (sig_s sig) =? addr).
(* BEFORE the repair the V byte was stripped and never looked at: R || S verified for the key,
   i.e. one of the two recovery ids recovers it *)
Definition client_accepts_before_fix (ecrecover : bytes -> N -> bytes -> bytes -> N)
           (addr : N) (digest sig : bytes) : bool :=
  (lenN sig =? 65) && (be_value (sig_s sig) <=? half_n)
  && ((ecrecover digest 27 (sig_r sig) (sig_s sig) =? addr)
      || (ecrecover digest 28 (sig_r sig) (sig_s sig) =? addr)).

