(* C30 — executable model of pkg/bitcoin/estimator.go (TransactionSizeEstimator) as written, of
   the signing half of pkg/bitcoin/transaction_builder.go (AddSignatures) and of the btcd
   pieces they call: txscript.ScriptBuilder.AddOp/AddData (btcd v0.22.3 scriptbuilder.go),
   btcec.Signature.Serialize / canonicalizeInt (btcec/signature.go), blockchain.
   GetTransactionWeight and mempool.GetTxVirtualSize.  Transactions and their two
   serialisations are those of the byte-level model of C29 (Model/C29.v: [tx], [serialize]).
   Besides the byte-level model this file defines an independent arithmetic size function
   (closed forms, used by the judge; Proofs/C30.v proves it equal to the byte-level sizes) and
   the op sequences the fee estimators of pkg/tbtcpg feed to the estimator.  No proofs here. *)
From Coq Require Import ZArith NArith List Bool.
From KV Require Import Common.Verdict Model.C29.
Import ListNotations.
Open Scope N_scope.

(* ------------------------------------------------------------------ txscript.ScriptBuilder *)
Definition max_script_size : N := 10000.
Definition max_script_element_size : N := 520.

(* canonicalDataSize *)
Definition canonical_data_size (d : list N) : N :=
  match d with
  | [] => 1
  | [b] => if (b <=? 16) || (b =? 129) then 1 else 2
  | _ => let n := len d in
         if n <? 76 then 1 + n else if n <=? 255 then 2 + n else if n <=? 65535 then 3 + n else 5 + n
  end.
(* addData: OP_0 / OP_1..OP_16 / OP_1NEGATE for one-byte small integers, else the shortest
   OP_DATA_n / OP_PUSHDATA1 / OP_PUSHDATA2 / OP_PUSHDATA4 prefix *)
Definition add_data_raw (d : list N) : list N :=
  match d with
  | [] => [0]
  | [b] => if b =? 0 then [0] else if b <=? 16 then [80 + b] else if b =? 129 then [79] else [1; b]
  | _ => let n := len d in
         if n <? 76 then n :: d
         else if n <=? 255 then 76 :: n :: d
         else if n <=? 65535 then 77 :: le_bytes 2 n ++ d
         else 78 :: le_bytes 4 n ++ d
  end.
(* builder state: None = the sticky error *)
Definition sb := option (list N).
Definition sb_new : sb := Some [].
Definition sb_add_op (b : sb) (opc : N) : sb :=
  match b with
  | Some s => if max_script_size <? len s + 1 then None else Some (s ++ [opc])
  | None => None
  end.
Definition sb_add_data (b : sb) (d : list N) : sb :=
  match b with
  | Some s => if max_script_size <? len s + canonical_data_size d then None
              else if max_script_element_size <? len d then None
              else Some (s ++ add_data_raw d)
  | None => None
  end.
Definition sig_script (items : list (list N)) : sb := fold_left sb_add_data items sb_new.

(* ------------------------------------------------------------------ placeholders (estimator.go) *)
Definition zeros (n : N) : list N := repeat 0 (N.to_nat n).
Definition sig_placeholder : list N := zeros 72.
Definition pk_placeholder : list N := zeros 33.
Definition max_seq : N := 4294967295.              (* wire.MaxTxInSequenceNum, set by wire.NewTxIn *)
Definition mk_in (hash : list N) (idx : N) (script : list N) (wit : list (list N)) : txin :=
  {| ti_hash := hash; ti_index := idx; ti_script := script; ti_witness := wit; ti_seq := max_seq |}.
Definition ph_txin (script : list N) (wit : list (list N)) : txin := mk_in (zeros 32) 0 script wit.

(* the shape of one estimated input / output *)
Inductive ishape := SPkh (wit : bool) | SSh (wit : bool) (rlen : N).
Inductive oshape := TPkh (wit : bool) | TSh (wit : bool).

Definition ph_in (s : ishape) : option txin :=
  match s with
  | SPkh true => Some (ph_txin [] [sig_placeholder; pk_placeholder])
  | SPkh false => option_map (fun sc => ph_txin sc []) (sig_script [sig_placeholder; pk_placeholder])
  | SSh true l => Some (ph_txin [] [sig_placeholder; pk_placeholder; zeros l])
  | SSh false l =>
      option_map (fun sc => ph_txin sc []) (sig_script [sig_placeholder; pk_placeholder; zeros l])
  end.

(* script.go PayToPublicKeyHash / PayToWitnessPublicKeyHash / PayToScriptHash /
   PayToWitnessScriptHash on all-zero hashes *)
Definition OP_0 : N := 0.   Definition OP_DUP : N := 118.   Definition OP_HASH160 : N := 169.
Definition OP_EQUAL : N := 135.   Definition OP_EQUALVERIFY : N := 136.   Definition OP_CHECKSIG : N := 172.
Definition ph_out_script (s : oshape) : sb :=
  match s with
  | TPkh true => sb_add_data (sb_add_op sb_new OP_0) (zeros 20)
  | TPkh false => sb_add_op (sb_add_op (sb_add_data (sb_add_op (sb_add_op sb_new OP_DUP) OP_HASH160)
                                                    (zeros 20)) OP_EQUALVERIFY) OP_CHECKSIG
  | TSh true => sb_add_data (sb_add_op sb_new OP_0) (zeros 32)
  | TSh false => sb_add_op (sb_add_data (sb_add_op sb_new OP_HASH160) (zeros 20)) OP_EQUAL
  end.
Definition ph_out (s : oshape) : option txout :=
  option_map (fun sc => {| to_value := 0; to_script := sc |}) (ph_out_script s).

(* ------------------------------------------------------------------ the estimator *)
(* one call of the fluent interface; counts and lengths are Go ints *)
Inductive op :=
| OPkhIn (count : Z) (wit : bool)          (* AddPublicKeyHashInputs *)
| OShIn (count rlen : Z) (wit : bool)      (* AddScriptHashInputs *)
| OPkhOut (count : Z) (wit : bool)         (* AddPublicKeyHashOutputs *)
| OShOut (count : Z) (wit : bool).         (* AddScriptHashOutputs *)

(* internal MsgTx (inputs, outputs) | tse.err set | make([]byte, negative) panicked *)
Inductive est := EState (ins : list txin) (outs : list txout) | EErr | EPanic.
(* for i := 0; i < count; i++ *)
Definition times {A} (count : Z) (x : A) : list A := repeat x (Z.to_nat count).
Definition add_ins (e : est) (count : Z) (o : option txin) : est :=
  match e, o with
  | EState i t, Some x => EState (i ++ times count x) t
  | EState _ _, None => EErr
  | _, _ => e
  end.
Definition add_outs (e : est) (count : Z) (o : option txout) : est :=
  match e, o with
  | EState i t, Some x => EState i (t ++ times count x)
  | EState _ _, None => EErr
  | _, _ => e
  end.
Definition step (e : est) (o : op) : est :=
  match e with
  | EState _ _ =>
      match o with
      | OPkhIn c w => add_ins e c (ph_in (SPkh w))
      | OShIn c l w => if (l <? 0)%Z then EPanic else add_ins e c (ph_in (SSh w (Z.to_N l)))
      | OPkhOut c w => add_outs e c (ph_out (TPkh w))
      | OShOut c w => add_outs e c (ph_out (TSh w))
      end
  | _ => e
  end.
Definition run_ops (ops : list op) : est := fold_left step ops (EState [] []).

(* newInternalTransaction: version wire.TxVersion = 1, locktime 0 *)
Definition mk_tx (ins : list txin) (outs : list txout) : tx :=
  {| tx_version := 1; tx_ins := ins; tx_outs := outs; tx_locktime := 0 |}.

(* blockchain.GetTransactionWeight: SerializeSizeStripped * 3 + SerializeSize;
   mempool.GetTxVirtualSize: (weight + 3) / 4 *)
Definition base_size (t : tx) : N := len (serialize Standard t).
Definition total_size (t : tx) : N := len (serialize Witness t).
Definition weight (t : tx) : N := base_size t * 3 + total_size t.
Definition vsize_of_weight (w : N) : N := (w + 3) / 4.
Definition vsize (t : tx) : N := vsize_of_weight (weight t).

Inductive eres := VOk (v : N) | VErr | VPanic.
(* NewTransactionSizeEstimator().<ops>.VirtualSize() *)
Definition estimate (ops : list op) : eres :=
  match run_ops ops with
  | EState i o => VOk (vsize (mk_tx i o))
  | EErr => VErr
  | EPanic => VPanic
  end.

(* ------------------------------------------------------------------ btcec signature serialisation *)
Definition secp_n : N := 115792089237316195423570985008687907852837564279074904382605163141518161494337.
Definition half_order : N := secp_n / 2.                   (* new(big.Int).Rsh(N, 1) *)
(* big.Int.Bytes(): minimal big-endian *)
Definition byte_len (x : N) : N := (N.size x + 7) / 8.
Definition be_bytes (x : N) : list N := rev (le_bytes (N.to_nat (byte_len x)) x).
Definition canonicalize_int (x : N) : list N :=
  let b := match be_bytes x with [] => [0] | b => b end in
  if 128 <=? hd 0 b then 0 :: b else b.
(* Serialize without the low-S step *)
Definition der_raw (r s : N) : list N :=
  let rb := canonicalize_int r in
  let sb := canonicalize_int s in
  let length := 6 + len rb + len sb in
  [48; (length - 2) mod 256; 2; len rb mod 256] ++ rb ++ [2; len sb mod 256] ++ sb.
Definition low_s (s : N) : N := if half_order <? s then secp_n - s else s.
Definition der_serialize (r s : N) : list N := der_raw r (low_s s).
Definition sighash_all : N := 1.

(* SerializeCompressed: format byte, X padded to 32 bytes *)
Record pubkey := { pk_x : N; pk_y_odd : bool }.
Definition pk_bytes (p : pubkey) : list N :=
  (if pk_y_odd p then 3 else 2) :: rev (le_bytes 32 (pk_x p)).

(* ------------------------------------------------------------------ TransactionBuilder, signing half *)
Inductive ikind := KPkh (wit : bool) | KSh (wit : bool) (redeem : list N).
(* one input with the signature handed to AddSignatures for it.  [ri_curve_ok] is the outcome
   of the curve equation inside ecdsa.Verify, which the size does not depend on; the range
   checks 0 < r, s < N that ecdsa.Verify makes first are modelled *)
Record rin := { ri_hash : N; ri_index : N; ri_kind : ikind;
                ri_r : Z; ri_s : Z; ri_pk : pubkey; ri_curve_ok : bool }.
Definition sig_in_range (i : rin) : bool :=
  ((0 <? ri_r i) && (ri_r i <? Z.of_N secp_n) && (0 <? ri_s i) && (ri_s i <? Z.of_N secp_n))%Z.
Definition sig_bytes_with (der : N -> N -> list N) (i : rin) : list N :=
  der (Z.to_N (ri_r i)) (Z.to_N (ri_s i)) ++ [sighash_all].
Definition real_txin (i : rin) := mk_in (le_bytes 32 (ri_hash i)) (ri_index i).
Definition sign_input_with (der : N -> N -> list N) (i : rin) : option txin :=
  if negb (sig_in_range i && ri_curve_ok i) then None else
  let sg := sig_bytes_with der i in
  let pk := pk_bytes (ri_pk i) in
  match ri_kind i with
  | KPkh true => Some (real_txin i [] [sg; pk])
  | KPkh false => option_map (fun sc => real_txin i sc []) (sig_script [sg; pk])
  | KSh true redeem => Some (real_txin i [] [sg; pk; redeem])
  | KSh false redeem =>
      (* if len(input.SignatureScript) > 0 { builder.AddData(input.SignatureScript) } *)
      option_map (fun sc => real_txin i sc [])
                 (sig_script (match redeem with [] => [sg; pk] | _ => [sg; pk; redeem] end))
  end.
Fixpoint all_some {A} (l : list (option A)) : option (list A) :=
  match l with
  | [] => Some []
  | Some x :: t => option_map (cons x) (all_some t)
  | None :: _ => None
  end.
(* ComputeSignatureHashes + AddSignatures; "signature hashes must be computed first" when the
   transaction has no inputs *)
Definition build_with (der : N -> N -> list N) (ins : list rin) (outs : list txout) : option tx :=
  match ins with
  | [] => None
  | _ => option_map (fun l => mk_tx l outs) (all_some (map (sign_input_with der) ins))
  end.
Definition sign_input := sign_input_with der_serialize.
Definition build := build_with der_serialize.

(* ------------------------------------------------------------------ shapes and coverage *)
Definition op_ishapes (o : op) : list ishape :=
  match o with
  | OPkhIn c w => times c (SPkh w)
  | OShIn c l w => times c (SSh w (Z.to_N l))
  | _ => []
  end.
Definition op_oshapes (o : op) : list oshape :=
  match o with
  | OPkhOut c w => times c (TPkh w)
  | OShOut c w => times c (TSh w)
  | _ => []
  end.
Definition shape_ins (ops : list op) : list ishape := flat_map op_ishapes ops.
Definition shape_outs (ops : list op) : list oshape := flat_map op_oshapes ops.

Definition oshape_len (s : oshape) : N :=
  match s with TPkh true => 22 | TPkh false => 25 | TSh true => 34 | TSh false => 23 end.

(* a real input is covered by an estimated one: same class, redeem script not longer than
   announced; for a non-witness script-hash input the push of the real redeem script must not
   be longer than the push of the all-zero placeholder, which fails only for a one-byte redeem
   script that is not a small integer (placeholder 0x00 is pushed as OP_0, one byte) *)
Definition in_covered (s : ishape) (k : ikind) : bool :=
  match s, k with
  | SPkh w, KPkh w' => Bool.eqb w w'
  | SSh w l, KSh w' redeem =>
      Bool.eqb w w' && (len redeem <=? l)
      && (w || negb ((l =? 1) && (canonical_data_size redeem =? 2)))
  | _, _ => false
  end.
Definition out_covered (s : oshape) (o : txout) : bool := len (to_script o) <=? oshape_len s.

(* ================================================================== arithmetic size function *)
(* independent of the serialiser: 4 version + (2 marker, flag) + compact-size counts + inputs
   (36 outpoint + script with compact-size prefix + 4 sequence) + outputs (8 value + script
   with prefix) + witness stacks + 4 locktime *)
Record sizes := { z_nin : N; z_nout : N;
                  z_in : N;     (* sum over inputs of 40 + cs(script) + script *)
                  z_out : N;    (* sum over outputs of 8 + cs(script) + script *)
                  z_wit : N;    (* sum over inputs of the serialised witness stack *)
                  z_hw : bool   (* some input has a non-empty witness *) }.
Definition z0 : sizes := {| z_nin := 0; z_nout := 0; z_in := 0; z_out := 0; z_wit := 0; z_hw := false |}.
Definition z_base (z : sizes) : N := 4 + cs_size (z_nin z) + z_in z + cs_size (z_nout z) + z_out z + 4.
Definition z_total (z : sizes) : N := z_base z + (if z_hw z then 2 + z_wit z else 0).
Definition z_weight (z : sizes) : N := z_base z * 3 + z_total z.
Definition z_vsize (z : sizes) : N := vsize_of_weight (z_weight z).
Definition z_add_in (z : sizes) (mult base wit : N) (w : bool) : sizes :=
  {| z_nin := z_nin z + mult; z_nout := z_nout z; z_in := z_in z + mult * base; z_out := z_out z;
     z_wit := z_wit z + mult * wit; z_hw := z_hw z || (w && negb (mult =? 0)) |}.
Definition z_add_out (z : sizes) (mult slen : N) : sizes :=
  {| z_nin := z_nin z; z_nout := z_nout z + mult; z_in := z_in z;
     z_out := z_out z + mult * (8 + cs_size slen + slen); z_wit := z_wit z; z_hw := z_hw z |}.

Definition var_len (n : N) : N := cs_size n + n.
(* push size of data of length n that is not a one-byte small integer *)
Definition push_len (n : N) : N :=
  if n =? 0 then 1 else if n <? 76 then 1 + n else if n <=? 255 then 2 + n
  else if n <=? 65535 then 3 + n else 5 + n.
(* push size of n zero bytes *)
Definition zeros_push_len (n : N) : N := if n =? 1 then 1 else push_len n.

(* (40 + script, witness stack) of a placeholder input; None = ScriptBuilder error *)
Definition ish_sizes (s : ishape) : option (N * N) :=
  match s with
  | SPkh true => Some (41, 1 + var_len 72 + var_len 33)
  | SPkh false => Some (40 + var_len (push_len 72 + push_len 33), 1)
  | SSh true l => Some (41, 1 + var_len 72 + var_len 33 + var_len l)
  | SSh false l => if 520 <? l then None
                   else Some (40 + var_len (push_len 72 + push_len 33 + zeros_push_len l), 1)
  end.
Definition ish_wit (s : ishape) : bool := match s with SPkh w => w | SSh w _ => w end.

Inductive zres := ZOk (z : sizes) | ZErr | ZPanic.
Definition count_N (c : Z) : N := Z.to_N c.
Definition z_step (r : zres) (o : op) : zres :=
  match r with
  | ZOk z =>
      let add_i c s := match ish_sizes s with
                       | Some (b, w) => ZOk (z_add_in z (count_N c) b w (ish_wit s))
                       | None => ZErr
                       end in
      match o with
      | OPkhIn c w => add_i c (SPkh w)
      | OShIn c l w => if (l <? 0)%Z then ZPanic else add_i c (SSh w (Z.to_N l))
      | OPkhOut c w => ZOk (z_add_out z (count_N c) (oshape_len (TPkh w)))
      | OShOut c w => ZOk (z_add_out z (count_N c) (oshape_len (TSh w)))
      end
  | _ => r
  end.
Definition est_sizes (ops : list op) : zres := fold_left z_step ops (ZOk z0).
Definition estimate_fast (ops : list op) : eres :=
  match est_sizes ops with ZOk z => VOk (z_vsize z) | ZErr => VErr | ZPanic => VPanic end.

(* a real signed input described by lengths only: signature with hash type [sl], public key
   [pl], redeem script [rl] whose push takes [rp] bytes (0 when it is not pushed) *)
Inductive rkind := RPkh (wit : bool) | RSh (wit : bool) (rl rp : N).
Definition rk_wit (k : rkind) : bool := match k with RPkh w => w | RSh w _ _ => w end.
Definition rk_sizes (k : rkind) (sl pl : N) : N * N :=
  match k with
  | RPkh true => (41, 1 + var_len sl + var_len pl)
  | RPkh false => (40 + var_len (push_len sl + push_len pl), 1)
  | RSh true rl _ => (41, 1 + var_len sl + var_len pl + var_len rl)
  | RSh false _ rp => (40 + var_len (push_len sl + push_len pl + rp), 1)
  end.
Definition redeem_push (redeem : list N) : N :=
  match redeem with [] => 0 | _ => canonical_data_size redeem end.
Definition rkind_of (k : ikind) : rkind :=
  match k with
  | KPkh w => RPkh w
  | KSh w redeem => RSh w (len redeem) (redeem_push redeem)
  end.

(* ================================================================== callers (pkg/tbtcpg) *)
Definition deposit_script_byte_size : Z := 126.
(* deposit_sweep.go estimateDepositsSweepFee *)
Definition sweep_ops (deposits : Z) : list op :=
  [OPkhIn 1 true; OShIn deposits deposit_script_byte_size true; OPkhOut 1 true].
(* redemptions.go EstimateRedemptionFee: one op per redeemer output script type *)
Definition redemption_ops (redeemers : list oshape) : list op :=
  [OPkhIn 1 true; OPkhOut 1 true]
  ++ map (fun s => match s with TPkh w => OPkhOut 1 w | TSh w => OShOut 1 w end) redeemers.
(* moving_funds.go EstimateMovingFundsFee *)
Definition moving_funds_ops (targets : Z) : list op := [OPkhIn 1 true; OPkhOut targets true].
(* moved_funds_sweep.go EstimateMovedFundsSweepFee *)
Definition moved_funds_sweep_ops (has_main_utxo : bool) : list op :=
  [OPkhIn (if has_main_utxo then 2 else 1) true; OPkhOut 1 true].

Inductive caller :=
| CallSweep (deposits : Z) | CallRedemption (redeemers : list oshape)
| CallMoving (targets : Z) | CallMovedSweep (has_main_utxo : bool).
Definition caller_ops (c : caller) : list op :=
  match c with
  | CallSweep n => sweep_ops n
  | CallRedemption l => redemption_ops l
  | CallMoving n => moving_funds_ops n
  | CallMovedSweep b => moved_funds_sweep_ops b
  end.
Definition op_eqb (a b : op) : bool :=
  match a, b with
  | OPkhIn c w, OPkhIn c' w' | OPkhOut c w, OPkhOut c' w' | OShOut c w, OShOut c' w' =>
      (c =? c')%Z && Bool.eqb w w'
  | OShIn c l w, OShIn c' l' w' => (c =? c')%Z && (l =? l')%Z && Bool.eqb w w'
  | _, _ => false
  end.
Fixpoint ops_eqb (a b : list op) : bool :=
  match a, b with
  | [], [] => true
  | x :: a', y :: b' => op_eqb x y && ops_eqb a' b'
  | _, _ => false
  end.

(* ================================================================== correspondence cases *)
(* run-length groups of identical real inputs: (kind, redeem length, first redeem byte — it
   matters only for one-byte scripts —, signature length with hash type, public key length,
   multiplicity) *)
Inductive ckind := CPkh (wit : bool) | CSh (wit : bool) (rl first : N).
Record cin := { ci_kind : ckind; ci_sl : N; ci_pl : N; ci_mult : N }.
Definition c_redeem_push (rl first : N) : N :=
  if rl =? 0 then 0
  else if rl =? 1 then (if (first <=? 16) || (first =? 129) then 1 else 2)
  else push_len rl.
Definition rkind_of_c (k : ckind) : rkind :=
  match k with CPkh w => RPkh w | CSh w rl f => RSh w rl (c_redeem_push rl f) end.
(* the executable form of [in_covered] on the same description *)
Definition c_in_covered (s : ishape) (k : ckind) : bool :=
  match s, k with
  | SPkh w, CPkh w' => Bool.eqb w w'
  | SSh w l, CSh w' rl f =>
      Bool.eqb w w' && (rl <=? l) && (w || negb ((l =? 1) && (c_redeem_push rl f =? 2)))
  | _, _ => false
  end.

(* deposit sweeps (pkg/tbtcpg estimateDepositsSweepFee): the wallet sweeps P2WSH AND legacy P2SH
   deposits, the caller announces every deposit as P2WSH.  For these cases the real transaction
   is the sweep of the deposits actually swept, so a deposit input is in the domain whatever
   its witness flag is (deposit scripts are longer than one byte) *)
Definition c_in_covered_sweep (s : ishape) (k : ckind) : bool :=
  match s, k with
  | SPkh w, CPkh w' => Bool.eqb w w'
  | SSh _ l, CSh _ rl _ => (2 <=? rl) && (rl <=? l)
  | _, _ => false
  end.

(* one estimator call together with the real inputs / outputs generated for it *)
Record item := { it_op : op; it_ins : list cin; it_outs : list (N * N) (* multiplicity, script length *) }.
Record real_obs := { r_base : N; r_total : N; r_vsize : N }.
(* a sampled signature: r, s as handed to the builder and the length of what it serialised *)
Record sig_obs := { so_r : Z; so_s : Z; so_len : N }.
Record case := {
  c_items : list item;
  c_caller : option caller;       (* Some: the estimate was obtained through this pkg/tbtcpg fee
                                     estimator at 1 sat/vbyte; the ops are the ones it must issue *)
  c_est : eres;                   (* VirtualSize() of the real estimator on the ops *)
  c_real : option real_obs;       (* Some: the builder produced a signed transaction; its measured sizes *)
  c_sigs : list sig_obs
}.

Definition sumN_map {A} (f : A -> N) (l : list A) : N := fold_right (fun x a => f x + a) 0 l.
Definition op_in_shape (o : op) : option ishape :=
  match o with
  | OPkhIn _ w => Some (SPkh w)
  | OShIn _ l w => if (l <? 0)%Z then None else Some (SSh w (Z.to_N l))
  | _ => None
  end.
Definition op_out_shape (o : op) : option oshape :=
  match o with OPkhOut _ w => Some (TPkh w) | OShOut _ w => Some (TSh w) | _ => None end.
Definition op_count (o : op) : N :=
  count_N (match o with OPkhIn c _ | OShIn c _ _ | OPkhOut c _ | OShOut c _ => c end).

(* every real input (output) of the item is covered by the op's shape and there are no more of
   them than the op announces.  Signature and key lengths are outputs of the implementation,
   not part of the shape: they are NOT constrained here *)
Definition item_covered_with (cov : ishape -> ckind -> bool) (it : item) : bool :=
  let o := it_op it in
  (sumN_map ci_mult (it_ins it) + sumN_map fst (it_outs it) <=? op_count o)
  && match it_ins it with
     | [] => true
     | _ => match op_in_shape o with
            | Some s => forallb (fun c => cov s (ci_kind c)) (it_ins it)
            | None => false
            end
     end
  && match it_outs it with
     | [] => true
     | _ => match op_out_shape o with
            | Some s => forallb (fun p => snd p <=? oshape_len s) (it_outs it)
            | None => false
            end
     end.
Definition item_covered := item_covered_with c_in_covered.
Definition is_sweep (c : option caller) : bool := match c with Some (CallSweep _) => true | _ => false end.
Definition covered (c : case) : bool :=
  forallb (item_covered_with (if is_sweep (c_caller c) then c_in_covered_sweep else c_in_covered)) (c_items c).

(* the model's size of the real transaction, from the observed lengths *)
Definition real_sizes (items : list item) : sizes :=
  fold_left (fun z it =>
    let z1 := fold_left (fun z c =>
                let '(b, w) := rk_sizes (rkind_of_c (ci_kind c)) (ci_sl c) (ci_pl c) in
                z_add_in z (ci_mult c) b w (rk_wit (rkind_of_c (ci_kind c)))) (it_ins it) z in
    fold_left (fun z p => z_add_out z (fst p) (snd p)) (it_outs it) z1) items z0.

(* ---- the property in executable form, on the implementation's numbers only ---- *)
Definition spec_ok (c : case) : bool :=
  match c_est c, c_real c with
  | VOk e, Some r =>
      if covered c
      then (r_vsize r <=? e) && (vsize_of_weight (r_base r * 3 + r_total r) <=? e)
      else true                  (* the property speaks about covered shapes (for a tbtcpg
                                    deposit sweep: about the sweeps the wallet makes) only *)
  | _, _ => true                 (* an error is not an estimate; no transaction, nothing to compare *)
  end.

(* ---- model vs implementation ---- *)
Definition eres_eqb (a b : eres) : bool :=
  match a, b with
  | VOk x, VOk y => x =? y
  | VErr, VErr | VPanic, VPanic => true
  | _, _ => false
  end.
Definition sig_agrees (s : sig_obs) : bool :=
  len (der_serialize (Z.to_N (so_r s)) (Z.to_N (so_s s))) + 1 =? so_len s.
Definition agree (c : case) : bool :=
  eres_eqb (c_est c) (estimate_fast (map it_op (c_items c)))
  && match c_caller c with
     | Some k => ops_eqb (map it_op (c_items c)) (caller_ops k)
     | None => true
     end
  && match c_real c with
     | Some r =>
         let z := real_sizes (c_items c) in
         (r_base r =? z_base z) && (r_total r =? z_total z) && (r_vsize r =? z_vsize z)
     | None => true
     end
  && forallb sig_agrees (c_sigs c).

(* a case is well formed when the sampled signatures are in the range ecdsa.Verify accepts *)
Definition well_formed (c : case) : bool :=
  forallb (fun s => ((0 <? so_r s) && (so_r s <? Z.of_N secp_n) && (0 <? so_s s) && (so_s s <? Z.of_N secp_n))%Z)
          (c_sigs c).
Definition judge (c : case) : verdict :=
  if negb (well_formed c) then BadCase else decide (spec_ok c) (agree c).

(* what --replay prints: the model's estimate, whether the shape is covered, the model's
   (base, total, vsize) of the real transaction and the model's signature lengths *)
Definition explain (c : case) : eres * bool * (N * N * N) * list N :=
  let z := real_sizes (c_items c) in
  (estimate_fast (map it_op (c_items c)), covered c, (z_base z, z_total z, z_vsize z),
   map (fun s => len (der_serialize (Z.to_N (so_r s)) (Z.to_N (so_s s))) + 1) (c_sigs c)).
