(* C34 — executable model of pkg/tbtc/wallet.go DetermineWalletMainUtxo and
   EnsureWalletSyncedBetweenChains, as written.

   Canonicalisation (done by the driver harness/cmd/c34):
   * Bitcoin transaction hashes -> N identifiers (>= 1, by first occurrence);
   * 32-byte main-UTXO hashes   -> N identifiers, the all-zero hash is 0;
   * scripts and the wallet public key hash stay byte strings (list N), so the model builds
     the P2PKH / P2WPKH scripts itself and compares bytes like the Go code does;
   * values -> Z; errors -> constructors.
   External calls are function arguments: [hash] = BridgeChain.ComputeMainUtxoHash,
   [lookup] = bitcoin.Chain.GetTransaction, [is_dep] / [is_req] = GetDepositRequest /
   GetMovedFundsSweepRequest. *)
From Coq Require Import ZArith NArith List Bool.
From KV Require Import Common.Verdict.
Import ListNotations.

Record utxo := { u_tx : N; u_idx : N; u_val : Z }.
Record output := { o_script : list N; o_value : Z }.
(* t_id = Transaction.Hash() of the returned object; t_in0 = outpoint of Inputs[0]
   (None: the transaction has no input, Inputs[0] panics) *)
Record tx := { t_id : N; t_in0 : option (N * N); t_outs : list output }.

Inductive look := LFound | LNotFound | LErr.
Inductive det_res := DNone | DUtxo (u : utxo) | DNotFound | DChainErr | DPanic.
Inductive sync_res :=
  SOk | SErrNoUtxos | SErrSpent | SErrDepositSweep | SErrMovedSweep | SChainErr | SPanic.

(* ---------- helpers ---------- *)
Fixpoint bytes_eqb (a b : list N) : bool :=
  match a, b with
  | [], [] => true
  | x :: a', y :: b' => N.eqb x y && bytes_eqb a' b'
  | _, _ => false
  end.
Definition utxo_eqb (a b : utxo) : bool :=
  N.eqb (u_tx a) (u_tx b) && N.eqb (u_idx a) (u_idx b) && Z.eqb (u_val a) (u_val b).
Definition op_eqb (a b : N * N) : bool := N.eqb (fst a) (fst b) && N.eqb (snd a) (snd b).

(* txscript.NewScriptBuilder: OP_DUP OP_HASH160 <push 20> OP_EQUALVERIFY OP_CHECKSIG and
   OP_0 <push 20> (the push opcode of a 20-byte datum is its length) *)
Definition p2pkh (pkh : list N) : list N := [118; 169; N.of_nat (length pkh)]%N ++ pkh ++ [136; 172]%N.
Definition p2wpkh (pkh : list N) : list N := [0; N.of_nat (length pkh)]%N ++ pkh.
Definition wallet_out (pkh : list N) (o : output) : bool :=
  bytes_eqb (o_script o) (p2pkh pkh) || bytes_eqb (o_script o) (p2wpkh pkh).

(* outcome of the fresh-wallet loop body for one UTXO *)
Inductive ucls := Clean | BadDeposit | BadMoved | BrokenChain | BrokenPanic.

Section Model.
  Variable hash : utxo -> N.              (* ComputeMainUtxoHash *)
  Variable lookup : N -> option tx.       (* GetTransaction; None = error *)
  Variable is_dep is_req : N * N -> look. (* GetDepositRequest / GetMovedFundsSweepRequest *)

  (* ---- DetermineWalletMainUtxo ---- *)
  Definition mk_utxo (t : tx) (idx : N) (o : output) : utxo :=
    {| u_tx := t_id t; u_idx := idx; u_val := o_value o |}.

  (* the inner loop over transaction.Outputs, from output index [idx] *)
  Fixpoint scan_outs (pkh : list N) (reg : N) (t : tx) (idx : N) (outs : list output)
    : option utxo :=
    match outs with
    | [] => None
    | o :: rest =>
        if wallet_out pkh o && N.eqb (hash (mk_utxo t idx o)) reg
        then Some (mk_utxo t idx o)
        else scan_outs pkh reg t (N.succ idx) rest
    end.

  (* the outer loop; [hs] is already in visiting order (newest first) *)
  Fixpoint scan_txs (pkh : list N) (reg : N) (hs : list N) : det_res :=
    match hs with
    | [] => DNotFound
    | h :: rest =>
        match lookup h with
        | None => DChainErr
        | Some t =>
            match scan_outs pkh reg t 0%N (t_outs t) with
            | Some u => DUtxo u
            | None => scan_txs pkh reg rest
            end
        end
    end.

  (* [wallet] = MainUtxoHash of GetWallet (None: GetWallet failed);
     [hashes] = GetTxHashesForPublicKeyHash (None: failed) *)
  Definition determine (pkh : list N) (wallet : option N) (hashes : option (list N)) : det_res :=
    match wallet with
    | None => DChainErr
    | Some reg =>
        if N.eqb reg 0 then DNone else
        match hashes with
        | None => DChainErr
        | Some hs => scan_txs pkh reg (rev hs)
        end
    end.

  (* ---- EnsureWalletSyncedBetweenChains ---- *)
  (* what the loop body of the fresh-wallet branch does with one UTXO *)
  Definition classify (u : utxo) : ucls :=
    if negb (N.eqb (u_idx u) 0) then Clean else
    match lookup (u_tx u) with
    | None => BrokenChain
    | Some t =>
        match t_in0 t with
        | None => BrokenPanic
        | Some op =>
            match is_dep op with
            | LErr => BrokenChain
            | LFound => BadDeposit
            | LNotFound =>
                match is_req op with
                | LErr => BrokenChain
                | LFound => BadMoved
                | LNotFound => Clean
                end
            end
        end
    end.
  Fixpoint fresh_scan (all : list utxo) : sync_res :=
    match all with
    | [] => SOk
    | u :: rest =>
        match classify u with
        | Clean => fresh_scan rest
        | BadDeposit => SErrDepositSweep
        | BadMoved => SErrMovedSweep
        | BrokenChain => SChainErr
        | BrokenPanic => SPanic
        end
    end.

  Definition sync (main : option utxo) (conf mem : option (list utxo)) : sync_res :=
    match conf with
    | None => SChainErr
    | Some cu =>
        match main with
        | Some m =>
            match cu with
            | [] => SErrNoUtxos
            | _ => if existsb (utxo_eqb m) (rev cu) then SOk else SErrSpent
            end
        | None =>
            match mem with
            | None => SChainErr
            | Some mu => fresh_scan (cu ++ mu)
            end
        end
    end.

  (* ---------- executable form of the property, on the implementation's outputs ---------- *)
  (* wallet outputs of [t] whose hash is the registered one, as UTXOs *)
  Fixpoint candidates_of (pkh : list N) (reg : N) (t : tx) (idx : N) (outs : list output)
    : list utxo :=
    match outs with
    | [] => []
    | o :: rest =>
        (if wallet_out pkh o && N.eqb (hash (mk_utxo t idx o)) reg then [mk_utxo t idx o] else [])
        ++ candidates_of pkh reg t (N.succ idx) rest
    end.
  Definition candidates (pkh : list N) (reg : N) (hs : list N) : list utxo :=
    flat_map (fun h => match lookup h with
                       | Some t => candidates_of pkh reg t 0%N (t_outs t)
                       | None => []
                       end) hs.
  Definition all_resolve (hs : list N) : bool :=
    forallb (fun h => match lookup h with Some _ => true | None => false end) hs.

  Definition det_ok (pkh : list N) (wallet : option N) (hashes : option (list N)) (r : det_res)
    : bool :=
    match r with
    | DNone => match wallet with Some reg => N.eqb reg 0 | None => false end
    | DUtxo u =>
        match wallet, hashes with
        | Some reg, Some hs => negb (N.eqb reg 0) && existsb (utxo_eqb u) (candidates pkh reg hs)
        | _, _ => false
        end
    | DNotFound =>
        match wallet, hashes with
        | Some reg, Some hs =>
            negb (N.eqb reg 0) && match candidates pkh reg hs with [] => true | _ => false end
        | _, _ => false
        end
    | DChainErr =>
        match wallet, hashes with
        | Some reg, Some hs => negb (N.eqb reg 0) && negb (all_resolve hs)
        | Some reg, None => negb (N.eqb reg 0)
        | None, _ => true
        end
    | DPanic => false
    end.

  Definition is_clean (u : utxo) : bool :=
    match classify u with Clean => true | _ => false end.
  Definition sync_ok (main : option utxo) (conf mem : option (list utxo)) (r : sync_res) : bool :=
    let passed := match r with SOk => true | _ => false end in
    match r with SPanic => false | _ =>
    match conf with
    | None => negb passed
    | Some cu =>
        match main with
        | Some m => Bool.eqb passed (existsb (utxo_eqb m) cu)
        | None =>
            match mem with
            | None => negb passed
            | Some mu => Bool.eqb passed (forallb is_clean (cu ++ mu))
            end
        end
    end end.
End Model.

(* ---------- per-call chain faults ---------- *)
(* Every chain call of the two functions can fail at a scripted position: the k-th element of
   the list of a call kind says whether the k-th call OF THAT KIND (counted from 0, per
   function run) returns an error; calls beyond the list succeed.  A failing call is on top of
   what the world itself answers ([lookup] = None, LErr, missing lists).  The functions return
   at the first failing call, as the code is written: `if err != nil { return ... }` after
   each of GetWallet, GetTxHashesForPublicKeyHash, GetTransaction (Determine) and
   GetUtxosForPublicKeyHash, GetMempoolUtxosForPublicKeyHash, GetTransaction,
   GetDepositRequest, GetMovedFundsSweepRequest (sync check).  [calls] = how many calls of
   each kind were made, i.e. which positions of the script were CONSULTED. *)
Record script := { f_wallet : list bool; f_hist : list bool; f_conf : list bool;
                   f_mem : list bool; f_tx : list bool; f_dep : list bool; f_req : list bool }.
Record calls := Calls { n_wallet : nat; n_hist : nat; n_conf : nat; n_mem : nat;
                        n_tx : nat; n_dep : nat; n_req : nat }.
Definition no_faults : script := {| f_wallet := []; f_hist := []; f_conf := []; f_mem := [];
                                    f_tx := []; f_dep := []; f_req := [] |}.
Definition bad (l : list bool) (k : nat) : bool := nth k l false.
(* did one of the first n calls of a kind fail? *)
Definition any_bad (l : list bool) (n : nat) : bool := existsb (fun b => b) (firstn n l).
(* some CONSULTED call failed *)
Definition faulted (F : script) (c : calls) : bool :=
  any_bad (f_wallet F) (n_wallet c) || any_bad (f_hist F) (n_hist c) ||
  any_bad (f_conf F) (n_conf c) || any_bad (f_mem F) (n_mem c) ||
  any_bad (f_tx F) (n_tx c) || any_bad (f_dep F) (n_dep c) || any_bad (f_req F) (n_req c).

Section Faulty.
  Variable hash : utxo -> N.
  Variable lookup : N -> option tx.
  Variable is_dep is_req : N * N -> look.
  Variable F : script.

  (* ---- DetermineWalletMainUtxo; [kt] = GetTransaction calls made so far ---- *)
  Fixpoint scan_txs_f (pkh : list N) (reg : N) (hs : list N) (kt : nat) : det_res * nat :=
    match hs with
    | [] => (DNotFound, kt)
    | h :: rest =>
        if bad (f_tx F) kt then (DChainErr, S kt) else
        match lookup h with
        | None => (DChainErr, S kt)
        | Some t =>
            match scan_outs hash pkh reg t 0%N (t_outs t) with
            | Some u => (DUtxo u, S kt)
            | None => scan_txs_f pkh reg rest (S kt)
            end
        end
    end.

  Definition determine_f (pkh : list N) (wallet : option N) (hashes : option (list N))
    : det_res * calls :=
    if bad (f_wallet F) 0 then (DChainErr, Calls 1 0 0 0 0 0 0) else
    match wallet with
    | None => (DChainErr, Calls 1 0 0 0 0 0 0)
    | Some reg =>
        if N.eqb reg 0 then (DNone, Calls 1 0 0 0 0 0 0) else
        if bad (f_hist F) 0 then (DChainErr, Calls 1 1 0 0 0 0 0) else
        match hashes with
        | None => (DChainErr, Calls 1 1 0 0 0 0 0)
        | Some hs => let (r, kt) := scan_txs_f pkh reg (rev hs) 0 in (r, Calls 1 1 0 0 kt 0 0)
        end
    end.

  (* ---- EnsureWalletSyncedBetweenChains; k = (GetTransaction, GetDepositRequest,
     GetMovedFundsSweepRequest) calls made so far ---- *)
  Definition classify_f (u : utxo) (k : nat * nat * nat) : ucls * (nat * nat * nat) :=
    let '(kt, kd, kr) := k in
    if negb (N.eqb (u_idx u) 0) then (Clean, k) else
    if bad (f_tx F) kt then (BrokenChain, (S kt, kd, kr)) else
    match lookup (u_tx u) with
    | None => (BrokenChain, (S kt, kd, kr))
    | Some t =>
        match t_in0 t with
        | None => (BrokenPanic, (S kt, kd, kr))
        | Some op =>
            if bad (f_dep F) kd then (BrokenChain, (S kt, S kd, kr)) else
            match is_dep op with
            | LErr => (BrokenChain, (S kt, S kd, kr))
            | LFound => (BadDeposit, (S kt, S kd, kr))
            | LNotFound =>
                if bad (f_req F) kr then (BrokenChain, (S kt, S kd, S kr)) else
                match is_req op with
                | LErr => (BrokenChain, (S kt, S kd, S kr))
                | LFound => (BadMoved, (S kt, S kd, S kr))
                | LNotFound => (Clean, (S kt, S kd, S kr))
                end
            end
        end
    end.
  Fixpoint fresh_scan_f (all : list utxo) (k : nat * nat * nat) : sync_res * (nat * nat * nat) :=
    match all with
    | [] => (SOk, k)
    | u :: rest =>
        let (c, k') := classify_f u k in
        match c with
        | Clean => fresh_scan_f rest k'
        | BadDeposit => (SErrDepositSweep, k')
        | BadMoved => (SErrMovedSweep, k')
        | BrokenChain => (SChainErr, k')
        | BrokenPanic => (SPanic, k')
        end
    end.

  Definition sync_f (main : option utxo) (conf mem : option (list utxo)) : sync_res * calls :=
    if bad (f_conf F) 0 then (SChainErr, Calls 0 0 1 0 0 0 0) else
    match conf with
    | None => (SChainErr, Calls 0 0 1 0 0 0 0)
    | Some cu =>
        match main with
        | Some m =>
            (match cu with
             | [] => SErrNoUtxos
             | _ => if existsb (utxo_eqb m) (rev cu) then SOk else SErrSpent
             end, Calls 0 0 1 0 0 0 0)
        | None =>
            if bad (f_mem F) 0 then (SChainErr, Calls 0 0 1 1 0 0 0) else
            match mem with
            | None => (SChainErr, Calls 0 0 1 1 0 0 0)
            | Some mu =>
                let '(r, (kt, kd, kr)) := fresh_scan_f (cu ++ mu) (0, 0, 0)%nat in
                (r, Calls 0 0 1 1 kt kd kr)
            end
        end
    end.

  (* ---- executable property under faults, on the implementation's result [r] and the calls
     it made [c] ----
     sync check: it NEVER passes when a consulted call failed; when every consulted call
     succeeded it passes exactly when in sync (sync_ok).  Determine: an error may be blamed on
     a consulted failing call; every other result must be right for the world (det_ok). *)
  Definition det_ok_f (c : calls) (pkh : list N) (wallet : option N) (hashes : option (list N))
             (r : det_res) : bool :=
    (match r with DChainErr => faulted F c | _ => false end)
    || det_ok hash lookup pkh wallet hashes r.
  Definition sync_ok_f (c : calls) (main : option utxo) (conf mem : option (list utxo))
             (r : sync_res) : bool :=
    if faulted F c
    then match r with SOk | SPanic => false | _ => true end
    else sync_ok lookup is_dep is_req main conf mem r.
End Faulty.

(* ---------- cases ---------- *)
Record case := {
  c_pkh : list N;
  c_wallet : option N;
  c_hashes : option (list N);
  c_txs : list (N * tx);          (* GetTransaction answers by requested hash *)
  c_hash : list (utxo * N);       (* ComputeMainUtxoHash answers *)
  c_conf : option (list utxo);
  c_mem : option (list utxo);
  c_dep : list ((N * N) * look);  (* GetDepositRequest answers, default not found *)
  c_req : list ((N * N) * look);
  c_main : option utxo;           (* the main UTXO handed to the sync check *)
  c_det : det_res;                (* observed *)
  c_sync : sync_res;              (* observed *)
  c_fdet : script;                (* scripted failures during DetermineWalletMainUtxo *)
  c_fsync : script;               (* ... during EnsureWalletSyncedBetweenChains *)
  c_ndet : calls;                 (* observed: chain calls made by DetermineWalletMainUtxo *)
  c_nsync : calls                 (* observed: ... by EnsureWalletSyncedBetweenChains *)
}.

Fixpoint assoc {A B} (eqb : A -> A -> bool) (k : A) (l : list (A * B)) : option B :=
  match l with
  | [] => None
  | (k', v) :: t => if eqb k k' then Some v else assoc eqb k t
  end.

Definition case_hash (c : case) (u : utxo) : N :=
  match assoc utxo_eqb u (c_hash c) with Some h => h | None => 0%N end.
Definition case_lookup (c : case) (h : N) : option tx := assoc N.eqb h (c_txs c).
Definition case_dep (c : case) (op : N * N) : look :=
  match assoc op_eqb op (c_dep c) with Some l => l | None => LNotFound end.
Definition case_req (c : case) (op : N * N) : look :=
  match assoc op_eqb op (c_req c) with Some l => l | None => LNotFound end.

Definition det_res_eqb (a b : det_res) : bool :=
  match a, b with
  | DNone, DNone | DNotFound, DNotFound | DChainErr, DChainErr | DPanic, DPanic => true
  | DUtxo u, DUtxo v => utxo_eqb u v
  | _, _ => false
  end.
Definition sync_res_eqb (a b : sync_res) : bool :=
  match a, b with
  | SOk, SOk | SErrNoUtxos, SErrNoUtxos | SErrSpent, SErrSpent
  | SErrDepositSweep, SErrDepositSweep | SErrMovedSweep, SErrMovedSweep
  | SChainErr, SChainErr | SPanic, SPanic => true
  | _, _ => false
  end.

Definition calls_eqb (a b : calls) : bool :=
  Nat.eqb (n_wallet a) (n_wallet b) && Nat.eqb (n_hist a) (n_hist b) &&
  Nat.eqb (n_conf a) (n_conf b) && Nat.eqb (n_mem a) (n_mem b) &&
  Nat.eqb (n_tx a) (n_tx b) && Nat.eqb (n_dep a) (n_dep b) && Nat.eqb (n_req a) (n_req b).

Definition model_det (c : case) : det_res * calls :=
  determine_f (case_hash c) (case_lookup c) (c_fdet c) (c_pkh c) (c_wallet c) (c_hashes c).
Definition model_sync (c : case) : sync_res * calls :=
  sync_f (case_lookup c) (case_dep c) (case_req c) (c_fsync c) (c_main c) (c_conf c) (c_mem c).

(* a case is well formed when the wallet public key hash has 20 bytes (so that the scripts
   are the ones txscript builds) *)
Definition well_formed (c : case) : bool := Nat.eqb (length (c_pkh c)) 20.

Definition spec_ok (c : case) : bool :=
  det_ok_f (case_hash c) (case_lookup c) (c_fdet c) (c_ndet c)
           (c_pkh c) (c_wallet c) (c_hashes c) (c_det c)
  && sync_ok_f (case_lookup c) (case_dep c) (case_req c) (c_fsync c) (c_nsync c)
               (c_main c) (c_conf c) (c_mem c) (c_sync c).
Definition agree (c : case) : bool :=
  det_res_eqb (c_det c) (fst (model_det c)) && calls_eqb (c_ndet c) (snd (model_det c))
  && sync_res_eqb (c_sync c) (fst (model_sync c)) && calls_eqb (c_nsync c) (snd (model_sync c)).

Definition judge (c : case) : verdict :=
  if negb (well_formed c) then BadCase else decide (spec_ok c) (agree c).
Definition explain (c : case) : (det_res * calls) * (sync_res * calls) := (model_det c, model_sync c).
