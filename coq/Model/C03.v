(* C03 — executable model of threshold BLS recovery:
     pkg/bls/bls.go          RecoverSignature / RecoverPublicKey / lagrangeBasis / GetSecretKeyShare
                             (as repaired by the "fix: bls: recover from the collected valid shares" commit)
     pkg/beacon/entry        extractAndValidateShare / the receive loop of SignAndSubmit / completeSignature
     pkg/beacon/dkg/signer.go CompleteSignature (a direct call of bls.RecoverSignature)

   Group elements are represented by their discrete logarithm: a G1 element V stands for the
   integer v with V = v * M (M the message point), a G2 element for v with V = v * G2gen.  The
   groups have order r, so logarithms count modulo r; ScalarMult / Add become multiplication and
   addition mod r.  The pairing check VerifyG1(pk, M, sig) becomes equality of logarithms mod r.
   Everything is parameterised by the modulus [r]; [Concrete] instantiates it with bn256.Order. *)
From Coq Require Import ZArith NArith List Bool Lia.
From KV Require Import Common.Verdict.
Import ListNotations.
Open Scope Z_scope.

(* one element of the []*SignatureShare / []*PublicKeyShare argument *)
Inductive entry :=
| ENil                              (* nil pointer *)
| EShare (i : Z) (v : option Z).    (* &Share{I: i, V: v}; v = None is V == nil *)

Inductive res := Ok (s : Z) | ErrNotEnough | Panic.

(* the entries recovery is documented to skip: s == nil || s.V == nil || s.I < 0 *)
Definition usable (e : entry) : option (Z * Z) :=
  match e with
  | EShare i (Some v) => if i <? 0 then None else Some (i, v)
  | _ => None
  end.
Definition skippable (e : entry) : bool := match usable e with None => true | Some _ => false end.

Fixpoint valid_shares (l : list entry) : list (Z * Z) :=
  match l with
  | [] => []
  | e :: t => match usable e with Some s => s :: valid_shares t | None => valid_shares t end
  end.

(* big.Int.ModInverse(g, n) for n > 0: None when g has no inverse (Go returns nil).
   Extended Euclid carrying one Bezout coefficient: a = u*g and b = v*g modulo n throughout.
   The fuel always suffices (Proofs/C03_inv.v: egcdn_fuel). *)
Fixpoint egcdn (n : nat) (a b u v : Z) : option (Z * Z) :=
  match n with
  | O => None
  | S n' =>
      match a with
      | Z0 => Some (Z.abs b, v)
      | Zpos _ => let (q, m) := Z.div_eucl b a in egcdn n' m a (v - q * u) u
      | Zneg _ => None
      end
  end.
Definition inv_fuel (a : Z) : nat := S (2 * Z.to_nat (Z.log2 a + 1)).
Definition mod_inverse (g n : Z) : option Z :=
  let g' := g mod n in
  match egcdn (inv_fuel g') g' n 1 0 with
  | Some (d, x) => if d =? 1 then Some (x mod n) else None
  | None => None
  end.

(* GetSecretKeyShare: Horner evaluation, coefficients lowest degree first, no reduction *)
Fixpoint eval (cs : list Z) (x : Z) : Z :=
  match cs with
  | [] => 0
  | c :: t => c + x * eval t x
  end.

Section Recover.
  Variable r : Z.   (* bn256.Order *)

  (* lagrangeBasis(i, validParticipants); None = nil-pointer panic (ModInverse returned nil) *)
  Definition basis_step (i : nat) (xs : list Z) (xi : Z) (nd : Z * Z) (j : nat) : Z * Z :=
    if Nat.eqb i j then nd else
    let xj := nth j xs 0 in
    ((fst nd * xj) mod r, (snd nd * (xj - xi)) mod r).
  Definition basis_numden (i : nat) (xs : list Z) : Z * Z :=
    fold_left (basis_step i xs (nth i xs 0)) (seq 0 (length xs)) (1, 1).
  Definition lagrange_basis (i : nat) (xs : list Z) : option Z :=
    let nd := basis_numden i xs in
    match mod_inverse (snd nd) r with
    | None => None
    | Some inv => Some ((fst nd * inv) mod r)
    end.

  (* the second loop: result += basis_i * validShares[i].V *)
  Definition combine_step (valid : list (Z * Z)) (acc : res) (i : nat) : res :=
    match acc with
    | Ok a =>
        match lagrange_basis i (map fst valid) with
        | None => Panic
        | Some b => Ok ((a + b * snd (nth i valid (0, 0))) mod r)
        end
    | e => e
    end.
  Definition combine_shares (valid : list (Z * Z)) : res :=
    fold_left (combine_step valid) (seq 0 (length valid)) (Ok 0).

  (* first loop of RecoverSignature: the length test comes first *)
  Fixpoint collect_sig (l : list entry) (threshold : Z) (n : Z) (acc : list (Z * Z)) : list (Z * Z) :=
    match l with
    | [] => acc
    | e :: t =>
        if n =? threshold then acc else
        match usable e with
        | None => collect_sig t threshold n acc
        | Some s => collect_sig t threshold (n + 1) (acc ++ [s])
        end
    end.
  (* first loop of RecoverPublicKey: the length test comes after the append *)
  Fixpoint collect_pub (l : list entry) (threshold : Z) (n : Z) (acc : list (Z * Z)) : list (Z * Z) :=
    match l with
    | [] => acc
    | e :: t =>
        match usable e with
        | None => collect_pub t threshold n acc
        | Some s => if n + 1 =? threshold then acc ++ [s]
                    else collect_pub t threshold (n + 1) (acc ++ [s])
        end
    end.

  Definition len {A} (l : list A) : Z := Z.of_nat (length l).

  Definition recover_signature (shares : list entry) (threshold : Z) : res :=
    let valid := collect_sig shares threshold 0 [] in
    if len valid <? threshold then ErrNotEnough else combine_shares valid.
  Definition recover_public_key (shares : list entry) (threshold : Z) : res :=
    let valid := collect_pub shares threshold 0 [] in
    if len valid <? threshold then ErrNotEnough else combine_shares valid.

  (* ---------------- pkg/beacon/entry ---------------- *)
  (* a SignatureShareMessage as the receive loop sees it: sender, whether shareBytes
     unmarshal to a G1 point, and the logarithm of that point *)
  Record msg := { m_sender : N; m_wellformed : bool; m_share : Z }.

  Fixpoint lookup {A} (k : N) (m : list (N * A)) : option A :=
    match m with
    | [] => None
    | (k', v) :: t => if N.eqb k k' then Some v else lookup k t
    end.
  (* map assignment: replace in place or append (key order is irrelevant: Go map) *)
  Fixpoint assign {A} (k : N) (v : A) (m : list (N * A)) : list (N * A) :=
    match m with
    | [] => [(k, v)]
    | (k', v') :: t => if N.eqb k k' then (k, v) :: t else (k', v') :: assign k v t
    end.

  (* bls.VerifyG1(publicKeyShare, previousEntry, share): e(-share, G2gen) e(M, pk) = 1 *)
  Definition verify_g1 (pk share : Z) : bool := share mod r =? pk mod r.

  Definition extract_and_validate (pks : list (N * Z)) (m : msg) : option Z :=
    if negb (m_wellformed m) then None else
    match lookup (m_sender m) pks with
    | None => None
    | Some pk => if verify_g1 pk (m_share m) then Some (m_share m) else None
    end.

  (* the message loop of SignAndSubmit (messages of the right type and session) *)
  Fixpoint receive (self : N) (pks : list (N * Z)) (threshold : Z) (msgs : list msg)
           (received : list (N * Z)) : list (N * Z) :=
    if threshold <=? len received then received else
    match msgs with
    | [] => received
    | m :: t =>
        if N.eqb self (m_sender m) then receive self pks threshold t received else
        match extract_and_validate pks m with
        | None => receive self pks threshold t received
        | Some s => receive self pks threshold t (assign (m_sender m) s received)
        end
    end.

  (* completeSignature: the map is turned into a slice in map-iteration order [iter] *)
  Definition complete_signature (iter : list (N * Z) -> list (N * Z)) (received : list (N * Z))
             (threshold : Z) : res :=
    recover_signature (map (fun kv => EShare (Z.of_N (fst kv)) (Some (snd kv))) (iter received))
                      threshold.
End Recover.

(* ---------------- executable property, evaluated on implementation outputs ---------------- *)

(* What the driver observes of a returned group element R: a logarithm z it has certified with
   the library ([z] * base == R), if it found one, and the answer of bls.VerifyG1 under the
   group public key f(0) * G2gen (for RecoverPublicKey: equality with f(0) * G2gen). *)
Inductive obs := OPoint (dlog : option Z) (verifies : bool) | OErr | OPanic.

Inductive fn := FSig | FPub.
Record rec_case := { c_fn : fn; c_entries : list entry; c_threshold : Z;
                     c_coeffs : list Z; (* the polynomial, lowest degree first *)
                     c_obs : obs }.
(* one run of the entry glue: messages fed to extractAndValidateShare one by one with the
   observed accept / reject, then completeSignature on the accepted map *)
Record entry_case := { e_self : N; e_self_share : Z; e_pks : list (N * Z); e_threshold : Z;
                       e_coeffs : list Z; e_msgs : list msg; e_accepted : list bool;
                       e_obs : obs }.
(* CHist: a HISTORY of recoveries made one after the other in ONE process (the production
   situation: a long-lived client recovers again and again, from changing member subsets); every
   call of the history carries its own inputs and its own observed output *)
Inductive case := CRec (c : rec_case) | CEntry (c : entry_case) | CHist (h : list rec_case).

Fixpoint distinctb (l : list Z) : bool :=
  match l with
  | [] => true
  | x :: t => negb (existsb (Z.eqb x) t) && distinctb t
  end.

Definition obs_eqb (a b : obs) : bool :=
  match a, b with
  | OPoint (Some x) v, OPoint (Some y) w => (x =? y) && Bool.eqb v w
  | OErr, OErr | OPanic, OPanic => true
  | _, _ => false
  end.

Section Spec.
  Variable r : Z.
  Definition len' {A} (l : list A) : Z := Z.of_nat (length l).

  (* hypotheses of the property on a shares slice: every entry that is not skipped carries a
     correctly computed share, indices are pairwise distinct and below the group order, there
     are at least [threshold] of them and the polynomial has at most [threshold] coefficients *)
  Definition premises (entries : list entry) (threshold : Z) (cs : list Z) : bool :=
    let v := valid_shares entries in
    forallb (fun s => (fst s <? r) && (snd s mod r =? eval cs (fst s) mod r)) v
    && distinctb (map fst v)
    && (threshold <=? len' v) && (len' cs <=? threshold).

  (* conclusion: the recovered element is f(0) * base and verifies under the group key *)
  Definition concl (cs : list Z) (o : obs) : bool :=
    match o with
    | OPoint (Some z) true => z mod r =? nth 0 cs 0 mod r
    | _ => false
    end.

  Definition spec_rec (c : rec_case) : bool :=
    implb (premises (c_entries c) (c_threshold c) (c_coeffs c)) (concl (c_coeffs c) (c_obs c)).

  Definition model_obs (cs : list Z) (m : res) : obs :=
    match m with
    | Ok s => OPoint (Some s) (s =? nth 0 cs 0 mod r)
    | ErrNotEnough => OErr
    | Panic => OPanic
    end.
  Definition norm_obs (o : obs) : obs :=
    match o with OPoint (Some z) v => OPoint (Some (z mod r)) v | o => o end.

  Definition run_rec (c : rec_case) : res :=
    match c_fn c with
    | FSig => recover_signature r (c_entries c) (c_threshold c)
    | FPub => recover_public_key r (c_entries c) (c_threshold c)
    end.

  (* entry glue: replay the observed accept / reject decisions *)
  Fixpoint accepted_map (self : N) (msgs : list msg) (acc : list bool) (m : list (N * Z))
    : list (N * Z) :=
    match msgs, acc with
    | mg :: t, a :: ta =>
        accepted_map self t ta (if a && negb (N.eqb self (m_sender mg))
                                then assign (m_sender mg) (m_share mg) m else m)
    | _, _ => m
    end.
  (* "a share that does not verify under its member's public key share is never used":
     every accepted message is well formed, its sender has a key share and it verifies *)
  Definition accepted_ok (pks : list (N * Z)) (msgs : list msg) (acc : list bool) : bool :=
    forallb (fun ma => implb (snd ma)
                         (m_wellformed (fst ma) &&
                          match lookup (m_sender (fst ma)) pks with
                          | Some pk => verify_g1 r pk (m_share (fst ma))
                          | None => false
                          end))
            (combine msgs acc).
  (* when the key shares are those of the polynomial and enough shares were accepted, the
     completed signature is f(0) * M *)
  Definition entry_premises (c : entry_case) (m : list (N * Z)) : bool :=
    forallb (fun kv => (snd kv mod r =? eval (e_coeffs c) (Z.of_N (fst kv)) mod r)
                       && (Z.of_N (fst kv) <? r))
            ((e_self c, e_self_share c) :: e_pks c)
    && (e_threshold c <=? len' m) && (len' (e_coeffs c) <=? e_threshold c).
  Definition spec_entry (c : entry_case) : bool :=
    accepted_ok (e_pks c) (e_msgs c) (e_accepted c)
    && (let m := accepted_map (e_self c) (e_msgs c) (e_accepted c) [(e_self c, e_self_share c)] in
        implb (entry_premises c m) (concl (e_coeffs c) (e_obs c))).

  Definition model_accepts (c : entry_case) : list bool :=
    map (fun m => match extract_and_validate r (e_pks c) m with Some _ => true | None => false end)
        (e_msgs c).
  Fixpoint list_beq (a b : list bool) : bool :=
    match a, b with
    | [], [] => true
    | x :: a', y :: b' => Bool.eqb x y && list_beq a' b'
    | _, _ => false
    end.
  Definition model_entry (c : entry_case) : res :=
    let m := accepted_map (e_self c) (e_msgs c) (model_accepts c) [(e_self c, e_self_share c)] in
    complete_signature r (fun l => l) m (e_threshold c).

  Definition agree_rec (c : rec_case) : bool :=
    obs_eqb (norm_obs (c_obs c)) (model_obs (c_coeffs c) (run_rec c)).

  (* ---------------- call histories in one process ----------------
     What survives from one call of RecoverSignature / RecoverPublicKey to the next: bls.go
     writes no package-level variable and the functions have no receiver, so the process state
     threaded through a history carries nothing.  [call] is one recovery in state [st]. *)
  Definition pstate := unit.
  Definition call (st : pstate) (c : rec_case) : pstate * res := (st, run_rec c).
  Fixpoint run_history (st : pstate) (h : list rec_case) : pstate * list res :=
    match h with
    | [] => (st, [])
    | c :: t =>
        let (st1, a) := call st c in
        let (st2, rest) := run_history st1 t in
        (st2, a :: rest)
    end.

  (* the property over a history: EVERY call is judged on its own — whatever was recovered
     before it, an admissible share list yields the group signature / key *)
  Definition spec_hist (h : list rec_case) : bool := forallb spec_rec h.
  Fixpoint agree_hist_with (h : list rec_case) (answers : list res) : bool :=
    match h, answers with
    | [], [] => true
    | c :: t, a :: ta =>
        obs_eqb (norm_obs (c_obs c)) (model_obs (c_coeffs c) a) && agree_hist_with t ta
    | _, _ => false
    end.
  Definition agree_hist (h : list rec_case) : bool :=
    agree_hist_with h (snd (run_history tt h)).
  (* a call of the history with the model's own answer as its observation *)
  Definition with_model_obs (c : rec_case) : rec_case :=
    {| c_fn := c_fn c; c_entries := c_entries c; c_threshold := c_threshold c;
       c_coeffs := c_coeffs c; c_obs := model_obs (c_coeffs c) (run_rec c) |}.

  Definition judge (c : case) : verdict :=
    match c with
    | CRec c => decide (spec_rec c) (agree_rec c)
    | CHist h =>
        if Nat.eqb (length h) 0 then BadCase else decide (spec_hist h) (agree_hist h)
    | CEntry c =>
        if negb (Nat.eqb (length (e_msgs c)) (length (e_accepted c))) then BadCase else
        decide (spec_entry c)
               (list_beq (e_accepted c) (model_accepts c)
                && obs_eqb (norm_obs (e_obs c)) (model_obs (e_coeffs c) (model_entry c)))
    end.

  (* CHist: (is the property true of the observation of call k, for every k; the model's answers) *)
  Definition explain (c : case) : list bool * list res :=
    match c with
    | CRec c => ([], [run_rec c])
    | CEntry c => (model_accepts c, [model_entry c])
    | CHist h => (map spec_rec h, snd (run_history tt h))
    end.
End Spec.

Module Concrete.
  (* bn256.Order *)
  Definition order : Z :=
    21888242871839275222246405745257275088548364400416034343698204186575808495617.
  Definition judge := judge order.
  Definition explain := explain order.
End Concrete.
