(* C28 — executable model of pkg/tbtc/deposit.go Deposit.Script() (as written: a hex format
   string filled with the hex of the fields) and of spending the script behind P2SH / P2WSH,
   using the script interpreter of Model/C27.v. *)
From Coq Require Import ZArith NArith List Bool Lia.
From KV Require Import Common.Verdict Model.C27.
Import ListNotations.
Open Scope N_scope.

(* ------------------------------------------------------------------ Deposit.Script() *)
(* strings.TrimPrefix(s, "0x") on the ASCII codes *)
Definition trim0x (s : list N) : list N :=
  match s with 48 :: 120 :: t => t | _ => s end.
Definition hexval (c : N) : option N :=
  if (48 <=? c) && (c <=? 57) then Some (c - 48)
  else if (97 <=? c) && (c <=? 102) then Some (c - 87)
  else if (65 <=? c) && (c <=? 70) then Some (c - 55)
  else None.
(* encoding/hex DecodeString *)
Fixpoint hex_decode_aux (fuel : nat) (s : list N) : option bytes :=
  match fuel, s with
  | _, [] => Some []
  | S f, a :: b :: t =>
      match hexval a, hexval b, hex_decode_aux f t with
      | Some x, Some y, Some r => Some (16 * x + y :: r)
      | _, _, _ => None
      end
  | _, _ => None
  end.
Definition hex_decode (s : list N) : option bytes := hex_decode_aux (length s) s.

(* encoding/hex EncodeToString (lower case), for stating what a well-formed depositor string is *)
Definition hexdigit (n : N) : N := if n <? 10 then 48 + n else 87 + n.
Fixpoint hex_encode (b : bytes) : list N :=
  match b with [] => [] | x :: t => hexdigit (x / 16) :: hexdigit (x mod 16) :: hex_encode t end.

(* the two format strings with the placeholders filled in
   "14%v7508%v7576a914%v8763ac6776a914%v8804%vb175ac68"
   "14%v7520%v7508%v7576a914%v8763ac6776a914%v8804%vb175ac68" *)
Definition deposit_script_bytes (d : dep) : bytes :=
  [20] ++ dp_depositor d ++ [117] ++
  match dp_extra d with Some x => [32] ++ x ++ [117] | None => [] end ++
  [8] ++ dp_blinding d ++ [117; 118; 169; 20] ++ dp_wpkh d ++ [135; 99; 172; 103; 118; 169; 20] ++
  dp_rpkh d ++ [136; 4] ++ dp_lock d ++ [177; 117; 172; 104].

(* the Deposit struct: the depositor is a chain.Address string, the rest are fixed-size arrays *)
Record dep_in := { di_depositor : list N; di_blinding : bytes; di_extra : option bytes;
                   di_wpkh : bytes; di_rpkh : bytes; di_lock : bytes }.
Definition arrays_ok (d : dep_in) : bool :=
  ((length (di_blinding d) =? 8) && (length (di_wpkh d) =? 20) && (length (di_rpkh d) =? 20)
   && (length (di_lock d) =? 4)
   && match di_extra d with Some x => length x =? 32 | None => true end)%nat.
Definition to_dep (d : dep_in) (depositor : bytes) : dep :=
  {| dp_depositor := depositor; dp_extra := di_extra d; dp_blinding := di_blinding d;
     dp_wpkh := di_wpkh d; dp_rpkh := di_rpkh d; dp_lock := di_lock d |}.
Definition script_of (d : dep_in) : option bytes :=
  match hex_decode (trim0x (di_depositor d)) with
  | None => None                                   (* "cannot decode depositor field" *)
  | Some b => if (length b =? 20)%nat then Some (deposit_script_bytes (to_dep d b))
              else None                            (* "wrong byte length of depositor field" *)
  end.

(* ------------------------------------------------------------------ spending *)
Inductive wrap := WP2SH | WP2WSH.
Definition wrap_ver (w : wrap) : sigver := match w with WP2SH => Legacy | WP2WSH => Bip143 end.

(* "the refund locktime has passed" for the spending transaction (BIP-65 semantics of the
   script-number operand, the transaction's nLockTime and the input's nSequence) *)
Definition refund_open (lock : bytes) (tx_locktime sequence : N) : bool :=
  locktime_ok tx_locktime sequence (num_val lock).
(* the 4-byte operand is a minimally encoded script number (required by the standard flags) *)
Definition lock_standard (lock : bytes) : bool := minimal_num lock.

(* who may spend, as a function of the spend conditions only *)
Definition spend_allowed (wpkh rpkh lock : bytes) (pkh : bytes) (sig_good : bool)
           (tx_locktime sequence : N) : bool :=
  sig_good && (bytes_eqb pkh wpkh
               || (bytes_eqb pkh rpkh && lock_standard lock && refund_open lock tx_locktime sequence)).

(* ---- statement-level vocabulary: the engine on a spend of the deposit script ---- *)
Section Spend.
  Variable hash160 sha256 : bytes -> bytes.
  Variable der_strict : bytes -> bool.
  Variable checksig : bytes -> bytes -> sighash -> bool.

  (* the signature-check context of the spend: the digest commits to the deposit script itself *)
  Definition spend_ctx (w : wrap) (tx : tx_skel) (i : nat) (amount : Z) (d : dep) : ctx :=
    {| c_tx := tx; c_idx := i; c_amount := amount; c_ver := wrap_ver w;
       c_code := ser (deposit_ops d) |}.

  (* txscript.NewEngine(pkScript, tx, i, StandardVerifyFlags, amount).Execute() where pkScript is
     the P2SH / P2WSH script of the deposit script and input i carries (signature element, public
     key, deposit script) as scriptSig pushes resp. as witness stack *)
  Definition engine_on_deposit (w : wrap) (tx : tx_skel) (i : nat) (amount : Z) (d : dep)
             (sig pk : bytes) : vres :=
    let script := ser (deposit_ops d) in
    match w with
    | WP2SH => verify_input hash160 sha256 der_strict checksig tx i
                            (deposit_script_sig sig pk script) [] (ser (p2sh (hash160 script))) amount
    | WP2WSH => verify_input hash160 sha256 der_strict checksig tx i
                             [] (deposit_witness sig pk script) (ser (p2wsh (sha256 script))) amount
    end.

  (* OP_CHECKSIG would accept (pk, sig) in that context: hash type, strict DER / low S, key
     encoding and the ECDSA check against the digest of (tx, i, deposit script, amount) *)
  Definition sig_good (w : wrap) (tx : tx_skel) (i : nat) (amount : Z) (d : dep) (sig pk : bytes) : bool :=
    sig_accept der_strict checksig (spend_ctx w tx i amount d) pk sig.
End Spend.

(* nSequence of the spending input *)
Definition input_sequence (tx : tx_skel) (i : nat) : N :=
  match nth_error (tx_ins tx) i with Some x => ti_seq x | None => max_seq end.

(* two deposits with the same spend conditions (key hashes and refund locktime) *)
Definition same_conditions (d d' : dep) : Prop :=
  dp_wpkh d = dp_wpkh d' /\ dp_rpkh d = dp_rpkh d' /\ dp_lock d = dp_lock d'.

(* ------------------------------------------------------------------ correspondence cases *)
Record spend := {
  sp_wrap : wrap;
  sp_pk : bytes;                (* the public key bytes offered *)
  sp_sig : bytes;               (* the signature element: DER ++ [hash type], or [] *)
  sp_der_ok : bool;             (* Go: the DER part is btcec's canonical low-S serialisation *)
  sp_valid : bool;              (* Go: (pk, sig) ECDSA-verifies against btcd's digest of (script,
                                   input, amount, hash type) under the wrap's digest algorithm *)
  sp_tx : tx_skel; sp_idx : nat; sp_amount : Z;
  sp_script_sig : bytes; sp_witness : list bytes;   (* as put into the spending input *)
  sp_neutral : bool;            (* malformed unlocking data: agreement only, no requirement *)
  sp_engine : bool }.           (* btcd engine verdict *)

Record dep_case := {
  dc_in : dep_in;
  dc_script : option bytes;                     (* Deposit.Script(); None = error *)
  dc_hash160 : list (bytes * bytes);
  dc_sha256 : list (bytes * bytes);
  dc_spends : list spend }.

Definition sighash_eqb (a b : sighash) : bool :=
  (sh_idx a =? sh_idx b)%nat && bytes_eqb (sh_code a) (sh_code b) && (sh_value a =? sh_value b)%Z
  && (sh_type a =? sh_type b) && sigver_eqb (sh_ver a) (sh_ver b).

Module Concrete.
  Definition der_of (s : spend) : bytes :=
    match unsnoc (sp_sig s) with Some (d, _) => d | None => [] end.
  Definition ht_of (s : spend) : N :=
    match unsnoc (sp_sig s) with Some (_, h) => h | None => 0 end.

  Definition checksig (script : bytes) (s : spend) (pk derb : bytes) (h : sighash) : bool :=
    sp_valid s && bytes_eqb pk (sp_pk s) && bytes_eqb derb (der_of s)
    && sighash_eqb h (mk_sighash (wrap_ver (sp_wrap s)) (sp_tx s) (sp_idx s) script (sp_amount s)
                                 (ht_of s)).
  Definition der_strict (s : spend) (derb : bytes) : bool :=
    sp_der_ok s && bytes_eqb derb (der_of s).

  Definition pk_script (c : dep_case) (script : bytes) (w : wrap) : bytes :=
    match w with
    | WP2SH => ser (p2sh (table_fn (dc_hash160 c) script))
    | WP2WSH => ser (p2wsh (table_fn (dc_sha256 c) script))
    end.

  Definition model_engine (c : dep_case) (script : bytes) (s : spend) : vres :=
    verify_input (table_fn (dc_hash160 c)) (table_fn (dc_sha256 c)) (der_strict s)
                 (checksig script s) (sp_tx s) (sp_idx s) (sp_script_sig s) (sp_witness s)
                 (pk_script c script (sp_wrap s)) (sp_amount s).

  (* the offered (key, signature element) pair passes OP_CHECKSIG, from the Go-side observations *)
  Definition good_of (s : spend) : bool :=
    sp_valid s && sp_der_ok s && hashtype_ok (ht_of s)
    && pk_enc_ok (wrap_ver (sp_wrap s)) (sp_pk s)
    && negb (bytes_eqb (sp_sig s) []).
  Definition seq_of (s : spend) : N :=
    match nth_error (tx_ins (sp_tx s)) (sp_idx s) with Some i => ti_seq i | None => max_seq end.

  (* the property on the implementation's outputs: the engine's verdict on the implementation's
     script, per spend *)
  Definition spec_spend (c : dep_case) (s : spend) : bool :=
    if sp_neutral s then true else
    let d := dc_in c in
    let pkh := table_fn (dc_hash160 c) (sp_pk s) in
    let sequence := seq_of s in
    let good := good_of s in
    if negb good then negb (sp_engine s)                         (* no valid signature: rejected *)
    else if bytes_eqb pkh (di_wpkh d) then sp_engine s           (* wallet key: any time *)
    else if bytes_eqb pkh (di_rpkh d) then
      if refund_open (di_lock d) (tx_lock (sp_tx s)) sequence
      then (if lock_standard (di_lock d) then sp_engine s else true)
      else negb (sp_engine s)                                    (* refund key: not before *)
    else negb (sp_engine s).                                     (* no other key *)

  (* the script embeds depositor, optional extra data and blinding factor as dropped pushes, in
     this order, in front of the key logic *)
  Definition embeds (d : dep_in) (script : bytes) : bool :=
    match parse script with
    | Some (OPush _ dep :: ODrop :: rest) =>
        opt_eqb bytes_eqb (hex_decode (trim0x (di_depositor d))) (Some dep) &&
        match di_extra d with
        | Some x => match rest with
                    | OPush _ x' :: ODrop :: OPush _ bl :: ODrop :: ODup :: _ =>
                        bytes_eqb x x' && bytes_eqb bl (di_blinding d)
                    | _ => false
                    end
        | None => match rest with
                  | OPush _ bl :: ODrop :: ODup :: _ => bytes_eqb bl (di_blinding d)
                  | _ => false
                  end
        end
    | _ => false
    end.

  Definition spec_ok (c : dep_case) : bool :=
    match dc_script c with
    | None => match script_of (dc_in c) with None => true | Some _ => false end
              && match dc_spends c with [] => true | _ => false end
    | Some script => embeds (dc_in c) script && forallb (spec_spend c) (dc_spends c)
    end.

  Definition agree (c : dep_case) : bool :=
    opt_eqb bytes_eqb (script_of (dc_in c)) (dc_script c)
    && match dc_script c with
       | None => true
       | Some script =>
           forallb (fun s => vres_eqb (model_engine c script s)
                                      (if sp_engine s then Accept else Reject)) (dc_spends c)
       end.

  Definition judge (c : dep_case) : verdict :=
    if negb (arrays_ok (dc_in c)) then BadCase else
    match dc_script c with
    | Some script =>
        if existsb (fun s => vres_eqb (model_engine c script s) Unsupported) (dc_spends c)
        then BadCase else decide (spec_ok c) (agree c)
    | None => decide (spec_ok c) (agree c)
    end.

  Definition explain (c : dep_case) : option bytes * list vres :=
    (script_of (dc_in c),
     match dc_script c with
     | Some script => map (model_engine c script) (dc_spends c)
     | None => []
     end).
End Concrete.

(* ------------------------------------------------------------------ Script() call histories *)
(* Deposit.Script() as written reads nothing but the fields of its receiver: a sequence of calls
   in one process - on one long-lived Deposit mutated between calls, on struct copies sharing the
   funding Utxo pointer, on deposits with equal outpoints behind different pointers, through the
   sweep assembly - is the map of the pure function.  [past] is everything the process has seen
   before (the "memory" a stateful implementation could consult): the model ignores it. *)
Fixpoint run_history (past l : list dep_in) : list (option bytes) :=
  match l with
  | [] => []
  | d :: t => script_of d :: run_history (past ++ [d]) t
  end.

(* one call of a history: the call's own parameters, the script it returned (copied at once), the
   spend matrix run against that script, and the SAME returned slice re-read after all later calls *)
Record hist_entry := { he_case : dep_case; he_late : option bytes }.

Inductive anycase := DOne (c : dep_case) | DHist (l : list hist_entry).

Module History.
  Definition late_ok (e : hist_entry) : bool :=
    opt_eqb bytes_eqb (he_late e) (dc_script (he_case e)).

  (* the property, per call with THAT call's parameters, + the returned slice never changes *)
  Definition hspec_ok (l : list hist_entry) : bool :=
    forallb (fun e => Concrete.spec_ok (he_case e) && late_ok e) l.

  (* history = map of the pure function, byte for byte, and the engine verdicts *)
  Definition hagree (l : list hist_entry) : bool :=
    list_eqb (opt_eqb bytes_eqb) (run_history [] (map (fun e => dc_in (he_case e)) l))
             (map (fun e => dc_script (he_case e)) l)
    && forallb (fun e => Concrete.agree (he_case e)) l.

  Definition is_bad (v : verdict) : bool := match v with BadCase => true | _ => false end.

  Definition hjudge (l : list hist_entry) : verdict :=
    match l with
    | [] => BadCase
    | _ => if existsb (fun e => is_bad (Concrete.judge (he_case e))) l then BadCase
           else decide (hspec_ok l) (hagree l)
    end.
End History.

Definition judge_any (a : anycase) : verdict :=
  match a with DOne c => Concrete.judge c | DHist l => History.hjudge l end.
Definition explain_any (a : anycase) : list (option bytes * list vres) :=
  match a with
  | DOne c => [Concrete.explain c]
  | DHist l => map (fun e => Concrete.explain (he_case e)) l
  end.
