(* C39 — executable model of pkg/generator/pool.go (ParameterPool, as repaired by the fix:
   commit that skips the enqueue when persistence.Save failed) over an abstract persistence
   layer with the contract of pkg/tecdsa/dkg/preparams.go (Save stores under a fresh id,
   Delete removes by id, ReadAll returns the stored entries oldest first).

   Parameters are N identifiers (the driver's generator produces 1, 2, 3, ...).

   The model is a machine of ATOMIC MICRO STEPS — the critical sections of the Go code:
     worker  :  generateFn -> [Save] -> [channel send | ctx.Done]
     GetNow  :  [channel receive] -> [Delete] -> return
     process :  [crash + restart = NewParameterPool over what storage holds]
   Any list of micro steps is a history: the theorems (Props/C39.v) quantify over all of them,
   i.e. over all interleavings of any number of workers and GetNow callers, every Save / Delete
   / ReadAll fault and a restart at every point.  The operations the driver performs on the
   real pool ([op]) are fixed sequences of micro steps ([expand]), so every driver history is
   one of the histories of the theorems. *)
From Coq Require Import NArith List Bool Lia.
From KV Require Import Common.Verdict.
Import ListNotations.

Inductive save_fault := SaveOk | SaveErr | SaveErrStored.
  (* SaveErrStored: the entry reached the storage but Save still reported an error *)
Inductive del_fault := DelOk | DelErr | DelErrDeleted.
Inductive read_fault := ReadOk | ReadErr.

Record mst := {
  pool    : list N;        (* the buffered channel, head = next to be received *)
  saved   : list N;        (* persisted by a worker that has not yet passed its select *)
  store   : list N;        (* persistent storage, oldest first *)
  getters : list (N * N);  (* (caller, entry): GetNow calls between the receive and Delete *)
  handed  : list N         (* history variable: values returned by GetNow so far *)
}.

Inductive mop :=
| MSave (v : N) (f : save_fault)   (* a worker's generateFn returned v; persistence.Save(v) *)
| MPush (v : N)                    (* select: pool <- persisted  (only when there is room) *)
| MPushAll                         (* every blocked sender that now has room sends *)
| MDrop (v : N)                    (* select: <-ctx.Done() *)
| MDropAll
| MRecv (t : N)                    (* GetNow of caller t: select on <-pp.pool / default *)
| MDel (t : N) (f : del_fault)     (* GetNow of caller t: persistence.Delete + return *)
| MRestart (f : read_fault).       (* crash; NewParameterPool: ReadAll, load at most k *)

Inductive res :=
| RNone                 (* nothing to observe *)
| REmpty                (* GetNow returned ErrEmptyPool *)
| RInDel (x : N)        (* GetNow received x and is about to Delete it *)
| RVal (x : N)          (* GetNow returned x *)
| RErr                  (* GetNow returned the Delete error *)
| RNil                  (* GetNow returned a nil / zero parameter (implementation only) *)
| RPanic.               (* the call panicked (implementation only) *)

Definition memN (x : N) (l : list N) : bool := existsb (N.eqb x) l.
Fixpoint remove1 (x : N) (l : list N) : list N :=
  match l with
  | [] => []
  | y :: t => if N.eqb x y then t else y :: remove1 x t
  end.
(* the first in-flight GetNow of caller t and the list without it *)
Fixpoint take_getter (t : N) (l : list (N * N)) : option (N * list (N * N)) :=
  match l with
  | [] => None
  | (t', x) :: r =>
      if N.eqb t t' then Some (x, r) else
      match take_getter t r with
      | Some (y, r') => Some (y, (t', x) :: r')
      | None => None
      end
  end.

Definition push (k : nat) (s : mst) (v : N) : mst :=
  if memN v (saved s) && Nat.ltb (length (pool s)) k
  then {| pool := pool s ++ [v]; saved := remove1 v (saved s); store := store s;
          getters := getters s; handed := handed s |}
  else s.

Definition mstep (k : nat) (s : mst) (o : mop) : mst * res :=
  match o with
  | MSave v SaveOk =>
      ({| pool := pool s; saved := saved s ++ [v]; store := store s ++ [v];
          getters := getters s; handed := handed s |}, RNone)
  | MSave v SaveErr => (s, RNone)
  | MSave v SaveErrStored =>
      ({| pool := pool s; saved := saved s; store := store s ++ [v];
          getters := getters s; handed := handed s |}, RNone)
  | MPush v => (push k s v, RNone)
  | MPushAll => (fold_left (push k) (saved s) s, RNone)
  | MDrop v =>
      ({| pool := pool s; saved := remove1 v (saved s); store := store s;
          getters := getters s; handed := handed s |}, RNone)
  | MDropAll =>
      ({| pool := pool s; saved := []; store := store s;
          getters := getters s; handed := handed s |}, RNone)
  | MRecv t =>
      match pool s with
      | x :: r =>
          ({| pool := r; saved := saved s; store := store s;
              getters := getters s ++ [(t, x)]; handed := handed s |}, RInDel x)
      | [] =>
          (* an empty buffer still receives from a sender blocked on it (capacity 0) *)
          match saved s with
          | x :: r =>
              ({| pool := []; saved := r; store := store s;
                  getters := getters s ++ [(t, x)]; handed := handed s |}, RInDel x)
          | [] => (s, REmpty)
          end
      end
  | MDel t f =>
      match take_getter t (getters s) with
      | None => (s, RNone)
      | Some (x, g) =>
          match f with
          | DelOk =>
              ({| pool := pool s; saved := saved s; store := remove1 x (store s);
                  getters := g; handed := handed s ++ [x] |}, RVal x)
          | DelErr =>
              ({| pool := pool s; saved := saved s; store := store s;
                  getters := g; handed := handed s |}, RErr)
          | DelErrDeleted =>
              ({| pool := pool s; saved := saved s; store := remove1 x (store s);
                  getters := g; handed := handed s |}, RErr)
          end
      end
  | MRestart f =>
      ({| pool := match f with ReadOk => firstn k (store s) | ReadErr => [] end;
          saved := []; store := store s; getters := []; handed := handed s |}, RNone)
  end.

Definition mrun (k : nat) (s : mst) (ops : list mop) : mst :=
  fold_left (fun s o => fst (mstep k s o)) ops s.

(* the process is started over a storage holding [st0] *)
Definition boot (k : nat) (st0 : list N) (f : read_fault) : mst :=
  fst (mstep k {| pool := []; saved := []; store := st0; getters := []; handed := [] |}
             (MRestart f)).

(* values produced by the generator in a history *)
Fixpoint gens (ops : list mop) : list N :=
  match ops with
  | [] => []
  | MSave v _ :: t => v :: gens t
  | _ :: t => gens t
  end.

(* ------------------------------------------------------------------ *)
(* persistent storage faults                                           *)
(* ------------------------------------------------------------------ *)
Inductive dur := Calls (n : N) | Forever.       (* how many more calls the fault lasts *)
Record faults := { fw_save : save_fault * dur;
                   fw_del  : del_fault * dur;
                   fw_read : read_fault * dur }.
Definition no_faults : faults :=
  {| fw_save := (SaveOk, Calls 0); fw_del := (DelOk, Calls 0); fw_read := (ReadOk, Calls 0) |}.
Definition active (d : dur) : bool :=
  match d with Calls n => negb (N.eqb n 0) | Forever => true end.
Definition tick (d : dur) : dur :=
  match d with Calls n => Calls (N.pred n) | Forever => Forever end.
(* the outcome of one call that the operation wants to be [f] *)
Definition eff {A} (w : A * dur) (f : A) : A := if active (snd w) then fst w else f.
Definition used {A} (w : A * dur) : A * dur := (fst w, tick (snd w)).

(* ------------------------------------------------------------------ *)
(* the operations of the driver                                        *)
(* ------------------------------------------------------------------ *)
Inductive op :=
| Gen (v : N) (f : save_fault)      (* one worker iteration, generateFn returns v *)
| GenNil                            (* one worker iteration, generateFn returns nil *)
| GenCrash (v : N) (stored : bool)  (* the process dies inside Save (before / after storing) *)
| GetBegin (t : N)                  (* caller t enters GetNow, up to the call of Delete *)
| GetEnd (t : N) (f : del_fault)    (* Delete answers, GetNow returns *)
| GetCrash (t : N)                  (* the process dies inside Delete, after the entry was removed *)
| Stop                              (* the scheduler cancels the worker context *)
| Resume
| Restart (f : read_fault)          (* crash + new pool over the same storage *)
| FaultSave (f : save_fault) (d : dur)   (* the storage: the next d Save calls answer f *)
| FaultDel (f : del_fault) (d : dur)
| FaultRead (f : read_fault) (d : dur).

(* the micro steps of an operation when the storage's fault windows are [w] *)
Definition expand (w : faults) (o : op) : list mop :=
  match o with
  | Gen v f => [MSave v (eff (fw_save w) f); MPushAll]
  | GenNil => []
  | GenCrash v stored => [MSave v (if stored then SaveErrStored else SaveErr)]
  | GetBegin t => [MRecv t; MPushAll]
  | GetEnd t f => [MDel t (eff (fw_del w) f)]
  | GetCrash t => [MDel t DelErrDeleted]
  | Stop => [MDropAll]
  | Resume => []
  | Restart f => [MRestart (eff (fw_read w) f)]
  | FaultSave _ _ | FaultDel _ _ | FaultRead _ _ => []
  end.

(* the windows after the operation: pool.go calls Save once per generated value, Delete once
   per GetNow that received a value, ReadAll once per NewParameterPool; a call that never
   returns (the crashes) is not answered by the window *)
Definition wnext (w : faults) (o : op) : faults :=
  match o with
  | Gen _ _ => {| fw_save := used (fw_save w); fw_del := fw_del w; fw_read := fw_read w |}
  | GetEnd _ _ => {| fw_save := fw_save w; fw_del := used (fw_del w); fw_read := fw_read w |}
  | Restart _ => {| fw_save := fw_save w; fw_del := fw_del w; fw_read := used (fw_read w) |}
  | FaultSave f d => {| fw_save := (f, d); fw_del := fw_del w; fw_read := fw_read w |}
  | FaultDel f d => {| fw_save := fw_save w; fw_del := (f, d); fw_read := fw_read w |}
  | FaultRead f d => {| fw_save := fw_save w; fw_del := fw_del w; fw_read := (f, d) |}
  | _ => w
  end.

(* the micro-step history of a list of operations *)
Fixpoint hist (w : faults) (ops : list op) : list mop :=
  match ops with
  | [] => []
  | o :: t => expand w o ++ hist (wnext w o) t
  end.

(* what the driver observes of one operation: the result of its first micro step, except
   that a crashed call returns nothing *)
Definition cstep (k : nat) (w : faults) (s : mst) (o : op) : mst * res :=
  let s' := mrun k s (expand w o) in
  (s', match o, expand w o with
       | GetCrash _, _ => RNone
       | _, m :: _ => snd (mstep k s m)
       | _, [] => RNone
       end).

(* ------------------------------------------------------------------ *)
(* cases: operations with the implementation's observations            *)
(* ------------------------------------------------------------------ *)
Record obs := { o_res : res;          (* result of the call *)
                o_count : N;          (* ParametersCount() after the operation *)
                o_store : list N;     (* what the storage holds after the operation *)
                o_kept : bool }.      (* GetNow returned a value whose storage entry still
                                         existed at the moment of the return *)

Record case := { c_k : N; c_store0 : list N; c_boot : read_fault;
                 c_obs0 : obs;                  (* after NewParameterPool *)
                 c_steps : list (op * obs) }.

Definition res_eqb (a b : res) : bool :=
  match a, b with
  | RNone, RNone | REmpty, REmpty | RErr, RErr | RNil, RNil | RPanic, RPanic => true
  | RInDel x, RInDel y | RVal x, RVal y => N.eqb x y
  | _, _ => false
  end.
Fixpoint list_eqb (a b : list N) : bool :=
  match a, b with
  | [], [] => true
  | x :: a', y :: b' => N.eqb x y && list_eqb a' b'
  | _, _ => false
  end.
Definition obs_eqb (a b : obs) : bool :=
  res_eqb (o_res a) (o_res b) && N.eqb (o_count a) (o_count b) && list_eqb (o_store a) (o_store b)
  && Bool.eqb (o_kept a) (o_kept b).

Definition model_obs (s : mst) (r : res) : obs :=
  {| o_res := r; o_count := N.of_nat (length (pool s)); o_store := store s;
     o_kept := match r with RVal x => memN x (store s) | _ => false end |}.

Fixpoint agree_steps (k : nat) (w : faults) (s : mst) (steps : list (op * obs)) : bool :=
  match steps with
  | [] => true
  | (o, ob) :: t =>
      let '(s', r) := cstep k w s o in
      obs_eqb ob (model_obs s' r) && agree_steps k (wnext w o) s' t
  end.

(* the values the generator has produced / GetNow has returned in a driver history *)
Definition op_gens (o : op) : list N :=
  match o with Gen v _ | GenCrash v _ => [v] | _ => [] end.
Definition res_handed (r : res) : list N :=
  match r with RVal x => [x] | _ => [] end.

(* ---- the property in executable form, on the IMPLEMENTATION's observations ----
   [known]  : what the storage held at start plus everything generated so far
   [hd]     : everything GetNow has returned so far
   per observation: no panic, no nil; the pool holds at most k; a returned value is a known
   one, was never returned before (in this or an earlier process: [hd] runs across restarts),
   its storage entry was gone at the moment GetNow returned it ([o_kept], recorded by the
   fake persistence), and neither it nor any earlier returned value is in the storage after
   the operation (it was deleted before the hand-out and nothing brings it back). *)
Definition disjointb (a b : list N) : bool := forallb (fun x => negb (memN x b)) a.
Definition obs_ok (k : N) (known hd : list N) (ob : obs) : bool :=
  match o_res ob with
  | RPanic | RNil => false
  | RVal x => memN x known && negb (memN x hd)
  | _ => true
  end
  && (o_count ob <=? k)%N
  && disjointb (res_handed (o_res ob) ++ hd) (o_store ob)
  && negb (o_kept ob).

Fixpoint steps_ok (k : N) (known hd : list N) (steps : list (op * obs)) : bool :=
  match steps with
  | [] => true
  | (o, ob) :: t =>
      let known' := op_gens o ++ known in
      obs_ok k known' hd ob && steps_ok k known' (res_handed (o_res ob) ++ hd) t
  end.

(* the observation after NewParameterPool is treated like that of an operation that
   generates nothing *)
Definition spec_ok (c : case) : bool :=
  steps_ok (c_k c) (c_store0 c) [] ((Resume, c_obs0 c) :: c_steps c).

(* ---- the same property as a proposition (Props/C39.v: spec_ok_sound) ---- *)
Definition obs_list (c : case) : list obs := c_obs0 c :: map snd (c_steps c).
Definition handed_obs (l : list obs) : list N := flat_map (fun ob => res_handed (o_res ob)) l.
Definition case_gens (c : case) : list N := flat_map (fun so => op_gens (fst so)) (c_steps c).
Definition spec_prop (c : case) : Prop :=
  (* no value is returned twice *)
  NoDup (handed_obs (obs_list c)) /\
  (* every returned value was in the storage at start or was generated *)
  (forall x, In x (handed_obs (obs_list c)) -> In x (c_store0 c ++ case_gens c)) /\
  (* the pool never holds more than its capacity; no call panics or returns nil *)
  (forall ob, In ob (obs_list c) ->
     (o_count ob <= c_k c)%N /\ o_res ob <> RPanic /\ o_res ob <> RNil) /\
  (* at no hand-out did the value's storage entry still exist *)
  (forall ob, In ob (obs_list c) -> o_kept ob = false) /\
  (* a value returned by GetNow is not in the storage when the call returns, nor ever after *)
  (forall l1 ob l2, obs_list c = l1 ++ ob :: l2 ->
     forall x, In x (handed_obs (l1 ++ [ob])) -> ~ In x (o_store ob)).

(* the model's own observations of a list of operations, as a case *)
Fixpoint model_steps (k : nat) (w : faults) (s : mst) (ops : list op) : list (op * obs) :=
  match ops with
  | [] => []
  | o :: t => (o, model_obs (fst (cstep k w s o)) (snd (cstep k w s o)))
              :: model_steps k (wnext w o) (fst (cstep k w s o)) t
  end.
Definition model_case (k : nat) (st0 : list N) (f : read_fault) (ops : list op) : case :=
  {| c_k := N.of_nat k; c_store0 := st0; c_boot := f;
     c_obs0 := model_obs (boot k st0 f) RNone;
     c_steps := model_steps k no_faults (boot k st0 f) ops |}.

Fixpoint nodupb (l : list N) : bool :=
  match l with
  | [] => true
  | x :: t => negb (memN x t) && nodupb t
  end.
(* the generator's contract: it never produces the same parameter twice, nor one that is
   already stored *)
Definition wf (c : case) : bool :=
  nodupb (c_store0 c ++ flat_map (fun so => op_gens (fst so)) (c_steps c)).

Definition agree (c : case) : bool :=
  let k := N.to_nat (c_k c) in
  let s0 := boot k (c_store0 c) (c_boot c) in
  obs_eqb (c_obs0 c) (model_obs s0 RNone) && agree_steps k no_faults s0 (c_steps c).

Definition judge (c : case) : verdict :=
  if negb (wf c) then BadCase else decide (spec_ok c) (agree c).

(* what --replay prints: the model's own observations *)
Fixpoint explain_steps (k : nat) (w : faults) (s : mst) (ops : list op) : list obs :=
  match ops with
  | [] => []
  | o :: t => let '(s', r) := cstep k w s o in model_obs s' r :: explain_steps k (wnext w o) s' t
  end.
Definition explain (c : case) : list obs :=
  let k := N.to_nat (c_k c) in
  let s0 := boot k (c_store0 c) (c_boot c) in
  model_obs s0 RNone :: explain_steps k no_faults s0 (map fst (c_steps c)).
