(* C29 — executable byte-level model of the Bitcoin codecs of pkg/bitcoin
   (transaction.go, hash.go, bitcoin.go, script.go, block.go) together with the btcd `wire`
   encoder/decoder they wrap (btcd v0.22.3: wire/common.go ReadVarInt/WriteVarInt,
   wire/msgtx.go BtcEncode/BtcDecode).  Bytes are [N] values below 256, byte strings are
   [list N].  Readers return the value and the unread rest of the input.  No proofs here. *)
From Coq Require Import String Ascii ZArith NArith List Bool.
From KV Require Import Common.Verdict.
Import ListNotations.
Open Scope N_scope.

(* ------------------------------------------------------------------ bytes, integers *)
Definition byte_ok (b : N) : bool := b <? 256.
Definition bytes_ok (l : list N) : bool := forallb byte_ok l.
Definition len {A} (l : list A) : N := N.of_nat (length l).

(* little endian, fixed width: binary.LittleEndian.PutUintXX / UintXX *)
Fixpoint le_bytes (n : nat) (v : N) : list N :=
  match n with O => [] | S k => v mod 256 :: le_bytes k (v / 256) end.
Fixpoint le_val (l : list N) : N :=
  match l with [] => 0 | b :: t => b + 256 * le_val t end.

(* Go conversions uint32(int32), int32(uint32), uint64(int64), int64(uint64) *)
Definition of_int (bits : N) (z : Z) : N := Z.to_N (z mod 2 ^ Z.of_N bits).
Definition to_int (bits : N) (n : N) : Z :=
  if n <? 2 ^ (bits - 1) then Z.of_N n else (Z.of_N n - 2 ^ Z.of_N bits)%Z.
Definition int_ok (bits : N) (z : Z) : bool :=
  ((- 2 ^ (Z.of_N bits - 1) <=? z) && (z <? 2 ^ (Z.of_N bits - 1)))%Z.

(* ------------------------------------------------------------------ readers *)
Inductive err := EEOF | ENonCanonical | ETooLarge | ETooMany | EBadFlag.
Inductive rd (A : Type) := ROk (a : A) (rest : list N) | RErr (e : err).
Arguments ROk {A}. Arguments RErr {A}.
Definition bind {A B} (r : rd A) (f : A -> list N -> rd B) : rd B :=
  match r with ROk a rest => f a rest | RErr e => RErr e end.

(* io.ReadFull of n bytes (structural on the input, so that an absurd announced length is
   never converted to a unary number) *)
Fixpoint split_at (l : list N) (n : N) {struct l} : option (list N * list N) :=
  if n =? 0 then Some ([], l) else
  match l with
  | [] => None
  | x :: t => match split_at t (N.pred n) with
              | Some (a, r) => Some (x :: a, r)
              | None => None
              end
  end.
Definition take (n : N) (inp : list N) : rd (list N) :=
  match split_at inp n with Some (a, r) => ROk a r | None => RErr EEOF end.
Definition read_le (n : nat) (inp : list N) : rd N :=
  bind (take (N.of_nat n) inp) (fun bs rest => ROk (le_val bs) rest).

(* ------------------------------------------------------------------ CompactSize (wire.WriteVarInt / ReadVarInt / VarIntSerializeSize) *)
Definition cs_encode (v : N) : list N :=
  if v <? 253 then [v]
  else if v <=? 65535 then 253 :: le_bytes 2 v
  else if v <=? 4294967295 then 254 :: le_bytes 4 v
  else 255 :: le_bytes 8 v.
Definition cs_size (v : N) : N :=
  if v <? 253 then 1 else if v <=? 65535 then 3 else if v <=? 4294967295 then 5 else 9.
Definition read_min (n : nat) (min : N) (inp : list N) : rd N :=
  bind (read_le n inp) (fun v rest => if v <? min then RErr ENonCanonical else ROk v rest).
Definition cs_decode (inp : list N) : rd N :=
  match inp with
  | [] => RErr EEOF
  | d :: rest =>
      if d =? 255 then read_min 8 4294967296 rest
      else if d =? 254 then read_min 4 65536 rest
      else if d =? 253 then read_min 2 253 rest
      else ROk d rest
  end.

(* bitcoin.go readCompactSizeUint / writeCompactSizeUint *)
Definition read_compact_size_uint (data : list N) : option (N * N) :=
  match cs_decode data with ROk v _ => Some (v, cs_size v) | RErr _ => None end.
Definition write_compact_size_uint (v : N) : list N := cs_encode v.

(* wire.WriteVarBytes *)
Definition var_bytes (s : list N) : list N := cs_encode (len s) ++ s.

(* ------------------------------------------------------------------ script.go var-len data *)
Definition two64 : N := 18446744073709551616.
Definition script_to_var_len (s : list N) : list N := var_bytes s.
Definition script_from_var_len (d : list N) : option (list N) :=
  match read_compact_size_uint d with
  | None => None
  | Some (slen, clen) =>
      (* uint64(scriptByteLength)+uint64(compactByteLength) wraps modulo 2^64 *)
      if ((slen + clen) mod two64) =? len d then Some (skipn (N.to_nat clen) d) else None
  end.

(* ------------------------------------------------------------------ transactions *)
Record txin := { ti_hash : list N; ti_index : N; ti_script : list N;
                 ti_witness : list (list N); ti_seq : N }.
Record txout := { to_value : Z; to_script : list N }.
Record tx := { tx_version : Z; tx_ins : list txin; tx_outs : list txout; tx_locktime : N }.
Inductive format := Standard | Witness.

Definition ser_txin (ti : txin) : list N :=
  ti_hash ti ++ le_bytes 4 (ti_index ti) ++ var_bytes (ti_script ti) ++ le_bytes 4 (ti_seq ti).
Definition ser_txout (o : txout) : list N :=
  le_bytes 8 (of_int 64 (to_value o)) ++ var_bytes (to_script o).
Definition ser_witness (ti : txin) : list N :=
  cs_encode (len (ti_witness ti)) ++ flat_map var_bytes (ti_witness ti).

Definition ser_version (t : tx) : list N := le_bytes 4 (of_int 32 (tx_version t)).
Definition ser_locktime (t : tx) : list N := le_bytes 4 (tx_locktime t).
Definition ser_inputs (t : tx) : list N := cs_encode (len (tx_ins t)) ++ flat_map ser_txin (tx_ins t).
Definition ser_outputs (t : tx) : list N := cs_encode (len (tx_outs t)) ++ flat_map ser_txout (tx_outs t).

Definition is_nil {A} (l : list A) : bool := match l with [] => true | _ => false end.
Definition has_witness (t : tx) : bool := existsb (fun ti => negb (is_nil (ti_witness ti))) (tx_ins t).

(* MsgTx.BtcEncode *)
Definition serialize (f : format) (t : tx) : list N :=
  let w := match f with Witness => has_witness t | Standard => false end in
  ser_version t ++ (if w then [0; 1] else []) ++ ser_inputs t ++ ser_outputs t
  ++ (if w then flat_map ser_witness (tx_ins t) else []) ++ ser_locktime t.

(* transaction.go SerializeInputs / SerializeOutputs: a computed window of the Standard
   serialisation; None = slice bounds out of range (panic) *)
Definition txin_size (ti : txin) : N := 40 + cs_size (len (ti_script ti)) + len (ti_script ti).
Definition txout_size (o : txout) : N := 8 + cs_size (len (to_script o)) + len (to_script o).
Definition sumN (l : list N) : N := fold_right N.add 0 l.
Definition go_slice (lo hi : Z) (l : list N) : option (list N) :=
  if ((0 <=? lo) && (lo <=? hi) && (hi <=? Z.of_nat (length l)))%Z
  then Some (firstn (Z.to_nat (hi - lo)) (skipn (Z.to_nat lo) l)) else None.
Definition serialize_inputs (t : tx) : option (list N) :=
  let size := cs_size (len (tx_ins t)) + sumN (map txin_size (tx_ins t)) in
  go_slice 4 (4 + Z.of_N size) (serialize Standard t).
Definition serialize_outputs (t : tx) : option (list N) :=
  let size := cs_size (len (tx_outs t)) + sumN (map txout_size (tx_outs t)) in
  let s := serialize Standard t in
  let e := (Z.of_nat (length s) - 4)%Z in
  go_slice (e - Z.of_N size) e s.

(* btcd limits (wire/message.go, wire/msgtx.go) *)
Definition max_message_payload : N := 33554432.
Definition max_txin_per_message : N := max_message_payload / 41 + 1.
Definition max_txout_per_message : N := max_message_payload / 9 + 1.
Definition max_witness_items_per_input : N := 4000000.
Definition max_witness_item_size : N := 4000000.

(* wire.readScript *)
Definition read_script (max_allowed : N) (inp : list N) : rd (list N) :=
  bind (cs_decode inp) (fun count rest =>
    if max_allowed <? count then RErr ETooLarge else take count rest).

Definition read_txin (inp : list N) : rd txin :=
  bind (take 32 inp) (fun h r1 =>
  bind (read_le 4 r1) (fun idx r2 =>
  bind (read_script max_message_payload r2) (fun s r3 =>
  bind (read_le 4 r3) (fun sq r4 =>
  ROk {| ti_hash := h; ti_index := idx; ti_script := s; ti_witness := []; ti_seq := sq |} r4)))).
Definition read_txout (inp : list N) : rd txout :=
  bind (read_le 8 inp) (fun v r1 =>
  bind (read_script max_message_payload r1) (fun s r2 =>
  ROk {| to_value := to_int 64 v; to_script := s |} r2)).

(* [count] reads in a row.  Every successful read consumes at least one byte, so a fuel of
   1 + length of the input is never exhausted before the input is (Proofs: read_many_fuel). *)
Fixpoint read_many {A} (r : list N -> rd A) (fuel : nat) (count : N) (inp : list N) : rd (list A) :=
  if count =? 0 then ROk [] inp else
  match fuel with
  | O => RErr EEOF
  | S f => bind (r inp) (fun a rest =>
           bind (read_many r f (count - 1) rest) (fun l rest' => ROk (a :: l) rest'))
  end.
Definition read_n {A} (r : list N -> rd A) (count : N) (inp : list N) : rd (list A) :=
  read_many r (S (length inp)) count inp.

Definition set_witness (ti : txin) (w : list (list N)) : txin :=
  {| ti_hash := ti_hash ti; ti_index := ti_index ti; ti_script := ti_script ti;
     ti_witness := w; ti_seq := ti_seq ti |}.
Fixpoint read_witnesses (ins : list txin) (inp : list N) : rd (list txin) :=
  match ins with
  | [] => ROk [] inp
  | ti :: t =>
      bind (cs_decode inp) (fun wc r1 =>
      if max_witness_items_per_input <? wc then RErr ETooMany else
      bind (read_n (read_script max_witness_item_size) wc r1) (fun items r2 =>
      bind (read_witnesses t r2) (fun t' r3 => ROk (set_witness ti items :: t') r3)))
  end.

(* MsgTx.BtcDecode with WitnessEncoding (what Transaction.Deserialize calls) *)
Definition decode_body (ver : N) (flag : bool) (count : N) (r : list N) : rd tx :=
  if max_txin_per_message <? count then RErr ETooMany else
  bind (read_n read_txin count r) (fun ins r2 =>
  bind (cs_decode r2) (fun ocount r3 =>
  if max_txout_per_message <? ocount then RErr ETooMany else
  bind (read_n read_txout ocount r3) (fun outs r4 =>
  bind (if flag then read_witnesses ins r4 else ROk ins r4) (fun ins' r5 =>
  bind (read_le 4 r5) (fun lock r6 =>
  ROk {| tx_version := to_int 32 ver; tx_ins := ins'; tx_outs := outs; tx_locktime := lock |} r6))))).
Definition decode (inp : list N) : rd tx :=
  bind (read_le 4 inp) (fun ver r0 =>
  bind (cs_decode r0) (fun count r1 =>
  if count =? 0 then
    match r1 with
    | [] => RErr EEOF
    | f :: r1' => if f =? 1 then bind (cs_decode r1') (fun c r => decode_body ver true c r)
                  else RErr EBadFlag
    end
  else decode_body ver false count r1)).
(* Transaction.Deserialize: trailing bytes are not looked at *)
Definition deserialize (inp : list N) : option tx :=
  match decode inp with ROk t _ => Some t | RErr _ => None end.

Definition strip_in (ti : txin) : txin := set_witness ti [].
Definition strip_witness (t : tx) : tx :=
  {| tx_version := tx_version t; tx_ins := map strip_in (tx_ins t); tx_outs := tx_outs t;
     tx_locktime := tx_locktime t |}.

(* Transaction.Hash / WitnessHash, the hash function being a parameter *)
Definition tx_hash (H : list N -> list N) (t : tx) : list N := H (serialize Standard t).
Definition tx_witness_hash (H : list N -> list N) (t : tx) : list N := H (serialize Witness t).

(* guards of the round-trip theorem: field ranges and the btcd decoder limits *)
Definition txin_wf (ti : txin) : bool :=
  (length (ti_hash ti) =? 32)%nat && bytes_ok (ti_hash ti)
  && (ti_index ti <? 4294967296) && (ti_seq ti <? 4294967296)
  && bytes_ok (ti_script ti) && (len (ti_script ti) <=? max_message_payload)
  && (len (ti_witness ti) <=? max_witness_items_per_input)
  && forallb (fun i => bytes_ok i && (len i <=? max_witness_item_size)) (ti_witness ti).
Definition txout_wf (o : txout) : bool :=
  int_ok 64 (to_value o) && bytes_ok (to_script o) && (len (to_script o) <=? max_message_payload).
Definition tx_wf (t : tx) : bool :=
  int_ok 32 (tx_version t) && (tx_locktime t <? 4294967296)
  && (len (tx_ins t) <=? max_txin_per_message) && forallb txin_wf (tx_ins t)
  && (len (tx_outs t) <=? max_txout_per_message) && forallb txout_wf (tx_outs t).

(* ------------------------------------------------------------------ hash.go *)
Inductive byte_order := InternalOrder | ReversedOrder.
Definition hex_digit (n : N) : N := if n <? 10 then 48 + n else 87 + n.
Definition hex_encode (l : list N) : list N :=
  flat_map (fun b => [hex_digit (b / 16); hex_digit (b mod 16)]) l.
Definition from_hex_char (c : N) : option N :=
  if (48 <=? c) && (c <=? 57) then Some (c - 48)
  else if (97 <=? c) && (c <=? 102) then Some (c - 87)
  else if (65 <=? c) && (c <=? 70) then Some (c - 55)
  else None.
Fixpoint hex_decode (s : list N) : option (list N) :=
  match s with
  | [] => Some []
  | [_] => None
  | a :: b :: t =>
      match from_hex_char a, from_hex_char b, hex_decode t with
      | Some x, Some y, Some r => Some (16 * x + y :: r)
      | _, _, _ => None
      end
  end.
Definition lower_char (c : N) : N := if (65 <=? c) && (c <=? 70) then c + 32 else c.

Definition order_bytes (o : byte_order) (b : list N) : list N :=
  match o with InternalOrder => b | ReversedOrder => rev b end.
Definition new_hash (b : list N) (o : byte_order) : option (list N) :=
  if (length b =? 32)%nat then Some (order_bytes o b) else None.
Definition new_hash_from_string (s : list N) (o : byte_order) : option (list N) :=
  if (length s =? 64)%nat then
    match hex_decode s with Some b => new_hash b o | None => None end
  else None.
Definition hash_hex (h : list N) (o : byte_order) : list N := hex_encode (order_bytes o h).

(* ------------------------------------------------------------------ block.go *)
Record header := { h_version : Z; h_prev : list N; h_merkle : list N;
                   h_time : N; h_bits : N; h_nonce : N }.
Definition header_serialize (h : header) : list N :=
  le_bytes 4 (of_int 32 (h_version h)) ++ h_prev h ++ h_merkle h
  ++ le_bytes 4 (h_time h) ++ le_bytes 4 (h_bits h) ++ le_bytes 4 (h_nonce h).
Definition sub (off n : nat) (l : list N) : list N := firstn n (skipn off l).
Definition header_deserialize (raw : list N) : header :=
  {| h_version := to_int 32 (le_val (sub 0 4 raw));
     h_prev := sub 4 32 raw; h_merkle := sub 36 32 raw;
     h_time := le_val (sub 68 4 raw); h_bits := le_val (sub 72 4 raw);
     h_nonce := le_val (sub 76 4 raw) |}.
Definition header_wf (h : header) : bool :=
  int_ok 32 (h_version h)
  && (length (h_prev h) =? 32)%nat && bytes_ok (h_prev h)
  && (length (h_merkle h) =? 32)%nat && bytes_ok (h_merkle h)
  && (h_time h <? 4294967296) && (h_bits h <? 4294967296) && (h_nonce h <? 4294967296).

(* ================================================================== correspondence cases *)
(* compact notation for long byte strings and repeated elements in case terms *)
(* H "0a1b.." = the bytes written in hexadecimal (a string literal is parsed much faster than
   one numeral per byte); R n b = n copies of byte b *)
Inductive chunk := H (s : string) | R (n b : N).
Fixpoint codes (s : string) : list N :=
  match s with EmptyString => [] | String a t => N_of_ascii a :: codes t end.
Definition unhex (s : string) : list N :=
  match hex_decode (codes s) with Some b => b | None => [] end.
Definition expand (cs : list chunk) : list N :=
  flat_map (fun c => match c with H s => unhex s | R n b => repeat b (N.to_nat n) end) cs.
Definition expand_runs {A B} (f : A -> B) (l : list (N * A)) : list B :=
  flat_map (fun p => repeat (f (snd p)) (N.to_nat (fst p))) l.

Record ctxin := { ci_hash : list chunk; ci_index : N; ci_script : list chunk;
                  ci_witness : list (N * list chunk); ci_seq : N }.
Record ctxout := { co_value : Z; co_script : list chunk }.
Record ctx := { c_version : Z; c_ins : list (N * ctxin); c_outs : list (N * ctxout);
                c_locktime : N }.
Definition x_in (c : ctxin) : txin :=
  {| ti_hash := expand (ci_hash c); ti_index := ci_index c; ti_script := expand (ci_script c);
     ti_witness := expand_runs expand (ci_witness c); ti_seq := ci_seq c |}.
Definition x_out (c : ctxout) : txout := {| to_value := co_value c; to_script := expand (co_script c) |}.
Definition x_tx (c : ctx) : tx :=
  {| tx_version := c_version c; tx_ins := expand_runs x_in (c_ins c);
     tx_outs := expand_runs x_out (c_outs c); tx_locktime := c_locktime c |}.

(* observables *)
Inductive obytes := OB (b : list chunk) | OPanic.
Inductive otx := TOk (t : ctx) | TErr | TPanic.
Inductive ocs := COk (v size : N) | CErr | CPanic.
Record chdr := { hc_version : Z; hc_prev : list chunk; hc_merkle : list chunk;
                 hc_time : N; hc_bits : N; hc_nonce : N }.
Definition x_hdr (c : chdr) : header :=
  {| h_version := hc_version c; h_prev := expand (hc_prev c); h_merkle := expand (hc_merkle c);
     h_time := hc_time c; h_bits := hc_bits c; h_nonce := hc_nonce c |}.
Inductive ohdr := HOk (h : chdr) | HPanic.

Fixpoint list_eqb (a b : list N) : bool :=
  match a, b with
  | [], [] => true
  | x :: a', y :: b' => (x =? y) && list_eqb a' b'
  | _, _ => false
  end.
Fixpoint all2 {A} (f : A -> A -> bool) (a b : list A) : bool :=
  match a, b with
  | [], [] => true
  | x :: a', y :: b' => f x y && all2 f a' b'
  | _, _ => false
  end.
Definition txin_eqb (a b : txin) : bool :=
  list_eqb (ti_hash a) (ti_hash b) && (ti_index a =? ti_index b)
  && list_eqb (ti_script a) (ti_script b) && all2 list_eqb (ti_witness a) (ti_witness b)
  && (ti_seq a =? ti_seq b).
Definition txout_eqb (a b : txout) : bool :=
  (to_value a =? to_value b)%Z && list_eqb (to_script a) (to_script b).
Definition tx_eqb (a b : tx) : bool :=
  (tx_version a =? tx_version b)%Z && all2 txin_eqb (tx_ins a) (tx_ins b)
  && all2 txout_eqb (tx_outs a) (tx_outs b) && (tx_locktime a =? tx_locktime b).
Definition header_eqb (a b : header) : bool :=
  (h_version a =? h_version b)%Z && list_eqb (h_prev a) (h_prev b)
  && list_eqb (h_merkle a) (h_merkle b) && (h_time a =? h_time b)
  && (h_bits a =? h_bits b) && (h_nonce a =? h_nonce b).

Definition ob_is (o : obytes) (b : list N) : bool :=
  match o with OB c => list_eqb (expand c) b | OPanic => false end.
Definition ob_is_opt (o : obytes) (b : option (list N)) : bool :=
  match o, b with
  | OB c, Some b => list_eqb (expand c) b
  | OPanic, None => true
  | _, _ => false
  end.
Definition otx_is (o : otx) (t : option tx) : bool :=
  match o, t with
  | TOk c, Some t => tx_eqb (x_tx c) t
  | TErr, None => true
  | _, _ => false
  end.
Definition oopt_is (o : option obytes) (b : option (list N)) : bool :=
  match o, b with
  | Some ob, Some b => ob_is ob b
  | None, None => true
  | _, _ => false
  end.

(* one generated transaction and everything the implementation said about it *)
Record tx_case := {
  tc_tx : ctx;
  tc_ser_std : obytes; tc_ser_wit : obytes;                 (* Serialize(Standard), Serialize(Witness) *)
  tc_version : obytes; tc_inputs : obytes; tc_outputs : obytes; tc_locktime : obytes;
  tc_deser_std : otx; tc_deser_wit : otx;                   (* Deserialize of the two above *)
  tc_hash_is_std : bool;      (* Hash() = sha256d(Serialize(Standard)) *)
  tc_whash_is_wit : bool;     (* WitnessHash() = sha256d(Serialize(Witness)) *)
  tc_hash_same : bool         (* Hash() unchanged when every witness is replaced *)
}.

(* ------------------------------------------------------------------ call histories *)
(* Every function of the property that hands out a byte slice, a string or a structure holding
   slices, as one call.  The functions are pure: a call's result is computed from its own
   arguments alone.  [Hf] stands for double SHA-256 (Transaction.Hash / WitnessHash). *)
Inductive part := PVersion | PInputs | POutputs | PLocktime.
Inductive call :=
| KSerialize (f : format) (t : tx)          (* Transaction.Serialize *)
| KPart (p : part) (t : tx)                 (* SerializeVersion / Inputs / Outputs / Locktime *)
| KTxHash (f : format) (t : tx)             (* Hash (Standard) / WitnessHash (Witness) *)
| KDeserialize (raw : list N)               (* Transaction.Deserialize *)
| KToVarLen (s : list N)                    (* Script.ToVarLenData *)
| KFromVarLen (raw : list N)                (* NewScriptFromVarLenData *)
| KWriteCompact (v : N)                     (* writeCompactSizeUint *)
| KHdrSerialize (h : header)                (* BlockHeader.Serialize *)
| KHdrDeserialize (raw : list N)            (* BlockHeader.Deserialize *)
| KHashHex (h : list N) (o : byte_order)    (* Hash.Hex *)
| KNewHash (b : list N) (o : byte_order)    (* NewHash *)
| KNewHashStr (s : list N) (o : byte_order) (* NewHashFromString, the string as character codes *).
Inductive hres := VBytes (b : list N) | VTx (t : tx) | VHdr (h : header) | VErr | VPanic.

Definition of_opt (o : option (list N)) (none : hres) : hres :=
  match o with Some b => VBytes b | None => none end.
Definition call_result (Hf : list N -> list N) (c : call) : hres :=
  match c with
  | KSerialize f t => VBytes (serialize f t)
  | KPart PVersion t => VBytes (ser_version t)
  | KPart PLocktime t => VBytes (ser_locktime t)
  | KPart PInputs t => of_opt (serialize_inputs t) VPanic
  | KPart POutputs t => of_opt (serialize_outputs t) VPanic
  | KTxHash f t => VBytes (Hf (serialize f t))
  | KDeserialize raw => match deserialize raw with Some t => VTx t | None => VErr end
  | KToVarLen s => VBytes (script_to_var_len s)
  | KFromVarLen raw => of_opt (script_from_var_len raw) VErr
  | KWriteCompact v => VBytes (write_compact_size_uint v)
  | KHdrSerialize h => VBytes (header_serialize h)
  | KHdrDeserialize raw => VHdr (header_deserialize raw)
  | KHashHex h o => VBytes (hash_hex h o)
  | KNewHash b o => of_opt (new_hash b o) VErr
  | KNewHashStr s o => of_opt (new_hash_from_string s o) VErr
  end.

(* A history runs against the store of the results handed out so far (what the callers still
   hold): each call adds its result, computed from its own arguments, at the end of the store
   and touches nothing that is already there.  Proofs: [history_is_map]. *)
Definition step (Hf : list N -> list N) (store : list hres) (c : call) : list hres :=
  store ++ [call_result Hf c].
Definition run_history_from (Hf : list N -> list N) (store : list hres) (cs : list call) : list hres :=
  fold_left (step Hf) cs store.
Definition run_history (Hf : list N -> list N) (cs : list call) : list hres := run_history_from Hf [] cs.

(* the same in the compact case notation *)
Inductive hcall :=
| HSerialize (f : format) (t : ctx)
| HPart (p : part) (t : ctx)
| HTxHash (f : format) (t : ctx)
| HDeserialize (raw : list chunk)
| HToVarLen (s : list chunk)
| HFromVarLen (raw : list chunk)
| HWriteCompact (v : N)
| HHdrSerialize (h : chdr)
| HHdrDeserialize (raw : list chunk)
| HHashHex (h : list chunk) (o : byte_order)
| HNewHash (b : list chunk) (o : byte_order)
| HNewHashStr (s : list chunk) (o : byte_order).
Definition x_call (c : hcall) : call :=
  match c with
  | HSerialize f t => KSerialize f (x_tx t)
  | HPart p t => KPart p (x_tx t)
  | HTxHash f t => KTxHash f (x_tx t)
  | HDeserialize raw => KDeserialize (expand raw)
  | HToVarLen s => KToVarLen (expand s)
  | HFromVarLen raw => KFromVarLen (expand raw)
  | HWriteCompact v => KWriteCompact v
  | HHdrSerialize h => KHdrSerialize (x_hdr h)
  | HHdrDeserialize raw => KHdrDeserialize (expand raw)
  | HHashHex h o => KHashHex (expand h) o
  | HNewHash b o => KNewHash (expand b) o
  | HNewHashStr s o => KNewHashStr (expand s) o
  end.
Inductive ores := OBytes (b : list chunk) | OTx (t : ctx) | OHdr (h : chdr) | OErr | OPanicked.
Definition x_ores (o : ores) : hres :=
  match o with
  | OBytes b => VBytes (expand b) | OTx t => VTx (x_tx t) | OHdr h => VHdr (x_hdr h)
  | OErr => VErr | OPanicked => VPanic
  end.
Definition hres_eqb (a b : hres) : bool :=
  match a, b with
  | VBytes x, VBytes y => list_eqb x y
  | VTx x, VTx y => tx_eqb x y
  | VHdr x, VHdr y => header_eqb x y
  | VErr, VErr => true
  | VPanic, VPanic => true
  | _, _ => false
  end.

(* One entry of an observed history: the call with its arguments as they were when the call
   was made; the result read immediately after the call (a deep copy); the SAME result object
   read again after all later calls of the history, a forced garbage collection and a burst of
   further calls, the caller having overwritten the argument slices in between; whether the
   call left its arguments as they were. *)
Record hentry := { he_call : hcall; he_now : ores; he_late : ores; he_input_kept : bool }.

(* double SHA-256 as a finite table (preimage, digest) computed by the driver with Go's
   crypto/sha256; anything else hashes to [] *)
Fixpoint sha_lookup (tbl : list (list N * list N)) (pre : list N) : list N :=
  match tbl with
  | [] => []
  | (p, d) :: t => if list_eqb p pre then d else sha_lookup t pre
  end.
Definition sha_of (tbl : list (list chunk * list chunk)) : list N -> list N :=
  sha_lookup (map (fun pd => (expand (fst pd), expand (snd pd))) tbl).

Definition opt_is (o : option (list N)) (b : list N) : bool :=
  match o with Some x => list_eqb x b | None => false end.
(* the round trip, taken on the value the caller holds at the END of the history, with the
   model's decoders (inside the guards of the round-trip theorems; true where the property
   claims nothing) *)
Definition late_roundtrip (e : hentry) : bool :=
  match he_call e, he_late e with
  | HSerialize f c, OBytes b =>
      let t := x_tx c in
      if negb (tx_wf t) || is_nil (tx_ins t) then true else
      match deserialize (expand b) with
      | Some t' => tx_eqb t' (match f with Witness => t | Standard => strip_witness t end)
      | None => false
      end
  | HToVarLen s, OBytes v =>
      if negb (bytes_ok (expand s) && (len (expand s) <? 2 ^ 63)) then true
      else opt_is (script_from_var_len (expand v)) (expand s)
  | HWriteCompact v, OBytes w =>
      if two64 <=? v then true else
      match cs_decode (expand w) with ROk v' [] => v' =? v | _ => false end
  | HHdrSerialize hc, OBytes b =>
      if negb (header_wf (x_hdr hc)) then true else header_eqb (header_deserialize (expand b)) (x_hdr hc)
  | HHashHex h o, OBytes s =>
      if negb ((length (expand h) =? 32)%nat && bytes_ok (expand h)) then true
      else opt_is (new_hash_from_string (expand s) o) (expand h)
  | _, _ => true
  end.
(* Hash / WitnessHash: the value held at the end is the digest of the serialisation of the
   transaction as it was when the call was made (not of what the object held before or after) *)
Definition hash_is_digest (Hf : list N -> list N) (e : hentry) : bool :=
  match he_call e, he_late e with
  | HTxHash f c, OBytes b => list_eqb (expand b) (Hf (serialize f (x_tx c)))
  | HTxHash _ _, _ => false
  | _, _ => true
  end.
Definition hentry_ok (Hf : list N -> list N) (e : hentry) : bool :=
  hres_eqb (x_ores (he_late e)) (x_ores (he_now e)) && he_input_kept e && late_roundtrip e
  && hash_is_digest Hf e.
Definition hspec_ok (Hf : list N -> list N) (h : list hentry) : bool := forallb (hentry_ok Hf) h.
Definition hentry_agree (Hf : list N -> list N) (e : hentry) : bool :=
  let r := call_result Hf (x_call (he_call e)) in
  hres_eqb (x_ores (he_now e)) r && hres_eqb (x_ores (he_late e)) r.
Definition hagree_with (Hf : list N -> list N) (h : list hentry) : bool := forallb (hentry_agree Hf) h.

Definition ctx_bytes_ok (c : ctx) : bool :=
  let t := x_tx c in
  forallb (fun ti => bytes_ok (ti_hash ti) && bytes_ok (ti_script ti)
                     && forallb bytes_ok (ti_witness ti)) (tx_ins t)
  && forallb (fun o => bytes_ok (to_script o)) (tx_outs t).
Definition hcall_wf (c : hcall) : bool :=
  match c with
  | HSerialize _ t | HPart _ t | HTxHash _ t => ctx_bytes_ok t
  | HDeserialize b | HToVarLen b | HFromVarLen b | HHdrDeserialize b
  | HHashHex b _ | HNewHash b _ | HNewHashStr b _ => bytes_ok (expand b)
  | HWriteCompact v => v <? two64
  | HHdrSerialize h => bytes_ok (expand (hc_prev h)) && bytes_ok (expand (hc_merkle h))
  end.

Inductive case :=
(* a history of calls on the long-lived objects of one caller: [sha] = the double SHA-256 table *)
| CHist (sha : list (list chunk * list chunk)) (h : list hentry)
| CTx (c : tx_case)
(* arbitrary bytes: Deserialize *)
| CRaw (raw : list chunk) (d : otx)
(* writeCompactSizeUint v, then readCompactSizeUint of (written ++ tail) *)
| CCompactW (v : N) (tail : list chunk) (w : obytes) (r : ocs)
(* readCompactSizeUint raw; when it succeeds, writeCompactSizeUint of the value read *)
| CCompactR (raw : list chunk) (r : ocs) (w : obytes)
(* NewHashFromString s o = h; then h.Hex(o), h.Hex(other), NewHashFromString(h.Hex(other), other),
   NewHash(hex-decoded s, o) *)
| CHash (str : string) (o : byte_order) (h : option obytes)
        (hex_same hex_other : option obytes) (back : option obytes) (from_bytes : option obytes)
(* header -> Serialize -> Deserialize *)
| CHeader (hc : chdr) (ser : obytes) (back : ohdr)
(* 80 raw bytes -> Deserialize -> Serialize *)
| CHeaderRaw (raw : list chunk) (h : ohdr) (ser : obytes)
(* script -> ToVarLenData -> NewScriptFromVarLenData *)
| CScript (s : list chunk) (v : obytes) (back : option obytes)
(* raw -> NewScriptFromVarLenData; when it succeeds, ToVarLenData of the result *)
| CScriptRaw (raw : list chunk) (s : option obytes) (v : option obytes).

Definition other_order (o : byte_order) := match o with InternalOrder => ReversedOrder | ReversedOrder => InternalOrder end.
Definition ocs_is (o : ocs) (r : option (N * N)) : bool :=
  match o, r with
  | COk v s, Some (v', s') => (v =? v') && (s =? s')
  | CErr, None => true
  | _, _ => false
  end.
Definition ohdr_is (o : ohdr) (h : header) : bool :=
  match o with HOk h' => header_eqb (x_hdr h') h | HPanic => false end.

(* ---- the property in executable form, on the implementation's outputs only ---- *)
Definition spec_tx (c : tx_case) : bool :=
  let t := x_tx (tc_tx c) in
  (* outside the guards (or without inputs) the property claims nothing *)
  if negb (tx_wf t) || is_nil (tx_ins t) then true else
  (* round trip in both formats *)
  otx_is (tc_deser_wit c) (Some t) && otx_is (tc_deser_std c) (Some (strip_witness t))
  (* the parts are the corresponding parts of the whole *)
  && match tc_ser_std c, tc_version c, tc_inputs c, tc_outputs c, tc_locktime c with
     | OB s, OB v, OB i, OB o, OB l =>
         list_eqb (expand s) (expand v ++ expand i ++ expand o ++ expand l)
         && (length (expand v) =? 4)%nat && (length (expand l) =? 4)%nat
     | _, _, _, _, _ => false
     end
  (* hash ignores witness data *)
  && tc_hash_is_std c && tc_whash_is_wit c && tc_hash_same c.

Definition spec_ok (c : case) : bool :=
  match c with
  | CHist sha h => hspec_ok (sha_of sha) h
  | CTx c => spec_tx c
  | CRaw _ d => true        (* the property is silent about arbitrary bytes *)
  | CCompactW v tail w r =>
      if two64 <=? v then true else
      match w with
      | OB wb => ocs_is r (Some (v, len (expand wb)))
      | OPanic => false
      end
  | CCompactR raw r w =>
      match r with
      | COk v s => ob_is w (firstn (N.to_nat s) (expand raw))   (* canonical: re-encoding gives the bytes read *)
      | _ => true
      end
  | CHash str o h hex_same hex_other back from_bytes =>
      let s := codes str in
      match h with
      | Some (OB hb) =>
          oopt_is hex_same (Some (map lower_char s))      (* Hex(NewHashFromString(s,o),o) = s *)
          && oopt_is back (Some (expand hb))              (* NewHashFromString(h.Hex(o'),o') = h *)
      | _ => true
      end
  | CHeader hc ser back =>
      let h := x_hdr hc in
      if negb (header_wf h) then true else
      ohdr_is back h && match ser with OB b => (length (expand b) =? 80)%nat | OPanic => false end
  | CHeaderRaw raw h ser =>
      if negb ((length (expand raw) =? 80)%nat && bytes_ok (expand raw)) then true else
      ob_is ser (expand raw)
  | CScript s v back =>
      if negb (bytes_ok (expand s)) then true else oopt_is back (Some (expand s))
  | CScriptRaw raw s v =>
      match s with
      | Some (OB _) => oopt_is v (Some (expand raw))   (* canonical: re-encoding gives the input *)
      | _ => true
      end
  end.

(* ---- model vs implementation ---- *)
Definition agree_tx (c : tx_case) : bool :=
  let t := x_tx (tc_tx c) in
  let s := serialize Standard t in
  let w := serialize Witness t in
  ob_is (tc_ser_std c) s && ob_is (tc_ser_wit c) w
  && ob_is (tc_version c) (ser_version t) && ob_is (tc_locktime c) (ser_locktime t)
  && ob_is_opt (tc_inputs c) (serialize_inputs t) && ob_is_opt (tc_outputs c) (serialize_outputs t)
  && otx_is (tc_deser_std c) (deserialize s) && otx_is (tc_deser_wit c) (deserialize w).

Definition agree (c : case) : bool :=
  match c with
  | CHist sha h => hagree_with (sha_of sha) h
  | CTx c => agree_tx c
  | CRaw raw d => otx_is d (deserialize (expand raw))
  | CCompactW v tail w r =>
      ob_is w (write_compact_size_uint v)
      && ocs_is r (read_compact_size_uint (write_compact_size_uint v ++ expand tail))
  | CCompactR raw r w =>
      ocs_is r (read_compact_size_uint (expand raw))
      && match read_compact_size_uint (expand raw) with
         | Some (v, _) => ob_is w (write_compact_size_uint v)
         | None => true
         end
  | CHash str o h hex_same hex_other back from_bytes =>
      let s := codes str in
      let mh := new_hash_from_string s o in
      oopt_is h mh
      && match mh with
         | Some hb =>
             oopt_is hex_same (Some (hash_hex hb o))
             && oopt_is hex_other (Some (hash_hex hb (other_order o)))
             && oopt_is back (new_hash_from_string (hash_hex hb (other_order o)) (other_order o))
             && oopt_is from_bytes (match hex_decode s with Some b => new_hash b o | None => None end)
         | None => true
         end
  | CHeader hc ser back =>
      let h := x_hdr hc in
      if negb (header_wf h) then true else
      ob_is ser (header_serialize h) && ohdr_is back (header_deserialize (header_serialize h))
  | CHeaderRaw raw h ser =>
      ohdr_is h (header_deserialize (expand raw))
      && ob_is ser (header_serialize (header_deserialize (expand raw)))
  | CScript s v back =>
      ob_is v (script_to_var_len (expand s))
      && oopt_is back (script_from_var_len (script_to_var_len (expand s)))
  | CScriptRaw raw s v =>
      oopt_is s (script_from_var_len (expand raw))
      && match script_from_var_len (expand raw) with
         | Some sc => oopt_is v (Some (script_to_var_len sc))
         | None => true
         end
  end.

Definition well_formed (c : case) : bool :=
  match c with
  | CHist sha h =>
      forallb (fun pd => bytes_ok (expand (fst pd)) && bytes_ok (expand (snd pd))) sha
      && forallb (fun e => hcall_wf (he_call e)) h
  | CTx c => ctx_bytes_ok (tc_tx c)
  | CRaw raw _ => bytes_ok (expand raw)
  | CCompactW _ tail _ _ => bytes_ok (expand tail)
  | CCompactR raw _ _ => bytes_ok (expand raw)
  | CHash s _ _ _ _ _ _ => bytes_ok (codes s)
  | CHeader _ _ _ => true
  | CHeaderRaw raw _ _ => bytes_ok (expand raw)
  | CScript s _ _ => bytes_ok (expand s)
  | CScriptRaw raw _ _ => bytes_ok (expand raw)
  end.

Definition judge (c : case) : verdict :=
  if negb (well_formed c) then BadCase else decide (spec_ok c) (agree c).

(* what --replay prints: the model's own outputs for the case *)
Inductive explained :=
| XTx (std wit : list N) (ins outs : option (list N)) (dstd dwit : option tx)
| XRaw (d : option tx)
| XCompact (w : list N) (r : option (N * N))
| XHash (h : option (list N)) (hex_same hex_other : option (list N))
| XHeader (ser : list N) (h : header)
| XScript (v : list N) (s : option (list N))
| XHist (results : list hres).
Definition explain (c : case) : explained :=
  match c with
  | CHist sha h => XHist (run_history (sha_of sha) (map (fun e => x_call (he_call e)) h))
  | CTx c => let t := x_tx (tc_tx c) in
             XTx (serialize Standard t) (serialize Witness t) (serialize_inputs t) (serialize_outputs t)
                 (deserialize (serialize Standard t)) (deserialize (serialize Witness t))
  | CRaw raw _ => XRaw (deserialize (expand raw))
  | CCompactW v tail _ _ => XCompact (cs_encode v) (read_compact_size_uint (cs_encode v ++ expand tail))
  | CCompactR raw _ _ => XCompact [] (read_compact_size_uint (expand raw))
  | CHash s o _ _ _ _ _ =>
      let mh := new_hash_from_string (codes s) o in
      XHash mh (option_map (fun h => hash_hex h o) mh) (option_map (fun h => hash_hex h (other_order o)) mh)
  | CHeader hc _ _ => let h := x_hdr hc in XHeader (header_serialize h) (header_deserialize (header_serialize h))
  | CHeaderRaw raw _ _ => XHeader (header_serialize (header_deserialize (expand raw))) (header_deserialize (expand raw))
  | CScript s _ _ => XScript (script_to_var_len (expand s)) (script_from_var_len (script_to_var_len (expand s)))
  | CScriptRaw raw _ _ => XScript [] (script_from_var_len (expand raw))
  end.
