(* C41 — ephemeral ECDH channels (pkg/crypto/ephemeral).
   Two layers:
   (1) an ABSTRACT model of the glue (Section Glue): a cyclic group with a scalar action, a key
       derivation function and an authenticated cipher, all Section variables — the theorems
       in Proofs/C41.v are about this layer and carry the primitives' assumed behaviour as
       visible premises;
   (2) a CONCRETE executable model of the secp256k1 arithmetic the Go code delegates to btcec
       (Jacobian coordinates over Z mod p), used by the per-run correspondence to predict the
       public keys, the ECDH shared x-coordinate and the outcome of IsKeyMatching. *)
From Coq Require Import ZArith List Bool.
From Bignums Require Import BigZ.
From KV Require Import Common.Verdict.
Import ListNotations.
Open Scope Z_scope.

(* ------------------------------------------------------------------ (1) abstract glue *)
Section Glue.
  Variable G : Type.                       (* curve points *)
  Variable smul : Z -> G -> G.             (* scalar multiplication *)
  Variable gen : G.                        (* base point *)
  Variable G_eqb : G -> G -> bool.
  Variable key : Type.
  Variable kdf : G -> key.                 (* sha256 of the shared x-coordinate *)
  Variable plaintext ciphertext nonce : Type.
  Variable seal : key -> nonce -> plaintext -> ciphertext.   (* secretbox.Seal, nonce prepended *)
  Variable open : key -> ciphertext -> option plaintext.     (* secretbox.Open; None = rejected *)

  Definition public_of (priv : Z) : G := smul priv gen.                 (* key pair generation *)
  Definition is_key_matching (pub : G) (priv : Z) : bool := G_eqb (smul priv gen) pub.
  Definition ecdh (priv : Z) (pub : G) : key := kdf (smul priv pub).
  Definition encrypt (k : key) (n : nonce) (m : plaintext) : ciphertext := seal k n m.
  Definition decrypt (k : key) (c : ciphertext) : option plaintext := open k c.
End Glue.

(* ------------------------------------------------------------------ (2) secp256k1 *)
Definition P : Z := 115792089237316195423570985008687907853269984665640564039457584007908834671663.
Definition Nord : Z := 115792089237316195423570985008687907852837564279074904382605163141518161494337.
Definition Gx : Z := 55066263022277343669578718895168534326250603453777594175500187360389116729240.
Definition Gy : Z := 32670510020758816978083085130507043184471273380659243275938904335757337482424.

(* The arithmetic is evaluated over Bignums' BigZ (native 63-bit limbs): plain Z needs ~20 s per
   256-bit scalar multiplication under vm_compute, BigZ a few tens of ms.  This layer is used
   only by [judge]; no theorem is stated about it. *)
Local Open Scope bigZ_scope.
Definition Pb : bigZ := BigZ.of_Z P.
Definition fm (x : bigZ) : bigZ := BigZ.modulo x Pb.
(* Jacobian point (X, Y, Z); Z = 0 is the point at infinity *)
Definition jpoint := (bigZ * bigZ * bigZ)%type.
Definition jinf : jpoint := (1, 1, 0).
Definition is0 (x : bigZ) : bool := BigZ.eqb x 0.

Definition jdouble (p : jpoint) : jpoint :=
  let '(x1, y1, z1) := p in
  if is0 z1 || is0 y1 then jinf else
  let a := fm (x1 * x1) in
  let b := fm (y1 * y1) in
  let c := fm (b * b) in
  let xb := fm (x1 + b) in
  let d := fm (2 * (fm (xb * xb) - a - c)) in
  let e := fm (3 * a) in
  let f := fm (e * e) in
  let x3 := fm (f - 2 * d) in
  let y3 := fm (e * (d - x3) - 8 * c) in
  let z3 := fm (2 * y1 * z1) in
  (x3, y3, z3).

Definition jadd (p q : jpoint) : jpoint :=
  let '(x1, y1, z1) := p in
  let '(x2, y2, z2) := q in
  if is0 z1 then q else if is0 z2 then p else
  let z1z1 := fm (z1 * z1) in
  let z2z2 := fm (z2 * z2) in
  let u1 := fm (x1 * z2z2) in
  let u2 := fm (x2 * z1z1) in
  let s1 := fm (fm (y1 * z2) * z2z2) in
  let s2 := fm (fm (y2 * z1) * z1z1) in
  if BigZ.eqb u1 u2 then (if BigZ.eqb s1 s2 then jdouble p else jinf) else
  let h := fm (u2 - u1) in
  let i := fm (4 * h * h) in
  let j := fm (h * i) in
  let r := fm (2 * (s2 - s1)) in
  let v := fm (u1 * i) in
  let x3 := fm (r * r - j - 2 * v) in
  let y3 := fm (r * (v - x3) - 2 * fm (s1 * j)) in
  let zs := fm (z1 + z2) in
  let z3 := fm ((fm (zs * zs) - z1z1 - z2z2) * h) in
  (x3, y3, z3).

Fixpoint jmul_pos (k : positive) (p : jpoint) : jpoint :=
  match k with
  | xH => p
  | xO k' => jdouble (jmul_pos k' p)
  | xI k' => jadd (jdouble (jmul_pos k' p)) p
  end.

(* extended Euclid on fuel: inverse of a modulo m (0 when not invertible) *)
Fixpoint egcd (fuel : nat) (r0 r1 s0 s1 : bigZ) : bigZ :=
  match fuel with
  | O => 0
  | S f => if is0 r1 then (if BigZ.eqb r0 1 then s0 else 0)
           else let q := BigZ.div r0 r1 in egcd f r1 (r0 - q * r1) s1 (s0 - q * s1)
  end.
Definition finv (a : bigZ) : bigZ := fm (egcd 800 Pb (fm a) 0 1).
Local Close Scope bigZ_scope.

(* affine point: None = infinity *)
Definition affine := option (Z * Z).
Definition to_affine (p : jpoint) : affine :=
  let '(x, y, z) := p in
  if is0 z then None else
  let zi := finv z in
  let zi2 := fm (BigZ.mul zi zi) in
  Some (BigZ.to_Z (fm (BigZ.mul x zi2)), BigZ.to_Z (fm (BigZ.mul y (fm (BigZ.mul zi2 zi))))).
Definition of_affine (a : affine) : jpoint :=
  match a with None => jinf | Some (x, y) => (BigZ.of_Z x, BigZ.of_Z y, BigZ.one) end.

(* k·Q for an arbitrary non-negative integer k (btcec reduces the scalar modulo the group order) *)
Definition smul_c (k : Z) (q : affine) : affine :=
  match k mod Nord with
  | Zpos kp => to_affine (jmul_pos kp (of_affine q))
  | _ => None
  end.
Definition G_c : affine := Some (Gx, Gy).

Definition affine_eqb (a b : affine) : bool :=
  match a, b with
  | None, None => true
  | Some (x1, y1), Some (x2, y2) => (x1 =? x2) && (y1 =? y2)
  | _, _ => false
  end.
Definition on_curve (a : affine) : bool :=
  match a with None => true | Some (x, y) => (y * y) mod P =? (x * x * x + 7) mod P end.

(* IsKeyMatching: ScalarBaseMult(priv) compared coordinate-wise with the public key; btcec
   represents the point at infinity as (0,0) *)
Definition is_key_matching_c (pub : Z * Z) (priv : Z) : bool :=
  match smul_c priv G_c with
  | Some (x, y) => (x =? fst pub) && (y =? snd pub)
  | None => (fst pub =? 0) && (snd pub =? 0)
  end.

(* ------------------------------------------------------------------ cases *)
(* One case = one pair of key pairs (a, A) (b, B) generated/unmarshalled by the Go code and what
   was observed when using them. *)
Record case := {
  c_a : Z; c_b : Z;                      (* private scalars as the Go keys hold them *)
  c_pubA : Z * Z; c_pubB : Z * Z;        (* public keys as the Go code derived them *)
  c_shared_x : Z;                        (* x-coordinate behind A's symmetric key (validated in Go
                                            by decrypting with an independently built box) *)
  c_same_key : bool;                     (* B decrypts what A encrypted, and vice versa *)
  c_roundtrip : bool;                    (* decrypt (encrypt m) = m for every generated plaintext *)
  c_tampered_accepted : N;               (* number of modified ciphertexts that were accepted *)
  c_tampered_tried : N;
  c_wrongkey_accepted : N;               (* number of decryptions under a different key accepted *)
  c_wrongkey_tried : N;
  c_matching : list (bool * Z * bool)    (* (use pubA?, revealed private scalar, IsKeyMatching result) *)
}.

Definition matching_ok (c : case) (m : bool * Z * bool) : bool :=
  let '(useA, priv, observed) := m in
  Bool.eqb observed (is_key_matching_c (if useA then c_pubA c else c_pubB c) priv).

(* the property on the implementation's observable *)
Definition spec_ok (c : case) : bool :=
  c_same_key c && c_roundtrip c
  && N.eqb (c_tampered_accepted c) 0 && N.eqb (c_wrongkey_accepted c) 0
  && forallb (matching_ok c) (c_matching c).

Definition agree (c : case) : bool :=
  affine_eqb (smul_c (c_a c) G_c) (Some (c_pubA c))
  && affine_eqb (smul_c (c_b c) G_c) (Some (c_pubB c))
  && match smul_c (c_a c) (Some (c_pubB c)), smul_c (c_b c) (Some (c_pubA c)) with
     | Some (x1, _), Some (x2, _) => (x1 =? c_shared_x c) && (x2 =? c_shared_x c)
     | _, _ => false
     end.

Definition judge (c : case) : verdict :=
  if negb (on_curve (Some (c_pubA c)) && on_curve (Some (c_pubB c))) then BadCase
  else decide (spec_ok c) (agree c).

Definition explain (c : case) :=
  (smul_c (c_a c) G_c, smul_c (c_b c) G_c, smul_c (c_a c) (Some (c_pubB c)),
   map (fun m : bool * Z * bool => let '(useA, priv, _) := m in
          is_key_matching_c (if useA then c_pubA c else c_pubB c) priv) (c_matching c)).

(* what the driver emits when the implementation panicked on the case *)
Definition panic_case : case :=
  {| c_a := 1; c_b := 1; c_pubA := (Gx, Gy); c_pubB := (Gx, Gy); c_shared_x := Gx;
     c_same_key := false; c_roundtrip := false; c_tampered_accepted := 0; c_tampered_tried := 0;
     c_wrongkey_accepted := 0; c_wrongkey_tried := 0; c_matching := [] |}.
