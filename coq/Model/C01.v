(* C01 / C02 — symbolic executable model of the beacon GJKR distributed key generation as it is
   written in pkg/beacon/gjkr/{protocol,states,message_filter,evidence_log}.go and
   pkg/protocol/group/{group,message_filter}.go.

   Cryptography is symbolic (DESIGN.md Appendix A):
     scalars            Z, reduced mod the group order [q] by every operation
     G1 commitments     pairs (a,b) standing for a*G + b*H, the discrete log of H unknown
                        (two commitments are equal iff their pairs are equal)
     G2 points          their discrete logarithm w.r.t. the G2 generator
     ephemeral keys     an identifier; a public key and its private key carry the same id,
                        IsKeyMatching is equality, Ecdh is the unordered pair of the two ids
     ciphertexts        [Enc key s t] (both shares, encrypted under [key]) or [Garbage]
                        (decrypts under no key)
   Go maps are association lists with distinct keys; where the code ranges over a map the model
   ranges over the list in the order given (the driver emits ascending keys; Proofs/C01 shows
   where the order is irrelevant).  A fatal error returned by a state's Initiate and a nil
   dereference are both [failed := true]: the member stops and sends nothing any more.

   No proofs in this file. *)
From Coq Require Import ZArith NArith List Bool.
From KV Require Import Common.Verdict.
Import ListNotations.
Open Scope N_scope.

Definition ekey := N.
Definition symkey := (ekey * ekey)%type.
Definition ecdh (a b : ekey) : symkey := if N.leb a b then (a, b) else (b, a).
Inductive cipher := Enc (k : symkey) (s t : Z) | Garbage.
Definition g1 := (Z * Z)%type.
Definition g2 := Z.

(* messages exactly as message.go *)
Inductive msg :=
| EphPub  (sender : N) (sess : N) (keys : list (N * ekey))
| Shares  (sender : N) (sess : N) (sh : list (N * cipher))
| Commits (sender : N) (sess : N) (cs : list g1)
| SAccuse (sender : N) (sess : N) (acc : list (N * ekey))
| Points  (sender : N) (sess : N) (ps : list g2)
| PAccuse (sender : N) (sess : N) (acc : list (N * ekey))
| Reveal  (sender : N) (sess : N) (ks : list (N * ekey)).
(* [from_key]: the network (operator) key that published the message *)
Record netmsg := { payload : msg; from_key : N }.

Record cfg := { q : Z; gn : N; gt : N; csess : N;
                ops : list N (* ops[i-1] = operator key of seat i *) }.

(* ---------- association lists ---------- *)
Fixpoint lookup {A} (k : N) (l : list (N * A)) : option A :=
  match l with
  | [] => None
  | (k', v) :: r => if N.eqb k k' then Some v else lookup k r
  end.
Definition haskey {A} (k : N) (l : list (N * A)) : bool :=
  match lookup k l with Some _ => true | None => false end.
Fixpoint put {A} (k : N) (v : A) (l : list (N * A)) : list (N * A) :=
  match l with
  | [] => [(k, v)]
  | (k', v') :: r => if N.eqb k k' then (k, v) :: r else (k', v') :: put k v r
  end.
Definition remove {A} (k : N) (l : list (N * A)) : list (N * A) :=
  filter (fun p => negb (N.eqb (fst p) k)) l.
Definition memN (x : N) (l : list N) : bool := existsb (N.eqb x) l.

(* deduplicateBySender: the first item of every sender, in order *)
Fixpoint dedup_from {A} (seen : list N) (l : list (N * A)) : list (N * A) :=
  match l with
  | [] => []
  | (s, v) :: r => if memN s seen then dedup_from seen r else (s, v) :: dedup_from (s :: seen) r
  end.
Definition dedup {A} (l : list (N * A)) : list (N * A) := dedup_from [] l.

(* ---------- arithmetic ---------- *)
(* evaluateMemberShare: result = (result + a_k * x^k) mod q for k = 0.. *)
Fixpoint eval_from (q x : Z) (k : nat) (coefs : list Z) (acc : Z) : Z :=
  match coefs with
  | [] => acc
  | a :: r => eval_from q x (S k) r ((acc + a * x ^ Z.of_nat k) mod q)%Z
  end.
Definition eval (q : Z) (coefs : list Z) (x : N) : Z := eval_from q (Z.of_N x) 0 coefs 0%Z.

(* areSharesValidAgainstCommitments: G*s + H*t == sum_k C_k * i^k, as equality of (a,b) pairs *)
Definition valid_g1 (q : Z) (s t : Z) (cs : list g1) (i : N) : bool :=
  match cs with
  | [] => false
  | _ => Z.eqb (s mod q) (eval q (map fst cs) i) && Z.eqb (t mod q) (eval q (map snd cs) i)
  end.
(* isShareValidAgainstPublicKeySharePoints: G2*s == sum_k A_k * i^k *)
Definition valid_g2 (q : Z) (i : N) (s : Z) (ps : list g2) : bool :=
  match ps with
  | [] => false
  | _ => Z.eqb (s mod q) (eval q ps i)
  end.

(* big.Int.ModInverse by the extended Euclidean algorithm *)
Fixpoint inv_loop (fuel : nat) (r0 r1 t0 t1 : Z) : Z :=
  match fuel with
  | O => 0%Z
  | S f => if Z.eqb r1 0 then t0
           else let d := (r0 / r1)%Z in inv_loop f r1 (r0 - d * r1)%Z t1 (t0 - d * t1)%Z
  end.
Definition inv_mod (q a : Z) : Z :=
  (inv_loop (S (S (2 * Z.to_nat (Z.log2_up q)))) q (a mod q) 0 1 mod q)%Z.

(* calculateLagrangeCoefficient: prod over l <> k of l / (l - k) *)
Definition lagrange_coeff (q : Z) (k : N) (ids : list N) : Z :=
  fold_left (fun acc l => if N.eqb l k then acc else
               (acc * ((Z.of_N l * inv_mod q (Z.of_N l - Z.of_N k)) mod q) mod q)%Z)
            ids 1%Z.
(* reconstructIndividualPrivateKeys for one misbehaved member: sum_k s_k * lambda_k *)
Definition interpolate0 (q : Z) (pts : list (N * Z)) : Z :=
  let ids := map fst pts in
  fold_left (fun acc p => ((acc + snd p * lagrange_coeff q (fst p) ids) mod q)%Z) pts 0%Z.

Record mstate := mkst {
  me : N;
  ia : list N;
  dq : list N;
  sym : list (N * symkey);
  log_eph : list (N * list (N * ekey));
  log_sh : list (N * list (N * cipher));
  coefA : list Z;
  coefB : list Z;
  selfS : Z;
  qualS : list (N * Z);
  commits : list (N * list g1);
  share : Z;
  points : list g2;
  validPts : list (N * list g2);
  expect : list N;
  revealed : list (N * list (N * Z));
  reconPriv : list (N * Z);
  gkey : g2;
  pubsh : list (N * g2);
  failed : bool;
  in_eph : list (N * list (N * ekey));
  in_sh : list (N * list (N * cipher));
  in_cm : list (N * list g1);
  in_sacc : list (N * list (N * ekey));
  in_pts : list (N * list g2);
  in_pacc : list (N * list (N * ekey));
  in_rev : list (N * list (N * ekey))
}.
Definition set_ia (v : list N) (s : mstate) : mstate :=
  mkst (me s) v (dq s) (sym s) (log_eph s) (log_sh s) (coefA s) (coefB s) (selfS s) (qualS s) (commits s) (share s) (points s) (validPts s) (expect s) (revealed s) (reconPriv s) (gkey s) (pubsh s) (failed s) (in_eph s) (in_sh s) (in_cm s) (in_sacc s) (in_pts s) (in_pacc s) (in_rev s).
Definition set_dq (v : list N) (s : mstate) : mstate :=
  mkst (me s) (ia s) v (sym s) (log_eph s) (log_sh s) (coefA s) (coefB s) (selfS s) (qualS s) (commits s) (share s) (points s) (validPts s) (expect s) (revealed s) (reconPriv s) (gkey s) (pubsh s) (failed s) (in_eph s) (in_sh s) (in_cm s) (in_sacc s) (in_pts s) (in_pacc s) (in_rev s).
Definition set_sym (v : list (N * symkey)) (s : mstate) : mstate :=
  mkst (me s) (ia s) (dq s) v (log_eph s) (log_sh s) (coefA s) (coefB s) (selfS s) (qualS s) (commits s) (share s) (points s) (validPts s) (expect s) (revealed s) (reconPriv s) (gkey s) (pubsh s) (failed s) (in_eph s) (in_sh s) (in_cm s) (in_sacc s) (in_pts s) (in_pacc s) (in_rev s).
Definition set_log_eph (v : list (N * list (N * ekey))) (s : mstate) : mstate :=
  mkst (me s) (ia s) (dq s) (sym s) v (log_sh s) (coefA s) (coefB s) (selfS s) (qualS s) (commits s) (share s) (points s) (validPts s) (expect s) (revealed s) (reconPriv s) (gkey s) (pubsh s) (failed s) (in_eph s) (in_sh s) (in_cm s) (in_sacc s) (in_pts s) (in_pacc s) (in_rev s).
Definition set_log_sh (v : list (N * list (N * cipher))) (s : mstate) : mstate :=
  mkst (me s) (ia s) (dq s) (sym s) (log_eph s) v (coefA s) (coefB s) (selfS s) (qualS s) (commits s) (share s) (points s) (validPts s) (expect s) (revealed s) (reconPriv s) (gkey s) (pubsh s) (failed s) (in_eph s) (in_sh s) (in_cm s) (in_sacc s) (in_pts s) (in_pacc s) (in_rev s).
Definition set_coefA (v : list Z) (s : mstate) : mstate :=
  mkst (me s) (ia s) (dq s) (sym s) (log_eph s) (log_sh s) v (coefB s) (selfS s) (qualS s) (commits s) (share s) (points s) (validPts s) (expect s) (revealed s) (reconPriv s) (gkey s) (pubsh s) (failed s) (in_eph s) (in_sh s) (in_cm s) (in_sacc s) (in_pts s) (in_pacc s) (in_rev s).
Definition set_coefB (v : list Z) (s : mstate) : mstate :=
  mkst (me s) (ia s) (dq s) (sym s) (log_eph s) (log_sh s) (coefA s) v (selfS s) (qualS s) (commits s) (share s) (points s) (validPts s) (expect s) (revealed s) (reconPriv s) (gkey s) (pubsh s) (failed s) (in_eph s) (in_sh s) (in_cm s) (in_sacc s) (in_pts s) (in_pacc s) (in_rev s).
Definition set_selfS (v : Z) (s : mstate) : mstate :=
  mkst (me s) (ia s) (dq s) (sym s) (log_eph s) (log_sh s) (coefA s) (coefB s) v (qualS s) (commits s) (share s) (points s) (validPts s) (expect s) (revealed s) (reconPriv s) (gkey s) (pubsh s) (failed s) (in_eph s) (in_sh s) (in_cm s) (in_sacc s) (in_pts s) (in_pacc s) (in_rev s).
Definition set_qualS (v : list (N * Z)) (s : mstate) : mstate :=
  mkst (me s) (ia s) (dq s) (sym s) (log_eph s) (log_sh s) (coefA s) (coefB s) (selfS s) v (commits s) (share s) (points s) (validPts s) (expect s) (revealed s) (reconPriv s) (gkey s) (pubsh s) (failed s) (in_eph s) (in_sh s) (in_cm s) (in_sacc s) (in_pts s) (in_pacc s) (in_rev s).
Definition set_commits (v : list (N * list g1)) (s : mstate) : mstate :=
  mkst (me s) (ia s) (dq s) (sym s) (log_eph s) (log_sh s) (coefA s) (coefB s) (selfS s) (qualS s) v (share s) (points s) (validPts s) (expect s) (revealed s) (reconPriv s) (gkey s) (pubsh s) (failed s) (in_eph s) (in_sh s) (in_cm s) (in_sacc s) (in_pts s) (in_pacc s) (in_rev s).
Definition set_share (v : Z) (s : mstate) : mstate :=
  mkst (me s) (ia s) (dq s) (sym s) (log_eph s) (log_sh s) (coefA s) (coefB s) (selfS s) (qualS s) (commits s) v (points s) (validPts s) (expect s) (revealed s) (reconPriv s) (gkey s) (pubsh s) (failed s) (in_eph s) (in_sh s) (in_cm s) (in_sacc s) (in_pts s) (in_pacc s) (in_rev s).
Definition set_points (v : list g2) (s : mstate) : mstate :=
  mkst (me s) (ia s) (dq s) (sym s) (log_eph s) (log_sh s) (coefA s) (coefB s) (selfS s) (qualS s) (commits s) (share s) v (validPts s) (expect s) (revealed s) (reconPriv s) (gkey s) (pubsh s) (failed s) (in_eph s) (in_sh s) (in_cm s) (in_sacc s) (in_pts s) (in_pacc s) (in_rev s).
Definition set_validPts (v : list (N * list g2)) (s : mstate) : mstate :=
  mkst (me s) (ia s) (dq s) (sym s) (log_eph s) (log_sh s) (coefA s) (coefB s) (selfS s) (qualS s) (commits s) (share s) (points s) v (expect s) (revealed s) (reconPriv s) (gkey s) (pubsh s) (failed s) (in_eph s) (in_sh s) (in_cm s) (in_sacc s) (in_pts s) (in_pacc s) (in_rev s).
Definition set_expect (v : list N) (s : mstate) : mstate :=
  mkst (me s) (ia s) (dq s) (sym s) (log_eph s) (log_sh s) (coefA s) (coefB s) (selfS s) (qualS s) (commits s) (share s) (points s) (validPts s) v (revealed s) (reconPriv s) (gkey s) (pubsh s) (failed s) (in_eph s) (in_sh s) (in_cm s) (in_sacc s) (in_pts s) (in_pacc s) (in_rev s).
Definition set_revealed (v : list (N * list (N * Z))) (s : mstate) : mstate :=
  mkst (me s) (ia s) (dq s) (sym s) (log_eph s) (log_sh s) (coefA s) (coefB s) (selfS s) (qualS s) (commits s) (share s) (points s) (validPts s) (expect s) v (reconPriv s) (gkey s) (pubsh s) (failed s) (in_eph s) (in_sh s) (in_cm s) (in_sacc s) (in_pts s) (in_pacc s) (in_rev s).
Definition set_reconPriv (v : list (N * Z)) (s : mstate) : mstate :=
  mkst (me s) (ia s) (dq s) (sym s) (log_eph s) (log_sh s) (coefA s) (coefB s) (selfS s) (qualS s) (commits s) (share s) (points s) (validPts s) (expect s) (revealed s) v (gkey s) (pubsh s) (failed s) (in_eph s) (in_sh s) (in_cm s) (in_sacc s) (in_pts s) (in_pacc s) (in_rev s).
Definition set_gkey (v : g2) (s : mstate) : mstate :=
  mkst (me s) (ia s) (dq s) (sym s) (log_eph s) (log_sh s) (coefA s) (coefB s) (selfS s) (qualS s) (commits s) (share s) (points s) (validPts s) (expect s) (revealed s) (reconPriv s) v (pubsh s) (failed s) (in_eph s) (in_sh s) (in_cm s) (in_sacc s) (in_pts s) (in_pacc s) (in_rev s).
Definition set_pubsh (v : list (N * g2)) (s : mstate) : mstate :=
  mkst (me s) (ia s) (dq s) (sym s) (log_eph s) (log_sh s) (coefA s) (coefB s) (selfS s) (qualS s) (commits s) (share s) (points s) (validPts s) (expect s) (revealed s) (reconPriv s) (gkey s) v (failed s) (in_eph s) (in_sh s) (in_cm s) (in_sacc s) (in_pts s) (in_pacc s) (in_rev s).
Definition set_failed (v : bool) (s : mstate) : mstate :=
  mkst (me s) (ia s) (dq s) (sym s) (log_eph s) (log_sh s) (coefA s) (coefB s) (selfS s) (qualS s) (commits s) (share s) (points s) (validPts s) (expect s) (revealed s) (reconPriv s) (gkey s) (pubsh s) v (in_eph s) (in_sh s) (in_cm s) (in_sacc s) (in_pts s) (in_pacc s) (in_rev s).
Definition set_in_eph (v : list (N * list (N * ekey))) (s : mstate) : mstate :=
  mkst (me s) (ia s) (dq s) (sym s) (log_eph s) (log_sh s) (coefA s) (coefB s) (selfS s) (qualS s) (commits s) (share s) (points s) (validPts s) (expect s) (revealed s) (reconPriv s) (gkey s) (pubsh s) (failed s) v (in_sh s) (in_cm s) (in_sacc s) (in_pts s) (in_pacc s) (in_rev s).
Definition set_in_sh (v : list (N * list (N * cipher))) (s : mstate) : mstate :=
  mkst (me s) (ia s) (dq s) (sym s) (log_eph s) (log_sh s) (coefA s) (coefB s) (selfS s) (qualS s) (commits s) (share s) (points s) (validPts s) (expect s) (revealed s) (reconPriv s) (gkey s) (pubsh s) (failed s) (in_eph s) v (in_cm s) (in_sacc s) (in_pts s) (in_pacc s) (in_rev s).
Definition set_in_cm (v : list (N * list g1)) (s : mstate) : mstate :=
  mkst (me s) (ia s) (dq s) (sym s) (log_eph s) (log_sh s) (coefA s) (coefB s) (selfS s) (qualS s) (commits s) (share s) (points s) (validPts s) (expect s) (revealed s) (reconPriv s) (gkey s) (pubsh s) (failed s) (in_eph s) (in_sh s) v (in_sacc s) (in_pts s) (in_pacc s) (in_rev s).
Definition set_in_sacc (v : list (N * list (N * ekey))) (s : mstate) : mstate :=
  mkst (me s) (ia s) (dq s) (sym s) (log_eph s) (log_sh s) (coefA s) (coefB s) (selfS s) (qualS s) (commits s) (share s) (points s) (validPts s) (expect s) (revealed s) (reconPriv s) (gkey s) (pubsh s) (failed s) (in_eph s) (in_sh s) (in_cm s) v (in_pts s) (in_pacc s) (in_rev s).
Definition set_in_pts (v : list (N * list g2)) (s : mstate) : mstate :=
  mkst (me s) (ia s) (dq s) (sym s) (log_eph s) (log_sh s) (coefA s) (coefB s) (selfS s) (qualS s) (commits s) (share s) (points s) (validPts s) (expect s) (revealed s) (reconPriv s) (gkey s) (pubsh s) (failed s) (in_eph s) (in_sh s) (in_cm s) (in_sacc s) v (in_pacc s) (in_rev s).
Definition set_in_pacc (v : list (N * list (N * ekey))) (s : mstate) : mstate :=
  mkst (me s) (ia s) (dq s) (sym s) (log_eph s) (log_sh s) (coefA s) (coefB s) (selfS s) (qualS s) (commits s) (share s) (points s) (validPts s) (expect s) (revealed s) (reconPriv s) (gkey s) (pubsh s) (failed s) (in_eph s) (in_sh s) (in_cm s) (in_sacc s) (in_pts s) v (in_rev s).
Definition set_in_rev (v : list (N * list (N * ekey))) (s : mstate) : mstate :=
  mkst (me s) (ia s) (dq s) (sym s) (log_eph s) (log_sh s) (coefA s) (coefB s) (selfS s) (qualS s) (commits s) (share s) (points s) (validPts s) (expect s) (revealed s) (reconPriv s) (gkey s) (pubsh s) (failed s) (in_eph s) (in_sh s) (in_cm s) (in_sacc s) (in_pts s) (in_pacc s) v.

Section Phases.
  Variable c : cfg.
  Let Q := q c.

  Definition members : list N := map N.of_nat (seq 1 (N.to_nat (gn c))).
  Definition in_group (m : N) : bool := (1 <=? m) && (m <=? gn c).
  Definition tcount : nat := S (N.to_nat (gt c)).          (* DishonestThreshold() + 1 *)

  (* ----- pkg/protocol/group/group.go ----- *)
  Definition is_operating (s : mstate) (m : N) : bool :=
    in_group m && negb (memN m (ia s)) && negb (memN m (dq s)).
  Definition operating (s : mstate) : list N := filter (is_operating s) members.
  Definition mark_dq (m : N) (s : mstate) : mstate :=
    if is_operating s m then set_dq (dq s ++ [m]) s else s.
  Definition mark_ia (m : N) (s : mstate) : mstate :=
    if is_operating s m then set_ia (ia s ++ [m]) s else s.
  Definition fail (s : mstate) : mstate := set_failed true s.

  (* InactiveMemberFilter.FlushInactiveMembers *)
  Definition mark_inactive (active : list N) (s : mstate) : mstate :=
    fold_left (fun s m => if N.eqb m (me s) || memN m active then s else mark_ia m s)
              (operating s) s.

  (* message_filter.go shouldAcceptMessage + session check of every Receive *)
  Definition valid_membership (sender key : N) : bool :=
    if N.eqb sender 0 then false else
    match nth_error (ops c) (N.to_nat (sender - 1)) with
    | Some k => N.eqb k key
    | None => false
    end.
  Definition accepts (s : mstate) (sender sess key : N) : bool :=
    negb (N.eqb sender (me s)) && valid_membership sender key && is_operating s sender
    && N.eqb sess (csess c).

  (* Receive of the state that is current while the phase-[p] messages are published
     (p = 1,3,4,7,8,10); every other payload type is ignored by the type switch *)
  Definition receive (p : N) (s : mstate) (m : netmsg) : mstate :=
    let k := from_key m in
    match p, payload m with
    | 1, EphPub a ss v => if accepts s a ss k then set_in_eph (in_eph s ++ [(a, v)]) s else s
    | 3, Shares a ss v => if accepts s a ss k then set_in_sh (in_sh s ++ [(a, v)]) s else s
    | 3, Commits a ss v => if accepts s a ss k then set_in_cm (in_cm s ++ [(a, v)]) s else s
    | 4, SAccuse a ss v => if accepts s a ss k then set_in_sacc (in_sacc s ++ [(a, v)]) s else s
    | 7, Points a ss v => if accepts s a ss k then set_in_pts (in_pts s ++ [(a, v)]) s else s
    | 8, PAccuse a ss v => if accepts s a ss k then set_in_pacc (in_pacc s ++ [(a, v)]) s else s
    | 10, Reveal a ss v => if accepts s a ss k then set_in_rev (in_rev s ++ [(a, v)]) s else s
    | _, _ => s
    end.

  (* the ephemeral key pair member [i] generates for member [j] *)
  Definition ek (i j : N) : ekey := i * 256 + j.

  (* ----- phase 1: GenerateEphemeralKeyPair ----- *)
  Definition phase1 (s : mstate) : list msg :=
    [EphPub (me s) (csess c)
            (map (fun j => (j, ek (me s) j)) (filter (fun j => negb (N.eqb j (me s))) members))].

  (* ----- phase 2: MarkInactiveMembers + GenerateSymmetricKeys ----- *)
  Definition valid_eph (sender : N) (keys : list (N * ekey)) : bool :=
    forallb (fun m => N.eqb m sender || haskey m keys) members.
  Definition phase2_step (s : mstate) (m : N * list (N * ekey)) : mstate :=
    let '(sender, keys) := m in
    if negb (valid_eph sender keys) then mark_dq sender s else
    let s := set_log_eph (if haskey sender (log_eph s) then log_eph s
                          else log_eph s ++ [(sender, keys)]) s in
    if negb (in_group sender) || N.eqb sender (me s) then fail s   (* no ephemeral key pair *)
    else match lookup (me s) keys with
         | Some pk => set_sym (put sender (ecdh (ek (me s) sender) pk) (sym s)) s
         | None => fail s                                           (* nil public key *)
         end.
  Definition phase2 (s : mstate) : mstate :=
    let s := mark_inactive (map fst (in_eph s)) s in
    fold_left phase2_step (dedup (in_eph s)) s.

  (* ----- phase 3: CalculateMembersSharesAndCommitments ----- *)
  Definition phase3 (s : mstate) : mstate * list msg :=
    let a := coefA s in let b := coefB s in
    let s := set_selfS (eval Q a (me s)) s in
    let sh := flat_map (fun j => if N.eqb j (me s) then [] else
                          match lookup j (sym s) with
                          | Some k => [(j, Enc k (eval Q a j) (eval Q b j))]
                          | None => []
                          end) members in
    (s, [Shares (me s) (csess c) sh; Commits (me s) (csess c) (combine a b)]).

  (* ----- phase 4: MarkInactiveMembers + VerifyReceivedSharesAndCommitmentsMessages ----- *)
  Definition decrypt (sh : list (N * cipher)) (receiver : N) (k : symkey) : option (Z * Z) :=
    match lookup receiver sh with
    | Some (Enc k' s t) => if N.eqb (fst k) (fst k') && N.eqb (snd k) (snd k') then Some (s, t) else None
    | _ => None
    end.
  (* isValidPeerSharesMessage: reads the operating set at the time of the call *)
  Definition valid_shares_msg (s : mstate) (sender : N) (sh : list (N * cipher)) : bool :=
    forallb (fun m => N.eqb m sender || haskey m sh) (operating s).
  (* accumulator: state and the accusations map *)
  Definition phase4_step (dsh : list (N * list (N * cipher)))
             (sa : mstate * list (N * ekey)) (m : N * list g1) : mstate * list (N * ekey) :=
    let '(s, acc) := sa in
    let '(sender, cs) := m in
    if negb (Nat.eqb (length cs) tcount) then (mark_dq sender s, acc) else
    let s := set_commits (put sender cs (commits s)) s in
    match lookup sender dsh with
    | None => (s, acc)
    | Some sh =>
        if negb (valid_shares_msg s sender sh) then (mark_dq sender s, acc) else
        match lookup sender (sym s) with
        | None => (fail s, acc)
        | Some k =>
            match decrypt sh (me s) k with
            | None => (mark_dq sender s, put sender (ek (me s) sender) acc)
            | Some (vs, vt) =>
                if valid_g1 Q vs vt cs (me s) then (set_qualS (put sender vs (qualS s)) s, acc)
                else (mark_dq sender s, put sender (ek (me s) sender) acc)
            end
        end
    end.
  Definition phase4 (s : mstate) : mstate * list msg :=
    let both := filter (fun a => memN a (map fst (in_cm s))) (map fst (in_sh s)) in
    let s := mark_inactive both s in
    let dsh := dedup (in_sh s) in
    let s := set_log_sh (fold_left (fun l m => if haskey (fst m) l then l else l ++ [m]) dsh (log_sh s)) s in
    let '(s, acc) := fold_left (phase4_step dsh) (dedup (in_cm s)) (s, []) in
    (s, [SAccuse (me s) (csess c) acc]).

  (* ----- phase 5: MarkInactiveMembers + ResolveSecretSharesAccusationsMessages ----- *)
  Definition find_pub (s : mstate) (sender receiver : N) : option ekey :=
    match lookup sender (log_eph s) with
    | Some keys => lookup receiver keys
    | None => None
    end.
  Definition discard (m : N) (s : mstate) : mstate := set_qualS (remove m (qualS s)) s.
  Definition dq_discard (m : N) (s : mstate) : mstate := discard m (mark_dq m s).
  (* one accusation; [stop] = the error return that aborts the whole resolution *)
  Definition resolve5 (accuser : N) (sb : mstate * bool) (a : N * ekey) : mstate * bool :=
    let '(s, stop) := sb in
    if stop then sb else
    let '(accused, key) := a in
    if N.eqb (me s) accused || N.eqb accuser accused || negb (in_group accused) then (dq_discard accuser s, false) else
    match find_pub s accuser accused with
    | None => (fail s, true)
    | Some apk =>
        if negb (N.eqb apk key) then (dq_discard accuser s, false) else
        match find_pub s accused accuser with
        | None => (dq_discard accuser s, false)
        | Some dpk =>
            match lookup accused (log_sh s) with
            | None => (dq_discard accuser s, false)
            | Some sh =>
                match decrypt sh accuser (ecdh key dpk) with
                | None => (dq_discard accused s, false)
                | Some (vs, vt) =>
                    let cs := match lookup accused (commits s) with Some l => l | None => [] end in
                    if valid_g1 Q vs vt cs accuser then (dq_discard accuser s, false)
                    else (dq_discard accused s, false)
                end
            end
        end
    end.
  Definition phase5 (s : mstate) : mstate :=
    let s := mark_inactive (map fst (in_sacc s)) s in
    fst (fold_left (fun sb m => fold_left (resolve5 (fst m)) (snd m) sb) (dedup (in_sacc s)) (s, false)).

  (* ----- phase 6: CombineMemberShares ----- *)
  Definition phase6 (s : mstate) : mstate :=
    set_share (fold_left (fun acc p => ((acc + snd p) mod Q)%Z) (qualS s) (selfS s)) s.

  (* ----- phase 7: CalculatePublicKeySharePoints ----- *)
  Definition phase7 (s : mstate) : mstate * list msg :=
    let s := set_points (coefA s) s in
    (s, [Points (me s) (csess c) (points s)]).

  (* ----- phase 8: MarkInactiveMembers + VerifyPublicKeySharePoints ----- *)
  Definition phase8_step (sa : mstate * list (N * ekey)) (m : N * list g2) : mstate * list (N * ekey) :=
    let '(s, acc) := sa in
    let '(sender, ps) := m in
    if negb (Nat.eqb (length ps) tcount) then (mark_dq sender s, acc) else
    match lookup sender (qualS s) with
    | None => (fail s, acc)                                  (* nil share: ScalarBaseMult(nil) *)
    | Some vs =>
        if valid_g2 Q (me s) vs ps then (set_validPts (put sender ps (validPts s)) s, acc)
        else (mark_dq sender s, put sender (ek (me s) sender) acc)
    end.
  Definition phase8 (s : mstate) : mstate * list msg :=
    let s := mark_inactive (map fst (in_pts s)) s in
    let '(s, acc) := fold_left phase8_step (dedup (in_pts s)) (s, []) in
    (s, [PAccuse (me s) (csess c) acc]).

  (* ----- phase 9: MarkInactiveMembers + ResolvePublicKeySharePointsAccusationsMessages ----- *)
  (* the accused is disqualified by a resolved points accusation: its points are dropped
     from receivedValidPeerPublicKeySharePoints (fix commit for C01-a), so that every member
     expects its individual key to be reconstructed *)
  Definition dq_drop_pts (m : N) (s : mstate) : mstate :=
    set_validPts (remove m (validPts s)) (mark_dq m s).
  Definition resolve9 (accuser : N) (sb : mstate * bool) (a : N * ekey) : mstate * bool :=
    let '(s, stop) := sb in
    if stop then sb else
    let '(accused, key) := a in
    if N.eqb (me s) accused || N.eqb accuser accused || negb (in_group accused) then (mark_dq accuser s, false) else
    match find_pub s accuser accused with
    | None => (fail s, true)
    | Some apk =>
        if negb (N.eqb apk key) then (mark_dq accuser s, false) else
        match find_pub s accused accuser with
        | None => (mark_dq accuser s, false)
        | Some dpk =>
            match lookup accused (log_sh s) with
            | None => (mark_dq accuser s, false)
            | Some sh =>
                match decrypt sh accuser (ecdh key dpk) with
                | None => (dq_drop_pts accused (mark_dq accuser s), false)
                | Some (vs, _) =>
                    let ps := match lookup accused (validPts s) with Some l => l | None => [] end in
                    if valid_g2 Q accuser vs ps then (mark_dq accuser s, false)
                    else (dq_drop_pts accused s, false)
                end
            end
        end
    end.
  Definition phase9 (s : mstate) : mstate :=
    let s := mark_inactive (map fst (in_pacc s)) s in
    fst (fold_left (fun sb m => fold_left (resolve9 (fst m)) (snd m) sb) (dedup (in_pacc s)) (s, false)).

  (* ----- phase 10: RevealMisbehavedMembersKeys ----- *)
  Definition needs_reconstruction (s : mstate) (m : N) : bool :=
    haskey m (qualS s) && negb (haskey m (validPts s)).
  Definition phase10 (s : mstate) : mstate * list msg :=
    let ex := filter (needs_reconstruction s) (dq s) ++ filter (needs_reconstruction s) (ia s) in
    let s := set_expect ex s in
    if existsb (fun m => negb (in_group m) || N.eqb m (me s)) ex then (fail s, []) else
    (s, [Reveal (me s) (csess c) (map (fun m => (m, ek (me s) m)) ex)]).

  (* ----- phase 11: MarkInactiveMembers + ReconstructMisbehavedIndividualKeys ----- *)
  (* isValidMisbehavedEphemeralKeysMessage: reads IsOperating at the time of the call *)
  Definition valid_reveal (s : mstate) (ks : list (N * ekey)) : bool :=
    forallb (fun m => haskey m ks) (expect s)
    && negb (existsb (fun p => is_operating s (fst p)) ks).
  Definition add_share (mis revealer : N) (vs : Z) (l : list (N * list (N * Z))) :=
    match lookup mis l with
    | Some sh => put mis (put revealer vs sh) l
    | None => l ++ [(mis, [(revealer, vs)])]
    end.
  Definition recover11 (revealer : N) (sb : mstate * bool) (a : N * ekey) : mstate * bool :=
    let '(s, stop) := sb in
    if stop then sb else
    let '(mis, key) := a in
    if N.eqb (me s) mis then (mark_dq revealer s, false) else
    if is_operating s mis then sb else
    match find_pub s revealer mis with
    | None => (fail s, true)
    | Some rpk =>
        if negb (N.eqb rpk key) then (mark_dq revealer s, false) else
        match find_pub s mis revealer with
        | None => (mark_dq revealer s, false)
        | Some mpk =>
            match lookup mis (log_sh s) with
            | None => (mark_dq revealer s, false)
            | Some sh =>
                match decrypt sh revealer (ecdh key mpk) with
                | None => (mark_dq revealer s, false)
                | Some (vs, vt) =>
                    let cs := match lookup mis (commits s) with Some l => l | None => [] end in
                    if valid_g1 Q vs vt cs revealer
                    then (set_revealed (add_share mis revealer vs (revealed s)) s, false)
                    else (mark_dq revealer s, false)
                end
            end
        end
    end.
  Definition phase11 (s : mstate) : mstate :=
    let s := mark_inactive (map fst (in_rev s)) s in
    let s := fold_left (fun s m => if valid_reveal s (snd m) then s else mark_dq (fst m) s)
                       (dedup (in_rev s)) s in
    (* recoverMisbehavedShares ranges over the NON-deduplicated list *)
    let '(s, stop) := fold_left (fun sb m => fold_left (recover11 (fst m)) (snd m) sb)
                                (in_rev s) (s, false) in
    if stop then s else
    (* revealMisbehavedMembersShares: add the share the member itself holds *)
    let s := fold_left (fun s m => match lookup m (revealed s), lookup m (qualS s) with
                                   | Some sh, Some own => set_revealed (put m (put (me s) own sh) (revealed s)) s
                                   | _, _ => s
                                   end) (expect s) s in
    set_reconPriv (map (fun p => (fst p, interpolate0 Q (snd p))) (revealed s)) s.

  (* ----- phase 12: CombineGroupPublicKey + ComputeGroupPublicKeyShares ----- *)
  Definition head0 (l : list Z) : option Z := match l with x :: _ => Some x | [] => None end.
  Definition pubshare_for (s : mstate) (op : N) : option Z :=
    fold_left (fun acc p =>
                 match acc with None => None | Some sum =>
                   match lookup (fst p) (validPts s) with
                   | Some ps => Some ((sum + eval Q ps op) mod Q)%Z
                   | None => match lookup (fst p) (revealed s) with
                             | Some sh => match lookup op sh with
                                          | Some v => Some ((sum + v) mod Q)%Z
                                          | None => None            (* ScalarBaseMult(nil) *)
                                          end
                             | None => Some sum
                             end
                   end end)
              (qualS s) (Some (eval Q (points s) op)).
  Definition phase12 (s : mstate) : mstate :=
    match head0 (points s) with
    | None => fail s
    | Some own =>
        let k1 := fold_left (fun acc p => match head0 (snd p) with
                                          | Some v => ((acc + v) mod Q)%Z | None => acc end)
                            (validPts s) (own mod Q)%Z in
        let k2 := fold_left (fun acc p => ((acc + snd p) mod Q)%Z) (reconPriv s) k1 in
        let s := set_gkey k2 s in
        let others := filter (fun m => negb (N.eqb m (me s))) (operating s) in
        let ps := map (fun m => (m, pubshare_for s m)) others in
        if existsb (fun p => match snd p with None => true | Some _ => false end) ps then fail s
        else set_pubsh (flat_map (fun p => match snd p with Some v => [(fst p, v)] | None => [] end) ps) s
    end.
End Phases.

(* ---------- a whole run ---------- *)
Record hmember := { h_id : N; h_coefA : list Z; h_coefB : list Z }.
(* adversary messages published while the phase-p messages are exchanged, p = 1,3,4,7,8,10 *)
Record script := { adv1 : list netmsg; adv3 : list netmsg; adv4 : list netmsg;
                   adv7 : list netmsg; adv8 : list netmsg; adv10 : list netmsg;
                   (* receiver -> phase -> arrival order: indices into
                      (honest messages in member order ++ adversary messages) *)
                   order : list (N * list (N * list nat)) }.
Record input := { i_cfg : cfg; i_honest : list hmember; i_script : script }.

Inductive outcome :=
| Finished (ia dq : list N) (key : Z) (share : Z) (pubshares : list (N * Z))
| Failed.

Definition init_state (h : hmember) : mstate :=
  mkst (h_id h) [] [] [] [] [] (h_coefA h) (h_coefB h) 0%Z [] [] 0%Z [] [] [] [] [] 0%Z [] false
       [] [] [] [] [] [] [].

Definition op_key (c : cfg) (m : N) : N :=
  match nth_error (ops c) (N.to_nat (m - 1)) with Some k => k | None => 0 end.
Definition wrap (c : cfg) (m : msg) : netmsg :=
  let sender := match m with EphPub a _ _ | Shares a _ _ | Commits a _ _ | SAccuse a _ _
                           | Points a _ _ | PAccuse a _ _ | Reveal a _ _ => a end in
  {| payload := m; from_key := op_key c sender |}.

Definition arrival {A} (all : list A) (perm : list nat) : list A :=
  flat_map (fun i => match nth_error all i with Some m => [m] | None => [] end) perm.
Definition order_for (sc : script) (receiver p : N) (len : nat) : list nat :=
  match lookup receiver (order sc) with
  | Some l => match lookup p l with Some perm => perm | None => seq 0 len end
  | None => seq 0 len
  end.

(* a silent step: every live member runs [f] *)
Definition quiet (f : mstate -> mstate) (sts : list mstate) : list mstate :=
  map (fun s => if failed s then s else f s) sts.
(* a sending step: every live member runs [f]; the messages of all members plus the adversary's
   are then delivered to every live member in its own arrival order *)
Definition exchange (c : cfg) (sc : script) (p : N) (f : mstate -> mstate * list msg)
           (adv : list netmsg) (sts : list mstate) : list mstate :=
  let r := map (fun s => if failed s then (s, []) else f s) sts in
  let sts := map (fun x => let '(s, out) := x in if failed s then s else s) r in
  let all := flat_map (fun x => if failed (fst x) then [] else map (wrap c) (snd x)) r ++ adv in
  map (fun s => if failed s then s else
                fold_left (receive c p) (arrival all (order_for sc (me s) p (length all))) s) sts.

Definition run_states (i : input) : list mstate :=
  let c := i_cfg i in let sc := i_script i in
  let sts := map init_state (i_honest i) in
  let sts := exchange c sc 1 (fun s => (s, phase1 c s)) (adv1 sc) sts in
  let sts := quiet (phase2 c) sts in
  let sts := exchange c sc 3 (phase3 c) (adv3 sc) sts in
  let sts := exchange c sc 4 (phase4 c) (adv4 sc) sts in
  let sts := quiet (phase5 c) sts in
  let sts := quiet (phase6 c) sts in
  let sts := exchange c sc 7 (phase7 c) (adv7 sc) sts in
  let sts := exchange c sc 8 (phase8 c) (adv8 sc) sts in
  let sts := quiet (phase9 c) sts in
  let sts := exchange c sc 10 (phase10 c) (adv10 sc) sts in
  let sts := quiet (phase11 c) sts in
  quiet (phase12 c) sts.

Definition outcome_of (s : mstate) : outcome :=
  if failed s then Failed else Finished (ia s) (dq s) (gkey s) (share s) (pubsh s).
Definition run (i : input) : list (N * outcome) :=
  map (fun s => (me s, outcome_of s)) (run_states i).

(* ---------- the implementation's observable and the executable property ---------- *)
Definition bn254_order : Z :=
  21888242871839275222246405745257275088548364400416034343698204186575808495617%Z.

(* [kid]: identifier of the group public key bytes (first occurrence within the run);
   [key]: its discrete logarithm when the driver could certify one (d*G2 == key checked in Go);
   a public key share is [Some d] when d*G2 equals the observed point *)
Inductive obs :=
| OFinished (ia dq : list N) (kid : N) (key : option Z) (share : Z) (pubshares : list (N * option Z))
| OFailed.
Record case := { c_in : input; c_obs : list (N * obs) }.

Fixpoint insert_sorted (x : N) (l : list N) : list N :=
  match l with
  | [] => [x]
  | y :: r => if N.ltb x y then x :: l else if N.eqb x y then l else y :: insert_sorted x r
  end.
Definition sort_set (l : list N) : list N := fold_right insert_sorted [] l.
Fixpoint listN_eqb (a b : list N) : bool :=
  match a, b with
  | [], [] => true
  | x :: a', y :: b' => N.eqb x y && listN_eqb a' b'
  | _, _ => false
  end.

Definition honest_ids (i : input) : list N := map h_id (i_honest i).
Definition corrupt_count (i : input) : N := gn (i_cfg i) - N.of_nat (length (i_honest i)).
Definition covered (i : input) : bool := corrupt_count i <=? gt (i_cfg i).

Definition finished (o : list (N * obs)) : list (N * (list N * list N * N * option Z * Z * list (N * option Z))) :=
  flat_map (fun p => match snd p with
                     | OFinished a d k key sh ps => [(fst p, (a, d, k, key, sh, ps))]
                     | OFailed => []
                     end) o.
Definition f_ia (x : list N * list N * N * option Z * Z * list (N * option Z)) := let '(a, _, _, _, _, _) := x in a.
Definition f_dq (x : list N * list N * N * option Z * Z * list (N * option Z)) := let '(_, d, _, _, _, _) := x in d.
Definition f_kid (x : list N * list N * N * option Z * Z * list (N * option Z)) := let '(_, _, k, _, _, _) := x in k.
Definition f_key (x : list N * list N * N * option Z * Z * list (N * option Z)) := let '(_, _, _, k, _, _) := x in k.
Definition f_share (x : list N * list N * N * option Z * Z * list (N * option Z)) := let '(_, _, _, _, s, _) := x in s.
Definition f_ps (x : list N * list N * N * option Z * Z * list (N * option Z)) := let '(_, _, _, _, _, p) := x in p.
Definition f_marked x := sort_set (f_ia x ++ f_dq x).

Fixpoint all_same {A} (eqb : A -> A -> bool) (l : list A) : bool :=
  match l with
  | a :: (b :: _) as r => eqb a b && all_same eqb r
  | _ => true
  end.

(* C01: same key and same set of inactive+disqualified members among the honest members that
   finished; no honest member in any of these sets *)
Definition spec01 (cs : case) : bool :=
  let i := c_in cs in
  if negb (covered i) then true else
  let f := map snd (finished (c_obs cs)) in
  all_same (fun a b => N.eqb (f_kid a) (f_kid b) && listN_eqb (f_marked a) (f_marked b)) f
  && forallb (fun x => forallb (fun m => negb (memN m (honest_ids i))) (f_marked x)) f.

(* all sub-lists of length k *)
Fixpoint sublists {A} (k : nat) (l : list A) : list (list A) :=
  match k, l with
  | O, _ => [[]]
  | S _, [] => []
  | S k', x :: r => map (cons x) (sublists k' r) ++ sublists k r
  end.
Definition optZ_eqb (a b : option Z) : bool :=
  match a, b with Some x, Some y => Z.eqb x y | None, None => true | _, _ => false end.

(* C02: share_i * G2 is the public key share every other honest member holds for i; every
   t+1 honest shares interpolate (at 0) to the discrete log of the group public key *)
Definition spec02 (cs : case) : bool :=
  let i := c_in cs in
  if negb (covered i) then true else
  let f := finished (c_obs cs) in
  let Q := q (i_cfg i) in
  forallb (fun a => forallb (fun b =>
             N.eqb (fst a) (fst b) ||
             match lookup (fst a) (f_ps (snd b)) with
             | Some d => optZ_eqb d (Some (f_share (snd a) mod Q)%Z)
             | None => true          (* b does not operate with a: C01's business *)
             end) f) f
  && forallb (fun sub =>
                let v := interpolate0 Q (map (fun a => (fst a, f_share (snd a))) sub) in
                forallb (fun a => optZ_eqb (f_key (snd a)) (Some v)) f)
             (sublists (S (N.to_nat (gt (i_cfg i)))) f).

(* ---------- correspondence ---------- *)
Definition agree01_one (m : outcome) (o : obs) : bool :=
  match m, o with
  | Failed, OFailed => true
  | Finished a d k _ _, OFinished a' d' _ k' _ _ =>
      listN_eqb (sort_set a) (sort_set a') && listN_eqb (sort_set d) (sort_set d') && optZ_eqb (Some k) k'
  | _, _ => false
  end.
Definition pubshares_eqb (m : list (N * Z)) (o : list (N * option Z)) : bool :=
  Nat.eqb (length m) (length o)
  && forallb (fun p => match lookup (fst p) o with Some d => optZ_eqb d (Some (snd p)) | None => false end) m.
Definition agree02_one (m : outcome) (o : obs) : bool :=
  match m, o with
  | Failed, OFailed => true
  | Finished _ _ k sh ps, OFinished _ _ _ k' sh' ps' =>
      optZ_eqb (Some k) k' && Z.eqb sh sh' && pubshares_eqb ps ps'
  | _, _ => false
  end.
Definition agree (one : outcome -> obs -> bool) (cs : case) : bool :=
  let r := run (c_in cs) in
  Nat.eqb (length r) (length (c_obs cs))
  && forallb (fun p => match lookup (fst p) (c_obs cs) with Some o => one (snd p) o | None => false end) r.

Fixpoint distinctN (l : list N) : bool :=
  match l with [] => true | x :: r => negb (memN x r) && distinctN r end.
(* an arrival order is a permutation of 0..len-1 *)
Definition is_perm (len : nat) (p : list nat) : bool :=
  Nat.eqb (length p) len && forallb (fun k => existsb (Nat.eqb k) p) (seq 0 len).
Definition well_formed (cs : case) : bool :=
  let i := c_in cs in let c := i_cfg i in
  (1 <? q c)%Z && (1 <=? gn c) && (gn c <=? 255) && Nat.eqb (length (ops c)) (N.to_nat (gn c))
  && distinctN (honest_ids i) && forallb (in_group c) (honest_ids i)
  && forallb (fun h => Nat.eqb (length (h_coefA h)) (tcount c) && Nat.eqb (length (h_coefB h)) (tcount c))
             (i_honest i)
  && listN_eqb (map fst (c_obs cs)) (honest_ids i).

Definition judge01 (cs : case) : verdict :=
  if well_formed cs then decide (spec01 cs) (agree agree01_one cs) else BadCase.
Definition judge02 (cs : case) : verdict :=
  if well_formed cs then decide (spec02 cs) (agree agree02_one cs) else BadCase.
Definition explain (cs : case) : list (N * outcome) := run (c_in cs).
