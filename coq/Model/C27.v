(* C27 (shared with C28) — executable model of
     * the fragment of btcd v0.22.3 txscript.Engine (standard verify flags) that the tBTC wallet
       transactions exercise: script parsing, pushes, DUP, HASH160, EQUAL, EQUALVERIFY, CHECKSIG,
       DROP, IF/ELSE/ENDIF, CHECKLOCKTIMEVERIFY, P2SH and witness-v0 program evaluation;
     * pkg/bitcoin/transaction_builder.go: AddPublicKeyHashInput, AddScriptHashInput, AddOutput,
       ComputeSignatureHashes, AddSignatures (as written), and pkg/tbtc/wallet.go signTransaction;
     * the tBTC deposit script (pkg/tbtc/deposit.go) as an opcode list.
   Hashes and signatures are symbolic: hash160, sha256, the DER-strictness test, the signature
   check of the interpreter, the DER serialiser and the builder's ecdsa.Verify are Section
   variables; a signature hash is the RECORD of everything the digest commits to. *)
From Coq Require Import ZArith NArith List Bool Lia.
From KV Require Import Common.Verdict.
Import ListNotations.
Open Scope N_scope.

Definition bytes := list N.

Fixpoint bytes_eqb (a b : bytes) : bool :=
  match a, b with
  | [], [] => true
  | x :: a', y :: b' => (x =? y) && bytes_eqb a' b'
  | _, _ => false
  end.

(* little endian *)
Fixpoint le_bytes (k : nat) (n : N) : bytes :=
  match k with O => [] | S k' => (n mod 256) :: le_bytes k' (n / 256) end.
Fixpoint le_val (b : bytes) : N :=
  match b with [] => 0 | x :: t => x + 256 * le_val t end.

Definition nlen {A} (l : list A) : N := N.of_nat (length l).

Definition take (n : nat) (l : bytes) : option (bytes * bytes) :=
  if (length l <? n)%nat then None else Some (firstn n l, skipn n l).

Fixpoint unsnoc {A} (l : list A) : option (list A * A) :=
  match l with
  | [] => None
  | [a] => Some ([], a)
  | x :: t => match unsnoc t with Some (i, a) => Some (x :: i, a) | None => None end
  end.

(* ------------------------------------------------------------------ opcodes *)
(* how a data push is encoded: OP_0 / OP_1..16 / OP_1NEGATE, OP_DATA_n, OP_PUSHDATA1/2/4 *)
Inductive penc := ESmall | EDirect | EPD1 | EPD2 | EPD4.
Definition penc_eqb (a b : penc) : bool :=
  match a, b with
  | ESmall, ESmall | EDirect, EDirect | EPD1, EPD1 | EPD2, EPD2 | EPD4, EPD4 => true
  | _, _ => false
  end.

Inductive op :=
| OPush (e : penc) (d : bytes)
| ODup | OHash160 | OEqual | OEqualVerify | OCheckSig | ODrop | OIf | OElse | OEndIf | OCLTV
| OOther (b : N).                (* every other opcode: outside the modelled fragment *)


Definition ser_op (o : op) : bytes :=
  match o with
  | OPush ESmall d => match d with
                      | [v] => if v =? 129 then [79] else [80 + v]
                      | _ => [0]
                      end
  | OPush EDirect d => nlen d :: d
  | OPush EPD1 d => 76 :: nlen d :: d
  | OPush EPD2 d => 77 :: le_bytes 2 (nlen d) ++ d
  | OPush EPD4 d => 78 :: le_bytes 4 (nlen d) ++ d
  | ODup => [118] | OHash160 => [169] | OEqual => [135] | OEqualVerify => [136]
  | OCheckSig => [172] | ODrop => [117] | OIf => [99] | OElse => [103] | OEndIf => [104]
  | OCLTV => [177]
  | OOther b => [b]
  end.
Definition ser (s : list op) : bytes := flat_map ser_op s.

(* opcodes above OP_PUSHDATA4 *)
Definition simple_op (b : N) : op :=
  if b =? 79 then OPush ESmall [129]
  else if (81 <=? b) && (b <=? 96) then OPush ESmall [b - 80]
  else if b =? 118 then ODup else if b =? 169 then OHash160 else if b =? 135 then OEqual
  else if b =? 136 then OEqualVerify else if b =? 172 then OCheckSig else if b =? 117 then ODrop
  else if b =? 99 then OIf else if b =? 103 then OElse else if b =? 104 then OEndIf
  else if b =? 177 then OCLTV else OOther b.

Definition push_rest (k : bytes -> option (list op)) (e : penc) (n : nat) (t : bytes)
  : option (list op) :=
  match take n t with
  | None => None                                   (* push runs past the end: parse error *)
  | Some (d, t') => option_map (cons (OPush e d)) (k t')
  end.
Definition len_then (k : bytes -> option (list op)) (e : penc) (w : nat) (t : bytes)
  : option (list op) :=
  match take w t with
  | None => None
  | Some (l, t') =>
      (* the length is compared as a binary number first: a declared length of up to 2^32-1 must
         not be turned into a unary number (same result: [take] fails on a short tail) *)
      if nlen t' <? le_val l then None else push_rest k e (N.to_nat (le_val l)) t'
  end.

(* txscript.parseScript: fails only on a truncated push *)
Fixpoint parse_aux (fuel : nat) (s : bytes) : option (list op) :=
  match s with
  | [] => Some []
  | b :: t =>
      match fuel with
      | O => None
      | S f =>
          if b =? 0 then option_map (cons (OPush ESmall [])) (parse_aux f t)
          else if b <=? 75 then push_rest (parse_aux f) EDirect (N.to_nat b) t
          else if b =? 76 then len_then (parse_aux f) EPD1 1 t
          else if b =? 77 then len_then (parse_aux f) EPD2 2 t
          else if b =? 78 then len_then (parse_aux f) EPD4 4 t
          else option_map (cons (simple_op b)) (parse_aux f t)
      end
  end.
Definition parse (s : bytes) : option (list op) := parse_aux (length s) s.

(* the encoding ScriptBuilder.AddData / checkMinimalDataPush regard as minimal *)
Definition canon_enc (d : bytes) : penc :=
  match d with
  | [] => ESmall
  | [v] => if ((1 <=? v) && (v <=? 16)) || (v =? 129) then ESmall else EDirect
  | _ => if nlen d <=? 75 then EDirect
         else if nlen d <=? 255 then EPD1
         else if nlen d <=? 65535 then EPD2 else EPD4
  end.
Definition canon_push (d : bytes) : op := OPush (canon_enc d) d.
(* ScriptBuilder.AddData: like canon_push except that the one-byte datum 0 is emitted as OP_0 *)
Definition add_data (d : bytes) : op :=
  match d with
  | [v] => if v =? 0 then OPush ESmall [] else canon_push d
  | _ => canon_push d
  end.
Definition minimal_push (e : penc) (d : bytes) : bool :=
  penc_eqb e (canon_enc d) || (65535 <? nlen d).

Definition is_push (o : op) : bool := match o with OPush _ _ => true | _ => false end.

(* ------------------------------------------------------------------ script templates *)
Definition p2pkh (h : bytes) : list op := [ODup; OHash160; OPush EDirect h; OEqualVerify; OCheckSig].
Definition p2wpkh (h : bytes) : list op := [OPush ESmall []; OPush EDirect h].
Definition p2sh (h : bytes) : list op := [OHash160; OPush EDirect h; OEqual].
Definition p2wsh (h : bytes) : list op := [OPush ESmall []; OPush EDirect h].

Inductive sclass := CPubKeyHash (h : bytes) | CWitnessPubKeyHash (h : bytes)
                  | CScriptHash (h : bytes) | CWitnessScriptHash (h : bytes) | COther.
(* txscript.GetScriptClass restricted to the four classes the builder asks about *)
Definition classify_ops (s : list op) : sclass :=
  match s with
  | [ODup; OHash160; OPush EDirect h; OEqualVerify; OCheckSig] =>
      if (length h =? 20)%nat then CPubKeyHash h else COther
  | [OPush ESmall []; OPush EDirect h] =>
      if (length h =? 20)%nat then CWitnessPubKeyHash h
      else if (length h =? 32)%nat then CWitnessScriptHash h else COther
  | [OHash160; OPush EDirect h; OEqual] =>
      if (length h =? 20)%nat then CScriptHash h else COther
  | _ => COther
  end.
Definition classify (script : bytes) : sclass :=
  match parse script with Some s => classify_ops s | None => COther end.

(* txscript.isWitnessProgram: small-int opcode, then a canonical push of 2..40 bytes *)
Definition witness_program (s : list op) : option (N * bytes) :=
  match s with
  | [OPush ESmall v; OPush e d] =>
      if ((2 <=? length d) && (length d <=? 40))%nat && penc_eqb e EDirect then
        match v with
        | [] => Some (0, d)
        | [x] => if (1 <=? x) && (x <=? 16) then Some (x, d) else None
        | _ => None
        end
      else None
  | _ => None
  end.
(* txscript.IsWitnessProgram on raw bytes *)
Definition is_witness_program (script : bytes) : bool :=
  ((4 <=? length script) && (length script <=? 42))%nat &&
  match parse script with
  | Some s => match witness_program s with Some _ => true | None => false end
  | None => false
  end.

(* ---- the tBTC deposit script ---- *)
Record dep := { dp_depositor : bytes; dp_extra : option bytes; dp_blinding : bytes;
                dp_wpkh : bytes; dp_rpkh : bytes; dp_lock : bytes }.
Definition deposit_ops (d : dep) : list op :=
  [OPush EDirect (dp_depositor d); ODrop] ++
  match dp_extra d with Some x => [OPush EDirect x; ODrop] | None => [] end ++
  [OPush EDirect (dp_blinding d); ODrop;
   ODup; OHash160; OPush EDirect (dp_wpkh d); OEqual;
   OIf; OCheckSig;
   OElse; ODup; OHash160; OPush EDirect (dp_rpkh d); OEqualVerify;
         OPush EDirect (dp_lock d); OCLTV; ODrop; OCheckSig;
   OEndIf].
Definition dep_wf (d : dep) : Prop :=
  length (dp_depositor d) = 20%nat /\ length (dp_blinding d) = 8%nat /\
  length (dp_wpkh d) = 20%nat /\ length (dp_rpkh d) = 20%nat /\ length (dp_lock d) = 4%nat /\
  match dp_extra d with Some x => length x = 32%nat | None => True end.
Definition dep_wfb (d : dep) : bool :=
  ((length (dp_depositor d) =? 20) && (length (dp_blinding d) =? 8) &&
   (length (dp_wpkh d) =? 20) && (length (dp_rpkh d) =? 20) && (length (dp_lock d) =? 4) &&
   match dp_extra d with Some x => length x =? 32 | None => true end)%nat.

(* ------------------------------------------------------------------ transactions, sighashes *)
Record txin := { ti_txid : N; ti_vout : N; ti_seq : N }.
Record tx_skel := { tx_version : Z; tx_ins : list txin; tx_outs : list (Z * bytes); tx_lock : N }.
Inductive sigver := Legacy | Bip143.
(* what a signature digest commits to *)
Record sighash := { sh_tx : tx_skel; sh_idx : nat; sh_code : bytes; sh_value : Z;
                    sh_type : N; sh_ver : sigver }.
(* the legacy digest does not commit to the amount *)
Definition mk_sighash (v : sigver) (tx : tx_skel) (i : nat) (code : bytes) (value : Z) (ht : N) :=
  {| sh_tx := tx; sh_idx := i; sh_code := code;
     sh_value := match v with Legacy => 0%Z | Bip143 => value end;
     sh_type := ht; sh_ver := v |}.

Definition max_seq : N := 4294967295.
Definition locktime_threshold : Z := 500000000.

(* ------------------------------------------------------------------ interpreter *)
Inductive res (A : Type) := Ok (a : A) | Fail | Unsup.
Arguments Ok {A} a. Arguments Fail {A}. Arguments Unsup {A}.

Inductive cond := CTrue | CFalse | CSkip.
Record state := { stk : list bytes; cnd : list cond; nops : nat }.
Record ctx := { c_tx : tx_skel; c_idx : nat; c_amount : Z; c_ver : sigver; c_code : bytes }.

(* stack.go asBool *)
Fixpoint as_bool (b : bytes) : bool :=
  match b with
  | [] => false
  | [x] => negb (x =? 0) && negb (x =? 128)
  | x :: t => negb (x =? 0) || as_bool t
  end.
Definition of_bool (b : bool) : bytes := if b then [1] else [].

(* scriptnum.go makeScriptNum with requireMinimal = true *)
Definition minimal_num (b : bytes) : bool :=
  match unsnoc b with
  | None => true
  | Some (i, l) =>
      if N.land l 127 =? 0 then
        match unsnoc i with
        | None => false
        | Some (_, p) => 128 <=? p
        end
      else true
  end.
Definition num_val (b : bytes) : Z :=
  match unsnoc b with
  | None => 0%Z
  | Some (i, l) =>
      if 128 <=? l then Z.opp (Z.of_N (le_val (i ++ [N.sub l 128]))) else Z.of_N (le_val b)
  end.
Definition script_num (maxlen : nat) (b : bytes) : option Z :=
  if (maxlen <? length b)%nat then None
  else if minimal_num b then Some (num_val b) else None.

(* opcodeCheckLockTimeVerify after the operand has been decoded *)
Definition locktime_ok (tx_locktime : N) (sequence : N) (n : Z) : bool :=
  let l := Z.of_N tx_locktime in
  (0 <=? n)%Z &&
  (((l <? locktime_threshold) && (n <? locktime_threshold)) ||
   ((locktime_threshold <=? l) && (locktime_threshold <=? n)))%Z &&
  (n <=? l)%Z && negb (sequence =? max_seq).

Definition hashtype_ok (ht : N) : bool :=
  let t := N.land ht 127 in (1 <=? t) && (t <=? 3) && (ht <? 256).
Definition compressed_pk (pk : bytes) : bool :=
  match pk with x :: _ => (length pk =? 33)%nat && ((x =? 2) || (x =? 3)) | [] => false end.
Definition pk_enc_ok (v : sigver) (pk : bytes) : bool :=
  match v with
  | Bip143 => compressed_pk pk
  | Legacy => compressed_pk pk ||
              match pk with x :: _ => (length pk =? 65)%nat && (x =? 4) | [] => false end
  end.

Definition branch_executing (c : list cond) : bool :=
  match c with [] => true | CTrue :: _ => true | _ => false end.

Section Interp.
  Variable hash160 : bytes -> bytes.
  Variable sha256 : bytes -> bytes.
  (* btcd checkSignatureEncoding beyond the length window: strict DER and low S *)
  Variable der_strict : bytes -> bool.
  (* btcec parse + Verify of (public key bytes, DER bytes) against the digest of the record *)
  Variable checksig : bytes -> bytes -> sighash -> bool.

  Definition sig_enc_ok (der : bytes) : bool :=
    ((8 <=? length der) && (length der <=? 72))%nat && der_strict der.

  Definition op_checksig (c : ctx) (s : state) : res state :=
    match stk s with
    | pk :: fullsig :: rest =>
        match unsnoc fullsig with
        | None => Ok {| stk := of_bool false :: rest; cnd := cnd s; nops := nops s |}
        | Some (der, ht) =>
            if negb (hashtype_ok ht) then Fail
            else if negb (sig_enc_ok der) then Fail
            else if negb (pk_enc_ok (c_ver c) pk) then Fail
            else
              let valid := checksig pk der
                             (mk_sighash (c_ver c) (c_tx c) (c_idx c) (c_code c) (c_amount c) ht) in
              if negb valid && (0 <? length der)%nat then Fail      (* NULLFAIL *)
              else Ok {| stk := of_bool valid :: rest; cnd := cnd s; nops := nops s |}
        end
    | _ => Fail
    end.

  Definition ctx_sequence (c : ctx) : N :=
    match nth_error (tx_ins (c_tx c)) (c_idx c) with Some i => ti_seq i | None => max_seq end.

  Definition op_cltv (c : ctx) (s : state) : res state :=
    match stk s with
    | top :: _ =>
        match script_num 5 top with
        | None => Fail
        | Some n =>
            if locktime_ok (tx_lock (c_tx c)) (ctx_sequence c) n then Ok s else Fail
        end
    | [] => Fail
    end.

  (* ---- statement-level vocabulary: what the deposit script demands ---- *)
  (* OP_CHECKSIG succeeds with [true] exactly on such a (key, signature element) pair *)
  Definition sig_accept (c : ctx) (pk fullsig : bytes) : bool :=
    match unsnoc fullsig with
    | None => false
    | Some (der, ht) =>
        hashtype_ok ht && sig_enc_ok der && pk_enc_ok (c_ver c) pk &&
        checksig pk der (mk_sighash (c_ver c) (c_tx c) (c_idx c) (c_code c) (c_amount c) ht)
    end.
  (* OP_CHECKLOCKTIMEVERIFY passes on this operand *)
  Definition cltv_pass (c : ctx) (lock : bytes) : bool :=
    match script_num 5 lock with
    | Some n => locktime_ok (tx_lock (c_tx c)) (ctx_sequence c) n
    | None => false
    end.
  Definition deposit_cond (c : ctx) (d : dep) (pk fullsig : bytes) : bool :=
    sig_accept c pk fullsig &&
    (bytes_eqb (hash160 pk) (dp_wpkh d)
     || (bytes_eqb (hash160 pk) (dp_rpkh d) && cltv_pass c (dp_lock d))).

  (* popIfBool: MINIMALIF applies to witness-v0 execution *)
  Definition if_bool (v : sigver) (top : bytes) : option bool :=
    match v with
    | Legacy => Some (as_bool top)
    | Bip143 => match top with
                | [] => Some false
                | [x] => if x =? 1 then Some true else None
                | _ => None
                end
    end.

  Definition with_stack (s : state) (k : list bytes) : state :=
    {| stk := k; cnd := cnd s; nops := nops s |}.
  Definition with_cond (s : state) (k : list bytes) (c : list cond) : state :=
    {| stk := k; cnd := c; nops := nops s |}.

  (* Engine.executeOpcode + the opcode function *)
  Definition step (c : ctx) (o : op) (s0 : state) : res state :=
    match o with
    | OOther _ => Unsup
    | OPush e d =>
        if 520 <? nlen d then Fail
        else if negb (branch_executing (cnd s0)) then Ok s0
        else if negb (minimal_push e d) then Fail
        else Ok (with_stack s0 (d :: stk s0))
    | _ =>
        let n := S (nops s0) in
        if (201 <? n)%nat then Fail else
        let s := {| stk := stk s0; cnd := cnd s0; nops := n |} in
        let exec := branch_executing (cnd s) in
        match o with
        | OIf =>
            if exec then
              match stk s with
              | top :: rest =>
                  match if_bool (c_ver c) top with
                  | Some b => Ok (with_cond s rest ((if b then CTrue else CFalse) :: cnd s))
                  | None => Fail
                  end
              | [] => Fail
              end
            else Ok (with_cond s (stk s) (CSkip :: cnd s))
        | OElse =>
            match cnd s with
            | [] => Fail
            | CTrue :: t => Ok (with_cond s (stk s) (CFalse :: t))
            | CFalse :: t => Ok (with_cond s (stk s) (CTrue :: t))
            | CSkip :: t => Ok s
            end
        | OEndIf =>
            match cnd s with
            | [] => Fail
            | _ :: t => Ok (with_cond s (stk s) t)
            end
        | _ =>
            if negb exec then Ok s else
            match o with
            | ODup => match stk s with x :: r => Ok (with_stack s (x :: x :: r)) | [] => Fail end
            | ODrop => match stk s with _ :: r => Ok (with_stack s r) | [] => Fail end
            | OHash160 => match stk s with x :: r => Ok (with_stack s (hash160 x :: r)) | [] => Fail end
            | OEqual => match stk s with
                        | a :: b :: r => Ok (with_stack s (of_bool (bytes_eqb a b) :: r))
                        | _ => Fail end
            | OEqualVerify => match stk s with
                              | a :: b :: r => if bytes_eqb a b then Ok (with_stack s r) else Fail
                              | _ => Fail end
            | OCheckSig => op_checksig c s
            | OCLTV => op_cltv c s
            | _ => Unsup
            end
        end
    end.

  Fixpoint run (c : ctx) (ops : list op) (s : state) : res state :=
    match ops with
    | [] => Ok s
    | o :: t => match step c o s with
                | Ok s' => run c t s'
                | Fail => Fail
                | Unsup => Unsup
                end
    end.

  (* one script of the engine's script list: conditionals may not straddle scripts *)
  Definition run_script (c : ctx) (ops : list op) (stack : list bytes) : res (list bytes) :=
    match run c ops {| stk := stack; cnd := []; nops := 0 |} with
    | Ok s => match cnd s with [] => Ok (stk s) | _ => Fail end
    | Fail => Fail
    | Unsup => Unsup
    end.

  Inductive vres := Accept | Reject | Unsupported.
  Definition vres_eqb (a b : vres) : bool :=
    match a, b with
    | Accept, Accept | Reject, Reject | Unsupported, Unsupported => true
    | _, _ => false
    end.

  (* CheckErrorCondition(true) under CLEANSTACK *)
  Definition final_check (stack : list bytes) : vres :=
    match stack with
    | [top] => if as_bool top then Accept else Reject
    | _ => Reject
    end.

  Definition run_final (c : ctx) (ops : list op) (stack : list bytes) : vres :=
    match run_script c ops stack with
    | Ok st => final_check st
    | Fail => Reject
    | Unsup => Unsupported
    end.

  Definition max_script_size : N := 10000.

  (* verifyWitnessProgram + execution of the witness script + final check *)
  Definition verify_witness (tx : tx_skel) (idx : nat) (amount : Z) (version : N) (prog : bytes)
             (witness : list bytes) : vres :=
    if negb (version =? 0) then Reject           (* DiscourageUpgradeableWitnessProgram *)
    else
      let go (script : bytes) (ops : list op) (stack : list bytes) :=
          if existsb (fun e => 520 <? nlen e) stack then Reject
          else run_final {| c_tx := tx; c_idx := idx; c_amount := amount; c_ver := Bip143;
                            c_code := script |} ops stack in
      if (length prog =? 20)%nat then
        match witness with
        | [a; b] => go (ser (p2pkh prog)) (p2pkh prog) [b; a]
        | _ => Reject
        end
      else if (length prog =? 32)%nat then
        match unsnoc witness with
        | None => Reject
        | Some (items, script) =>
            if max_script_size <? nlen script then Reject
            else if negb (bytes_eqb (sha256 script) prog) then Reject
            else match parse script with
                 | None => Reject
                 | Some ops => go script ops (rev items)
                 end
        end
      else Reject.

  (* NewEngine(pkScript, tx, idx, StandardVerifyFlags, amount).Execute() *)
  Definition verify_input (tx : tx_skel) (idx : nat) (script_sig : bytes) (witness : list bytes)
             (pk_script : bytes) (amount : Z) : vres :=
    if (length (tx_ins tx) <=? idx)%nat then Reject else
    if (nlen script_sig =? 0) && (nlen pk_script =? 0) then Reject else
    if (max_script_size <? nlen script_sig) || (max_script_size <? nlen pk_script)
    then Reject else
    match parse script_sig, parse pk_script with
    | Some sig_ops, Some pk_ops =>
        let bip16 := match classify_ops pk_ops with CScriptHash _ => true | _ => false end in
        if bip16 && negb (forallb is_push sig_ops) then Reject else
        let wp := witness_program pk_ops in
        match wp, script_sig with
        | Some _, _ :: _ => Reject                  (* native witness program with a scriptSig *)
        | _, _ =>
        match wp, witness with
        | None, _ :: _ => if bip16 then Unsupported (* P2SH-nested witness: not modelled *)
                          else Reject               (* unexpected witness *)
        | _, _ =>
        let c0 := {| c_tx := tx; c_idx := idx; c_amount := amount; c_ver := Legacy;
                     c_code := script_sig |} in
        match run_script c0 sig_ops [] with
        | Fail => Reject
        | Unsup => Unsupported
        | Ok st1 =>
            let c1 := {| c_tx := tx; c_idx := idx; c_amount := amount; c_ver := Legacy;
                         c_code := pk_script |} in
            match run_script c1 pk_ops st1 with
            | Fail => Reject
            | Unsup => Unsupported
            | Ok st2 =>
                if bip16 then
                  match st2 with
                  | top :: _ =>
                      if negb (as_bool top) then Reject else
                      match st1 with
                      | redeem :: rest =>
                          match parse redeem with
                          | None => Reject
                          | Some r_ops =>
                              run_final {| c_tx := tx; c_idx := idx; c_amount := amount;
                                           c_ver := Legacy; c_code := redeem |} r_ops rest
                          end
                      | [] => Reject
                      end
                  | [] => Reject
                  end
                else
                  match wp with
                  | Some (v, prog) => verify_witness tx idx amount v prog witness
                  | None => final_check st2
                  end
            end
        end
        end end
    | _, _ => Reject
    end.
End Interp.

(* ------------------------------------------------------------------ the transaction builder *)
Record sigargs := { sa_value : Z; sa_code : bytes; sa_witness : bool }.
(* a wire.TxIn before signing: outpoint + the pre-filled redeem script *)
Record pre_in := { pi_txid : N; pi_vout : N; pi_script : bytes; pi_witness : list bytes }.
Record builder := { b_ins : list pre_in; b_args : list sigargs; b_outs : list (Z * bytes);
                    b_hashes : list sighash }.
Definition new_builder : builder := {| b_ins := []; b_args := []; b_outs := []; b_hashes := [] |}.

Record utxo := { u_txid : N; u_vout : N; u_value : Z }.

(* AddPublicKeyHashInput; [script] is what getScript returned for the UTXO *)
Definition add_pkh_input (b : builder) (u : utxo) (script : bytes) : option builder :=
  match classify script with
  | CPubKeyHash _ | CWitnessPubKeyHash _ =>
      Some {| b_ins := b_ins b ++ [{| pi_txid := u_txid u; pi_vout := u_vout u;
                                      pi_script := []; pi_witness := [] |}];
              b_args := b_args b ++ [{| sa_value := u_value u; sa_code := script;
                                        sa_witness := is_witness_program script |}];
              b_outs := b_outs b; b_hashes := b_hashes b |}
  | _ => None
  end.

(* AddScriptHashInput *)
Definition add_sh_input (b : builder) (u : utxo) (script redeem : bytes) : option builder :=
  match classify script with
  | CScriptHash _ | CWitnessScriptHash _ =>
      let w := is_witness_program script in
      Some {| b_ins := b_ins b ++ [{| pi_txid := u_txid u; pi_vout := u_vout u;
                                      pi_script := if w then [] else redeem;
                                      pi_witness := if w then [redeem] else [] |}];
              b_args := b_args b ++ [{| sa_value := u_value u; sa_code := redeem; sa_witness := w |}];
              b_outs := b_outs b; b_hashes := b_hashes b |}
  | _ => None
  end.

Definition add_output (b : builder) (value : Z) (script : bytes) : builder :=
  {| b_ins := b_ins b; b_args := b_args b; b_outs := b_outs b ++ [(value, script)];
     b_hashes := b_hashes b |}.

(* wire.NewMsgTx(wire.TxVersion), LockTime 0, every wire.NewTxIn has the maximal sequence *)
Definition skeleton (b : builder) : tx_skel :=
  {| tx_version := 1;
     tx_ins := map (fun i => {| ti_txid := pi_txid i; ti_vout := pi_vout i; ti_seq := max_seq |})
                   (b_ins b);
     tx_outs := b_outs b; tx_lock := 0 |}.

(* the script code a digest commits to: CalcWitnessSigHash rewrites a P2WPKH script into the
   P2PKH script of the same hash, everything else is taken as it is *)
Definition effective_code (witness : bool) (code : bytes) : option bytes :=
  match parse code with
  | None => None                                     (* Calc*SigHash: cannot parse *)
  | Some ops =>
      if witness then
        match classify_ops ops with
        | CWitnessPubKeyHash h => Some (ser (p2pkh h))
        | _ => Some code
        end
      else Some code
  end.

Definition sighash_all : N := 1.

Fixpoint hashes_from (tx : tx_skel) (i : nat) (args : list sigargs) : option (list sighash) :=
  match args with
  | [] => Some []
  | a :: t =>
      match effective_code (sa_witness a) (sa_code a), hashes_from tx (S i) t with
      | Some code, Some r =>
          Some (mk_sighash (if sa_witness a then Bip143 else Legacy) tx i code (sa_value a)
                           sighash_all :: r)
      | _, _ => None
      end
  end.

(* ComputeSignatureHashes *)
Definition compute_hashes (b : builder) : option builder :=
  match hashes_from (skeleton b) 0 (b_args b) with
  | None => None
  | Some hs => Some {| b_ins := b_ins b; b_args := b_args b; b_outs := b_outs b; b_hashes := hs |}
  end.

Record signed_in := { si_script : bytes; si_witness : list bytes }.
Record signed_tx := { st_skel : tx_skel; st_ins : list signed_in }.

Section Builder.
  Variable sigT : Type.                              (* an (R, S) pair *)
  Variable der : sigT -> bytes.                      (* btcec Signature.Serialize *)
  Variable ecdsa_verify : bytes -> sighash -> sigT -> bool.   (* key (compressed bytes), digest, sig *)

  (* one iteration of the loop of AddSignatures *)
  Definition sign_input (i : pre_in) (a : sigargs) (h : sighash) (sg : sigT) (pk : bytes)
    : option signed_in :=
    if negb (ecdsa_verify pk h sg) then None else
    let sigb := der sg ++ [sighash_all] in
    if sa_witness a then
      Some {| si_script := pi_script i;
              si_witness := [sigb; pk] ++
                            match pi_witness i with [r] => [r] | _ => [] end |}
    else
      let pushes := [add_data sigb; add_data pk] ++
                    match pi_script i with [] => [] | r => [add_data r] end in
      (* ScriptBuilder refuses elements above 520 bytes and scripts above 10000 bytes *)
      if existsb (fun d => 520 <? nlen d) [sigb; pk; pi_script i]
         || (max_script_size <? nlen (ser pushes)) then None
      else Some {| si_script := ser pushes; si_witness := pi_witness i |}.

  Fixpoint sign_inputs (ins : list pre_in) (args : list sigargs) (hs : list sighash)
           (sigs : list (sigT * bytes)) : option (list signed_in) :=
    match ins, args, hs, sigs with
    | [], _, _, _ => Some []
    | i :: ins', a :: args', h :: hs', (sg, pk) :: sigs' =>
        match sign_input i a h sg pk with
        | None => None
        | Some si => option_map (cons si) (sign_inputs ins' args' hs' sigs')
        end
    | _, _, _, _ => None
    end.

  (* AddSignatures *)
  Definition add_signatures (b : builder) (sigs : list (sigT * bytes)) : option signed_tx :=
    match b_hashes b with
    | [] => None                                     (* "signature hashes must be computed first" *)
    | _ =>
        if negb (length sigs =? length (b_ins b))%nat then None    (* "wrong signatures count" *)
        else option_map (fun l => {| st_skel := skeleton b; st_ins := l |})
                        (sign_inputs (b_ins b) (b_args b) (b_hashes b) sigs)
    end.

  (* wallet.go signTransaction: digests, one signature per digest, the wallet key everywhere *)
  Definition sign_transaction (b : builder) (signer : sighash -> sigT) (wallet_pk : bytes)
    : option signed_tx :=
    match compute_hashes b with
    | None => None
    | Some b' => add_signatures b' (map (fun h => (signer h, wallet_pk)) (b_hashes b'))
    end.
End Builder.

(* ---- building from a list of inputs ---- *)
Inductive in_kind := KPkh | KSh (redeem : bytes).
Record input := { in_utxo : utxo; in_script : bytes (* UTXO locking script *); in_kind_ : in_kind }.

Definition add_input (b : builder) (i : input) : option builder :=
  match in_kind_ i with
  | KPkh => add_pkh_input b (in_utxo i) (in_script i)
  | KSh r => add_sh_input b (in_utxo i) (in_script i) r
  end.
Fixpoint add_inputs (b : builder) (ins : list input) : option builder :=
  match ins with
  | [] => Some b
  | i :: t => match add_input b i with Some b' => add_inputs b' t | None => None end
  end.
Definition build (ins : list input) (outs : list (Z * bytes)) : option builder :=
  option_map (fun b => fold_left (fun b o => add_output b (fst o) (snd o)) outs b)
             (add_inputs new_builder ins).

(* ------------------------------------------------------------------ statement-level vocabulary *)
(* the inputs the property speaks about: P2PKH / P2WPKH wallet outputs and P2SH / P2WSH deposits *)
Inductive wkind := WPkh (witness : bool) (pkh : bytes) | WDeposit (witness : bool) (d : dep).
Record winput := { wi_utxo : utxo; wi_kind : wkind }.
Definition wkind_wf (k : wkind) : Prop :=
  match k with WPkh _ h => length h = 20%nat | WDeposit _ d => dep_wf d end.
(* the key hash the locking script commits to *)
Definition committed_pkh (k : wkind) : bytes :=
  match k with WPkh _ h => h | WDeposit _ d => dp_wpkh d end.

Section WalletInputs.
  Variable hash160 : bytes -> bytes.
  Variable sha256 : bytes -> bytes.
  Definition to_input (w : winput) : input :=
    match wi_kind w with
    | WPkh false h => {| in_utxo := wi_utxo w; in_script := ser (p2pkh h); in_kind_ := KPkh |}
    | WPkh true h => {| in_utxo := wi_utxo w; in_script := ser (p2wpkh h); in_kind_ := KPkh |}
    | WDeposit false d =>
        let r := ser (deposit_ops d) in
        {| in_utxo := wi_utxo w; in_script := ser (p2sh (hash160 r)); in_kind_ := KSh r |}
    | WDeposit true d =>
        let r := ser (deposit_ops d) in
        {| in_utxo := wi_utxo w; in_script := ser (p2wsh (sha256 r)); in_kind_ := KSh r |}
    end.
End WalletInputs.

(* unlocking data of a deposit spend: signature element, public key, the script itself *)
Definition deposit_script_sig (sig pk script : bytes) : bytes :=
  ser [canon_push sig; canon_push pk; canon_push script].
Definition deposit_witness (sig pk script : bytes) : list bytes := [sig; pk; script].

(* what the builder is expected to commit to for input [i] of kind [k]: the digest algorithm
   (legacy for P2PKH / P2SH, BIP-143 for P2WPKH / P2WSH), the script code (the P2PKH script of
   the key hash for both wallet kinds, the deposit script for both deposit kinds), the UTXO value
   (only BIP-143 digests contain it) and SIGHASH_ALL *)
Definition expected_digest (tx : tx_skel) (i : nat) (w : winput) : sighash :=
  match wi_kind w with
  | WPkh wit h => mk_sighash (if wit then Bip143 else Legacy) tx i (ser (p2pkh h))
                             (u_value (wi_utxo w)) 1
  | WDeposit wit d => mk_sighash (if wit then Bip143 else Legacy) tx i (ser (deposit_ops d))
                                 (u_value (wi_utxo w)) 1
  end.
(* where the signature element [sig] = DER ++ [SIGHASH_ALL] and the key are expected to go *)
Definition expected_signed_input (w : winput) (sig pk : bytes) : signed_in :=
  match wi_kind w with
  | WPkh false _ => {| si_script := ser [canon_push sig; canon_push pk]; si_witness := [] |}
  | WPkh true _ => {| si_script := []; si_witness := [sig; pk] |}
  | WDeposit false d => {| si_script := deposit_script_sig sig pk (ser (deposit_ops d));
                           si_witness := [] |}
  | WDeposit true d => {| si_script := [];
                          si_witness := deposit_witness sig pk (ser (deposit_ops d)) |}
  end.

(* ------------------------------------------------------------------ correspondence: C27 cases *)
(* digests are canonicalised to small identifiers by the driver *)
Inductive code_kind := KUtxoScript | KRedeem | KP2pkhOfProgram.
Definition code_kind_eqb (a b : code_kind) : bool :=
  match a, b with
  | KUtxoScript, KUtxoScript | KRedeem, KRedeem | KP2pkhOfProgram, KP2pkhOfProgram => true
  | _, _ => false
  end.
Definition sigver_eqb (a b : sigver) : bool :=
  match a, b with Legacy, Legacy | Bip143, Bip143 => true | _, _ => false end.

(* one row of the table the driver computed with btcd: the digest of input [idx] under the given
   digest algorithm, script code and amount *)
Record digest_row := { dr_ver : sigver; dr_code : code_kind; dr_value : Z; dr_id : N }.

Record sig_obs := { so_pk : bytes;              (* SerializeCompressed of the container's key *)
                    so_der : bytes;             (* btcec Serialize of (R,S) *)
                    so_valid_for : list N }.    (* digest ids (pk, R, S) verifies against (Go ecdsa) *)

Record in_case := { ic_input : input;
                    ic_p2pkh : bytes;               (* btcd's P2PKH script of a P2WPKH program, else [] *)
                    ic_digests : list digest_row;   (* candidate digests of this input *)
                    ic_builder_digest : option N;   (* id of the digest the builder returned *)
                    ic_engine : option bool;        (* btcd engine verdict, when a tx was produced *)
                    ic_script_sig : bytes;          (* as produced by AddSignatures *)
                    ic_witness : list bytes }.

Inductive add_res := AddOk | AddErr.                (* an error from Add*Input *)
Record tx_case := { tc_ins : list in_case;
                    tc_outs : list (Z * bytes);
                    tc_hash160 : list (bytes * bytes);
                    tc_sha256 : list (bytes * bytes);
                    tc_sigs : list sig_obs;
                    tc_expect_valid : bool;          (* every signature is valid for its input's
                                                        digest and made by the committed key *)
                    tc_must_reject : bool;           (* a count / signature mismatch was injected *)
                    tc_build_ok : bool;              (* all Add*Input calls and ComputeSignatureHashes
                                                        succeeded *)
                    tc_panic : bool;                 (* the implementation panicked *)
                    tc_tx_produced : bool }.         (* AddSignatures returned a transaction *)

Fixpoint lookup (k : bytes) (t : list (bytes * bytes)) : option bytes :=
  match t with
  | [] => None
  | (a, b) :: r => if bytes_eqb a k then Some b else lookup k r
  end.
(* an unknown preimage hashes to the empty string, which equals no 20/32-byte hash *)
Definition table_fn (t : list (bytes * bytes)) (k : bytes) : bytes :=
  match lookup k t with Some v => v | None => [] end.

Definition code_of (ic : in_case) (k : code_kind) : bytes :=
  match k with
  | KUtxoScript => in_script (ic_input ic)
  | KRedeem => match in_kind_ (ic_input ic) with KSh r => r | KPkh => [] end
  | KP2pkhOfProgram => ic_p2pkh ic
  end.
Definition digest_id (ic : in_case) (h : sighash) : option N :=
  if negb (sh_type h =? sighash_all) then None else
  match filter (fun r => sigver_eqb (dr_ver r) (sh_ver h)
                         && bytes_eqb (code_of ic (dr_code r)) (sh_code h)
                         && match sh_ver h with
                            | Legacy => true
                            | Bip143 => (dr_value r =? sh_value h)%Z
                            end)
               (ic_digests ic) with
  | r :: _ => Some (dr_id r)
  | [] => None
  end.

Definition list_eqb {A} (eqb : A -> A -> bool) :=
  fix go (a b : list A) : bool :=
    match a, b with
    | [], [] => true
    | x :: a', y :: b' => eqb x y && go a' b'
    | _, _ => false
    end.

Definition opt_eqb {A} (eqb : A -> A -> bool) (a b : option A) : bool :=
  match a, b with
  | Some x, Some y => eqb x y
  | None, None => true
  | _, _ => false
  end.

Module Concrete.
  Definition did (c : tx_case) (h : sighash) : option N :=
    match nth_error (tc_ins c) (sh_idx h) with Some ic => digest_id ic h | None => None end.

  (* a signature is identified by its position in tc_sigs *)
  Definition der (c : tx_case) (k : nat) : bytes :=
    match nth_error (tc_sigs c) k with Some s => so_der s | None => [] end.
  Definition ecdsa_verify (c : tx_case) (pk : bytes) (h : sighash) (k : nat) : bool :=
    match nth_error (tc_sigs c) k, did c h with
    | Some s, Some d => bytes_eqb pk (so_pk s) && existsb (N.eqb d) (so_valid_for s)
    | _, _ => false
    end.
  (* engine side: any observed signature with these key and DER bytes valid for this digest *)
  Definition checksig (c : tx_case) (pk derb : bytes) (h : sighash) : bool :=
    match did c h with
    | Some d => existsb (fun s => bytes_eqb pk (so_pk s) && bytes_eqb derb (so_der s)
                                  && existsb (N.eqb d) (so_valid_for s)) (tc_sigs c)
    | None => false
    end.

  Definition model_builder (c : tx_case) : option builder :=
    build (map ic_input (tc_ins c)) (tc_outs c).

  Definition model_hashes (c : tx_case) : option builder :=
    match model_builder c with Some b => compute_hashes b | None => None end.

  Definition model_tx (c : tx_case) : option signed_tx :=
    match model_hashes c with
    | Some b => add_signatures nat (der c) (ecdsa_verify c) b
                               (map (fun k => (k, match nth_error (tc_sigs c) k with
                                                  | Some s => so_pk s | None => [] end))
                                    (seq 0 (length (tc_sigs c))))
    | None => None
    end.

  Definition model_engine (c : tx_case) (tx : signed_tx) (i : nat) : vres :=
    match nth_error (st_ins tx) i, nth_error (tc_ins c) i with
    | Some si, Some ic =>
        verify_input (table_fn (tc_hash160 c)) (table_fn (tc_sha256 c)) (fun _ => true)
                     (checksig c) (st_skel tx) i (si_script si) (si_witness si)
                     (in_script (ic_input ic)) (u_value (in_utxo (ic_input ic)))
    | _, _ => Reject
    end.

  (* ---- the property, on the implementation's outputs ---- *)
  Definition spec_ok (c : tx_case) : bool :=
    negb (tc_panic c) &&
    (* valid signatures by the committed keys: a transaction is produced and every input passes *)
    (if tc_expect_valid c && tc_build_ok c
     then tc_tx_produced c
          && forallb (fun ic => match ic_engine ic with Some true => true | _ => false end) (tc_ins c)
     else true)
    &&
    (* a mismatched signature / wrong count: refused, nothing produced *)
    (if tc_must_reject c then negb (tc_tx_produced c) else true).

  Definition agree_in (c : tx_case) (b : builder) (tx : option signed_tx) (i : nat) (ic : in_case)
    : bool :=
    (* the digest the model predicts (algorithm, script code, amount) is the builder's digest *)
    opt_eqb N.eqb (match nth_error (b_hashes b) i with Some h => did c h | None => None end)
            (ic_builder_digest ic)
    && match tx with
       | None => true
       | Some t =>
           match nth_error (st_ins t) i with
           | Some si => bytes_eqb (si_script si) (ic_script_sig ic)
                        && list_eqb bytes_eqb (si_witness si) (ic_witness ic)
                        && match ic_engine ic with
                           | Some e => vres_eqb (model_engine c t i) (if e then Accept else Reject)
                           | None => false
                           end
           | None => false
           end
       end.

  Fixpoint forallb_i {A} (f : nat -> A -> bool) (i : nat) (l : list A) : bool :=
    match l with [] => true | a :: t => f i a && forallb_i f (S i) t end.

  Definition agree (c : tx_case) : bool :=
    match model_hashes c with
    | None => negb (tc_build_ok c)       (* the driver only computes digests after a clean build *)
    | Some b =>
        tc_build_ok c &&
        let tx := model_tx c in
        Bool.eqb (match tx with Some _ => true | None => false end) (tc_tx_produced c)
        && forallb_i (agree_in c b tx) 0 (tc_ins c)
    end.

  Definition unsupported (c : tx_case) : bool :=
    match model_tx c with
    | Some t => existsb (fun i => vres_eqb (model_engine c t i) Unsupported)
                        (seq 0 (length (tc_ins c)))
    | None => false
    end.

  Definition judge (c : tx_case) : verdict :=
    if unsupported c then BadCase else decide (spec_ok c) (agree c).

  (* what --replay prints: per input the model's digest id and engine verdict *)
  Definition explain (c : tx_case) : option (list (option N * vres)) :=
    match model_hashes c with
    | None => None
    | Some b =>
        Some (map (fun i => (match nth_error (b_hashes b) i with Some h => did c h | None => None end,
                             match model_tx c with Some t => model_engine c t i | None => Reject end))
                  (seq 0 (length (tc_ins c))))
    end.
End Concrete.

(* ------------------------------------------------------------------ builder histories *)
(* Operation sequences on ONE TransactionBuilder.  The builder is the state record [builder]
   (inputs, per-input sighash arguments, outputs, the LAST computed hashes); [hstep] is the
   per-operation step function of the code as written:
     * Add*Input / AddOutput append (a refused input changes nothing);
     * ComputeSignatureHashes recomputes every digest from the transaction as it is at the call
       and stores the list (on an error nothing is stored: the previous list stays);
     * AddSignatures verifies against the STORED list (it recomputes nothing), checks the count
       against the CURRENT number of inputs, indexes the stored list without a bounds check (an
       input added after the last computation makes that a run-time panic once all earlier
       signatures verified) and writes scriptSig / witness into the inputs IN PLACE, one input at
       a time, so a refusal at input k leaves inputs 0..k-1 already rewritten. *)
Definition input_args (i : input) : sigargs :=
  {| sa_value := u_value (in_utxo i);
     sa_code := match in_kind_ i with KPkh => in_script i | KSh r => r end;
     sa_witness := is_witness_program (in_script i) |}.
Definition input_accepted (i : input) : bool :=
  match add_input new_builder i with Some _ => true | None => false end.
(* the unsigned transaction made of these inputs and outputs *)
Definition tx_of (ins : list input) (outs : list (Z * bytes)) : tx_skel :=
  {| tx_version := 1;
     tx_ins := map (fun i => {| ti_txid := u_txid (in_utxo i); ti_vout := u_vout (in_utxo i);
                                ti_seq := max_seq |}) ins;
     tx_outs := outs; tx_lock := 0 |}.
(* THE signature hashes of a transaction: a function of its inputs and outputs only *)
Definition tx_sighashes (ins : list input) (outs : list (Z * bytes)) : option (list sighash) :=
  hashes_from (tx_of ins outs) 0 (map input_args ins).

Inductive hres :=
| RAdded | RAddErr                       (* Add*Input: nil / error *)
| RVoid                                  (* AddOutput *)
| RHashes (hs : list sighash) | RHashErr (* ComputeSignatureHashes *)
| RTx (t : signed_tx) | RRefused | RPanic. (* AddSignatures *)

Inductive sflag := FDone | FRefused | FPanic.

Section History.
  Variable sigT : Type.
  Variable der : sigT -> bytes.
  Variable ecdsa_verify : bytes -> sighash -> sigT -> bool.

  Inductive hop :=
  | HAddIn (i : input)
  | HAddOut (v : Z) (s : bytes)
  | HCompute
  | HSign (sigs : list (sigT * bytes)).

  Definition signed_pre (p : pre_in) (si : signed_in) : pre_in :=
    {| pi_txid := pi_txid p; pi_vout := pi_vout p;
       pi_script := si_script si; pi_witness := si_witness si |}.

  (* the loop of AddSignatures over tb.internal.TxIn, with the in-place writes *)
  Fixpoint sign_mut (ins : list pre_in) (args : list sigargs) (hs : list sighash)
           (sigs : list (sigT * bytes)) : list pre_in * sflag :=
    match ins, args, sigs with
    | [], _, _ => ([], FDone)
    | p :: ins', a :: args', (sg, pk) :: sigs' =>
        match hs with
        | [] => (ins, FPanic)                        (* tb.sigHashes[i]: index out of range *)
        | h :: hs' =>
            match sign_input sigT der ecdsa_verify p a h sg pk with
            | None => (ins, FRefused)
            | Some si => let (r, f) := sign_mut ins' args' hs' sigs' in (signed_pre p si :: r, f)
            end
        end
    | _, _, _ => (ins, FPanic)                       (* unreachable after the count check *)
    end.

  Definition as_signed (p : pre_in) : signed_in :=
    {| si_script := pi_script p; si_witness := pi_witness p |}.

  Definition add_signatures_h (b : builder) (sigs : list (sigT * bytes)) : builder * hres :=
    match b_hashes b with
    | [] => (b, RRefused)
    | _ =>
        if negb (length sigs =? length (b_ins b))%nat then (b, RRefused)
        else
          let (ins', f) := sign_mut (b_ins b) (b_args b) (b_hashes b) sigs in
          let b' := {| b_ins := ins'; b_args := b_args b; b_outs := b_outs b;
                       b_hashes := b_hashes b |} in
          (b', match f with
               | FDone => RTx {| st_skel := skeleton b'; st_ins := map as_signed ins' |}
               | FRefused => RRefused
               | FPanic => RPanic
               end)
    end.

  Definition hstep (b : builder) (o : hop) : builder * hres :=
    match o with
    | HAddIn i => match add_input b i with Some b' => (b', RAdded) | None => (b, RAddErr) end
    | HAddOut v s => (add_output b v s, RVoid)
    | HCompute => match compute_hashes b with
                  | Some b' => (b', RHashes (b_hashes b'))
                  | None => (b, RHashErr)
                  end
    | HSign sigs => add_signatures_h b sigs
    end.

  Fixpoint hrun (b : builder) (ops : list hop) : builder * list hres :=
    match ops with
    | [] => (b, [])
    | o :: t => let (b1, r) := hstep b o in let (b2, rs) := hrun b1 t in (b2, r :: rs)
    end.

  (* the transaction a history has assembled: the accepted inputs and the outputs, in order *)
  Fixpoint hist_ins (ops : list hop) : list input :=
    match ops with
    | [] => []
    | HAddIn i :: t => if input_accepted i then i :: hist_ins t else hist_ins t
    | _ :: t => hist_ins t
    end.
  Fixpoint hist_outs (ops : list hop) : list (Z * bytes) :=
    match ops with
    | [] => []
    | HAddOut v s :: t => (v, s) :: hist_outs t
    | _ :: t => hist_outs t
    end.
  Definition is_sign (o : hop) : bool := match o with HSign _ => true | _ => false end.
  Definition is_compute (o : hop) : bool := match o with HCompute => true | _ => false end.
  Definition adds_input (o : hop) : bool :=
    match o with HAddIn i => input_accepted i | _ => false end.
End History.
Arguments HAddIn {sigT} i.
Arguments HAddOut {sigT} v s.
Arguments HCompute {sigT}.
Arguments HSign {sigT} sigs.

(* ---- correspondence: history cases ---- *)
(* a digest of the table: input [idx] of the transaction with the first [nins] inputs and the
   first [nouts] outputs of the history (operations only append, so the two counts identify the
   transaction), computed by the driver with btcd on a freshly built wire.MsgTx *)
Record hrow := { hr_nins : nat; hr_nouts : nat; hr_idx : nat; hr_ver : sigver;
                 hr_code : code_kind; hr_value : Z; hr_id : N }.

Inductive cop :=
| CAddIn (i : input) (p2pkh : bytes)     (* p2pkh: btcd's P2PKH script of a P2WPKH program, else [] *)
| CAddOut (v : Z) (s : bytes)
| CCompute
| CSign (ks : list nat).                 (* positions in hc_sigs *)

Inductive hobs := BAdded | BAddErr | BVoid | BHashes (ids : list N) | BHashErr
                | BTx | BRefused | BPanic.

Record fin_in := { fi_engine : option bool; fi_script_sig : bytes; fi_witness : list bytes }.

Record hist_case := { hc_ops : list cop;
                      hc_obs : list hobs;           (* what each call returned *)
                      hc_rows : list hrow;
                      hc_hash160 : list (bytes * bytes);
                      hc_sha256 : list (bytes * bytes);
                      hc_sigs : list sig_obs;
                      hc_final : list fin_in;        (* inputs of the transaction of the LAST call,
                                                        when that call is AddSignatures and produced one *)
                      hc_expect_valid : bool;        (* wallet / deposit inputs only, the last call is
                                                        AddSignatures with signatures by the committed keys
                                                        over the hashes of the last computation, nothing was
                                                        added after that computation *)
                      hc_must_reject : bool }.       (* the last call is AddSignatures with a wrong count or a
                                                        signature not valid for the stored hash of its input *)

Module Hist.
  Definition accepted_ins (c : hist_case) : list (input * bytes) :=
    flat_map (fun o => match o with
                       | CAddIn i p => if input_accepted i then [(i, p)] else []
                       | _ => []
                       end) (hc_ops c).

  Definition code_of (ip : input * bytes) (k : code_kind) : bytes :=
    match k with
    | KUtxoScript => in_script (fst ip)
    | KRedeem => match in_kind_ (fst ip) with KSh r => r | KPkh => [] end
    | KP2pkhOfProgram => snd ip
    end.

  Definition did (c : hist_case) (h : sighash) : option N :=
    if negb (sh_type h =? sighash_all) then None else
    match nth_error (accepted_ins c) (sh_idx h) with
    | None => None
    | Some ip =>
        match filter (fun r => (hr_nins r =? length (tx_ins (sh_tx h)))%nat
                               && (hr_nouts r =? length (tx_outs (sh_tx h)))%nat
                               && (hr_idx r =? sh_idx h)%nat
                               && sigver_eqb (hr_ver r) (sh_ver h)
                               && bytes_eqb (code_of ip (hr_code r)) (sh_code h)
                               && match sh_ver h with
                                  | Legacy => true
                                  | Bip143 => (hr_value r =? sh_value h)%Z
                                  end) (hc_rows c) with
        | r :: _ => Some (hr_id r)
        | [] => None
        end
    end.

  Definition der (c : hist_case) (k : nat) : bytes :=
    match nth_error (hc_sigs c) k with Some s => so_der s | None => [] end.
  Definition ecdsa_verify (c : hist_case) (pk : bytes) (h : sighash) (k : nat) : bool :=
    match nth_error (hc_sigs c) k, did c h with
    | Some s, Some d => bytes_eqb pk (so_pk s) && existsb (N.eqb d) (so_valid_for s)
    | _, _ => false
    end.
  Definition checksig (c : hist_case) (pk derb : bytes) (h : sighash) : bool :=
    match did c h with
    | Some d => existsb (fun s => bytes_eqb pk (so_pk s) && bytes_eqb derb (so_der s)
                                  && existsb (N.eqb d) (so_valid_for s)) (hc_sigs c)
    | None => false
    end.

  Definition to_hop (c : hist_case) (o : cop) : hop nat :=
    match o with
    | CAddIn i _ => HAddIn i
    | CAddOut v s => HAddOut v s
    | CCompute => HCompute
    | CSign ks => HSign (map (fun k => (k, match nth_error (hc_sigs c) k with
                                           | Some s => so_pk s | None => [] end)) ks)
    end.

  Definition model_run (c : hist_case) : builder * list hres :=
    hrun nat (der c) (ecdsa_verify c) new_builder (map (to_hop c) (hc_ops c)).

  Definition obs_match (c : hist_case) (r : hres) (o : hobs) : bool :=
    match r, o with
    | RAdded, BAdded | RAddErr, BAddErr | RVoid, BVoid | RHashErr, BHashErr
    | RTx _, BTx | RRefused, BRefused | RPanic, BPanic => true
    | RHashes hs, BHashes ids => list_eqb (opt_eqb N.eqb) (map (did c) hs) (map Some ids)
    | _, _ => false
    end.

  Fixpoint all2 {A B} (f : A -> B -> bool) (a : list A) (b : list B) : bool :=
    match a, b with
    | [], [] => true
    | x :: a', y :: b' => f x y && all2 f a' b'
    | _, _ => false
    end.

  Definition model_engine (c : hist_case) (tx : signed_tx) (i : nat) : vres :=
    match nth_error (st_ins tx) i, nth_error (accepted_ins c) i with
    | Some si, Some ip =>
        verify_input (table_fn (hc_hash160 c)) (table_fn (hc_sha256 c)) (fun _ => true)
                     (checksig c) (st_skel tx) i (si_script si) (si_witness si)
                     (in_script (fst ip)) (u_value (in_utxo (fst ip)))
    | _, _ => Reject
    end.

  Definition last_tx (rs : list hres) : option signed_tx :=
    match rev rs with RTx t :: _ => Some t | _ => None end.
  Definition last_is_tx (os : list hobs) : bool :=
    match rev os with BTx :: _ => true | _ => false end.

  Definition agree_final (c : hist_case) (tx : signed_tx) : bool :=
    (length (hc_final c) =? length (st_ins tx))%nat &&
    Concrete.forallb_i
      (fun i fi => match nth_error (st_ins tx) i with
                   | Some si => bytes_eqb (si_script si) (fi_script_sig fi)
                                && list_eqb bytes_eqb (si_witness si) (fi_witness fi)
                                && match fi_engine fi with
                                   | Some e => vres_eqb (model_engine c tx i)
                                                        (if e then Accept else Reject)
                                   | None => false
                                   end
                   | None => false
                   end) 0 (hc_final c).

  Definition agree (c : hist_case) : bool :=
    let rs := snd (model_run c) in
    all2 (obs_match c) rs (hc_obs c)
    && match last_tx rs with
       | Some tx => agree_final c tx
       | None => match hc_final c with [] => true | _ => false end
       end.

  (* an accepted input was added after the last ComputeSignatureHashes that returned hashes (then
     AddSignatures indexes the stored list out of range: the one place where the code as written
     panics) *)
  Fixpoint input_after_compute (ops : list cop) (obs : list hobs) (pending : bool) : bool :=
    match ops, obs with
    | CAddIn i _ :: t, BAdded :: t' => input_after_compute t t' true
    | CCompute :: t, BHashes _ :: t' => input_after_compute t t' false
    | _ :: t, _ :: t' => input_after_compute t t' pending
    | _, _ => pending
    end.

  (* ---- the property, on the implementation's outputs ---- *)
  Definition spec_ok (c : hist_case) : bool :=
    (* signatures over the last computation, nothing added since: a transaction, every input passes *)
    (if hc_expect_valid c
     then last_is_tx (hc_obs c)
          && negb (match hc_final c with [] => true | _ => false end)
          && forallb (fun fi => match fi_engine fi with Some true => true | _ => false end)
                     (hc_final c)
     else true)
    && (if hc_must_reject c then negb (last_is_tx (hc_obs c)) else true)
    && (if existsb (fun o => match o with BPanic => true | _ => false end) (hc_obs c)
        then input_after_compute (hc_ops c) (hc_obs c) false else true).

  Definition unsupported (c : hist_case) : bool :=
    match last_tx (snd (model_run c)) with
    | Some t => existsb (fun i => vres_eqb (model_engine c t i) Unsupported)
                        (seq 0 (length (st_ins t)))
    | None => false
    end.

  Definition judge (c : hist_case) : verdict :=
    if unsupported c then BadCase else decide (spec_ok c) (agree c).

  (* what --replay prints: per call, the model's result (digest ids for a computation), and the
     model's engine verdicts for the final transaction *)
  Definition explain (c : hist_case) : list (hobs * list (option N)) * list vres :=
    let rs := snd (model_run c) in
    (map (fun r => match r with
                   | RAdded => (BAdded, []) | RAddErr => (BAddErr, []) | RVoid => (BVoid, [])
                   | RHashes hs => (BHashes [], map (did c) hs) | RHashErr => (BHashErr, [])
                   | RTx _ => (BTx, []) | RRefused => (BRefused, []) | RPanic => (BPanic, [])
                   end) rs,
     match last_tx rs with
     | Some t => map (model_engine c t) (seq 0 (length (st_ins t)))
     | None => []
     end).
End Hist.

(* the case type of the check: one transaction (one pass over a fresh builder) or one history *)
Inductive any_case := CTx (c : tx_case) | CHist (c : hist_case).
Definition judge_any (c : any_case) : verdict :=
  match c with CTx c => Concrete.judge c | CHist c => Hist.judge c end.
Definition explain_any (c : any_case) :=
  match c with
  | CTx c => (Concrete.explain c, None)
  | CHist c => (None, Some (Hist.explain c))
  end.
