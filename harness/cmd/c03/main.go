// Driver for C03: runs bls.RecoverSignature / bls.RecoverPublicKey and the relay-entry glue
// (entry.extractAndValidateShare, entry.completeSignature through the verif hook) on generated
// share lists and prints the cases for the Coq model (Model/C03.v).
//
// Group elements cross the boundary as discrete logarithms.  Every input element is built by the
// driver as v*base (base = the message point H(m) for G1, the generator for G2), so v is known.
// For a returned element R the driver *certifies* a logarithm z with the library itself
// (z*base == R, bn256.ScalarMult + Marshal equality); candidates for z are found by an auxiliary
// big.Int Lagrange computation, but nothing is believed about a candidate except that check.
// If no candidate passes, the observable says "no certified logarithm".
//
// All cases run in ONE process (the production situation: a long-lived client recovers again and
// again).  Besides independent calls there are HISTORIES (input.Hist): several recoveries made
// back to back from participant lists chosen to be confusable - equal decimal concatenations of
// the member indices ([1,12,3] / [11,2,3]), other thresholds over the same digits ([12,3]),
// leading digits ([10,2] / [1,0,2]) - with member indices of the production group size (64) and
// beyond (255, 1000).  A history is one case: it replays on its own in a fresh process.
package main

import (
	"bytes"
	"fmt"
	"math/big"
	"os"
	"strings"

	bn256 "github.com/ethereum/go-ethereum/crypto/bn256/cloudflare"
	"github.com/keep-network/keep-core/pkg/altbn128"
	"github.com/keep-network/keep-core/pkg/beacon/dkg"
	"github.com/keep-network/keep-core/pkg/beacon/entry"
	"github.com/keep-network/keep-core/pkg/bls"
	"github.com/keep-network/keep-core/pkg/chain"
	"github.com/keep-network/keep-core/pkg/protocol/group"

	"verifharness/lib"
)

var order = bn256.Order

// ---------------------------------------------------------------- inputs (replayable)

type entryIn struct {
	Nil  bool   `json:"nil,omitempty"`
	I    int    `json:"i"`
	VNil bool   `json:"vnil,omitempty"`
	V    string `json:"v,omitempty"` // decimal logarithm of the share value
}

type recIn struct {
	Fn        string    `json:"fn"` // "sig" | "pub"
	Entries   []entryIn `json:"entries"`
	Threshold int       `json:"threshold"`
	Coeffs    []string  `json:"coeffs"` // polynomial, lowest degree first
	Msg       string    `json:"msg"`
}

type msgIn struct {
	Sender  uint8  `json:"sender"`
	Garbage int    `json:"garbage,omitempty"` // 0 well-formed, 1 short, 2 not on curve, 3 coordinate >= p
	Share   string `json:"share,omitempty"`
}

type pkIn struct {
	Member uint8  `json:"member"`
	Dlog   string `json:"dlog"`
}

type entIn struct {
	Self      uint8    `json:"self"`
	SelfShare string   `json:"self_share"`
	Pks       []pkIn   `json:"pks"`
	Threshold int      `json:"threshold"`
	Coeffs    []string `json:"coeffs"`
	Msgs      []msgIn  `json:"msgs"`
	Msg       string   `json:"msg"`
}

type input struct {
	Rec  *recIn   `json:"rec,omitempty"`
	Ent  *entIn   `json:"ent,omitempty"`
	Hist []*recIn `json:"hist,omitempty"` // recoveries made one after the other in this process
}

func bi(s string) *big.Int {
	n, ok := new(big.Int).SetString(s, 10)
	if !ok {
		panic("bad integer " + s)
	}
	return n
}

func evalPoly(cs []*big.Int, x int64) *big.Int {
	acc := big.NewInt(0)
	for k := len(cs) - 1; k >= 0; k-- {
		acc.Mul(acc, big.NewInt(x))
		acc.Add(acc, cs[k])
	}
	return acc
}

// ---------------------------------------------------------------- logarithm certification

type iv struct {
	i int64
	v *big.Int
}

// lagrange0 is only a source of candidates (see the package comment).
func lagrange0(pts []iv) *big.Int {
	res := big.NewInt(0)
	for a, pa := range pts {
		num, den := big.NewInt(1), big.NewInt(1)
		for b, pb := range pts {
			if a == b {
				continue
			}
			num.Mul(num, big.NewInt(pb.i)).Mod(num, order)
			den.Mul(den, new(big.Int).Sub(big.NewInt(pb.i), big.NewInt(pa.i))).Mod(den, order)
		}
		inv := new(big.Int).ModInverse(den, order)
		if inv == nil {
			return nil
		}
		t := new(big.Int).Mul(num, inv)
		t.Mul(t, pa.v)
		res.Add(res, t).Mod(res, order)
	}
	return res
}

func certify(mul func(z *big.Int) []byte, r []byte, cands []*big.Int) *big.Int {
	for _, z := range cands {
		if z == nil {
			continue
		}
		zz := new(big.Int).Mod(z, order)
		if bytes.Equal(mul(zz), r) {
			return zz
		}
	}
	return nil
}

func candidates(entries []entryIn, threshold int, f0 *big.Int) []*big.Int {
	var valid []iv
	for _, e := range entries {
		if e.Nil || e.VNil || e.I < 0 {
			continue
		}
		valid = append(valid, iv{int64(e.I), bi(e.V)})
	}
	c := []*big.Int{f0}
	if threshold >= 0 && threshold <= len(valid) {
		c = append(c, lagrange0(valid[:threshold]))
	}
	c = append(c, lagrange0(valid))
	// the pre-fix behaviour: indices of the valid entries, values by position
	if threshold >= 0 && threshold <= len(valid) {
		var old []iv
		ok := true
		for k := 0; k < threshold; k++ {
			if entries[k].Nil || entries[k].VNil {
				ok = false
				break
			}
			old = append(old, iv{valid[k].i, bi(entries[k].V)})
		}
		if ok {
			c = append(c, lagrange0(old))
		}
	}
	return c
}

func obsTerm(kind string, z *big.Int, ver bool) string {
	switch kind {
	case "err":
		return "OErr"
	case "panic":
		return "OPanic"
	}
	if z == nil {
		return "(OPoint None " + lib.Bool(ver) + ")"
	}
	return "(OPoint (Some " + lib.ZBig(z) + ") " + lib.Bool(ver) + ")"
}

func listZBig(vs []*big.Int) string {
	s := make([]string, len(vs))
	for i, v := range vs {
		s[i] = lib.ZBig(v)
	}
	return lib.List(s)
}

// ---------------------------------------------------------------- RecoverSignature / RecoverPublicKey

// recRun is one executed recovery: the Coq rec_case term, the observable and structural features.
type recRun struct {
	term            string
	kind            string
	ver             bool
	z               *big.Int
	resBytes        []byte
	nValid          int
	skipBeforeValid bool
	ascending       bool
	dup             bool
	used            []int // indices of the usable entries, in list order
}

func (x *recRun) out() map[string]interface{} {
	out := map[string]interface{}{"kind": x.kind, "verifies": x.ver}
	if x.z != nil {
		out["certified_dlog"] = x.z.String()
	}
	if x.resBytes != nil {
		out["point"] = fmt.Sprintf("%x", x.resBytes)
	}
	return out
}

func execRec(in *recIn, em *lib.Emitter) *recRun {
	coeffs := make([]*big.Int, len(in.Coeffs))
	for i, c := range in.Coeffs {
		coeffs[i] = bi(c)
	}
	f0 := big.NewInt(0)
	if len(coeffs) > 0 {
		f0 = new(big.Int).Mod(coeffs[0], order)
	}
	h := altbn128.G1HashToPoint([]byte(in.Msg))
	groupKey := new(bn256.G2).ScalarBaseMult(f0)

	var kind string
	var resBytes []byte
	var ver bool
	var mul func(z *big.Int) []byte
	func() {
		defer func() {
			if r := recover(); r != nil {
				kind = "panic"
			}
		}()
		if in.Fn == "sig" {
			shares := make([]*bls.SignatureShare, len(in.Entries))
			for k, e := range in.Entries {
				switch {
				case e.Nil:
				case e.VNil:
					shares[k] = &bls.SignatureShare{I: e.I}
				default:
					shares[k] = &bls.SignatureShare{I: e.I, V: new(bn256.G1).ScalarMult(h, bi(e.V))}
				}
			}
			mul = func(z *big.Int) []byte { return new(bn256.G1).ScalarMult(h, z).Marshal() }
			sig, err := bls.RecoverSignature(shares, in.Threshold)
			if err != nil {
				kind = "err"
				return
			}
			kind, resBytes = "point", sig.Marshal()
			ver = bls.VerifyG1(groupKey, h, sig)
		} else {
			shares := make([]*bls.PublicKeyShare, len(in.Entries))
			for k, e := range in.Entries {
				switch {
				case e.Nil:
				case e.VNil:
					shares[k] = &bls.PublicKeyShare{I: e.I}
				default:
					shares[k] = &bls.PublicKeyShare{I: e.I, V: new(bn256.G2).ScalarBaseMult(bi(e.V))}
				}
			}
			mul = func(z *big.Int) []byte { return new(bn256.G2).ScalarBaseMult(z).Marshal() }
			pk, err := bls.RecoverPublicKey(shares, in.Threshold)
			if err != nil {
				kind = "err"
				return
			}
			kind, resBytes = "point", pk.Marshal()
			ver = bytes.Equal(resBytes, groupKey.Marshal())
		}
	}()
	var z *big.Int
	if kind == "point" {
		z = certify(mul, resBytes, candidates(in.Entries, in.Threshold, f0))
	}

	// Coq term and structural features
	ents := make([]string, len(in.Entries))
	nValid, skips, skipBeforeValid, ascending := 0, 0, false, true
	var used []int
	last := -1
	seenSkip := false
	idx := map[int]bool{}
	dup := false
	for k, e := range in.Entries {
		switch {
		case e.Nil:
			ents[k] = "ENil"
		case e.VNil:
			ents[k] = fmt.Sprintf("(EShare %s None)", lib.Z(int64(e.I)))
		default:
			ents[k] = fmt.Sprintf("(EShare %s (Some %s))", lib.Z(int64(e.I)), lib.ZBig(bi(e.V)))
		}
		if e.Nil || e.VNil || e.I < 0 {
			skips++
			seenSkip = true
			continue
		}
		nValid++
		used = append(used, e.I)
		if seenSkip {
			skipBeforeValid = true
		}
		if e.I < last {
			ascending = false
		}
		last = e.I
		if idx[e.I] {
			dup = true
		}
		idx[e.I] = true
	}
	_ = skips
	fnT := map[string]string{"sig": "FSig", "pub": "FPub"}[in.Fn]
	term := fmt.Sprintf("{| c_fn := %s; c_entries := %s; c_threshold := %s; c_coeffs := %s; c_obs := %s |}",
		fnT, lib.List(ents), lib.Z(int64(in.Threshold)), listZBig(coeffs), obsTerm(kind, z, ver))
	em.Tally("rec-" + in.Fn + "-out-" + kind)
	em.Tally(fmt.Sprintf("rec-threshold-%02d", in.Threshold))
	if skipBeforeValid {
		em.Tally("rec-skippable-before-valid")
	}
	if !ascending {
		em.Tally("rec-not-ascending")
	}
	if dup {
		em.Tally("rec-duplicate-index")
	}
	maxIdx := 0
	for _, i := range used {
		if i > maxIdx {
			maxIdx = i
		}
	}
	switch {
	case maxIdx >= 100:
		em.Tally("rec-max-index-100+")
	case maxIdx >= 11:
		em.Tally("rec-max-index-11..99")
	}
	return &recRun{term: term, kind: kind, ver: ver, z: z, resBytes: resBytes, nValid: nValid,
		skipBeforeValid: skipBeforeValid, ascending: ascending, dup: dup, used: used}
}

func runRec(in *recIn, em *lib.Emitter, id string) {
	x := execRec(in, em)
	em.Case(lib.Case{
		ID:  id,
		Coq: "(CRec " + x.term + ")",
		Key: fmt.Sprintf("rec|%s|%v|%d|%v", in.Fn, in.Entries, in.Threshold, in.Coeffs),
		Nontrivial: x.kind == "point" && in.Threshold >= 2 && x.nValid >= in.Threshold && !x.dup &&
			(x.skipBeforeValid || !x.ascending),
		Sig: map[string]interface{}{"kind": "rec", "fn": in.Fn, "skip_before_valid": x.skipBeforeValid,
			"ascending": x.ascending, "duplicate": x.dup},
		In:  input{Rec: in},
		Out: x.out(),
	})
}

// concatKey is the decimal concatenation of the participants a recovery interpolates over (the
// first `threshold` usable entries), without separators.
func concatKey(used []int, threshold int) (string, []int) {
	if threshold >= 0 && threshold < len(used) {
		used = used[:threshold]
	}
	var b strings.Builder
	for _, i := range used {
		fmt.Fprintf(&b, "%d", i)
	}
	return b.String(), used
}

func sameInts(a, b []int) bool {
	if len(a) != len(b) {
		return false
	}
	for i := range a {
		if a[i] != b[i] {
			return false
		}
	}
	return true
}

// runHist makes the recoveries of [ins] one after the other in THIS process and emits them as one
// history case; the Coq side judges every call separately.
func runHist(ins []*recIn, em *lib.Emitter, id string) {
	terms := make([]string, len(ins))
	outs := make([]interface{}, len(ins))
	keys := make([]string, len(ins))
	type part struct {
		key  string
		used []int
	}
	var parts []part
	allPoints, collide, collideSameT := true, 0, 0
	fns := map[string]bool{}
	for k, in := range ins {
		x := execRec(in, em)
		terms[k] = x.term
		outs[k] = x.out()
		keys[k] = fmt.Sprintf("%s|%v|%d|%v", in.Fn, in.Entries, in.Threshold, in.Coeffs)
		fns[in.Fn] = true
		if x.kind != "point" {
			allPoints = false
		}
		ck, u := concatKey(x.used, in.Threshold)
		for _, p := range parts {
			if p.key == ck && !sameInts(p.used, u) {
				collide++
				if len(p.used) == len(u) {
					collideSameT++
				}
				break
			}
		}
		parts = append(parts, part{ck, u})
	}
	em.Tally(fmt.Sprintf("hist-length-%d", len(ins)))
	if collide > 0 {
		em.Tally("hist-with-equal-decimal-concatenation")
	}
	if collideSameT > 0 {
		em.Tally("hist-with-equal-concatenation-same-threshold")
	}
	if len(fns) == 2 {
		em.Tally("hist-sig-and-pub-interleaved")
	}
	em.Case(lib.Case{
		ID:         id,
		Coq:        "(CHist " + lib.List(terms) + ")",
		Key:        "hist|" + strings.Join(keys, "||"),
		Nontrivial: allPoints && collide > 0 && len(ins) >= 2,
		Sig:        map[string]interface{}{"kind": "hist", "equal_concatenation": collide > 0, "len": len(ins)},
		In:         input{Hist: ins},
		Out:        map[string]interface{}{"calls": outs},
	})
}

// ---------------------------------------------------------------- entry glue

func garbageBytes(kind int, h *bn256.G1) []byte {
	switch kind {
	case 1:
		return []byte{1, 2, 3}
	case 2:
		b := h.Marshal()
		b[63] ^= 1 // not on the curve any more
		return b
	default:
		b := make([]byte, 64)
		for i := range b {
			b[i] = 0xff
		}
		return b
	}
}

func runEnt(in *entIn, em *lib.Emitter, id string) {
	coeffs := make([]*big.Int, len(in.Coeffs))
	for i, c := range in.Coeffs {
		coeffs[i] = bi(c)
	}
	f0 := big.NewInt(0)
	if len(coeffs) > 0 {
		f0 = new(big.Int).Mod(coeffs[0], order)
	}
	h := altbn128.G1HashToPoint([]byte(in.Msg))
	groupKey := new(bn256.G2).ScalarBaseMult(f0)
	pks := map[group.MemberIndex]*bn256.G2{}
	pkTerms := make([]string, len(in.Pks))
	for k, p := range in.Pks {
		pks[p.Member] = new(bn256.G2).ScalarBaseMult(bi(p.Dlog))
		pkTerms[k] = lib.Pair(lib.N(uint64(p.Member)), lib.ZBig(bi(p.Dlog)))
	}
	selfShare := bi(in.SelfShare)
	signer := dkg.NewThresholdSigner(in.Self, groupKey, selfShare, pks, []chain.Address{})
	received := map[group.MemberIndex]*bn256.G1{in.Self: signer.CalculateSignatureShare(h)}
	recvLog := map[group.MemberIndex]*big.Int{in.Self: selfShare}

	var msgTerms, accTerms []string
	var fed []msgIn
	nAcc, nRej := 0, 0
	harnessPanic := ""
	for _, m := range in.Msgs {
		if len(received) >= in.Threshold {
			break
		}
		fed = append(fed, m)
		var shareBytes []byte
		share := big.NewInt(0)
		if m.Garbage == 0 {
			share = bi(m.Share)
			shareBytes = new(bn256.G1).ScalarMult(h, share).Marshal()
		} else {
			shareBytes = garbageBytes(m.Garbage, h)
		}
		var pt *bn256.G1
		var err error
		func() {
			defer func() {
				if r := recover(); r != nil {
					harnessPanic = fmt.Sprint(r)
					err = fmt.Errorf("panic")
				}
			}()
			pt, err = entry.VerifExtractAndValidateShare(
				entry.NewSignatureShareMessage(m.Sender, shareBytes, "s"), pks, h)
		}()
		acc := err == nil
		if acc {
			nAcc++
			// what the real code would store is the returned point; it must be the sender's bytes
			if !bytes.Equal(pt.Marshal(), shareBytes) {
				acc = false
				harnessPanic = "extractAndValidateShare returned a different point"
			}
		} else {
			nRej++
		}
		if acc && m.Sender != in.Self {
			received[m.Sender] = pt
			recvLog[m.Sender] = share
		}
		msgTerms = append(msgTerms, fmt.Sprintf("{| m_sender := %s; m_wellformed := %s; m_share := %s |}",
			lib.N(uint64(m.Sender)), lib.Bool(m.Garbage == 0), lib.ZBig(share)))
		accTerms = append(accTerms, lib.Bool(acc))
	}
	in.Msgs = fed

	var kind string
	var resBytes []byte
	var ver bool
	func() {
		defer func() {
			if r := recover(); r != nil {
				kind = "panic"
			}
		}()
		sig, err := entry.VerifCompleteSignature(signer, received, in.Threshold)
		if err != nil {
			if !strings.Contains(err.Error(), "not enough shares") {
				kind = "panic"
				return
			}
			kind = "err"
			return
		}
		kind, resBytes = "point", sig.Marshal()
		ver = bls.VerifyG1(groupKey, h, sig)
	}()
	if harnessPanic != "" {
		kind = "panic"
	}
	var z *big.Int
	if kind == "point" {
		var pts []iv
		for k, v := range recvLog {
			pts = append(pts, iv{int64(k), v})
		}
		z = certify(func(z *big.Int) []byte { return new(bn256.G1).ScalarMult(h, z).Marshal() },
			resBytes, []*big.Int{f0, lagrange0(pts)})
	}
	coq := fmt.Sprintf("(CEntry {| e_self := %s; e_self_share := %s; e_pks := %s; e_threshold := %s; e_coeffs := %s; e_msgs := %s; e_accepted := %s; e_obs := %s |})",
		lib.N(uint64(in.Self)), lib.ZBig(selfShare), lib.List(pkTerms), lib.Z(int64(in.Threshold)),
		listZBig(coeffs), lib.List(msgTerms), lib.List(accTerms), obsTerm(kind, z, ver))
	em.Tally("entry-out-" + kind)
	em.Tally(fmt.Sprintf("entry-accepted-%d", nAcc))
	if nRej > 0 {
		em.Tally("entry-with-rejected-message")
	}
	out := map[string]interface{}{"kind": kind, "verifies": ver, "accepted": accTerms}
	if z != nil {
		out["certified_dlog"] = z.String()
	}
	em.Case(lib.Case{
		ID:         id,
		Coq:        coq,
		Key:        fmt.Sprintf("ent|%d|%v|%d|%v|%v", in.Self, in.Pks, in.Threshold, in.Coeffs, in.Msgs),
		Nontrivial: kind == "point" && nRej > 0 && nAcc > 0,
		Sig:        map[string]interface{}{"kind": "entry", "rejected": nRej > 0},
		In:         input{Ent: in},
		Out:        out,
	})
}

// ---------------------------------------------------------------- generators

func randBelow(r *lib.Rng, n *big.Int) *big.Int {
	b := new(big.Int).SetBytes(r.Bytes(40))
	return b.Mod(b, n)
}

func randCoeff(r *lib.Rng) *big.Int {
	switch r.Intn(12) {
	case 0:
		return big.NewInt(int64(r.Intn(5)))
	case 1:
		return new(big.Int).Sub(order, big.NewInt(int64(1+r.Intn(3))))
	case 2:
		return new(big.Int).Add(order, big.NewInt(int64(r.Intn(4)))) // not reduced
	}
	return randBelow(r, order)
}

func polyStrings(cs []*big.Int) []string {
	s := make([]string, len(cs))
	for i, c := range cs {
		s[i] = c.String()
	}
	return s
}

func skipEntry(r *lib.Rng, kind int) entryIn {
	switch kind {
	case 0:
		return entryIn{Nil: true}
	case 1:
		return entryIn{I: r.Range(-2, 9), VNil: true}
	default:
		return entryIn{I: -1 - r.Intn(3), V: randBelow(r, order).String()}
	}
}

// genRec builds one share list: [k] correct shares of members drawn from 1..n in random order,
// skippable entries interleaved, optional faults.
func genRec(r *lib.Rng, fn string, n, t, k int, nSkips int, fault string) *recIn {
	deg := t
	if deg > 0 && r.Chance(1, 8) {
		deg = r.Range(1, t) // lower degree than the threshold allows
	}
	cs := make([]*big.Int, deg)
	for i := range cs {
		cs[i] = randCoeff(r)
	}
	// the members' indices: 1..n, or n seats of a larger group (64, 255, 1000 members)
	universe := n
	if r.Chance(1, 2) {
		universe = []int{64, 255, 1000}[r.Intn(3)]
		if universe < n {
			universe = n
		}
	}
	members := r.Perm(universe)
	var entries []entryIn
	for j := 0; j < k && j < n; j++ {
		i := members[j] + 1
		if fault == "index0" && j == 0 {
			i = 0
		}
		entries = append(entries, entryIn{I: i, V: evalPoly(cs, int64(i)).String()})
	}
	if r.Chance(1, 3) { // sometimes in member order, as the tests do
		for a := 0; a < len(entries); a++ {
			for b := a + 1; b < len(entries); b++ {
				if entries[b].I < entries[a].I {
					entries[a], entries[b] = entries[b], entries[a]
				}
			}
		}
	}
	switch fault {
	case "wrong-share":
		if len(entries) > 0 {
			p := r.Intn(len(entries))
			entries[p].V = new(big.Int).Add(bi(entries[p].V), big.NewInt(int64(1+r.Intn(5)))).String()
		}
	case "duplicate":
		if len(entries) > 1 {
			entries[r.Intn(len(entries))].I = entries[r.Intn(len(entries))].I
		}
	case "reduced":
		for p := range entries {
			entries[p].V = new(big.Int).Mod(bi(entries[p].V), order).String()
		}
	}
	for s := 0; s < nSkips; s++ {
		p := r.Intn(len(entries) + 1)
		if s == 0 && r.Chance(1, 2) {
			p = 0
		}
		e := skipEntry(r, r.Intn(3))
		entries = append(entries[:p], append([]entryIn{e}, entries[p:]...)...)
	}
	return &recIn{Fn: fn, Entries: entries, Threshold: t, Coeffs: polyStrings(cs),
		Msg: fmt.Sprintf("m%x", r.U64())}
}

func genEnt(r *lib.Rng, n, t int, fault string) *entIn {
	cs := make([]*big.Int, t)
	for i := range cs {
		cs[i] = randCoeff(r)
	}
	self := uint8(1 + r.Intn(n))
	var pks []pkIn
	for i := 1; i <= n; i++ {
		d := evalPoly(cs, int64(i))
		if fault == "wrong-key" && i == int(self)%n+1 {
			d = new(big.Int).Add(d, big.NewInt(7))
		}
		if fault == "missing-key" && i == int(self)%n+1 {
			continue
		}
		pks = append(pks, pkIn{uint8(i), d.String()})
	}
	var msgs []msgIn
	nm := r.Range(t, 3*n)
	for k := 0; k < nm; k++ {
		s := uint8(1 + r.Intn(n+1)) // n+1: a sender outside the group
		m := msgIn{Sender: s, Share: evalPoly(cs, int64(s)).String()}
		switch r.Intn(8) {
		case 0:
			m.Share = new(big.Int).Add(bi(m.Share), big.NewInt(int64(1+r.Intn(3)))).String()
		case 1:
			m.Share = evalPoly(cs, int64(1+r.Intn(n))).String() // someone else's share
		case 2:
			m.Garbage = 1 + r.Intn(3)
			m.Share = ""
		case 3:
			m.Share = new(big.Int).Mod(bi(m.Share), order).String()
		}
		msgs = append(msgs, m)
	}
	return &entIn{Self: self, SelfShare: evalPoly(cs, int64(self)).String(), Pks: pks, Threshold: t,
		Coeffs: polyStrings(cs), Msgs: msgs, Msg: fmt.Sprintf("e%x", r.U64())}
}

// ---------------------------------------------------------------- colliding participant lists

// splitsOf enumerates the ways to cut the digit string s into k decimal numbers without leading
// zeros ("0" itself is allowed), each at most maxVal.
func splitsOf(s string, k int, maxVal int) [][]int {
	var out [][]int
	var rec func(pos int, cur []int)
	rec = func(pos int, cur []int) {
		if len(cur) == k {
			if pos == len(s) {
				out = append(out, append([]int{}, cur...))
			}
			return
		}
		for end := pos + 1; end <= len(s) && end-pos <= 6; end++ {
			if s[pos] == '0' && end-pos > 1 {
				break
			}
			v := 0
			fmt.Sscanf(s[pos:end], "%d", &v)
			if v > maxVal {
				break
			}
			rec(end, append(cur, v))
		}
	}
	rec(0, nil)
	return out
}

func distinctInts(l []int) bool {
	seen := map[int]bool{}
	for _, v := range l {
		if seen[v] {
			return false
		}
		seen[v] = true
	}
	return true
}

// resplit returns a participant list different from a whose decimal concatenation equals a's:
// a window of 2..3 neighbours (the whole list when it is short) is cut at other places into
// `delta` more (or fewer) numbers.  nil when there is none with pairwise distinct indices.
func resplit(r *lib.Rng, a []int, delta int, maxVal int) []int {
	type win struct{ from, w int }
	var wins []win
	for w := 2; w <= 3 && w <= len(a); w++ {
		for from := 0; from+w <= len(a); from++ {
			wins = append(wins, win{from, w})
		}
	}
	if len(a) <= 5 {
		wins = append(wins, win{0, len(a)})
	}
	for _, wi := range r.Perm(len(wins)) {
		wn := wins[wi]
		k := wn.w + delta
		if k < 1 {
			continue
		}
		str, _ := concatKey(a[wn.from:wn.from+wn.w], -1)
		cands := splitsOf(str, k, maxVal)
		for _, ci := range r.Perm(len(cands)) {
			b := append(append(append([]int{}, a[:wn.from]...), cands[ci]...), a[wn.from+wn.w:]...)
			if !sameInts(a, b) && distinctInts(b) {
				return b
			}
		}
	}
	return nil
}

// histRec builds one call of a history: correct shares of `members` (in this order: the order is
// what the recovery interpolates over) of the polynomial master[:t], t = len(members), optionally
// followed by surplus shares and interleaved with skippable entries.
func histRec(r *lib.Rng, fn string, master []*big.Int, members []int, msg string, decorate bool) *recIn {
	t := len(members)
	cs := master[:t]
	var entries []entryIn
	for _, i := range members {
		entries = append(entries, entryIn{I: i, V: evalPoly(cs, int64(i)).String()})
	}
	if decorate {
		for s, n := 0, r.Intn(3); s < n; s++ {
			p := r.Intn(len(entries) + 1)
			entries = append(entries[:p], append([]entryIn{skipEntry(r, r.Intn(3))}, entries[p:]...)...)
		}
		for s, n := 0, r.Intn(3); s < n; s++ { // surplus shares after the threshold ones are never read
			i := 1 + r.Intn(1000)
			entries = append(entries, entryIn{I: i, V: evalPoly(cs, int64(i)).String()})
		}
	}
	return &recIn{Fn: fn, Entries: entries, Threshold: t, Coeffs: polyStrings(cs), Msg: msg}
}

// genHist builds a history around participant lists with equal decimal concatenations:
// a (t members drawn from 1..universe, any order), b (same count, cut elsewhere: same threshold)
// and, when there is one, c (one member more or fewer: another threshold), recovered back to
// back in a random order, signatures interleaved with public keys, some calls repeated later.
func genHist(r *lib.Rng, t, universe int) []*recIn {
	for try := 0; try < 50; try++ {
		p := r.Perm(universe)
		a := make([]int, t)
		for j := range a {
			a[j] = p[j] + 1
		}
		if r.Chance(1, 6) { // a leading-digit pattern: 10,1 / 1,0,1 ; 100,2 / 10,0,2
			a[0] = []int{10, 100, 20, 110}[r.Intn(4)]
		}
		if !distinctInts(a) {
			continue
		}
		maxVal := 1000
		if universe > maxVal {
			maxVal = universe
		}
		b := resplit(r, a, 0, maxVal)
		if b == nil {
			continue
		}
		lists := [][]int{a, b}
		large := t > 10 // keep the term small: just the pair, one function
		if large {
		} else if c := resplit(r, a, []int{-1, 1}[r.Intn(2)], maxVal); c != nil && len(c) >= 1 && r.Chance(2, 3) {
			lists = append(lists, c)
		}
		if b2 := resplit(r, b, 0, maxVal); !large && b2 != nil && !sameInts(b2, a) && r.Chance(1, 2) {
			lists = append(lists, b2)
		}
		master := make([]*big.Int, t+1)
		for j := range master {
			master[j] = randCoeff(r)
		}
		msg := fmt.Sprintf("h%x", r.U64())
		var h []*recIn
		fn := []string{"sig", "pub"}[r.Intn(2)]
		for _, li := range r.Perm(len(lists)) {
			if r.Chance(1, 4) {
				fn = []string{"sig", "pub"}[r.Intn(2)]
			}
			h = append(h, histRec(r, fn, master, lists[li], msg, r.Chance(1, 3)))
			if !large && r.Chance(1, 3) { // the other function on the same list in between
				other := map[string]string{"sig": "pub", "pub": "sig"}[fn]
				h = append(h, histRec(r, other, master, lists[li], msg, false))
			}
		}
		if r.Chance(1, 2) { // recover again from an earlier list after the later calls
			first := *h[0]
			h = append(h, &first)
		}
		if !large && r.Chance(1, 4) { // another group (polynomial) over the same member lists
			m2 := make([]*big.Int, t+1)
			for j := range m2 {
				m2[j] = randCoeff(r)
			}
			h = append(h, histRec(r, fn, m2, lists[r.Intn(len(lists))], msg+"'", false))
		}
		return h
	}
	return nil
}

func permutations(n int) [][]int {
	if n == 0 {
		return [][]int{{}}
	}
	var out [][]int
	for _, p := range permutations(n - 1) {
		for pos := 0; pos <= len(p); pos++ {
			q := append(append(append([]int{}, p[:pos]...), n-1), p[pos:]...)
			out = append(out, q)
		}
	}
	return out
}

func main() {
	o := lib.ParseOpts()
	em := lib.NewEmitter()
	if o.Replay != "" {
		var in input
		if err := lib.LoadReplay(o.Replay, &in); err != nil {
			fmt.Fprintln(os.Stderr, err)
			os.Exit(2)
		}
		if in.Hist != nil {
			runHist(in.Hist, em, "replay")
		} else if in.Rec != nil {
			runRec(in.Rec, em, "replay")
		} else {
			runEnt(in.Ent, em, "replay")
		}
		em.Close("replay", nil)
		return
	}
	rng := lib.NewRng(o.Seed)

	// --- corpus: minimised regression cases (run first)
	{
		cs := []*big.Int{big.NewInt(1234567), big.NewInt(89), big.NewInt(77)}
		sh := func(i int) entryIn { return entryIn{I: i, V: evalPoly(cs, int64(i)).String()} }
		junk := entryIn{I: -1, V: "99"}
		for _, fn := range []string{"sig", "pub"} {
			mk := func(es ...entryIn) *recIn {
				return &recIn{Fn: fn, Entries: es, Threshold: 3, Coeffs: polyStrings(cs), Msg: "corpus"}
			}
			// witnesses of the repaired defect: a nil / negative-index entry before the valid ones
			runRec(mk(entryIn{Nil: true}, sh(1), sh(2), sh(3), sh(4)), em, "corpus-"+fn+"-leading-nil")
			runRec(mk(junk, sh(1), sh(2), sh(3), sh(4)), em, "corpus-"+fn+"-leading-negative-index")
			runRec(mk(entryIn{I: 2, VNil: true}, sh(4), sh(1), sh(3)), em, "corpus-"+fn+"-leading-nil-value")
			runRec(mk(sh(1), junk, sh(2), entryIn{Nil: true}, sh(3)), em, "corpus-"+fn+"-interleaved")
			runRec(mk(sh(4), sh(3), sh(2), sh(1)), em, "corpus-"+fn+"-descending")
			runRec(mk(sh(2), sh(4)), em, "corpus-"+fn+"-not-enough")
			runRec(mk(sh(2), junk, entryIn{Nil: true}, sh(4)), em, "corpus-"+fn+"-not-enough-with-skips")
			runRec(mk(sh(2), sh(2), sh(3)), em, "corpus-"+fn+"-duplicate-index")
			runRec(mk(sh(0), sh(5), sh(9)), em, "corpus-"+fn+"-index-zero")
			runRec(mk(sh(1<<40), sh(3), sh(1<<62)), em, "corpus-"+fn+"-huge-index")
			runRec(mk(), em, "corpus-"+fn+"-empty")
			t0 := mk(sh(1), sh(2))
			t0.Threshold, t0.Coeffs = 0, []string{}
			runRec(t0, em, "corpus-"+fn+"-threshold-zero")
			tn := mk(sh(1), sh(2), sh(3))
			tn.Threshold = -1
			runRec(tn, em, "corpus-"+fn+"-threshold-negative")
			t1 := mk(entryIn{Nil: true}, entryIn{I: 7, V: "5"})
			t1.Threshold, t1.Coeffs = 1, []string{"5"}
			runRec(t1, em, "corpus-"+fn+"-threshold-one")
		}
		runEnt(&entIn{Self: 2, SelfShare: evalPoly(cs, 2).String(),
			Pks:       []pkIn{{1, evalPoly(cs, 1).String()}, {2, evalPoly(cs, 2).String()}, {3, evalPoly(cs, 3).String()}, {4, evalPoly(cs, 4).String()}},
			Threshold: 3, Coeffs: polyStrings(cs), Msg: "corpus",
			Msgs: []msgIn{{Sender: 1, Share: "5"}, {Sender: 9, Share: evalPoly(cs, 9).String()}, {Sender: 3, Garbage: 2},
				{Sender: 2, Share: evalPoly(cs, 2).String()}, {Sender: 4, Share: evalPoly(cs, 4).String()},
				{Sender: 4, Share: evalPoly(cs, 4).String()}, {Sender: 1, Share: evalPoly(cs, 1).String()}}}, em, "corpus-entry-mixed")
		runEnt(&entIn{Self: 1, SelfShare: "0", Pks: []pkIn{{1, "0"}, {2, "0"}}, Threshold: 2, Coeffs: []string{"0"}, Msg: "corpus",
			Msgs: []msgIn{{Sender: 2, Share: "0"}}}, em, "corpus-entry-identity-share")
	}

	// --- histories in this one process: participant lists whose decimal concatenations are equal
	// ([1,12,3] / [11,2,3]; [1,2,3] / [12,3]; [10,1] / [1,0,1]) recovered back to back, in both
	// orders, signatures interleaved with public keys, earlier lists recovered again later.  They
	// run before the independent streams so that whatever a recovery may have left behind in the
	// process is left by the history itself (a stored history replays on its own).
	{
		cs := []*big.Int{big.NewInt(1234567891011), big.NewInt(987654321), big.NewInt(55555333331), big.NewInt(42)}
		mk := func(fn string, members ...int) *recIn { return histRec(nil, fn, cs, members, "corpus-h", false) }
		runHist([]*recIn{mk("sig", 1, 12, 3), mk("sig", 11, 2, 3), mk("sig", 3, 2, 11), mk("sig", 12, 1, 3), mk("sig", 1, 2, 3)},
			em, "corpus-hist-1-12-3-then-11-2-3")
		runHist([]*recIn{mk("pub", 21, 4, 5), mk("sig", 2, 14, 5), mk("pub", 2, 14, 5), mk("sig", 21, 4, 5)},
			em, "corpus-hist-pub-21-4-5-then-2-14-5")
		runHist([]*recIn{mk("sig", 31, 7), mk("sig", 3, 17), mk("pub", 3, 1, 7), mk("sig", 3, 1, 7), mk("sig", 31, 7)},
			em, "corpus-hist-other-threshold-31-7-then-3-1-7")
		runHist([]*recIn{mk("sig", 1, 0, 2), mk("sig", 10, 2), mk("pub", 10, 2), mk("pub", 1, 0, 2)},
			em, "corpus-hist-leading-digit-1-0-2-then-10-2")
		runHist([]*recIn{mk("sig", 64, 5, 33), mk("sig", 6, 45, 33), mk("sig", 64, 53, 3), mk("sig", 6, 4, 5, 33)},
			em, "corpus-hist-production-indices-64")
	}
	nHist := o.Count(40, 600)
	for i := 0; i < nHist; i++ {
		r := rng.Fork(fmt.Sprintf("hist%d", i))
		t := r.Range(2, 5)
		universe := []int{12, 64, 64, 255, 1000}[r.Intn(5)]
		if i%20 == 3 { // the beacon's group: 33 of 64
			t, universe = 33, 64
			if o.Tier == "quick" {
				t = 17
			}
		}
		if t > universe {
			t = universe
		}
		if h := genHist(r, t, universe); h != nil {
			runHist(h, em, fmt.Sprintf("hist-%d", i))
		} else {
			em.Tally("hist-generator-gave-up")
		}
	}

	// --- small scope: groups of up to 4 members, every subset order, one skippable entry of
	// each kind at every position
	type small struct {
		t    int
		perm []int
		skip int // -1 none, else kind
		pos  int
	}
	var smalls []small
	for t := 1; t <= 3; t++ {
		for k := t; k <= 4; k++ {
			for _, p := range permutations(k) {
				smalls = append(smalls, small{t, p, -1, 0})
				for kind := 0; kind < 3; kind++ {
					for pos := 0; pos <= k; pos++ {
						smalls = append(smalls, small{t, p, kind, pos})
					}
				}
			}
		}
	}
	nSmall := o.Count(90, len(smalls))
	perm := rng.Fork("small").Perm(len(smalls))
	for i := 0; i < nSmall && i < len(smalls); i++ {
		s := smalls[perm[i]]
		r := rng.Fork(fmt.Sprintf("small%d", i))
		cs := make([]*big.Int, s.t)
		for j := range cs {
			cs[j] = randCoeff(r)
		}
		var es []entryIn
		for _, m := range s.perm {
			es = append(es, entryIn{I: m + 1, V: evalPoly(cs, int64(m+1)).String()})
		}
		if s.skip >= 0 {
			es = append(es[:s.pos], append([]entryIn{skipEntry(r, s.skip)}, es[s.pos:]...)...)
		}
		fn := []string{"sig", "pub"}[i%2]
		runRec(&recIn{Fn: fn, Entries: es, Threshold: s.t, Coeffs: polyStrings(cs), Msg: fmt.Sprintf("s%d", i)},
			em, fmt.Sprintf("small-%d", i))
	}

	// --- random: mostly valid share sets, plus a malformed stream
	nRand := o.Count(70, 1500)
	for i := 0; i < nRand; i++ {
		r := rng.Fork(fmt.Sprintf("rand%d", i))
		n := r.Range(2, 12)
		t := r.Range(1, n)
		if i%40 == 7 { // the beacon's real parameters (group 64, honest threshold 33) outside the quick tier
			n, t = 64, 33
			if o.Tier == "quick" {
				n, t = 16, 9
			}
		}
		k := r.Range(t, n)
		fault := ""
		switch r.Intn(10) {
		case 0:
			fault = "wrong-share"
		case 1:
			fault = "duplicate"
		case 2:
			fault = "reduced"
		case 3:
			fault = "index0"
		case 4:
			k = r.Range(0, t-1) // not enough
		}
		fn := []string{"sig", "pub"}[r.Intn(2)]
		runRec(genRec(r, fn, n, t, k, r.Intn(4), fault), em, fmt.Sprintf("rand-%d", i))
	}
	nEnt := o.Count(25, 400)
	for i := 0; i < nEnt; i++ {
		r := rng.Fork(fmt.Sprintf("ent%d", i))
		n := r.Range(2, 9)
		t := r.Range(2, n)
		if r.Chance(1, 10) {
			t = 1
		}
		fault := ""
		switch r.Intn(6) {
		case 0:
			fault = "wrong-key"
		case 1:
			fault = "missing-key"
		}
		runEnt(genEnt(r, n, t, fault), em, fmt.Sprintf("entry-%d", i))
	}
	em.Close("a case is one call of RecoverSignature / RecoverPublicKey on a share list, a HISTORY of such calls made "+
		"back to back in one process (every call judged separately), or one run of the "+
		"relay-entry glue (messages through extractAndValidateShare, then completeSignature); distinct by "+
		"(function, entries, threshold, polynomial); non-trivial: a recovery with threshold >= 2 from distinct "+
		"indices where a skippable entry precedes a used share or the shares are not in index order; a history: "+
		"all calls return points and two calls interpolate over different participant lists with the same decimal "+
		"concatenation (member indices >= 10); for the "+
		"glue: a completed signature with at least one rejected and one accepted message", nil)
}
