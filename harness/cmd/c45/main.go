// Driver for C45: drives the real generator.Scheduler and generator.ProtocolLatch through
// histories of protocol Lock / Unlock (nested, several protocols), protocol registration,
// worker registration, worker iterations and scheduler checks, and prints the observations for
// the Coq model (Model/C45.v).
//
// Collaborators (all in this directory):
//   - recording workers: every invocation of a worker function records the context it was
//     given and then blocks until that context is cancelled or the driver lets the worker
//     return (Iter); "live" = invocations currently holding a context that is not cancelled;
//   - the protocols registered with the scheduler are thin gates around REAL ProtocolLatches:
//     for an interleaved check (CheckBegin / CheckStep) IsExecuting() stops at a gate before it
//     asks the latch, so that the driver can Lock / Unlock / register workers between the
//     questions checkProtocols asks; for an atomic Check the gates are open.
// checkProtocols / compute / the scheduler state are reached through the verif-tagged hook
// pkg/generator/verif_export_c45.go.  A worker observes cancellation only when it polls: the
// driver waits on explicit conditions (number of invocations holding a live context reaches
// the number of cancel functions the scheduler holds), never on sleeps; a condition not met
// within the deadline makes the history Inconclusive (counted, not emitted).
package main

import (
	"context"
	"fmt"
	"os"
	"runtime"
	"sync"
	"time"

	logging "github.com/ipfs/go-log/v2"
	"github.com/keep-network/keep-core/pkg/generator"

	"verifharness/lib"
)

type op struct {
	K string `json:"k"` // Lock Unlock Register Compute Iter Check CheckBegin CheckStep
	P int    `json:"p"` // latch index / worker index
}

func (o op) coq() string {
	switch o.K {
	case "Lock", "Unlock", "Register":
		return fmt.Sprintf("(%s %s)", o.K, lib.Nat(o.P))
	case "Compute", "Iter":
		return fmt.Sprintf("(%s %s)", o.K, lib.N(uint64(o.P)))
	}
	return o.K
}

type obs struct {
	Res      string `json:"res"` // ROk RPanic RMore RDone
	Working  bool   `json:"working"`
	Stops    int    `json:"stops"`
	NWorkers int    `json:"nworkers"`
	Live     []int  `json:"live"`
	Exec     []bool `json:"exec"`
}

func (b obs) coq() string {
	live := make([]uint64, len(b.Live))
	for i, v := range b.Live {
		live[i] = uint64(v)
	}
	ex := make([]string, len(b.Exec))
	for i, v := range b.Exec {
		ex[i] = lib.Bool(v)
	}
	return fmt.Sprintf("{| o_res := %s; o_working := %s; o_stops := %s; o_nworkers := %s; o_live := %s; o_exec := %s |}",
		b.Res, lib.Bool(b.Working), lib.N(uint64(b.Stops)), lib.N(uint64(b.NWorkers)), lib.ListN(live), lib.List(ex))
}

type input struct {
	NL  int  `json:"nl"`
	Ops []op `json:"ops"`
}

// ---------------------------------------------------------------- recording workers

type invocation struct {
	ctx context.Context
	gen int
}

type recorder struct {
	mu      sync.Mutex
	active  []map[*invocation]bool // per worker
	release []chan struct{}        // per worker: closed to let its invocations return
	gen     []int
}

func (r *recorder) addWorker() int {
	r.mu.Lock()
	defer r.mu.Unlock()
	r.active = append(r.active, map[*invocation]bool{})
	r.release = append(r.release, make(chan struct{}))
	r.gen = append(r.gen, 0)
	return len(r.active) - 1
}

func (r *recorder) workerFn(w int) func(context.Context) {
	return func(ctx context.Context) {
		r.mu.Lock()
		inv := &invocation{ctx: ctx, gen: r.gen[w]}
		r.active[w][inv] = true
		rel := r.release[w]
		r.mu.Unlock()
		select {
		case <-ctx.Done():
		case <-rel:
		}
		r.mu.Lock()
		delete(r.active[w], inv)
		r.mu.Unlock()
	}
}

// liveOf counts the invocations of worker w that hold a context that is not cancelled
// (entered at generation >= gen).
func (r *recorder) liveOf(w int, gen int) int {
	r.mu.Lock()
	defer r.mu.Unlock()
	n := 0
	for inv := range r.active[w] {
		if inv.ctx.Err() == nil && inv.gen >= gen {
			n++
		}
	}
	return n
}

func (r *recorder) liveTotal() int {
	n := 0
	for w := range r.active {
		n += r.liveOf(w, 0)
	}
	return n
}

// ---------------------------------------------------------------- gated protocols

type gated struct {
	idx   int
	latch *generator.ProtocolLatch
	d     *drv
}

func (g *gated) IsExecuting() bool {
	g.d.mu.Lock()
	gating := g.d.gating
	g.d.mu.Unlock()
	if gating {
		g.d.reached <- g.idx
		<-g.d.release
	}
	return g.latch.IsExecuting()
}

type always struct{}

func (always) IsExecuting() bool { return true }

type drv struct {
	sched   *generator.Scheduler
	latches []*generator.ProtocolLatch
	rec     *recorder

	mu      sync.Mutex
	gating  bool
	reached chan int
	release chan struct{}
	done    chan struct{}
	inCheck bool
}

var deadline = 10 * time.Second

type inconclusive struct{ what string }

// histories abandoned because a condition was not reached within the deadline
var nInconclusive, nCases int
var aborted bool

func waitCond(what string, cond func() bool) {
	t0 := time.Now()
	for i := 0; !cond(); i++ {
		if time.Since(t0) > deadline {
			panic(inconclusive{what})
		}
		if i < 3 {
			runtime.Gosched()
		} else {
			time.Sleep(20 * time.Microsecond) // polling back-off, not a condition
		}
	}
}

func (d *drv) setGating(b bool) {
	d.mu.Lock()
	d.gating = b
	d.mu.Unlock()
}

func (d *drv) observe(res string) obs {
	working, stops, nworkers := d.sched.VerifState()
	// a started worker goroutine reaches its worker function asynchronously
	waitCond("invocations with a live context reach the number of live contexts",
		func() bool { return d.rec.liveTotal() >= stops })
	b := obs{Res: res, Working: working, Stops: stops, NWorkers: nworkers}
	for w := range d.rec.active {
		b.Live = append(b.Live, d.rec.liveOf(w, 0))
	}
	for _, l := range d.latches {
		b.Exec = append(b.Exec, l.IsExecuting())
	}
	if b.Live == nil {
		b.Live = []int{}
	}
	return b
}

// waitCheck waits until the running check either reaches the next gate or returns.
func (d *drv) waitCheck() string {
	t := time.NewTimer(deadline)
	defer t.Stop()
	select {
	case <-d.reached:
		return "RMore"
	case <-d.done:
		d.inCheck = false
		d.setGating(false)
		return "RDone"
	case <-t.C:
		panic(inconclusive{"check neither returned nor reached a protocol"})
	}
}

func (d *drv) do(o op) obs {
	switch o.K {
	case "Lock":
		d.latches[o.P].Lock()
		return d.observe("ROk")
	case "Unlock":
		res := "ROk"
		func() {
			defer func() {
				if r := recover(); r != nil {
					res = "RPanic"
				}
			}()
			d.latches[o.P].Unlock()
		}()
		return d.observe(res)
	case "Register":
		d.sched.RegisterProtocol(&gated{idx: o.P, latch: d.latches[o.P], d: d})
		return d.observe("ROk")
	case "Compute":
		w := d.rec.addWorker()
		if w != o.P {
			panic("worker numbering")
		}
		d.sched.VerifCompute(d.rec.workerFn(w))
		return d.observe("ROk")
	case "Iter":
		w := o.P
		d.rec.mu.Lock()
		d.rec.gen[w]++
		gen := d.rec.gen[w]
		old := d.rec.release[w]
		d.rec.release[w] = make(chan struct{})
		d.rec.mu.Unlock()
		n := d.rec.liveOf(w, 0)
		close(old)
		// every invocation that held a live context returns and the worker is called again
		waitCond("worker re-invoked with its live context", func() bool { return d.rec.liveOf(w, gen) >= n })
		return d.observe("ROk")
	case "Check":
		d.setGating(false)
		d.sched.VerifCheckProtocols()
		return d.observe("RDone")
	case "CheckBegin":
		d.setGating(true)
		d.inCheck = true
		go func() {
			d.sched.VerifCheckProtocols()
			d.done <- struct{}{}
		}()
		return d.observe(d.waitCheck())
	case "CheckStep":
		d.release <- struct{}{}
		return d.observe(d.waitCheck())
	}
	panic("unknown op " + o.K)
}

// feasible: what a sequential driver can issue without blocking on protocolsMutex
func (d *drv) feasible(o op) bool {
	switch o.K {
	case "Register", "Check", "CheckBegin":
		return !d.inCheck
	case "CheckStep":
		return d.inCheck
	case "Iter":
		return o.P < len(d.rec.active)
	case "Compute":
		return o.P == len(d.rec.active)
	}
	return true
}

// cleanup lets a check in progress finish and stops every worker of this history.
func (d *drv) cleanup() {
	defer func() { recover() }()
	for d.inCheck {
		d.release <- struct{}{}
		d.waitCheck()
	}
	d.setGating(false)
	d.sched.RegisterProtocol(always{})
	d.sched.VerifCheckProtocols()
}

type policy func(d *drv, step int) *op

func runCase(id string, nl int, next policy, em *lib.Emitter) {
	nCases++
	if aborted {
		return
	}
	if nInconclusive >= 3 && nInconclusive*20 > nCases {
		// the implementation cannot be driven: not a verdict on the property, but the
		// correspondence cannot be checked either.  Stop generating and hand check.py a case
		// the model rejects as BadCase (a latch that does not exist), so that the run is not
		// reported as passing; the cases produced so far are still judged.
		fmt.Fprintf(os.Stderr, "c45: %d of %d histories inconclusive, giving up\n", nInconclusive, nCases)
		aborted = true
		em.Case(lib.Case{ID: "too-many-inconclusive-histories",
			Coq: "{| c_nl := 0%N; c_obs0 := {| o_res := ROk; o_working := true; o_stops := 0%N; o_nworkers := 0%N; o_live := []; o_exec := [] |}; c_steps := [((Lock 7%nat), {| o_res := ROk; o_working := true; o_stops := 0%N; o_nworkers := 0%N; o_live := []; o_exec := [] |})] |}",
			Key: "inconclusive", In: input{}, Out: "the driver could not drive the implementation"})
		return
	}
	d := &drv{sched: &generator.Scheduler{}, rec: &recorder{},
		reached: make(chan int), release: make(chan struct{}), done: make(chan struct{})}
	for i := 0; i < nl; i++ {
		d.latches = append(d.latches, generator.NewProtocolLatch())
	}
	in := input{NL: nl}
	var steps []string
	var outs []obs
	feat := map[string]int{}
	ok := func() (ok bool) {
		defer func() {
			if r := recover(); r != nil {
				if inc, is := r.(inconclusive); is {
					nInconclusive++
					em.Tally("inconclusive:" + inc.what)
					fmt.Fprintf(os.Stderr, "c45: case %s inconclusive: %s\n", id, inc.what)
					ok = false
					return
				}
				panic(r)
			}
		}()
		outs = append(outs, d.observe("ROk"))
		sinceBegin := -1
		for i := 0; ; i++ {
			o := next(d, i)
			if o == nil {
				break
			}
			if !d.feasible(*o) {
				continue
			}
			was := d.inCheck
			b := d.do(*o)
			in.Ops = append(in.Ops, *o)
			outs = append(outs, b)
			steps = append(steps, "("+o.coq()+", "+b.coq()+")")
			em.Tally("op-" + o.K)
			em.Tally("res-" + b.Res)
			if was && o.K != "CheckStep" {
				feat["interleaved"]++
			}
			if o.K == "CheckBegin" {
				sinceBegin = 0
			}
			if b.Res == "RDone" && b.NWorkers > 0 {
				if b.Working {
					feat["resumed"]++
				} else {
					feat["stopped"]++
				}
			}
			_ = sinceBegin
		}
		return true
	}()
	d.cleanup()
	if !ok {
		return
	}
	coq := fmt.Sprintf("{| c_nl := %s; c_obs0 := %s; c_steps := %s |}", lib.N(uint64(nl)), outs[0].coq(), lib.List(steps))
	key := fmt.Sprintf("%d|", nl)
	for _, o := range in.Ops {
		key += o.coq()
	}
	em.Tally(fmt.Sprintf("latches-%d", nl))
	em.Tally(fmt.Sprintf("len-%02d", len(in.Ops)/5*5))
	if feat["interleaved"] > 0 {
		em.Tally("histories-with-interleaved-check")
	}
	em.Case(lib.Case{
		ID:         id,
		Coq:        coq,
		Key:        key,
		Nontrivial: feat["stopped"] > 0 && feat["resumed"] > 0,
		Sig:        map[string]interface{}{"interleaved": feat["interleaved"] > 0, "latches": nl},
		In:         in,
		Out:        outs,
	})
}

func fixed(ops []op) policy {
	return func(d *drv, i int) *op {
		if i >= len(ops) {
			return nil
		}
		return &ops[i]
	}
}

func parse(s ...string) []op {
	var r []op
	for _, x := range s {
		var o op
		fmt.Sscanf(x, "%s %d", &o.K, &o.P)
		if o.K == "" {
			o.K = x
		}
		r = append(r, o)
	}
	return r
}

func main() {
	logging.SetAllLoggers(logging.LevelFatal)
	lib.SilenceLogs()
	o := lib.ParseOpts()
	em := lib.NewEmitter()
	if o.Replay != "" {
		var in input
		if err := lib.LoadReplay(o.Replay, &in); err != nil {
			fmt.Fprintln(os.Stderr, err)
			os.Exit(2)
		}
		runCase("replay", in.NL, fixed(in.Ops), em)
		em.Close("replay", nil)
		return
	}
	rng := lib.NewRng(o.Seed)

	// --- corpus
	runCase("corpus-nested-locks-are-counted", 1, fixed(parse("Register 0", "Compute 0", "Compute 1", "Check", "Lock 0", "Lock 0",
		"Check", "Unlock 0", "Check", "Iter 0", "Unlock 0", "Check", "Iter 1", "Check")), em)
	runCase("corpus-two-protocols", 2, fixed(parse("Register 0", "Register 1", "Compute 0", "Lock 1", "Check", "Lock 0", "Unlock 1",
		"Check", "Unlock 0", "Check")), em)
	runCase("corpus-no-protocols-keeps-working", 1, fixed(parse("Compute 0", "Lock 0", "Check", "CheckBegin", "Register 0", "Check", "Compute 1",
		"Unlock 0", "Check")), em)
	runCase("corpus-compute-while-stopped", 1, fixed(parse("Register 0", "Lock 0", "Check", "Compute 0", "Compute 1", "Check", "Unlock 0", "Check", "Check")), em)
	runCase("corpus-lock-slips-in-after-its-protocol-was-asked", 2, fixed(parse("Register 0", "Register 1", "Compute 0", "CheckBegin", "CheckStep",
		"Lock 0", "CheckStep", "Check")), em)
	runCase("corpus-held-all-along-interleaved", 2, fixed(parse("Register 0", "Register 1", "Compute 0", "Lock 1", "CheckBegin", "Compute 1", "Lock 0",
		"CheckStep", "Unlock 0", "CheckBegin", "CheckStep", "CheckStep", "Unlock 1", "CheckBegin", "Lock 1", "Unlock 1", "CheckStep", "CheckStep")), em)
	runCase("corpus-unlock-without-lock", 1, fixed(parse("Register 0", "Compute 0", "Unlock 0", "Check", "Lock 0", "Unlock 0", "Unlock 0", "Check")), em)
	runCase("corpus-registered-twice", 1, fixed(parse("Register 0", "Register 0", "Compute 0", "Lock 0", "CheckBegin", "CheckStep", "Unlock 0", "CheckBegin",
		"CheckStep", "CheckStep")), em)

	// --- exhaustive small scope: 2 latches (both registered), every history of length L over 8 letters
	letters := []string{"Lock 0", "Unlock 0", "Lock 1", "Unlock 1", "Compute", "Check", "CheckBegin", "CheckStep"}
	L := 5
	if o.Tier != "quick" {
		L = 6
	}
	total := 1
	for i := 0; i < L; i++ {
		total *= len(letters)
	}
	nSmall := o.Count(220, 12000)
	perm := rng.Fork("small").Perm(total)
	for i := 0; i < nSmall && i < total; i++ {
		code := perm[i]
		ops := parse("Register 0", "Register 1", "Compute 0")
		nw := 1
		for j := 0; j < L; j++ {
			l := letters[code%len(letters)]
			code /= len(letters)
			if l == "Compute" {
				ops = append(ops, op{K: "Compute", P: nw})
				nw++
			} else {
				ops = append(ops, parse(l)...)
			}
		}
		// let a check that is still in progress finish, then one more check
		ops = append(ops, parse("CheckStep", "CheckStep", "Check")...)
		runCase(fmt.Sprintf("small-%d", perm[i]), 2, fixed(ops), em)
	}

	// --- structured random histories
	nRand := o.Count(240, 3000)
	for i := 0; i < nRand; i++ {
		r := rng.Fork(fmt.Sprintf("rand%d", i))
		nl := r.Range(1, 3)
		n := r.Range(8, 40)
		depth := make([]int, nl)
		nw := 0
		registered := 0
		pol := func(d *drv, step int) *op {
			if step >= n {
				return nil
			}
			for {
				switch c := r.Intn(100); {
				case c < 8:
					if registered >= nl+1 || d.inCheck {
						continue
					}
					registered++
					return &op{K: "Register", P: r.Intn(nl)}
				case c < 28:
					p := r.Intn(nl)
					depth[p]++
					return &op{K: "Lock", P: p}
				case c < 48:
					p := r.Intn(nl)
					if depth[p] == 0 && !r.Chance(1, 12) {
						continue
					}
					if depth[p] > 0 {
						depth[p]--
					}
					return &op{K: "Unlock", P: p}
				case c < 58:
					if nw >= 5 {
						continue
					}
					nw++
					return &op{K: "Compute", P: nw - 1}
				case c < 64:
					if nw == 0 {
						continue
					}
					return &op{K: "Iter", P: r.Intn(nw)}
				case c < 78:
					if d.inCheck {
						continue
					}
					return &op{K: "Check"}
				case c < 86:
					if d.inCheck {
						continue
					}
					return &op{K: "CheckBegin"}
				default:
					if !d.inCheck {
						continue
					}
					return &op{K: "CheckStep"}
				}
			}
		}
		runCase(fmt.Sprintf("rand-%d", i), nl, pol, em)
	}
	em.Close("a case is one history of operations on a fresh scheduler with its latches; distinct by (number of latches, "+
		"operation list); non-trivial when, with at least one worker registered, at least one check stopped the "+
		"scheduler and at least one resumed it", nil)
}
