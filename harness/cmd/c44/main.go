// Driver for C44: runs the real (*config.Config).ReadConfig on generated TOML files (written under
// $VERIF_WORK) and on flag sets built by the real cmd.initGlobalFlags / cmd.initFlags (through the
// verif-tagged exports), either through cobra's Execute (flag-group validation included) or by
// calling ReadConfig directly on the parsed flag set, for every combination of
// {unset, file, flag, both} per resolvable field and every network-flag subset; plus direct calls
// of resolveNetworks / resolvePeers / resolveElectrum (exports) for all four network types.
// The observable is the resolved Config (networks, peers, Electrum URL, contract addresses) with
// every string replaced by a small identifier; the embedded default lists are read through the
// exports (config.VerifReadPeers / VerifReadElectrumUrls, the gen packages' address variables).
package main

import (
	"fmt"
	"math/rand"
	"os"
	"path/filepath"
	"strings"

	"github.com/spf13/cobra"
	"github.com/spf13/pflag"
	"github.com/spf13/viper"

	repocmd "github.com/keep-network/keep-core/cmd"
	"github.com/keep-network/keep-core/config"
	"github.com/keep-network/keep-core/config/network"
	"github.com/keep-network/keep-core/pkg/bitcoin"
	chainEthereum "github.com/keep-network/keep-core/pkg/chain/ethereum"
	ethereumBeacon "github.com/keep-network/keep-core/pkg/chain/ethereum/beacon/gen"
	ethereumEcdsa "github.com/keep-network/keep-core/pkg/chain/ethereum/ecdsa/gen"
	ethereumTbtc "github.com/keep-network/keep-core/pkg/chain/ethereum/tbtc/gen"
	ethereumThreshold "github.com/keep-network/keep-core/pkg/chain/ethereum/threshold/gen"

	"verifharness/lib"
)

// ---------------------------------------------------------------- contracts

type contract struct {
	name string
	def  *string // the gen package's address variable (content of the embedded _address file)
}

// the eight contracts config.resolveContractsAddresses knows, with the default each one belongs to
var contracts = []contract{
	{chainEthereum.RandomBeaconContractName, &ethereumBeacon.RandomBeaconAddress},
	{chainEthereum.WalletRegistryContractName, &ethereumEcdsa.WalletRegistryAddress},
	{chainEthereum.BridgeContractName, &ethereumTbtc.BridgeAddress},
	{chainEthereum.MaintainerProxyContractName, &ethereumTbtc.MaintainerProxyAddress},
	{chainEthereum.LightRelayContractName, &ethereumTbtc.LightRelayAddress},
	{chainEthereum.LightRelayMaintainerProxyContractName, &ethereumTbtc.LightRelayMaintainerProxyAddress},
	{chainEthereum.TokenStakingContractName, &ethereumThreshold.TokenStakingAddress},
	{chainEthereum.WalletProposalValidatorContractName, &ethereumTbtc.WalletProposalValidatorAddress},
}

var embeddedDefaults []string // the values found in the build (this tree: empty files)

func defaultOf(kind string, i int) string {
	if kind == "populated" {
		return fmt.Sprintf("0x%040x", 0xD0+i) // what a release build has: one address per contract
	}
	return embeddedDefaults[i]
}
func setDefaults(kind string) {
	for i, c := range contracts {
		*c.def = defaultOf(kind, i)
	}
}

// ---------------------------------------------------------------- inputs

type strSrc struct {
	File *string `json:"file,omitempty"`
	Flag *string `json:"flag,omitempty"`
}
type listSrc struct {
	File *[]string `json:"file,omitempty"`
	Flag *[]string `json:"flag,omitempty"`
}
type intSrc struct {
	File *int `json:"file,omitempty"`
	Flag *int `json:"flag,omitempty"`
}

type input struct {
	Kind string `json:"kind"` // read | peers | electrum | nets | hist

	Hist *histIn `json:"hist,omitempty"` // kind hist (hist.go)

	// kind read
	Mode      string   `json:"mode,omitempty"` // execute | direct | nil | nonet
	Net       []string `json:"net,omitempty"`  // network flags given on the command line
	File      string   `json:"file,omitempty"` // none | missing | good
	Peers     listSrc  `json:"peers"`
	Electrum  strSrc   `json:"electrum"`
	Contracts []strSrc `json:"contracts,omitempty"`
	EthURL    strSrc   `json:"ethurl"`
	KeyFile   strSrc   `json:"keyfile"`
	Storage   strSrc   `json:"storage"`
	Port      intSrc   `json:"port"`
	Validate  bool     `json:"validate,omitempty"`
	Defaults  string   `json:"defaults,omitempty"` // asis | populated

	// unit kinds
	UNet     int      `json:"unet,omitempty"`
	UPeers   []string `json:"upeers,omitempty"`
	UBtc     int      `json:"ubtc,omitempty"`
	UUrl     string   `json:"uurl,omitempty"`
	USeed    int64    `json:"useed,omitempty"`
	ULookups []*bool  `json:"ulookups,omitempty"` // mainnet, testnet, developer: nil = flag not defined
}

// ---------------------------------------------------------------- canonical identifiers

type table struct {
	ids map[string]uint64
}

func newTable() *table { return &table{ids: map[string]uint64{"": 0}} }
func (t *table) id(s string) string {
	if v, ok := t.ids[s]; ok {
		return lib.N(v)
	}
	v := uint64(len(t.ids))
	t.ids[s] = v
	return lib.N(v)
}
func (t *table) list(l []string) string {
	s := make([]string, len(l))
	for i, v := range l {
		s[i] = t.id(v)
	}
	return lib.List(s)
}
func optStr(t *table, p *string) string {
	if p == nil {
		return "None"
	}
	return lib.Some(t.id(*p))
}
func (t *table) src(s strSrc) string {
	return fmt.Sprintf("{| s_file := %s; s_flag := %s |}", optStr(t, s.File), optStr(t, s.Flag))
}
func (t *table) lsrc(s listSrc) string {
	f := func(p *[]string) string {
		if p == nil {
			return "None"
		}
		return lib.Some(t.list(*p))
	}
	return fmt.Sprintf("{| s_file := %s; s_flag := %s |}", f(s.File), f(s.Flag))
}
func isrc(s intSrc) string {
	f := func(p *int) string {
		if p == nil {
			return "None"
		}
		return lib.Some(lib.N(uint64(*p)))
	}
	return fmt.Sprintf("{| s_file := %s; s_flag := %s |}", f(s.File), f(s.Flag))
}

var netNames = []string{"NUnknown", "NMainnet", "NTestnet", "NDeveloper"}

func ethName(s string) string {
	switch s {
	case "unknown":
		return "EUnknown"
	case "mainnet":
		return "EMainnet"
	case "sepolia":
		return "ESepolia"
	case "developer":
		return "EDeveloper"
	}
	return "EUnknown"
}
func btcName(s string) string {
	switch s {
	case "unknown":
		return "BUnknown"
	case "mainnet":
		return "BMainnet"
	case "testnet":
		return "BTestnet"
	case "regtest":
		return "BRegtest"
	}
	return "BUnknown"
}

// the environment: what is embedded in the build, read through the exports
func envCoq(t *table, flagPort int) string {
	var ps, us []string
	for n := 0; n < 4; n++ {
		l, err := safeReadPeers(network.Type(n))
		if err != nil {
			ps = append(ps, "None")
		} else {
			ps = append(ps, lib.Some(t.list(l)))
		}
	}
	for n := 0; n < 4; n++ {
		l, err := safeReadUrls(bitcoin.Network(n))
		if err != nil {
			us = append(us, "None")
		} else {
			us = append(us, lib.Some(t.list(l)))
		}
	}
	var cs []string
	for _, c := range contracts {
		cs = append(cs, t.id(*c.def))
	}
	return fmt.Sprintf("{| e_peers := net4 %s; e_urls := btc4 %s; e_contracts := %s; e_port := %s |}",
		strings.Join(ps, " "), strings.Join(us, " "), lib.List(cs), lib.N(uint64(flagPort)))
}
func safeReadPeers(n network.Type) (l []string, err error) {
	defer func() {
		if r := recover(); r != nil {
			err = fmt.Errorf("panic: %v", r)
		}
	}()
	return config.VerifReadPeers(n)
}
func safeReadUrls(n bitcoin.Network) (l []string, err error) {
	defer func() {
		if r := recover(); r != nil {
			err = fmt.Errorf("panic: %v", r)
		}
	}()
	return config.VerifReadElectrumUrls(n)
}

// ---------------------------------------------------------------- running ReadConfig

func classify(err error) string {
	if err == nil {
		return "ENone"
	}
	msg := err.Error()
	switch {
	case strings.HasPrefix(msg, "unable to resolve networks"):
		return "EResolveNetworks"
	case strings.HasPrefix(msg, "unable to load config"):
		return "ELoadFile"
	case strings.HasPrefix(msg, "failed to resolve peers"):
		return "EPeers"
	case strings.HasPrefix(msg, "failed to resolve Electrum"):
		return "EElectrum"
	case strings.HasPrefix(msg, "validation failed"):
		return "EValidation"
	}
	return "EOther"
}

type observed struct {
	Err       string   `json:"err"`
	Refused   bool     `json:"refused"` // cobra refused to run the command: more than one network flag
	Msg       string   `json:"msg,omitempty"`
	Eth       string   `json:"eth"`
	Btc       string   `json:"btc"`
	Peers     []string `json:"peers"`
	Electrum  string   `json:"electrum"`
	Contracts []string `json:"contracts"`
}

func observe(cfg *config.Config, err string, msg string) observed {
	o := observed{Err: err, Msg: msg, Eth: cfg.Ethereum.Network.String(), Btc: cfg.Bitcoin.Network.String(),
		Peers: append([]string{}, cfg.LibP2P.Peers...), Electrum: cfg.Bitcoin.Electrum.URL}
	for _, c := range contracts {
		o.Contracts = append(o.Contracts, cfg.Ethereum.ContractAddresses[strings.ToLower(c.name)])
	}
	return o
}
func (o observed) coq(t *table) string {
	return fmt.Sprintf("{| o_err := %s; o_refused := %s; o_eth := %s; o_btc := %s; o_peers := %s; o_electrum := %s; o_contracts := %s |}",
		o.Err, lib.Bool(o.Refused), ethName(o.Eth), btcName(o.Btc), t.list(o.Peers), t.id(o.Electrum), t.list(o.Contracts))
}

var fileCounter int

func workDir() string {
	base := os.Getenv("VERIF_WORK")
	if base == "" {
		base = "/verif/work/C44"
	}
	d := filepath.Join(base, "files", fmt.Sprint(os.Getpid()))
	if err := os.MkdirAll(d, 0o755); err != nil {
		panic(err)
	}
	return d
}

func tomlFile(in input) string {
	var b strings.Builder
	sec := func(name string, kv []string) {
		if len(kv) > 0 {
			fmt.Fprintf(&b, "[%s]\n%s\n", name, strings.Join(kv, "\n"))
		}
	}
	var eth, el, nw, st, dev []string
	if in.EthURL.File != nil {
		eth = append(eth, fmt.Sprintf("URL = %q", *in.EthURL.File))
	}
	if in.KeyFile.File != nil {
		eth = append(eth, fmt.Sprintf("KeyFile = %q", *in.KeyFile.File))
	}
	if in.Electrum.File != nil {
		el = append(el, fmt.Sprintf("URL = %q", *in.Electrum.File))
	}
	if in.Port.File != nil {
		nw = append(nw, fmt.Sprintf("Port = %d", *in.Port.File))
	}
	if in.Peers.File != nil {
		q := make([]string, len(*in.Peers.File))
		for i, p := range *in.Peers.File {
			q[i] = fmt.Sprintf("%q", p)
		}
		nw = append(nw, "Peers = ["+strings.Join(q, ", ")+"]")
	}
	if in.Storage.File != nil {
		st = append(st, fmt.Sprintf("Dir = %q", *in.Storage.File))
	}
	for i, c := range in.Contracts {
		if c.File != nil {
			dev = append(dev, fmt.Sprintf("%sAddress = %q", contracts[i].name, *c.File))
		}
	}
	sec("ethereum", eth)
	sec("bitcoin.electrum", el)
	sec("network", nw)
	sec("storage", st)
	sec("developer", dev)
	b.WriteString("\n")
	fileCounter++
	p := filepath.Join(workDir(), fmt.Sprintf("cfg-%d.toml", fileCounter))
	if err := os.WriteFile(p, []byte(b.String()), 0o644); err != nil {
		panic(err)
	}
	return p
}

func flagArgs(in input) []string {
	var a []string
	for _, n := range in.Net {
		a = append(a, "--"+n)
	}
	add := func(name string, p *string) {
		if p != nil {
			a = append(a, "--"+name+"="+*p)
		}
	}
	add("ethereum.url", in.EthURL.Flag)
	add("ethereum.keyFile", in.KeyFile.Flag)
	add("bitcoin.electrum.url", in.Electrum.Flag)
	add("storage.dir", in.Storage.Flag)
	if in.Port.Flag != nil {
		a = append(a, fmt.Sprintf("--network.port=%d", *in.Port.Flag))
	}
	if in.Peers.Flag != nil {
		a = append(a, "--network.peers="+strings.Join(*in.Peers.Flag, ","))
	}
	for i, c := range in.Contracts {
		add(config.GetDeveloperContractAddressKey(contracts[i].name), c.Flag)
	}
	return a
}

// the network.Type whose Ethereum network is the configured one (network.Type is not stored in
// the Config; Type.Ethereum is injective)
func typeOf(cfg *config.Config) int {
	for n := 0; n < 4; n++ {
		if network.Type(n).Ethereum() == cfg.Ethereum.Network {
			return n
		}
	}
	return 0
}

func runRead(in input) (o, o2 observed, flagPort int, reNet int) {
	return runReadOn(&config.Config{}, in, true)
}

// runReadOn runs ReadConfig on the given (possibly already used) Config
func runReadOn(cfg *config.Config, in input, again bool) (o, o2 observed, flagPort int, reNet int) {
	viper.Reset() // ReadConfig works on viper's process-global instance: every case starts as a fresh process
	setDefaults(in.Defaults)
	defer setDefaults("asis")
	path := ""
	switch in.File {
	case "good":
		path = tomlFile(in)
		defer os.Remove(path)
	case "missing":
		path = filepath.Join(workDir(), "does-not-exist.toml")
	}
	var cats []config.Category
	if in.Validate {
		cats = config.AllCategories
	}
	called := false
	var rerr error
	read := func(p string, fs *pflag.FlagSet) {
		called = true
		rerr = cfg.ReadConfig(p, fs, cats...)
	}
	errName, msg := "", ""
	refused, ran := false, false
	func() {
		defer func() {
			if r := recover(); r != nil {
				errName, msg = "EPanicked", fmt.Sprint(r)
			}
		}()
		switch in.Mode {
		case "nil":
			read(path, nil)
		default:
			var cfgPath string
			c := &cobra.Command{Use: "verif", Run: func(*cobra.Command, []string) { ran = true }}
			c.PreRun = func(cc *cobra.Command, _ []string) { read(cfgPath, cc.Flags()) }
			c.SilenceErrors, c.SilenceUsage = true, true
			if in.Mode != "nonet" {
				repocmd.VerifInitGlobalFlags(c, &cfgPath)
			}
			repocmd.VerifInitFlags(c, &cfgPath, cfg, config.AllCategories...)
			flagPort = libp2pDefaultPort(c)
			args := flagArgs(in)
			if in.Mode == "execute" {
				if path != "" {
					args = append(args, "--config="+path)
				}
				c.SetArgs(args)
				// cobra runs PreRun (where the client calls ReadConfig) BEFORE it validates flag groups
				if err := c.Execute(); err != nil {
					refused = !ran && strings.Contains(err.Error(), "none of the others can be")
					if !called {
						rerr = err
					}
				}
			} else {
				if err := c.ParseFlags(args); err != nil {
					rerr = err
				} else {
					read(path, c.Flags())
				}
			}
		}
		errName = classify(rerr)
		if rerr != nil {
			msg = rerr.Error()
		}
	}()
	o = observe(cfg, errName, msg)
	o.Refused = refused
	o2 = o
	if again && (errName == "ENone" || errName == "EValidation") {
		// resolving once more must not change anything
		reNet = typeOf(cfg)
		func() {
			defer func() {
				if r := recover(); r != nil {
					o2 = observe(cfg, "EPanicked", fmt.Sprint(r))
				}
			}()
			cfg.VerifResolveContractsAddresses()
			e2 := "ENone"
			if err := cfg.VerifResolvePeers(network.Type(reNet)); err != nil {
				e2 = "EPeers"
			} else if err := cfg.VerifResolveElectrum(rand.New(rand.NewSource(7))); err != nil {
				e2 = "EElectrum"
			}
			o2 = observe(cfg, e2, "")
			o2.Refused = refused
			if e2 == "ENone" {
				o2.Err = errName
			}
		}()
	}
	return
}

// the value network.port takes when neither the file nor the command line gives one
func libp2pDefaultPort(c *cobra.Command) int {
	f := c.Flags().Lookup("network.port")
	if f == nil {
		return 0
	}
	var v int
	fmt.Sscan(f.DefValue, &v)
	return v
}

// index of the auto-selected URL in the embedded list (the oracle of the model's random pick)
func pickOf(url string, btc string) int {
	for n := 0; n < 4; n++ {
		if bitcoin.Network(n).String() != btc {
			continue
		}
		l, err := safeReadUrls(bitcoin.Network(n))
		if err != nil {
			return 0
		}
		for i, u := range l {
			if u == url {
				return i
			}
		}
	}
	return 0
}

func flagsCoq(in input) string {
	has := func(n string) string {
		for _, x := range in.Net {
			if x == n {
				return "(Some true)"
			}
		}
		return "(Some false)"
	}
	switch in.Mode {
	case "nil":
		return "FNil"
	case "nonet":
		return "(FSet None None None)"
	}
	return fmt.Sprintf("(FSet %s %s %s)", has("mainnet"), has("testnet"), has("developer"))
}

// normRead drops what cannot be given in the chosen mode
func normRead(inp *input) {
	in := *inp
	if len(in.Contracts) != len(contracts) {
		in.Contracts = append(in.Contracts, make([]strSrc, len(contracts)-len(in.Contracts))...)
	}
	if in.Defaults == "" {
		in.Defaults = "asis"
	}
	if in.Mode == "nonet" { // the network flags do not exist in this flag set
		in.Net = nil
	}
	if in.Mode == "nil" { // no flag set: nothing can be given by flag
		in.Net = nil
		in.Peers.Flag, in.Electrum.Flag, in.EthURL.Flag, in.KeyFile.Flag, in.Storage.Flag, in.Port.Flag = nil, nil, nil, nil, nil, nil
		for i := range in.Contracts {
			in.Contracts[i].Flag = nil
		}
	}
	if in.File != "good" { // no file read: nothing can be given by file
		in.Peers.File, in.Electrum.File, in.EthURL.File, in.KeyFile.File, in.Storage.File, in.Port.File = nil, nil, nil, nil, nil, nil
		for i := range in.Contracts {
			in.Contracts[i].File = nil
		}
	}
	*inp = in
}

func readInputCoq(t *table, env string, in input, o observed) string {
	var cs []string
	for _, c := range in.Contracts {
		cs = append(cs, t.src(c))
	}
	fst := map[string]string{"none": "FNone", "missing": "FMissing", "good": "FGood"}[in.File]
	return fmt.Sprintf("{| i_env := %s; i_flags := %s; i_cobra := %s; i_file := %s; i_peers := %s; i_electrum := %s; i_contracts := %s; "+
		"i_ethurl := %s; i_keyfile := %s; i_storage := %s; i_port := %s; i_validate := %s; i_pick := %s |}",
		env, flagsCoq(in), lib.Bool(in.Mode == "execute"), fst, t.lsrc(in.Peers), t.src(in.Electrum), lib.List(cs),
		t.src(in.EthURL), t.src(in.KeyFile), t.src(in.Storage), isrc(in.Port), lib.Bool(in.Validate),
		lib.Nat(pickOf(o.Electrum, o.Btc)))
}

func emitRead(in input, em *lib.Emitter, id string) {
	normRead(&in)
	o, o2, flagPort, reNet := runRead(in)
	t := newTable()
	setDefaults(in.Defaults)
	env := envCoq(t, flagPort)
	setDefaults("asis")
	inCoq := readInputCoq(t, env, in, o)
	coq := fmt.Sprintf("(CRead %s %s %s %s %s)", inCoq, o.coq(t), netNames[reNet], lib.Nat(pickOf(o2.Electrum, o2.Btc)), o2.coq(t))
	reached := o.Err == "ENone" || o.Err == "EValidation"
	em.Tally("read-" + in.Mode + "-" + o.Err)
	if reached {
		em.Tally("eth-" + o.Eth)
	}
	sig := map[string]interface{}{"kind": "read", "mode": in.Mode, "nets": len(in.Net), "file": in.File, "defaults": in.Defaults, "err": o.Err}
	em.Case(lib.Case{ID: id, Coq: coq, Key: coq, Nontrivial: reached, Sig: sig, In: in,
		Out: map[string]interface{}{"first": o, "again": o2}})
}

// ---------------------------------------------------------------- unit cases (all four network types)

func emitUnit(in input, em *lib.Emitter, id string) {
	t := newTable()
	setDefaults("asis")
	env := envCoq(t, 0)
	var coq string
	var out interface{}
	nontrivial := true
	switch in.Kind {
	case "peers":
		run := func(cfg *config.Config) (r string) {
			defer func() {
				if rec := recover(); rec != nil {
					r = "PPanic"
				}
			}()
			if err := cfg.VerifResolvePeers(network.Type(in.UNet)); err != nil {
				return "PErr"
			}
			return "(POk " + t.list(cfg.LibP2P.Peers) + ")"
		}
		cfg := &config.Config{}
		cfg.LibP2P.Peers = append([]string{}, in.UPeers...)
		in0 := t.list(in.UPeers)
		r1 := run(cfg)
		r2 := run(cfg)
		coq = fmt.Sprintf("(CPeers %s %s %s %s %s)", env, netNames[in.UNet], in0, r1, r2)
		out = []string{r1, r2}
		em.Tally("unit-peers")
	case "electrum":
		var picked string
		run := func(cfg *config.Config, seed int64) (r string) {
			defer func() {
				if rec := recover(); rec != nil {
					r = "UPanic"
				}
			}()
			if err := cfg.VerifResolveElectrum(rand.New(rand.NewSource(seed))); err != nil {
				return "UErr"
			}
			picked = cfg.Bitcoin.Electrum.URL
			return "(UOk " + t.id(cfg.Bitcoin.Electrum.URL) + ")"
		}
		cfg := &config.Config{}
		cfg.Bitcoin.Network = bitcoin.Network(in.UBtc)
		cfg.Bitcoin.Electrum.URL = in.UUrl
		in0 := t.id(in.UUrl)
		r1 := run(cfg, in.USeed)
		k := pickOf(picked, bitcoin.Network(in.UBtc).String())
		r2 := run(cfg, in.USeed+1)
		coq = fmt.Sprintf("(CElectrum %s %s %s %s %s %s)", env, btcName(bitcoin.Network(in.UBtc).String()), in0, lib.Nat(k), r1, r2)
		out = []string{r1, r2}
		em.Tally("unit-electrum")
	case "nets":
		fs := pflag.NewFlagSet("verif", pflag.ContinueOnError)
		var look []string
		for i, n := range []string{"mainnet", "testnet", "developer"} {
			var p *bool
			if i < len(in.ULookups) {
				p = in.ULookups[i]
			}
			if p == nil {
				look = append(look, "None")
				continue
			}
			fs.Bool(n, false, "")
			if *p {
				_ = fs.Set(n, "true")
			}
			look = append(look, lib.Some(lib.Bool(*p)))
		}
		cfg := &config.Config{}
		var r string
		func() {
			defer func() {
				if rec := recover(); rec != nil {
					r = "None"
				}
			}()
			nt, err := cfg.VerifResolveNetworks(fs)
			r = fmt.Sprintf("(Some (%s, %s, %s, %s))", netNames[int(nt)], lib.Bool(err != nil),
				ethName(cfg.Ethereum.Network.String()), btcName(cfg.Bitcoin.Network.String()))
		}()
		coq = fmt.Sprintf("(CNets (FSet %s) %s)", strings.Join(look, " "), r)
		out = r
		em.Tally("unit-nets")
	default:
		fmt.Fprintln(os.Stderr, "unknown kind", in.Kind)
		os.Exit(2)
	}
	em.Case(lib.Case{ID: id, Coq: coq, Key: coq, Nontrivial: nontrivial, Sig: map[string]interface{}{"kind": in.Kind}, In: in, Out: out})
}

func emit(in input, em *lib.Emitter, id string) {
	if in.Kind == "read" {
		emitRead(in, em, id)
	} else if in.Kind == "hist" {
		emitHist(in, em, id)
	} else {
		emitUnit(in, em, id)
	}
}

// ---------------------------------------------------------------- generators

func sp(s string) *string      { return &s }
func lp(l ...string) *[]string { l = append([]string{}, l...); return &l } // never a nil slice: survives the JSON round trip of --replay
func ip(i int) *int            { return &i }
func bp(b bool) *bool          { return &b }

func addr(r *lib.Rng) string { return fmt.Sprintf("0x%x", r.Bytes(20)) }
func peer(r *lib.Rng) string {
	return fmt.Sprintf("/ip4/10.%d.%d.%d/tcp/%d/ipfs/16Uiu2HAm%x", r.Intn(256), r.Intn(256), r.Intn(256), 3000+r.Intn(999), r.Bytes(6))
}
func eurl(r *lib.Rng) string {
	return fmt.Sprintf("%s://electrum-%x.example.org:%d", []string{"wss", "ssl", "tcp"}[r.Intn(3)], r.Bytes(3), 50000+r.Intn(99))
}

// state: 0 unset, 1 file, 2 flag, 3 both (different values)
func strState(st int, gen func() string) strSrc {
	switch st {
	case 1:
		return strSrc{File: sp(gen())}
	case 2:
		return strSrc{Flag: sp(gen())}
	case 3:
		a := gen()
		b := gen()
		for b == a {
			b = gen()
		}
		return strSrc{File: sp(a), Flag: sp(b)}
	}
	return strSrc{}
}
func listState(st int, r *lib.Rng) listSrc {
	gen := func() *[]string {
		n := 1 + r.Intn(3)
		l := make([]string, n)
		for i := range l {
			l[i] = peer(r)
		}
		return &l
	}
	switch st {
	case 1:
		return listSrc{File: gen()}
	case 2:
		return listSrc{Flag: gen()}
	case 3:
		return listSrc{File: gen(), Flag: gen()}
	}
	return listSrc{}
}

// the values every command needs, given in the file (or by flag when there is no file)
func required(in *input) {
	if in.File == "good" {
		in.EthURL.File, in.KeyFile.File, in.Storage.File, in.Port.File = sp("ws://eth.example.org:8546"), sp("/keys/operator-key"), sp("/var/keep/storage"), ip(27001)
	} else {
		in.EthURL.Flag, in.KeyFile.Flag, in.Storage.Flag = sp("ws://eth.example.org:8546"), sp("/keys/operator-key"), sp("/var/keep/storage")
	}
}

var netSubsets = [][]string{{}, {"mainnet"}, {"testnet"}, {"developer"}, {"mainnet", "testnet"}, {"testnet", "developer"}, {"mainnet", "developer"}, {"mainnet", "testnet", "developer"}}

func main() {
	lib.SilenceLogs()
	os.Setenv(config.EthereumPasswordEnvVariable, "verif password from the environment")
	o := lib.ParseOpts()
	em := lib.NewEmitter()
	for _, c := range contracts {
		embeddedDefaults = append(embeddedDefaults, *c.def)
	}
	if o.Replay != "" {
		var in input
		if err := lib.LoadReplay(o.Replay, &in); err != nil {
			fmt.Fprintln(os.Stderr, err)
			os.Exit(2)
		}
		emit(in, em, "replay")
		em.Close("replay", nil)
		return
	}
	defer os.RemoveAll(workDir())
	rng := lib.NewRng(o.Seed)

	// ---- corpus
	rc := rng.Fork("corpus")
	corpus := []input{
		// everything explicit in the file, mainnet: nothing may be replaced
		{Kind: "read", Mode: "execute", Net: []string{"mainnet"}, File: "good", Defaults: "populated", Validate: true,
			Peers: listSrc{File: lp(peer(rc), peer(rc))}, Electrum: strSrc{File: sp(eurl(rc))},
			Contracts: []strSrc{{File: sp(addr(rc))}, {File: sp(addr(rc))}, {File: sp(addr(rc))}, {File: sp(addr(rc))}, {File: sp(addr(rc))}, {File: sp(addr(rc))}, {File: sp(addr(rc))}, {File: sp(addr(rc))}}},
		// nothing explicit, testnet: all defaults of the test network
		{Kind: "read", Mode: "execute", Net: []string{"testnet"}, File: "good", Defaults: "populated", Validate: true},
		// nothing explicit, developer: no defaults for peers and Electrum, validation complains
		{Kind: "read", Mode: "execute", Net: []string{"developer"}, File: "good", Defaults: "populated", Validate: true},
		// flag beats file
		{Kind: "read", Mode: "execute", Net: []string{"testnet"}, File: "good", Defaults: "populated", Validate: true,
			Peers: listSrc{File: lp(peer(rc)), Flag: lp(peer(rc), peer(rc))}, Electrum: strSrc{File: sp(eurl(rc)), Flag: sp(eurl(rc))},
			Contracts: []strSrc{{File: sp(addr(rc)), Flag: sp(addr(rc))}, {}, {Flag: sp(addr(rc))}}},
		// two network flags: refused by the command, taken in code order by ReadConfig itself
		{Kind: "read", Mode: "execute", Net: []string{"testnet", "developer"}, File: "good", Defaults: "populated"},
		{Kind: "read", Mode: "direct", Net: []string{"testnet", "developer"}, File: "good", Defaults: "populated"},
		{Kind: "read", Mode: "direct", Net: []string{"mainnet", "developer"}, File: "good", Defaults: "populated"},
		// no flag set at all (as the package's own tests call it); missing file; flag set without the network flags
		{Kind: "read", Mode: "nil", File: "good", Defaults: "populated", Validate: true},
		{Kind: "read", Mode: "direct", File: "missing", Defaults: "populated"},
		{Kind: "read", Mode: "nonet", File: "good", Defaults: "populated", Electrum: strSrc{Flag: sp(eurl(rc))}},
		// an explicitly empty flag value hides the file value and counts as unset
		{Kind: "read", Mode: "direct", Net: []string{"mainnet"}, File: "good", Defaults: "populated",
			Peers: listSrc{File: lp(peer(rc)), Flag: lp()}, Electrum: strSrc{File: sp(eurl(rc)), Flag: sp("")},
			Contracts: []strSrc{{File: sp(addr(rc)), Flag: sp("")}}},
		// an explicit value that is not a hex address is kept as it is
		{Kind: "read", Mode: "direct", File: "good", Defaults: "populated", Contracts: []strSrc{{File: sp("not-an-address")}, {Flag: sp("0x1234")}}},
	}
	for i, in := range corpus {
		required(&in)
		emit(in, em, fmt.Sprintf("corpus-%d", i))
	}

	// ---- units: the resolve functions for all four network types
	ru := rng.Fork("units")
	for n := 0; n < 4; n++ {
		for _, ps := range [][]string{{}, {peer(ru)}, {peer(ru), peer(ru)}} {
			emit(input{Kind: "peers", UNet: n, UPeers: ps}, em, "")
		}
		for _, u := range []string{"", eurl(ru)} {
			for s := 0; s < 3; s++ {
				emit(input{Kind: "electrum", UBtc: n, UUrl: u, USeed: int64(ru.Intn(1 << 30))}, em, "")
			}
		}
	}
	opt := []*bool{nil, bp(false), bp(true)}
	for a := 0; a < 3; a++ {
		for b := 0; b < 3; b++ {
			for c := 0; c < 3; c++ {
				emit(input{Kind: "nets", ULookups: []*bool{opt[a], opt[b], opt[c]}}, em, "")
			}
		}
	}

	// ---- resolution histories on ONE Config (hist.go)
	genHistories(rng.Fork("histories"), o, em)

	// ---- exhaustive: {unset,file,flag,both} for peers x Electrum x contracts(all eight alike)
	//      x network-flag subsets x {through cobra, directly}
	re := rng.Fork("exhaustive")
	n := 0
	for _, mode := range []string{"execute", "direct"} {
		for _, nets := range netSubsets {
			for sp_ := 0; sp_ < 4; sp_++ {
				for se := 0; se < 4; se++ {
					for sc := 0; sc < 4; sc++ {
						n++
						if o.Tier == "quick" && len(nets) >= 2 && (n+int(o.Seed))%4 != 0 {
							continue // the quick tier takes a seeded quarter of the multi-flag combinations
						}
						if o.Tier == "quick" && len(nets) < 2 && mode == "direct" && (n+int(o.Seed))%2 != 0 {
							continue // ... and a seeded half of the direct calls with at most one flag
						}
						in := input{Kind: "read", Mode: mode, Net: nets, File: "good", Defaults: "populated", Validate: re.Chance(1, 2)}
						in.Peers = listState(sp_, re)
						in.Electrum = strState(se, func() string { return eurl(re) })
						for range contracts {
							in.Contracts = append(in.Contracts, strState(sc, func() string { return addr(re) }))
						}
						required(&in)
						emit(in, em, fmt.Sprintf("ex-%d", n))
					}
				}
			}
		}
	}
	// no flag set: {unset,file}^3
	for m := 0; m < 8; m++ {
		in := input{Kind: "read", Mode: "nil", File: "good", Defaults: "populated", Validate: m%2 == 0}
		in.Peers = listState(m&1, re)
		in.Electrum = strState((m>>1)&1, func() string { return eurl(re) })
		for range contracts {
			in.Contracts = append(in.Contracts, strState((m>>2)&1, func() string { return addr(re) }))
		}
		required(&in)
		emit(in, em, fmt.Sprintf("ex-nil-%d", m))
	}

	// ---- random cross-field combinations (every field and every contract independently), explicit
	//      empty values, malformed addresses, missing files, missing required values, both default sets
	rr := rng.Fork("random")
	count := o.Count(260, 4000)
	for k := 0; k < count; k++ {
		in := input{Kind: "read", File: "good", Defaults: "populated"}
		switch x := rr.Intn(20); {
		case x < 9:
			in.Mode = "execute"
		case x < 17:
			in.Mode = "direct"
		case x < 19:
			in.Mode = "nil"
		default:
			in.Mode = "nonet"
		}
		if rr.Chance(3, 4) {
			in.Net = netSubsets[rr.Intn(4)]
		} else {
			in.Net = netSubsets[rr.Intn(len(netSubsets))]
		}
		if rr.Chance(1, 4) {
			in.Defaults = "asis"
		}
		switch x := rr.Intn(12); {
		case x == 0:
			in.File = "missing"
		case x <= 2:
			in.File = "none"
		}
		in.Validate = rr.Chance(2, 3)
		in.Peers = listState(rr.Intn(4), rr)
		if rr.Chance(1, 10) {
			in.Peers.Flag = lp()
		}
		if rr.Chance(1, 12) {
			in.Peers.File = lp()
		}
		empty := func(s *strSrc) {
			if rr.Chance(1, 12) {
				s.Flag = sp("")
			}
			if rr.Chance(1, 12) {
				s.File = sp("")
			}
		}
		in.Electrum = strState(rr.Intn(4), func() string { return eurl(rr) })
		empty(&in.Electrum)
		for i := range contracts {
			c := strState(rr.Intn(4), func() string {
				switch rr.Intn(12) {
				case 0:
					return "not-an-address-" + fmt.Sprint(rr.Intn(1000))
				case 1:
					return defaultOf(in.Defaults, i) // explicitly the default itself (empty in this tree's own build)
				}
				return addr(rr)
			})
			empty(&c)
			in.Contracts = append(in.Contracts, c)
		}
		required(&in)
		if rr.Chance(1, 5) { // drop or move some of the required values
			switch rr.Intn(5) {
			case 0:
				in.EthURL = strSrc{}
			case 1:
				in.KeyFile = strSrc{Flag: in.KeyFile.File}
			case 2:
				in.Storage = strSrc{}
			case 3:
				in.Port = intSrc{File: ip(0)}
			case 4:
				in.Port = intSrc{Flag: ip(7000 + rr.Intn(100))}
			}
		}
		emit(in, em, fmt.Sprintf("rnd-%d", k))
	}

	em.Close("a hist case is 1-4 consecutive resolveNetworks / resolution-stage / ReadConfig steps on ONE Config object that may be "+
		"pre-populated (all ordered pairs and triples of {none, mainnet, testnet, developer}), observed after every step; "+
		"a read case is one ReadConfig call (fresh viper, fresh Config) on a generated TOML file and a flag set built by the real "+
		"cmd.initGlobalFlags/initFlags, through cobra's Execute or directly, followed by one more run of the three resolve functions; "+
		"exhaustive over {unset,file,flag,both} for peers x Electrum URL x contract addresses x network-flag subsets x call mode "+
		"(quick: a seeded quarter of the multi-flag combinations and half of the direct calls with at most one flag), then random cross-field combinations; unit cases call "+
		"resolveNetworks/resolvePeers/resolveElectrum for all four network types; distinct by the whole case; a read case is non-trivial "+
		"when ReadConfig reached the resolution stage (no error, or only the final validation error)",
		map[string]interface{}{"exhaustive_multi_flag": o.Tier != "quick"})
}
