// Resolution HISTORIES on ONE long-lived Config (kind "hist"): the Config may be pre-populated by
// the caller (networks, peers, Electrum URL, contract addresses), then 1-4 steps run on it, each
// one of
//
//	nets     (*Config).resolveNetworks alone on a flag set,
//	resolve  the resolution stage of ReadConfig without viper: resolveNetworks, then
//	         resolveContractsAddresses, resolvePeers(returned network), resolveElectrum,
//	read     ReadConfig itself (fresh viper instance, a new command whose flags the real
//	         cmd.initFlags binds to THIS Config, called directly on the parsed flag set),
//
// and the Config is observed after every step.  A fresh Config per call hides state: the same
// selection sequence on one object shows whether an earlier resolution (or a value the caller put
// there) leaks into a later one.
package main

import (
	"fmt"
	"math/rand"
	"strings"

	"github.com/spf13/cobra"
	"github.com/spf13/pflag"

	repocmd "github.com/keep-network/keep-core/cmd"
	"github.com/keep-network/keep-core/config"
	"github.com/keep-network/keep-core/config/network"
	"github.com/keep-network/keep-core/pkg/bitcoin"

	"verifharness/lib"
)

type preCfg struct {
	Eth       int      `json:"eth"` // network.Type whose Ethereum network is pre-set (0 = unknown)
	Btc       int      `json:"btc"` // bitcoin.Network pre-set
	Peers     []string `json:"peers,omitempty"`
	Electrum  string   `json:"electrum,omitempty"`
	Contracts []string `json:"contracts,omitempty"` // "" = not set
}

type hstepIn struct {
	Kind    string  `json:"kind"`              // nets | resolve | read
	Lookups []*bool `json:"lookups,omitempty"` // nets / resolve: mainnet, testnet, developer (nil = flag not defined)
	Seed    int64   `json:"seed,omitempty"`    // resolve: seed of the Electrum pick
	Read    *input  `json:"read,omitempty"`    // read: as a read case (mode direct)
}

type histIn struct {
	Defaults string    `json:"defaults"`
	Init     preCfg    `json:"init"`
	Steps    []hstepIn `json:"steps"`
}

type hobserved struct {
	Net int      `json:"net"` // network.Type returned by resolveNetworks (0 for read steps)
	Cfg observed `json:"cfg"`
}

func lookupsCoq(l []*bool) string {
	var look []string
	for i := 0; i < 3; i++ {
		var p *bool
		if i < len(l) {
			p = l[i]
		}
		if p == nil {
			look = append(look, "None")
		} else {
			look = append(look, lib.Some(lib.Bool(*p)))
		}
	}
	return "(FSet " + strings.Join(look, " ") + ")"
}

func lookupsFlagSet(l []*bool) *pflag.FlagSet {
	fs := pflag.NewFlagSet("verif", pflag.ContinueOnError)
	for i, n := range []string{"mainnet", "testnet", "developer"} {
		if i >= len(l) || l[i] == nil {
			continue
		}
		fs.Bool(n, false, "")
		if *l[i] {
			_ = fs.Set(n, "true")
		}
	}
	return fs
}

func cfgCoq(t *table, o observed) string {
	return fmt.Sprintf("{| c_eth := %s; c_btc := %s; c_peers := %s; c_electrum := %s; c_contracts := %s |}",
		ethName(o.Eth), btcName(o.Btc), t.list(o.Peers), t.id(o.Electrum), t.list(o.Contracts))
}

func defaultFlagPort() int {
	var p string
	c := &cobra.Command{Use: "verif"}
	repocmd.VerifInitGlobalFlags(c, &p)
	repocmd.VerifInitFlags(c, &p, &config.Config{}, config.AllCategories...)
	return libp2pDefaultPort(c)
}

func emitHist(in input, em *lib.Emitter, id string) {
	h := in.Hist
	if h.Defaults == "" {
		h.Defaults = "asis"
	}
	for len(h.Init.Contracts) < len(contracts) {
		h.Init.Contracts = append(h.Init.Contracts, "")
	}
	for i := range h.Steps {
		if h.Steps[i].Kind == "read" {
			r := h.Steps[i].Read
			r.Kind, r.Mode, r.Defaults = "read", "direct", h.Defaults
			normRead(r)
		}
	}
	setDefaults(h.Defaults)
	defer setDefaults("asis")

	// ONE Config for the whole history, pre-populated as a caller might
	cfg := &config.Config{}
	cfg.Ethereum.Network = network.Type(h.Init.Eth).Ethereum()
	cfg.Bitcoin.Network = bitcoin.Network(h.Init.Btc)
	if len(h.Init.Peers) > 0 {
		cfg.LibP2P.Peers = append([]string{}, h.Init.Peers...)
	}
	cfg.Bitcoin.Electrum.URL = h.Init.Electrum
	for i, a := range h.Init.Contracts {
		if a != "" {
			if cfg.Ethereum.ContractAddresses == nil {
				cfg.Ethereum.ContractAddresses = map[string]string{}
			}
			cfg.Ethereum.ContractAddresses[strings.ToLower(contracts[i].name)] = a
		}
	}

	t := newTable()
	env := envCoq(t, defaultFlagPort())
	init := observe(cfg, "ENone", "")
	var stepsCoq, obsCoq []string
	var obs []hobserved
	sticky := false // some network of the observed Config differs from the pair of the last returned type
	kinds := ""
	for _, st := range h.Steps {
		var ho hobserved
		kinds += st.Kind[:1]
		switch st.Kind {
		case "nets", "resolve":
			errName := "ENone"
			func() {
				defer func() {
					if r := recover(); r != nil {
						errName = "EPanicked"
					}
				}()
				nt, err := cfg.VerifResolveNetworks(lookupsFlagSet(st.Lookups))
				ho.Net = int(nt)
				if err != nil {
					errName = "EResolveNetworks"
					return
				}
				if st.Kind == "nets" {
					return
				}
				cfg.VerifResolveContractsAddresses()
				if err := cfg.VerifResolvePeers(nt); err != nil {
					errName = "EPeers"
					return
				}
				if err := cfg.VerifResolveElectrum(rand.New(rand.NewSource(st.Seed))); err != nil {
					errName = "EElectrum"
				}
			}()
			ho.Cfg = observe(cfg, errName, "")
			if st.Kind == "nets" {
				stepsCoq = append(stepsCoq, "HNets "+lookupsCoq(st.Lookups))
			} else {
				stepsCoq = append(stepsCoq, fmt.Sprintf("HResolve %s %s", lookupsCoq(st.Lookups), lib.Nat(pickOf(ho.Cfg.Electrum, ho.Cfg.Btc))))
			}
			if ho.Cfg.Eth != network.Type(ho.Net).Ethereum().String() || ho.Cfg.Btc != network.Type(ho.Net).Bitcoin().String() {
				sticky = true
			}
		case "read":
			o, _, _, _ := runReadOn(cfg, *st.Read, false)
			setDefaults(h.Defaults) // runReadOn restores the as-built defaults on return
			ho.Cfg = o
			stepsCoq = append(stepsCoq, "HRead "+readInputCoq(t, "e", *st.Read, o))
		default:
			panic("unknown step kind " + st.Kind)
		}
		obs = append(obs, ho)
		obsCoq = append(obsCoq, fmt.Sprintf("{| h_net := %s; h_err := %s; h_cfg := %s |}", netNames[ho.Net], ho.Cfg.Err, cfgCoq(t, ho.Cfg)))
	}
	coq := fmt.Sprintf("(let e := %s in CHist e %s %s %s)", env, cfgCoq(t, init), lib.List(stepsCoq), lib.List(obsCoq))
	pre := h.Init.Eth != 0 || h.Init.Btc != 0 || len(h.Init.Peers) > 0 || h.Init.Electrum != "" || strings.Join(h.Init.Contracts, "") != ""
	em.Tally(fmt.Sprintf("hist-%d-steps", len(h.Steps)))
	if pre {
		em.Tally("hist-prepopulated")
	}
	sig := map[string]interface{}{"kind": "hist", "steps": kinds, "prepopulated": pre, "sticky": sticky}
	em.Case(lib.Case{ID: id, Coq: coq, Key: coq, Nontrivial: len(h.Steps) >= 2 || pre, Sig: sig, In: in,
		Out: map[string]interface{}{"init": init, "after_each_step": obs}})
}

// ---------------------------------------------------------------- generators

// selections: none, --mainnet, --testnet, --developer (all three flags defined)
func selLookups(sel int) []*bool {
	return []*bool{bp(sel == 1), bp(sel == 2), bp(sel == 3)}
}

var selNames = []string{"", "mainnet", "testnet", "developer"}

func readStep(r *lib.Rng, sel int, file bool) hstepIn {
	in := &input{Kind: "read", Mode: "direct", File: "none", Validate: r.Chance(1, 2)}
	if file {
		in.File = "good"
	}
	if sel != 0 {
		in.Net = []string{selNames[sel]}
	}
	in.Peers = listState(r.Intn(4), r)
	in.Electrum = strState(r.Intn(4), func() string { return eurl(r) })
	for range contracts {
		in.Contracts = append(in.Contracts, strState(r.Intn(4), func() string { return addr(r) }))
	}
	required(in)
	return hstepIn{Kind: "read", Read: in}
}

func randomInit(r *lib.Rng) preCfg {
	var p preCfg
	switch r.Intn(4) {
	case 0: // a consistent pair
		p.Eth = r.Intn(4)
		p.Btc = p.Eth
	case 1: // any pair
		p.Eth, p.Btc = r.Intn(4), r.Intn(4)
	case 2:
		p.Eth = 1 + r.Intn(3)
	}
	if r.Chance(1, 2) {
		for i := 0; i <= r.Intn(3); i++ {
			p.Peers = append(p.Peers, peer(r))
		}
	}
	if r.Chance(1, 2) {
		p.Electrum = eurl(r)
	}
	for range contracts {
		a := ""
		if r.Chance(1, 3) {
			a = addr(r)
		}
		p.Contracts = append(p.Contracts, a)
	}
	return p
}

func genHistories(r *lib.Rng, o lib.Opts, em *lib.Emitter) {
	n := 0
	emitH := func(tag string, h histIn) {
		n++
		emit(input{Kind: "hist", Hist: &h}, em, fmt.Sprintf("hist-%s-%d", tag, n))
	}
	// corpus: the selection sequences a reused Config must follow
	emitH("corpus", histIn{Defaults: "populated", Steps: []hstepIn{
		{Kind: "nets", Lookups: selLookups(2)}, {Kind: "nets", Lookups: selLookups(3)},
		{Kind: "nets", Lookups: selLookups(0)}, {Kind: "nets", Lookups: selLookups(2)}}})
	emitH("corpus", histIn{Defaults: "populated", Init: preCfg{Eth: 2, Btc: 3}, Steps: []hstepIn{
		{Kind: "resolve", Lookups: selLookups(1), Seed: 5}}})
	emitH("corpus", histIn{Defaults: "populated", Steps: []hstepIn{
		{Kind: "resolve", Lookups: selLookups(2), Seed: 1}, {Kind: "nets", Lookups: []*bool{bp(false), nil, bp(false)}}}})

	// a pre-populated network pair (all 16, consistent or not) x one selection
	for eth := 0; eth < 4; eth++ {
		for btc := 0; btc < 4; btc++ {
			for sel := 0; sel < 4; sel++ {
				if o.Tier == "quick" && (eth*16+btc*4+sel+int(o.Seed))%2 != 0 {
					continue
				}
				kind := []string{"nets", "resolve"}[(eth+btc+sel)%2]
				emitH("pre", histIn{Defaults: "populated", Init: preCfg{Eth: eth, Btc: btc},
					Steps: []hstepIn{{Kind: kind, Lookups: selLookups(sel), Seed: int64(r.Intn(1 << 20))}}})
			}
		}
	}
	// all ordered pairs and triples of selections, as resolveNetworks alone and as resolution stages
	for _, kind := range []string{"nets", "resolve"} {
		for a := 0; a < 4; a++ {
			for b := 0; b < 4; b++ {
				emitH("pair", histIn{Defaults: "populated", Steps: []hstepIn{
					{Kind: kind, Lookups: selLookups(a), Seed: int64(r.Intn(1 << 20))},
					{Kind: kind, Lookups: selLookups(b), Seed: int64(r.Intn(1 << 20))}}})
				for c := 0; c < 4; c++ {
					if o.Tier == "quick" && kind == "resolve" && (a*16+b*4+c+int(o.Seed))%2 != 0 {
						continue
					}
					emitH("triple", histIn{Defaults: "populated", Steps: []hstepIn{
						{Kind: kind, Lookups: selLookups(a), Seed: int64(r.Intn(1 << 20))},
						{Kind: kind, Lookups: selLookups(b), Seed: int64(r.Intn(1 << 20))},
						{Kind: kind, Lookups: selLookups(c), Seed: int64(r.Intn(1 << 20))}}})
				}
			}
		}
	}
	// ReadConfig twice on one Config: all ordered pairs of selections
	for a := 0; a < 4; a++ {
		for b := 0; b < 4; b++ {
			emitH("readpair", histIn{Defaults: "populated", Steps: []hstepIn{readStep(r, a, true), readStep(r, b, r.Bool())}})
		}
	}
	// random: 2-4 mixed steps, pre-populated Config, occasionally undefined flags / two flags given
	count := o.Count(60, 1500)
	for k := 0; k < count; k++ {
		h := histIn{Defaults: "populated"}
		if r.Chance(1, 5) {
			h.Defaults = "asis"
		}
		if r.Chance(2, 3) {
			h.Init = randomInit(r)
		}
		steps := 2 + r.Intn(3)
		for s := 0; s < steps; s++ {
			sel := r.Intn(4)
			switch x := r.Intn(10); {
			case x < 3:
				h.Steps = append(h.Steps, hstepIn{Kind: "nets", Lookups: selLookups(sel)})
			case x < 7:
				h.Steps = append(h.Steps, hstepIn{Kind: "resolve", Lookups: selLookups(sel), Seed: int64(r.Intn(1 << 20))})
			default:
				h.Steps = append(h.Steps, readStep(r, sel, r.Chance(2, 3)))
			}
			st := &h.Steps[len(h.Steps)-1]
			if st.Kind != "read" && r.Chance(1, 8) {
				switch r.Intn(3) {
				case 0: // a flag is not defined: the error path
					st.Lookups[1+r.Intn(2)] = nil
				case 1: // two flags given
					st.Lookups = []*bool{bp(r.Bool()), bp(true), bp(true)}
				case 2:
					st.Lookups[0] = nil // --mainnet is never read
				}
			}
		}
		emitH("rnd", h)
	}
}
