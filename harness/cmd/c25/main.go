// Driver for C25: drives the real walletDispatcher (pkg/tbtc/wallet.go) with actions whose
// execute() blocks on harness-controlled gates.  A case is a script of steps executed by a
// controller: single dispatches, finishes (open the gate of a wallet's running action), bursts
// of concurrent dispatches from several goroutines and races of a finish against concurrent
// dispatches.  Every operation is stamped with a logical clock at invocation and response; the
// number of simultaneous execute() per wallet is counted directly.  For every concurrent
// group the driver searches a linearisation (brute force, <= 6 operations) and prints the
// history in that order as a certificate that Coq validates (Model/C25.v: real-time order +
// replay on the model).  No verdict is taken from sleeping: the controller waits on explicit
// conditions (begun / ended channels, the dispatcher's map read under its mutex).
package main

import (
	"crypto/ecdsa"
	"errors"
	"fmt"
	"math/big"
	"os"
	"runtime"
	"sort"
	"strings"
	"sync"
	"sync/atomic"
	"time"

	"github.com/keep-network/keep-core/pkg/tbtc"
	"github.com/keep-network/keep-core/pkg/tecdsa"

	"verifharness/lib"
)

type stepIn struct {
	Kind string `json:"k"`            // disp | fin | burst | race
	W    int    `json:"w,omitempty"`  // disp, fin, race: the wallet (1-based)
	Ws   []int  `json:"ws,omitempty"` // burst, race: wallets of the concurrent dispatches
	Fail bool   `json:"fail,omitempty"`
}

type input struct {
	Wallets int      `json:"wallets"`
	Steps   []stepIn `json:"steps"`
}

type action struct {
	w                  int
	gate, begun, ended chan struct{}
	fail               bool
}

type evRec struct {
	Op  string `json:"op"` // D | F
	W   int    `json:"w"`
	Inv uint64 `json:"inv"`
	Ret uint64 `json:"ret"`
	Res bool   `json:"res"`
	act *action
}

type runner struct {
	d          *tbtc.VerifC25Dispatcher
	pubs       []*ecdsa.PublicKey
	keys       []string
	clock      atomic.Uint64
	overlap    []atomic.Int32
	maxOverlap []atomic.Int32
	cur        map[int]*action // controller's knowledge: the accepted, unfinished action
	busy       map[int]bool    // sequential model state at group boundaries (for the search)
	hist       []evRec
	stuck      bool
	noCert     bool
	unexpected string
	budget     time.Duration
	groups     int
	maxGroup   int
}

func walletKey(i int) *ecdsa.PublicKey {
	x, y := tecdsa.Curve.ScalarBaseMult(big.NewInt(int64(2000 + i)).Bytes())
	return &ecdsa.PublicKey{Curve: tecdsa.Curve, X: x, Y: y}
}

func newRunner(wallets int, budget time.Duration) *runner {
	r := &runner{d: tbtc.VerifC25NewDispatcher(), cur: map[int]*action{}, busy: map[int]bool{}, budget: budget}
	r.pubs = make([]*ecdsa.PublicKey, wallets+1)
	r.keys = make([]string, wallets+1)
	r.overlap = make([]atomic.Int32, wallets+1)
	r.maxOverlap = make([]atomic.Int32, wallets+1)
	for w := 1; w <= wallets; w++ {
		r.pubs[w] = walletKey(w)
		k, err := tbtc.VerifC25WalletKey(r.pubs[w])
		if err != nil {
			panic(err)
		}
		r.keys[w] = k
	}
	return r
}

func (r *runner) tick() uint64 { return r.clock.Add(1) }

func (r *runner) newAction(w int, fail bool) *action {
	return &action{w: w, gate: make(chan struct{}), begun: make(chan struct{}), ended: make(chan struct{}), fail: fail}
}

// the body of action.execute()
func (r *runner) execute(a *action) error {
	n := r.overlap[a.w].Add(1)
	for {
		m := r.maxOverlap[a.w].Load()
		if n <= m || r.maxOverlap[a.w].CompareAndSwap(m, n) {
			break
		}
	}
	close(a.begun)
	<-a.gate
	r.overlap[a.w].Add(-1)
	close(a.ended)
	if a.fail {
		return errors.New("stub action failed")
	}
	return nil
}

func (r *runner) isBusy(w int) bool {
	for _, k := range r.d.BusyKeys() {
		if k == r.keys[w] {
			return true
		}
	}
	return false
}

func waitCh(ch <-chan struct{}, budget time.Duration) bool {
	select {
	case <-ch:
		return true
	default:
	}
	t := time.NewTimer(budget)
	defer t.Stop()
	select {
	case <-ch:
		return true
	case <-t.C:
		return false
	}
}

type gop struct {
	kind string // D | F
	w    int
	fail bool
}

// runGroup runs the operations of one concurrent group and appends them, in the order of a
// linearisation when one exists, to the history.
func (r *runner) runGroup(ops []gop) {
	n := len(ops)
	recs := make([]evRec, n)
	var startFlag atomic.Bool
	var ready atomic.Int32
	done := make(chan struct{})
	var finishing *action // the action a finisher of this group lets end, if any
	for _, op := range ops {
		if op.kind == "F" {
			finishing = r.cur[op.w]
		}
	}
	var wg sync.WaitGroup
	accepted := make([]atomic.Bool, len(r.pubs))
	var errMu sync.Mutex
	for i, op := range ops {
		wg.Add(1)
		go func(i int, op gop) {
			defer wg.Done()
			// spin barrier: all goroutines of the group leave it at (nearly) the same instant
			ready.Add(1)
			for !startFlag.Load() {
				runtime.Gosched()
			}
			switch op.kind {
			case "D":
				a := r.newAction(op.w, op.fail)
				if finishing != nil {
					// vary where the dispatch lands relative to the finishing action: at once, right
					// after execute() returned (the window before the deferred delete), or later
					switch i % 3 {
					case 1:
						<-finishing.ended
					case 2:
						<-finishing.ended
						for k := 0; k < 20*i; k++ {
							runtime.Gosched()
						}
					}
				}
				inv := r.tick()
				busy, err := r.d.Dispatch(r.pubs[op.w], tbtc.ActionHeartbeat, func() error { return r.execute(a) })
				if err == nil {
					accepted[op.w].Store(true)
				}
				ret := r.tick()
				if err != nil && !busy {
					errMu.Lock()
					r.unexpected = err.Error()
					errMu.Unlock()
				}
				recs[i] = evRec{Op: "D", W: op.w, Inv: inv, Ret: ret, Res: err == nil, act: a}
			case "F":
				a := r.cur[op.w]
				inv := r.tick()
				close(a.gate)
				freed := false
				if waitCh(a.ended, r.budget) {
					// explicit condition: the entry is gone (or somebody else's dispatch for this
					// wallet was accepted, which proves that it was gone)
					deadline := time.Now().Add(r.budget)
					for spins := 0; ; spins++ {
						if accepted[op.w].Load() || !r.isBusy(op.w) {
							freed = true
							break
						}
						runtime.Gosched()
						if spins > 1000 {
							time.Sleep(200 * time.Microsecond)
							if time.Now().After(deadline) {
								break
							}
						}
					}
				}
				ret := r.tick()
				recs[i] = evRec{Op: "F", W: op.w, Inv: inv, Ret: ret, Res: freed}
			}
		}(i, op)
	}
	go func() { wg.Wait(); close(done) }()
	for spins := 0; int(ready.Load()) < n; spins++ {
		runtime.Gosched()
		if spins > 1000 {
			time.Sleep(50 * time.Microsecond)
		}
	}
	startFlag.Store(true)
	if !waitCh(done, 3*r.budget) {
		// some dispatch() never returned / some finish never completed
		r.stuck = true
		for i, op := range ops {
			if recs[i].Op == "" {
				recs[i] = evRec{Op: op.kind, W: op.w, Inv: r.tick(), Ret: r.tick(), Res: false}
			}
		}
		r.hist = append(r.hist, recs...)
		return
	}
	for i := range recs {
		if recs[i].Op == "F" && !recs[i].Res {
			r.stuck = true
		}
		if recs[i].Op == "D" && recs[i].Res {
			// "actions do not block each other": an accepted action starts executing while the
			// actions of the other wallets are still blocked on their gates
			if !waitCh(recs[i].act.begun, r.budget) {
				r.stuck = true
			}
		}
	}
	// controller knowledge
	for i := range recs {
		if recs[i].Op == "F" {
			delete(r.cur, recs[i].W)
		}
	}
	for i := range recs {
		if recs[i].Op == "D" && recs[i].Res {
			r.cur[recs[i].W] = recs[i].act
		}
	}
	// linearisation search
	order := r.linearise(recs)
	if order == nil {
		r.noCert = true
		order = make([]int, n)
		for i := range order {
			order[i] = i
		}
		sort.Slice(order, func(a, b int) bool { return recs[order[a]].Inv < recs[order[b]].Inv })
	}
	for _, i := range order {
		r.hist = append(r.hist, recs[i])
	}
	r.groups++
	if n > r.maxGroup {
		r.maxGroup = n
	}
}

func modelStep(busy map[int]bool, e evRec) bool {
	if e.Op == "D" {
		if busy[e.W] {
			return false
		}
		busy[e.W] = true
		return true
	}
	if busy[e.W] {
		busy[e.W] = false
		return true
	}
	return false
}

// linearise: a permutation of recs that respects real time and replays on the sequential
// model from r.busy; on success r.busy is advanced.
func (r *runner) linearise(recs []evRec) []int {
	n := len(recs)
	used := make([]bool, n)
	order := make([]int, 0, n)
	var dfs func(busy map[int]bool) bool
	dfs = func(busy map[int]bool) bool {
		if len(order) == n {
			for k, v := range busy {
				r.busy[k] = v
			}
			return true
		}
		for i := 0; i < n; i++ {
			if used[i] {
				continue
			}
			// i may come next only if no unused j had returned before i was invoked
			ok := true
			for j := 0; j < n; j++ {
				if j != i && !used[j] && recs[j].Ret < recs[i].Inv {
					ok = false
					break
				}
			}
			if !ok {
				continue
			}
			nb := map[int]bool{}
			for k, v := range busy {
				nb[k] = v
			}
			if modelStep(nb, recs[i]) != recs[i].Res {
				continue
			}
			used[i] = true
			order = append(order, i)
			if dfs(nb) {
				return true
			}
			order = order[:len(order)-1]
			used[i] = false
		}
		return false
	}
	start := map[int]bool{}
	for k, v := range r.busy {
		start[k] = v
	}
	if dfs(start) {
		return order
	}
	return nil
}

func (r *runner) runSteps(in input) {
	for _, st := range in.Steps {
		if r.stuck || r.noCert {
			return
		}
		switch st.Kind {
		case "disp":
			r.runGroup([]gop{{"D", st.W, st.Fail}})
		case "fin":
			if r.cur[st.W] == nil {
				continue
			}
			r.runGroup([]gop{{"F", st.W, false}})
		case "burst", "race":
			var ops []gop
			if st.Kind == "race" && r.cur[st.W] != nil {
				ops = append(ops, gop{"F", st.W, false})
			}
			for _, w := range st.Ws {
				ops = append(ops, gop{"D", w, st.Fail})
			}
			// the finisher is not always the first goroutine started
			if len(ops) > 1 && ops[0].kind == "F" && len(st.Ws)%2 == 0 {
				ops[0], ops[len(ops)-1] = ops[len(ops)-1], ops[0]
			}
			r.runGroup(ops)
		}
	}
}

type result struct {
	Hist    []evRec `json:"history"`
	Overlap []int   `json:"maxOverlapPerWallet"`
	Stuck   bool    `json:"stuck"`
	NoCert  bool    `json:"noLinearisationFound"`
	Busy    []int   `json:"busyAtEnd"`
	Err     string  `json:"unexpectedError,omitempty"`
}

func runCase(in input, budget time.Duration) (res result, r *runner) {
	r = newRunner(in.Wallets, budget)
	func() {
		defer func() {
			if p := recover(); p != nil {
				r.stuck = true
				r.unexpected = fmt.Sprintf("panic: %v", p)
			}
		}()
		r.runSteps(in)
	}()
	res.Hist = r.hist
	res.Stuck = r.stuck || r.unexpected != ""
	res.NoCert = r.noCert
	res.Err = r.unexpected
	for w := 1; w <= in.Wallets; w++ {
		res.Overlap = append(res.Overlap, int(r.maxOverlap[w].Load()))
		if r.isBusy(w) {
			res.Busy = append(res.Busy, w)
		}
	}
	// clean up: let every blocked action end (not part of the history)
	seen := map[*action]bool{}
	for _, e := range r.hist {
		if e.act != nil && !seen[e.act] {
			seen[e.act] = true
			select {
			case <-e.act.gate:
			default:
				close(e.act.gate)
			}
		}
	}
	return res, r
}

var aborted bool

func run(in input, em *lib.Emitter, id string) {
	if aborted {
		return
	}
	res, r := runCase(in, 20*time.Second)
	if res.Stuck && res.Err == "" {
		// "timeouts are never verdicts": retry once with a 4x budget before believing it
		em.Tally("retried-after-stall")
		res, r = runCase(in, 80*time.Second)
		if res.Stuck {
			aborted = true // every further case would take minutes: stop generating
		}
	}
	evs := make([]string, len(res.Hist))
	nD, nRef, nF, nAcc := 0, 0, 0, 0
	var keyb strings.Builder
	for i, e := range res.Hist {
		op := "ADisp"
		if e.Op == "F" {
			op = "AFin"
			nF++
		} else {
			nD++
			if e.Res {
				nAcc++
			} else {
				nRef++
			}
		}
		evs[i] = fmt.Sprintf("{| h_op := %s %s; h_inv := %s; h_ret := %s; h_res := %s |}",
			op, lib.N(uint64(e.W)), lib.N(e.Inv), lib.N(e.Ret), lib.Bool(e.Res))
		fmt.Fprintf(&keyb, "%s%d%v;", e.Op, e.W, e.Res)
	}
	ov := make([]string, len(res.Overlap))
	for i, m := range res.Overlap {
		ov[i] = lib.Pair(lib.N(uint64(i+1)), lib.N(uint64(m)))
	}
	busy := make([]uint64, len(res.Busy))
	for i, w := range res.Busy {
		busy[i] = uint64(w)
	}
	coq := fmt.Sprintf("{| c_wallets := %s; c_hist := %s; c_overlap := %s; c_stuck := %s; c_busy := %s |}",
		lib.N(uint64(in.Wallets)), lib.List(evs), lib.List(ov), lib.Bool(res.Stuck), lib.ListN(busy))
	concurrent := r.maxGroup >= 2
	em.Tally(fmt.Sprintf("wallets-%d", in.Wallets))
	em.Tally(fmt.Sprintf("max-group-%d", r.maxGroup))
	if res.NoCert {
		em.Tally("no-linearisation-found")
	}
	if res.Stuck {
		em.Tally("stuck")
	}
	em.Tally(fmt.Sprintf("ops-%02d", (len(res.Hist)+4)/5*5))
	em.Case(lib.Case{
		ID:         id,
		Coq:        coq,
		Key:        fmt.Sprintf("%d|%s|%v", in.Wallets, keyb.String(), concurrent),
		Nontrivial: nRef >= 1 && nF >= 1 && nAcc >= 2 && (concurrent || in.Wallets >= 2),
		Sig:        map[string]interface{}{"stuck": res.Stuck, "concurrent": concurrent},
		In:         in,
		Out:        res,
	})
}

func main() {
	o := lib.ParseOpts()
	em := lib.NewEmitter()
	if o.Replay != "" {
		var in input
		if err := lib.LoadReplay(o.Replay, &in); err != nil {
			fmt.Fprintln(os.Stderr, err)
			os.Exit(2)
		}
		run(in, em, "replay")
		em.Close("replay", nil)
		return
	}
	rng := lib.NewRng(o.Seed)
	D := func(w int) stepIn { return stepIn{Kind: "disp", W: w} }
	F := func(w int) stepIn { return stepIn{Kind: "fin", W: w} }
	B := func(ws ...int) stepIn { return stepIn{Kind: "burst", Ws: ws} }
	R := func(w int, ws ...int) stepIn { return stepIn{Kind: "race", W: w, Ws: ws} }

	// --- corpus
	run(input{1, []stepIn{D(1), D(1), F(1), D(1), D(1)}}, em, "corpus-busy-refused-then-free")
	run(input{2, []stepIn{D(1), D(2), D(1), D(2), F(1), D(1), D(2), F(2), F(1), D(2)}}, em, "corpus-two-wallets-independent")
	run(input{1, []stepIn{B(1, 1, 1, 1, 1), F(1), B(1, 1, 1)}}, em, "corpus-burst-one-winner")
	run(input{2, []stepIn{D(1), R(1, 1, 1, 2, 2), F(1), F(2), B(1, 2, 1, 2)}}, em, "corpus-finish-races-dispatches")
	run(input{3, []stepIn{B(1, 2, 3), B(1, 2, 3, 1, 2), F(2), R(1, 2, 2, 1), {Kind: "disp", W: 3, Fail: true}, F(3), D(3)}}, em, "corpus-three-wallets")

	// --- exhaustive small scope: every lockstep script over {D1, D2, F1, F2} up to length L
	alpha := []stepIn{D(1), D(2), F(1), F(2)}
	L := 4
	if o.Tier != "quick" {
		L = 6
	}
	cnt := 0
	var enum func(prefix []stepIn, depth int)
	enum = func(prefix []stepIn, depth int) {
		if len(prefix) == depth {
			cnt++
			run(input{2, append([]stepIn{}, prefix...)}, em, fmt.Sprintf("enum-%d-%d", depth, cnt))
			return
		}
		for _, a := range alpha {
			enum(append(prefix, a), depth)
		}
	}
	for d := 2; d <= L; d++ {
		enum(nil, d)
	}

	// --- random scripts with concurrent groups
	n := o.Count(300, 3000)
	for i := 0; i < n && !aborted; i++ {
		r := rng.Fork(fmt.Sprintf("rand%d", i))
		wallets := r.Range(1, 4)
		steps := make([]stepIn, r.Range(6, 22))
		pick := func() int {
			if r.Chance(2, 3) {
				return 1 + r.Intn((wallets+1)/2) // hot wallets
			}
			return 1 + r.Intn(wallets)
		}
		for j := range steps {
			switch x := r.Intn(100); {
			case x < 25:
				steps[j] = stepIn{Kind: "disp", W: pick(), Fail: r.Chance(1, 5)}
			case x < 50:
				steps[j] = F(pick())
			case x < 75:
				ws := make([]int, r.Range(2, 6))
				hot := pick()
				for k := range ws {
					if r.Chance(2, 3) {
						ws[k] = hot
					} else {
						ws[k] = pick()
					}
				}
				steps[j] = stepIn{Kind: "burst", Ws: ws, Fail: r.Chance(1, 5)}
			default:
				w := pick()
				ws := make([]int, r.Range(1, 5))
				for k := range ws {
					if r.Chance(3, 4) {
						ws[k] = w
					} else {
						ws[k] = pick()
					}
				}
				steps[j] = stepIn{Kind: "race", W: w, Ws: ws}
			}
		}
		run(input{wallets, steps}, em, fmt.Sprintf("rand-%d", i))
	}
	em.Close("a case is one script run against a fresh real walletDispatcher; distinct by (wallets, sequence of "+
		"operations with results in linearisation order, whether a concurrent group occurred); non-trivial when "+
		"it has a refused dispatch, a finish, >= 2 accepted dispatches and (a concurrent group or >= 2 wallets)",
		map[string]interface{}{"aborted_after_confirmed_stall": aborted})
}
