// Driver for C39: drives the real generator.ParameterPool through histories of generation,
// retrieval, storage faults, scheduler stop/resume, crashes and restarts, and prints the
// observations for the Coq model (Model/C39.v).
//
// Collaborators injected into the real pool (all in this directory):
//   - a deterministic generator: every call of generateFn announces itself and then waits for
//     the driver to hand it the next outcome (a value, or nil), or for its context;
//   - a fault-injecting Persistence whose Save / Delete stop at gates, so that the driver
//     decides their outcome (success, error, error-after-effect, crash = never returns) and
//     can interleave several GetNow callers deterministically;
//   - a storage that survives "restarts" (a restart = a new pool + scheduler over it) and
//     has one FAULT WINDOW per entry point (Save / Delete / ReadAll): FaultSave / FaultDel /
//     FaultRead make the next n calls (n = 1..5, or forever) answer a given fault whatever the
//     operation planned; every call uses one call of its window, also a call the driver did not
//     plan (an implementation that retries): such calls are answered by the window, or succeed;
//   - at every hand-out the fake records whether the value's storage entry still existed at
//     the moment GetNow returned (o_kept).
//
// Histories continue after a failed Delete with a restart over the same storage, a refill and
// the consumption of everything (GetNow until ErrEmptyPool), so that a parameter that was
// handed out while still stored is seen a second time.
// The driver never sleeps and never concludes anything from a timeout: it waits on explicit
// conditions (gate reached, call returned, worker goroutine gone / parked in the pool's select);
// a condition that is not met within the deadline makes the history Inconclusive (counted,
// not emitted).
package main

import (
	"context"
	"errors"
	"fmt"
	"os"
	"runtime"
	"strings"
	"sync"
	"time"

	logging "github.com/ipfs/go-log/v2"
	"github.com/keep-network/keep-core/pkg/generator"

	"verifharness/lib"
)

type param struct{ V uint64 }

// ---------------------------------------------------------------- ops (mirror Model/C39.v)

type op struct {
	K       string `json:"k"`           // Gen GenNil GenCrash GetBegin GetEnd GetCrash Stop Resume Restart FaultSave FaultDel FaultRead
	V       uint64 `json:"v,omitempty"` // Gen, GenCrash
	T       uint64 `json:"t,omitempty"` // GetBegin, GetEnd, GetCrash
	F       string `json:"f,omitempty"` // SaveOk SaveErr SaveErrStored | DelOk DelErr DelErrDeleted | ReadOk ReadErr
	Stored  bool   `json:"stored,omitempty"`
	N       int    `json:"n,omitempty"`       // Fault*: the number of calls the fault lasts
	Forever bool   `json:"forever,omitempty"` // Fault*: it lasts for ever
}

func (o op) dur() string {
	if o.Forever {
		return "Forever"
	}
	return fmt.Sprintf("(Calls %s)", lib.N(uint64(o.N)))
}

func (o op) coq() string {
	switch o.K {
	case "Gen":
		return fmt.Sprintf("(Gen %s %s)", lib.N(o.V), o.F)
	case "GenCrash":
		return fmt.Sprintf("(GenCrash %s %s)", lib.N(o.V), lib.Bool(o.Stored))
	case "GetBegin":
		return fmt.Sprintf("(GetBegin %s)", lib.N(o.T))
	case "GetEnd":
		return fmt.Sprintf("(GetEnd %s %s)", lib.N(o.T), o.F)
	case "GetCrash":
		return fmt.Sprintf("(GetCrash %s)", lib.N(o.T))
	case "Restart":
		return fmt.Sprintf("(Restart %s)", o.F)
	case "FaultSave", "FaultDel", "FaultRead":
		return fmt.Sprintf("(%s %s %s)", o.K, o.F, o.dur())
	}
	return o.K // GenNil Stop Resume
}

type obs struct {
	Res   string   `json:"res"` // RNone REmpty RInDel RVal RErr RNil RPanic
	X     uint64   `json:"x,omitempty"`
	Count int      `json:"count"`
	Store []uint64 `json:"store"`
	Kept  bool     `json:"kept,omitempty"` // a value was returned whose storage entry still existed
	Note  string   `json:"note,omitempty"`
}

func (b obs) coq() string {
	r := b.Res
	if r == "RInDel" || r == "RVal" {
		r = fmt.Sprintf("(%s %s)", r, lib.N(b.X))
	}
	return fmt.Sprintf("{| o_res := %s; o_count := %s; o_store := %s; o_kept := %s |}", r, lib.N(uint64(b.Count)),
		lib.ListN(b.Store), lib.Bool(b.Kept))
}

type input struct {
	K      int      `json:"k"`
	Store0 []uint64 `json:"store0"`
	Boot   string   `json:"boot"`
	Ops    []op     `json:"ops"`
}

// ---------------------------------------------------------------- fakes

type nopLogger struct{}

func (nopLogger) Debug(...interface{})          {}
func (nopLogger) Debugf(string, ...interface{}) {}
func (nopLogger) Error(...interface{})          {}
func (nopLogger) Errorf(string, ...interface{}) {}
func (nopLogger) Fatal(...interface{})          {}
func (nopLogger) Fatalf(string, ...interface{}) {}
func (nopLogger) Info(...interface{})           {}
func (nopLogger) Infof(string, ...interface{})  {}
func (nopLogger) Panic(...interface{})          {}
func (nopLogger) Panicf(string, ...interface{}) {}
func (nopLogger) Warn(...interface{})           {}
func (nopLogger) Warnf(string, ...interface{})  {}

// window: the next n calls (or all calls) of one entry point of the storage answer f
type window struct {
	f       string
	n       int
	forever bool
}

// storage outlives the processes
type storage struct {
	mu                 sync.Mutex
	items              []uint64 // oldest first
	wSave, wDel, wRead window
}

// answer gives the outcome of ONE call that the caller of the fake planned to be `want`: the
// window's fault while the window is open (using it up by one call), `want` otherwise.
func (s *storage) answer(w *window, want string) string {
	s.mu.Lock()
	defer s.mu.Unlock()
	if w.forever {
		return w.f
	}
	if w.n > 0 {
		w.n--
		return w.f
	}
	return want
}
func (s *storage) setWindow(w *window, o op) {
	s.mu.Lock()
	*w = window{f: o.F, n: o.N, forever: o.Forever}
	s.mu.Unlock()
}
func (s *storage) open(w *window) bool {
	s.mu.Lock()
	defer s.mu.Unlock()
	return w.forever || w.n > 0
}
func (s *storage) has(v uint64) bool {
	s.mu.Lock()
	defer s.mu.Unlock()
	for _, x := range s.items {
		if x == v {
			return true
		}
	}
	return false
}

func (s *storage) add(v uint64) {
	s.mu.Lock()
	s.items = append(s.items, v)
	s.mu.Unlock()
}
func (s *storage) del(v uint64) {
	s.mu.Lock()
	for i, x := range s.items {
		if x == v {
			s.items = append(append([]uint64{}, s.items[:i]...), s.items[i+1:]...)
			break
		}
	}
	s.mu.Unlock()
}
func (s *storage) snapshot() []uint64 {
	s.mu.Lock()
	defer s.mu.Unlock()
	return append([]uint64{}, s.items...)
}

var errInjected = errors.New("injected storage fault")
var errDead = errors.New("process is gone")

type genOutcome struct {
	isNil bool
	v     uint64
}
type saveCmd struct {
	f      string // SaveOk SaveErr SaveErrStored Hang
	stored bool   // Hang only
}

// proc is one "process": a scheduler, a pool and the gates of its collaborators.
type proc struct {
	st        *storage
	readFault bool
	readCalls int
	sched     *generator.Scheduler
	latch     *generator.ProtocolLatch
	pool      *generator.ParameterPool[param]

	ready    chan struct{}   // a worker entered generateFn
	gen      chan genOutcome // what generateFn returns
	saveCmds chan saveCmd
	saveDone chan struct{}
	saveSeen chan struct{} // Save was called although the driver planned no call (a retry)
	dead     chan struct{} // closed when the process is gone: releases every hung call without effect

	mu       sync.Mutex
	delGates map[uint64]chan string
	delSeen  chan uint64 // Delete was called with this value
	delHung  chan struct{}
}

func idOf(v uint64) string { return fmt.Sprintf("pp_%d", v) }

func (p *proc) generate(ctx context.Context) *param {
	select {
	case p.ready <- struct{}{}:
	case <-ctx.Done():
		return nil
	}
	select {
	case g := <-p.gen:
		if g.isNil {
			return nil
		}
		return &param{V: g.v}
	case <-ctx.Done():
		return nil
	}
}

func (p *proc) Save(x *param) (*generator.Persisted[param], error) {
	var c saveCmd
	select {
	case c = <-p.saveCmds: // the outcome the driver planned for this operation's call
	default:
		// a call the driver did not plan: announce it and wait for its outcome
		select {
		case p.saveSeen <- struct{}{}:
		case <-p.dead:
			return nil, errDead
		}
		select {
		case c = <-p.saveCmds:
		case <-p.dead:
			return nil, errDead
		}
	}
	f := c.f
	if f != "Hang" {
		f = p.st.answer(&p.st.wSave, f)
	}
	switch f {
	case "SaveOk":
		p.st.add(x.V)
		p.saveDone <- struct{}{}
		return &generator.Persisted[param]{Data: *x, ID: idOf(x.V)}, nil
	case "SaveErrStored":
		p.st.add(x.V)
		p.saveDone <- struct{}{}
		return nil, errInjected
	case "Hang":
		if c.stored {
			p.st.add(x.V)
		}
		p.saveDone <- struct{}{}
		<-p.dead
		return nil, errDead
	}
	p.saveDone <- struct{}{}
	return nil, errInjected
}

func (p *proc) Delete(x *generator.Persisted[param]) error {
	_ = x.ID // a nil entry panics here, like a real storage reading the id
	v := x.Data.V
	gate := make(chan string, 1)
	p.mu.Lock()
	p.delGates[v] = gate
	p.mu.Unlock()
	select {
	case p.delSeen <- v:
	case <-p.dead:
		return errDead
	}
	select {
	case c := <-gate:
		if c != "Hang" {
			c = p.st.answer(&p.st.wDel, c)
		}
		switch c {
		case "DelOk":
			p.st.del(v)
			return nil
		case "DelErrDeleted":
			p.st.del(v)
			return errInjected
		case "Hang":
			p.st.del(v)
			p.delHung <- struct{}{}
			<-p.dead
			return errDead
		}
		return errInjected
	case <-p.dead:
		return errDead
	}
}

func (p *proc) ReadAll() ([]*generator.Persisted[param], error) {
	// the first ReadAll of a process is the one the operation planned; any further one succeeds
	// unless the window says otherwise
	want := "ReadOk"
	if p.readFault && p.readCalls == 0 {
		want = "ReadErr"
	}
	p.readCalls++
	if p.st.answer(&p.st.wRead, want) != "ReadOk" {
		return nil, errInjected
	}
	var all []*generator.Persisted[param]
	for _, v := range p.st.snapshot() {
		all = append(all, &generator.Persisted[param]{Data: param{V: v}, ID: idOf(v)})
	}
	return all, nil
}

// ---------------------------------------------------------------- goroutine conditions

// workerGoroutines counts the scheduler's worker-loop goroutines; parked counts those of
// them that are blocked in the pool's own select (channel send | ctx.Done).
var stackBuf = make([]byte, 1<<18)

func workerGoroutines() (total int, parked int) {
	n := runtime.Stack(stackBuf, true)
	for n == len(stackBuf) {
		stackBuf = make([]byte, 2*len(stackBuf))
		n = runtime.Stack(stackBuf, true)
	}
	for _, g := range strings.Split(string(stackBuf[:n]), "\n\n") {
		if !strings.Contains(g, "(*Scheduler).startWorker.func1") {
			continue
		}
		total++
		lines := strings.Split(g, "\n")
		if len(lines) >= 1 && strings.Contains(lines[0], "[select") &&
			strings.Contains(g, "generator.NewParameterPool") && !strings.Contains(g, "main.(*proc)") {
			parked++
		}
	}
	return
}

var deadline = 10 * time.Second

type inconclusive struct{ what string }

// histories abandoned because a condition was not reached within the deadline
var nInconclusive, nCases int
var aborted bool

func waitCond(what string, cond func() bool) {
	t0 := time.Now()
	for i := 0; !cond(); i++ {
		if time.Since(t0) > deadline {
			panic(inconclusive{what})
		}
		if i < 3 {
			runtime.Gosched()
		} else {
			time.Sleep(20 * time.Microsecond) // polling back-off, not a condition
		}
	}
}

func sendOrInconclusive[T any](what string, ch chan<- T, v T) {
	select {
	case ch <- v:
		return
	default:
	}
	t := time.NewTimer(deadline)
	defer t.Stop()
	select {
	case ch <- v:
	case <-t.C:
		panic(inconclusive{what})
	}
}

func recvOrInconclusive[T any](what string, ch <-chan T) T {
	select {
	case v := <-ch:
		return v
	default:
	}
	t := time.NewTimer(deadline)
	defer t.Stop()
	select {
	case v := <-ch:
		return v
	case <-t.C:
		panic(inconclusive{what})
	}
}

// ---------------------------------------------------------------- executor

type getResult struct {
	res  string
	x    uint64
	why  string
	kept bool // the returned value's storage entry existed when GetNow returned
}

type exec struct {
	k       int
	st      *storage
	p       *proc
	running bool
	hung    bool // the process is dead (crash inside Save / Delete): only Restart makes sense
	pending bool // the worker is blocked sending to a full pool
	results map[uint64]chan getResult
	inDel   map[uint64]uint64 // caller -> value it is deleting
	last    obs               // the observation of the last operation performed
}

func (e *exec) start(readFault bool) {
	p := &proc{st: e.st, readFault: readFault,
		ready: make(chan struct{}), gen: make(chan genOutcome), saveCmds: make(chan saveCmd, 1),
		saveDone: make(chan struct{}, 1), saveSeen: make(chan struct{}), dead: make(chan struct{}),
		delGates: map[uint64]chan string{}, delSeen: make(chan uint64), delHung: make(chan struct{}, 1)}
	p.sched = &generator.Scheduler{}
	p.latch = generator.NewProtocolLatch()
	p.sched.RegisterProtocol(p.latch)
	// the constructor loads the stored entries into the channel: run it aside so that a
	// constructor that blocks makes the history Inconclusive instead of hanging the driver
	built := make(chan *generator.ParameterPool[param], 1)
	go func() { built <- generator.NewParameterPool[param](nopLogger{}, p.sched, p, e.k, p.generate, 0) }()
	p.pool = recvOrInconclusive("NewParameterPool returned", built)
	e.p = p
	e.running, e.hung, e.pending = true, false, false
	e.results = map[uint64]chan getResult{}
	e.inDel = map[uint64]uint64{}
	recvOrInconclusive("worker ready after start", p.ready)
}

// teardown: the process dies. Its contexts are cancelled, every hung call is released
// without any further effect on the storage, and its worker goroutine is awaited.
func (e *exec) teardown() {
	p := e.p
	if p == nil {
		return
	}
	if e.running {
		p.latch.Lock()
		p.sched.VerifCheckProtocols()
	}
	close(p.dead)
	waitCond("old worker goroutines gone", func() bool { n, _ := workerGoroutines(); return n == 0 })
	e.p = nil
}

func (e *exec) observe(res string, x uint64, note string) obs {
	return obs{Res: res, X: x, Count: e.p.pool.ParametersCount(), Store: e.st.snapshot(), Note: note}
}

// maxExtraCalls bounds the persistence calls of one operation that the driver did not plan
// (retries of the implementation); beyond it the history is Inconclusive.
const maxExtraCalls = 40

// awaitWorker waits until the worker iteration that has just called Save is over: either the
// worker is back in generateFn (ready), or it is parked in the pool's select because the pool
// is full (pending).  Save calls the driver did not plan (an implementation that retries) are
// answered by the fault window, or succeed.
func (e *exec) awaitWorker() (extra int) {
	p := e.p
	t0 := time.Now()
	for i := 0; ; i++ {
		select {
		case <-p.ready:
			e.pending = false
			return
		case <-p.saveSeen:
			extra++
			if extra > maxExtraCalls {
				panic(inconclusive{"Save is retried without end"})
			}
			p.saveCmds <- saveCmd{f: "SaveOk"}
			recvOrInconclusive("Save reached (retry)", p.saveDone)
			continue
		default:
		}
		if p.pool.ParametersCount() >= e.k {
			// nobody consumes: a successful Save is followed by a send that blocks
			if _, parked := workerGoroutines(); parked == 1 {
				e.pending = true
				return
			}
		}
		if time.Since(t0) > deadline {
			panic(inconclusive{"worker neither ready nor parked after Save"})
		}
		if i < 3 {
			runtime.Gosched()
		} else {
			time.Sleep(20 * time.Microsecond) // polling back-off, not a condition
		}
	}
}

func (e *exec) do(o op) (b obs) {
	p := e.p
	switch o.K {
	case "FaultSave":
		e.st.setWindow(&e.st.wSave, o)
		return e.observe("RNone", 0, "")
	case "FaultDel":
		e.st.setWindow(&e.st.wDel, o)
		return e.observe("RNone", 0, "")
	case "FaultRead":
		e.st.setWindow(&e.st.wRead, o)
		return e.observe("RNone", 0, "")
	case "Gen":
		p.saveCmds <- saveCmd{f: o.F}
		sendOrInconclusive("worker takes outcome", p.gen, genOutcome{v: o.V})
		recvOrInconclusive("Save reached", p.saveDone)
		note := ""
		if extra := e.awaitWorker(); extra > 0 {
			note = fmt.Sprintf("Save called %d times", 1+extra)
		}
		return e.observe("RNone", 0, note)
	case "GenNil":
		sendOrInconclusive("worker takes outcome", p.gen, genOutcome{isNil: true})
		recvOrInconclusive("worker ready after GenNil", p.ready)
		return e.observe("RNone", 0, "")
	case "GenCrash":
		p.saveCmds <- saveCmd{f: "Hang", stored: o.Stored}
		sendOrInconclusive("worker takes outcome", p.gen, genOutcome{v: o.V})
		recvOrInconclusive("Save reached", p.saveDone)
		e.hung = true
		return e.observe("RNone", 0, "")
	case "GetBegin":
		ch := make(chan getResult, 1)
		e.results[o.T] = ch
		go func() {
			defer func() {
				if r := recover(); r != nil {
					ch <- getResult{res: "RPanic", why: fmt.Sprint(r)}
				}
			}()
			v, err := p.pool.GetNow()
			switch {
			case err == generator.ErrEmptyPool:
				ch <- getResult{res: "REmpty"}
			case err != nil:
				ch <- getResult{res: "RErr", why: err.Error()}
			case v == nil:
				ch <- getResult{res: "RNil"}
			case v.V == 0:
				ch <- getResult{res: "RNil", why: "zero value"}
			default:
				ch <- getResult{res: "RVal", x: v.V, kept: p.st.has(v.V)}
			}
		}()
		t := time.NewTimer(deadline)
		defer t.Stop()
		select {
		case x := <-p.delSeen:
			e.inDel[o.T] = x
			if e.pending {
				// the receive made room: the blocked worker sends and comes back
				recvOrInconclusive("worker ready after unblocking", p.ready)
				e.pending = false
			}
			return e.observe("RInDel", x, "")
		case r := <-ch:
			delete(e.results, o.T)
			b = e.observe(r.res, r.x, r.why)
			b.Kept = r.kept
			return b
		case <-t.C:
			panic(inconclusive{"GetNow neither returned nor reached Delete"})
		}
	case "GetEnd", "GetCrash":
		x := e.inDel[o.T]
		p.mu.Lock()
		gate := p.delGates[x]
		p.mu.Unlock()
		delete(e.inDel, o.T)
		if o.K == "GetCrash" {
			gate <- "Hang"
			recvOrInconclusive("Delete hung", p.delHung)
			e.hung = true
			return e.observe("RNone", 0, "")
		}
		gate <- o.F
		// GetNow returns; Delete calls the driver did not plan (an implementation that retries)
		// are answered by the fault window, or succeed.  Every other caller in flight is parked
		// at its own gate, so a Delete seen now belongs to this call.
		t := time.NewTimer(deadline)
		defer t.Stop()
		for calls := 1; ; {
			select {
			case r := <-e.results[o.T]:
				delete(e.results, o.T)
				if calls > 1 {
					r.why = strings.TrimSpace(fmt.Sprintf("%s (Delete called %d times)", r.why, calls))
				}
				b = e.observe(r.res, r.x, r.why)
				b.Kept = r.kept
				return b
			case y := <-p.delSeen:
				calls++
				if calls > maxExtraCalls {
					panic(inconclusive{"Delete is retried without end"})
				}
				p.mu.Lock()
				g := p.delGates[y]
				p.mu.Unlock()
				g <- "DelOk"
			case <-t.C:
				panic(inconclusive{"GetNow did not return"})
			}
		}
	case "Stop":
		p.latch.Lock()
		p.sched.VerifCheckProtocols()
		waitCond("worker goroutine gone after stop", func() bool { n, _ := workerGoroutines(); return n == 0 })
		e.running, e.pending = false, false
		return e.observe("RNone", 0, "")
	case "Resume":
		p.latch.Unlock()
		p.sched.VerifCheckProtocols()
		recvOrInconclusive("worker ready after resume", p.ready)
		e.running = true
		return e.observe("RNone", 0, "")
	case "Restart":
		e.teardown()
		e.start(o.F == "ReadErr")
		return e.observe("RNone", 0, "")
	}
	panic("unknown op " + o.K)
}

// feasible tells whether a real execution can perform the operation at this point: a dead
// process only restarts, a stopped or blocked worker does not generate, only a caller that is
// inside Delete can leave it.  Infeasible operations of a list are skipped (and not recorded).
func (e *exec) feasible(o op) bool {
	if strings.HasPrefix(o.K, "Fault") {
		return true // the storage is outside the process
	}
	if e.hung {
		return o.K == "Restart"
	}
	if (o.K == "Gen" || o.K == "GenCrash") && o.V == 0 {
		return false // 0 is the zero parameter: never generated
	}
	switch o.K {
	case "Gen", "GenNil", "GenCrash":
		return e.running && !e.pending
	case "GetEnd", "GetCrash":
		_, in := e.inDel[o.T]
		return in
	case "Stop":
		return e.running
	case "Resume":
		return !e.running
	}
	return true
}

// ---------------------------------------------------------------- one history

// policy returns the next operation given the executor state (nil = stop); replays feed the
// stored list.
type policy func(e *exec, step int) *op

func runCase(id string, k int, store0 []uint64, boot string, next policy, em *lib.Emitter) {
	nCases++
	if aborted {
		return
	}
	if nInconclusive >= 3 && nInconclusive*20 > nCases {
		// the implementation cannot be driven: not a verdict on the property, but the
		// correspondence cannot be checked either.  Stop generating and hand check.py a case
		// the model rejects as BadCase (a generator that repeats a value), so that the run is
		// not reported as passing; the cases produced so far are still judged.
		fmt.Fprintf(os.Stderr, "c39: %d of %d histories inconclusive, giving up\n", nInconclusive, nCases)
		aborted = true
		em.Case(lib.Case{ID: "too-many-inconclusive-histories",
			Coq: "{| c_k := 1%N; c_store0 := [1%N; 1%N]; c_boot := ReadOk; c_obs0 := {| o_res := RNone; o_count := 0%N; o_store := []; o_kept := false |}; c_steps := [] |}",
			Key: "inconclusive", In: input{}, Out: "the driver could not drive the implementation"})
		return
	}
	e := &exec{k: k, st: &storage{items: append([]uint64{}, store0...)}}
	in := input{K: k, Store0: append([]uint64{}, store0...), Boot: boot}
	var steps []string
	var outs []obs
	feat := map[string]bool{}
	handed := 0
	ok := func() (ok bool) {
		defer func() {
			if r := recover(); r != nil {
				if inc, is := r.(inconclusive); is {
					nInconclusive++
					em.Tally("inconclusive:" + inc.what)
					fmt.Fprintf(os.Stderr, "c39: case %s inconclusive: %s\n", id, inc.what)
					ok = false
					return
				}
				panic(r)
			}
		}()
		e.start(boot == "ReadErr")
		outs = append(outs, e.observe("RNone", 0, ""))
		skipped := 0
		for i := 0; ; i++ {
			o := next(e, i)
			if o == nil {
				break
			}
			if !e.feasible(*o) {
				if skipped++; skipped > 1000 {
					break // a policy that proposes nothing feasible any more
				}
				continue
			}
			skipped = 0
			b := e.do(*o)
			e.last = b
			in.Ops = append(in.Ops, *o)
			outs = append(outs, b)
			steps = append(steps, "("+o.coq()+", "+b.coq()+")")
			em.Tally("op-" + o.K)
			if o.F != "" && o.F != "SaveOk" && o.F != "DelOk" && o.F != "ReadOk" {
				feat["fault"] = true
				em.Tally("fault-" + o.F)
			}
			if o.K == "Restart" || o.K == "GenCrash" || o.K == "GetCrash" {
				feat["restart"] = true
			}
			if strings.HasPrefix(o.K, "Fault") && (o.Forever || o.N > 0) {
				feat["fault"], feat["persist"] = true, true
				if o.Forever {
					em.Tally("persist-" + o.K + "-" + o.F + "-forever")
				} else {
					em.Tally(fmt.Sprintf("persist-%s-%s-%d", o.K, o.F, o.N))
				}
			}
			if b.Res == "RErr" {
				feat["delfail"] = true
			} else if feat["delfail"] && o.K == "Restart" {
				feat["delfail-restart"] = true
			} else if feat["delfail-restart"] && b.Res == "REmpty" {
				feat["delfail-restart-drained"] = true
			}
			if o.K == "Stop" {
				feat["stop"] = true
			}
			em.Tally("res-" + b.Res)
			if b.Res == "RVal" {
				handed++
			}
		}
		return true
	}()
	// release everything this history left behind
	func() {
		defer func() { recover() }()
		e.teardown()
	}()
	if !ok {
		return
	}
	if boot == "ReadErr" {
		feat["fault"] = true
	}
	coq := fmt.Sprintf("{| c_k := %s; c_store0 := %s; c_boot := %s; c_obs0 := %s; c_steps := %s |}",
		lib.N(uint64(k)), lib.ListN(store0), boot, outs[0].coq(), lib.List(steps))
	em.Tally(fmt.Sprintf("k-%d", k))
	if feat["delfail-restart-drained"] {
		em.Tally("failed-delete-then-restart-then-drained")
	}
	em.Tally(fmt.Sprintf("len-%02d", len(in.Ops)/5*5))
	key := fmt.Sprintf("%d|%v|%s|", k, store0, boot)
	for _, o := range in.Ops {
		key += o.coq()
	}
	em.Case(lib.Case{
		ID:         id,
		Coq:        coq,
		Key:        key,
		Nontrivial: (feat["fault"] || feat["restart"] || feat["stop"]) && handed >= 1,
		Sig: map[string]interface{}{"k": k, "fault": feat["fault"], "restart": feat["restart"],
			"stop": feat["stop"], "persist": feat["persist"]},
		In:  in,
		Out: outs,
	})
}

func fixed(ops []op) policy {
	return func(e *exec, i int) *op {
		if i >= len(ops) {
			return nil
		}
		return &ops[i]
	}
}

// A history in stages: every stage proposes operations until it returns nil.
type stage func(e *exec) *op

func stages(ss ...stage) policy {
	idx := 0
	return func(e *exec, _ int) *op {
		for idx < len(ss) {
			if o := ss[idx](e); o != nil {
				return o
			}
			idx++
		}
		return nil
	}
}
func fixedStage(ops ...op) stage {
	i := 0
	return func(*exec) *op {
		if i >= len(ops) {
			return nil
		}
		i++
		return &ops[i-1]
	}
}

// counters of a history: the next value of the generator, the next caller
type ids struct{ v, t uint64 }

// clearStage closes every fault window that is open.
func clearStage() stage {
	return func(e *exec) *op {
		switch {
		case e.st.open(&e.st.wSave):
			return &op{K: "FaultSave", F: "SaveOk"}
		case e.st.open(&e.st.wDel):
			return &op{K: "FaultDel", F: "DelOk"}
		case e.st.open(&e.st.wRead):
			return &op{K: "FaultRead", F: "ReadOk"}
		}
		return nil
	}
}

// refillStage lets the worker generate until the pool is full (at most n values).
func refillStage(c *ids, n int) stage {
	return func(e *exec) *op {
		if n <= 0 || e.hung || !e.running || e.pending || e.p.pool.ParametersCount() >= e.k {
			return nil
		}
		n--
		c.v++
		return &op{K: "Gen", V: c.v, F: "SaveOk"}
	}
}

// drainStage consumes everything: GetNow (with the Delete outcome f) until ErrEmptyPool, at
// most n calls.
func drainStage(c *ids, n int, f string) stage {
	st, cur := 0, uint64(0)
	return func(e *exec) *op {
		if e.hung {
			return nil
		}
		if st == 1 {
			st = 0
			if _, in := e.inDel[cur]; in {
				return &op{K: "GetEnd", T: cur, F: f}
			}
			if e.last.Res == "REmpty" {
				return nil
			}
		}
		if n <= 0 {
			return nil
		}
		n--
		c.t++
		cur, st = c.t, 1
		return &op{K: "GetBegin", T: cur}
	}
}

// tail: what every history about failed deletes continues with — the storage works again, the
// process restarts over the same storage, refills, hands out everything, restarts once more and
// hands out whatever is (wrongly) still there.
func tail(c *ids, k int) []stage {
	return []stage{clearStage(), fixedStage(op{K: "Restart", F: "ReadOk"}), refillStage(c, k+1),
		drainStage(c, 2*k+6, "DelOk"), fixedStage(op{K: "Restart", F: "ReadOk"}), drainStage(c, 2*k+6, "DelOk")}
}

// ---------------------------------------------------------------- generators

type genState struct {
	r       *lib.Rng
	c       *ids
	i       int
	n       int
	pWin    int // chance in 100 that an operation sets a fault window
	pSave   int // chance in 100 of a Save fault
	pDel    int
	pCrash  int
	pRead   int
	inOrder []uint64 // callers in flight
}

func (g *genState) saveFault() string {
	if g.r.Intn(100) < g.pSave {
		if g.r.Bool() {
			return "SaveErr"
		}
		return "SaveErrStored"
	}
	return "SaveOk"
}
func (g *genState) delFault() string {
	if g.r.Intn(100) < g.pDel {
		if g.r.Bool() {
			return "DelErr"
		}
		return "DelErrDeleted"
	}
	return "DelOk"
}
func (g *genState) readFault() string {
	if g.r.Intn(100) < g.pRead {
		return "ReadErr"
	}
	return "ReadOk"
}

// a persistent fault: one of the three entry points, for 1..5 calls or for ever
func (g *genState) window(e *exec) *op {
	var o op
	switch g.r.Intn(5) {
	case 0:
		o = op{K: "FaultSave", F: []string{"SaveErr", "SaveErrStored"}[g.r.Intn(2)]}
	case 1:
		o = op{K: "FaultRead", F: "ReadErr"}
	default:
		o = op{K: "FaultDel", F: []string{"DelErr", "DelErr", "DelErrDeleted"}[g.r.Intn(3)]}
	}
	if g.r.Chance(1, 6) {
		o.Forever = true
	} else {
		o.N = g.r.Range(1, 5)
	}
	return &o
}

func (g *genState) next(e *exec) *op {
	if g.i >= g.n {
		return nil
	}
	g.i++
	if g.r.Intn(100) < g.pWin {
		if open := e.st.open(&e.st.wSave) || e.st.open(&e.st.wDel) || e.st.open(&e.st.wRead); open && g.r.Chance(1, 3) {
			return clearStage()(e)
		}
		return g.window(e)
	}
	// callers still in flight according to the executor
	var fl []uint64
	for _, t := range g.inOrder {
		if _, ok := e.inDel[t]; ok {
			fl = append(fl, t)
		}
	}
	g.inOrder = fl
	if e.hung {
		g.inOrder = nil
		return &op{K: "Restart", F: g.readFault()}
	}
	for {
		switch c := g.r.Intn(100); {
		case c < 34: // generation
			if !e.running || e.pending {
				continue
			}
			if g.r.Intn(100) < g.pCrash {
				g.c.v++
				return &op{K: "GenCrash", V: g.c.v, Stored: g.r.Bool()}
			}
			if g.r.Chance(1, 10) {
				return &op{K: "GenNil"}
			}
			g.c.v++
			return &op{K: "Gen", V: g.c.v, F: g.saveFault()}
		case c < 58: // a caller enters GetNow
			if len(fl) >= 3 {
				continue
			}
			g.c.t++
			g.inOrder = append(g.inOrder, g.c.t)
			return &op{K: "GetBegin", T: g.c.t}
		case c < 86: // a caller's Delete answers
			if len(fl) == 0 {
				continue
			}
			t := fl[g.r.Intn(len(fl))]
			if g.r.Intn(100) < g.pCrash {
				return &op{K: "GetCrash", T: t}
			}
			return &op{K: "GetEnd", T: t, F: g.delFault()}
		case c < 92:
			if e.running {
				return &op{K: "Stop"}
			}
			return &op{K: "Resume"}
		default:
			if g.r.Chance(1, 2) {
				continue
			}
			g.inOrder = nil
			return &op{K: "Restart", F: g.readFault()}
		}
	}
}

func get(t uint64, f string) []op {
	return []op{{K: "GetBegin", T: t}, {K: "GetEnd", T: t, F: f}}
}
func cat(l ...[]op) []op {
	var r []op
	for _, x := range l {
		r = append(r, x...)
	}
	return r
}

func main() {
	logging.SetAllLoggers(logging.LevelFatal)
	o := lib.ParseOpts()
	em := lib.NewEmitter()
	if o.Replay != "" {
		var in input
		if err := lib.LoadReplay(o.Replay, &in); err != nil {
			fmt.Fprintln(os.Stderr, err)
			os.Exit(2)
		}
		runCase("replay", in.K, in.Store0, in.Boot, fixed(in.Ops), em)
		em.Close("replay", nil)
		return
	}
	rng := lib.NewRng(o.Seed)

	// --- corpus: minimised regression histories (run first)
	gen := func(v uint64, f string) []op { return []op{{K: "Gen", V: v, F: f}} }
	one := func(k string) []op { return []op{{K: k}} }
	// the witness of the repaired defect: both Saves fail; before the fix the pool counted two
	// nil entries and GetNow dereferenced nil
	runCase("corpus-save-fails-nil-enqueued", 2, nil, "ReadOk",
		fixed(cat(gen(1, "SaveErr"), gen(2, "SaveErr"), []op{{K: "GetBegin", T: 1}}, gen(3, "SaveOk"), get(2, "DelOk"))), em)
	runCase("corpus-save-fails-but-stored", 2, nil, "ReadOk",
		fixed(cat(gen(1, "SaveErrStored"), []op{{K: "GetBegin", T: 1}}, []op{{K: "Restart", F: "ReadOk"}}, get(2, "DelOk"), get(3, "DelOk"))), em)
	runCase("corpus-full-pool-blocks-then-unblocks", 1, nil, "ReadOk",
		fixed(cat(gen(1, "SaveOk"), gen(2, "SaveOk"), get(1, "DelOk"), get(2, "DelOk"), get(3, "DelOk"))), em)
	runCase("corpus-stop-drops-blocked-send", 1, nil, "ReadOk",
		fixed(cat(gen(1, "SaveOk"), gen(2, "SaveOk"), one("Stop"), get(1, "DelOk"), get(2, "DelOk"), one("Resume"),
			[]op{{K: "Restart", F: "ReadOk"}}, get(3, "DelOk"), get(4, "DelOk"))), em)
	runCase("corpus-delete-fails-then-restart-reissues", 2, nil, "ReadOk",
		fixed(cat(gen(1, "SaveOk"), get(1, "DelErr"), get(2, "DelOk"), []op{{K: "Restart", F: "ReadOk"}}, get(3, "DelOk"), get(4, "DelOk"))), em)
	runCase("corpus-crash-after-receive", 2, nil, "ReadOk",
		fixed(cat(gen(1, "SaveOk"), gen(2, "SaveOk"), []op{{K: "GetBegin", T: 1}, {K: "Restart", F: "ReadOk"}},
			get(2, "DelOk"), get(3, "DelOk"), get(4, "DelOk"))), em)
	runCase("corpus-crash-inside-delete", 2, nil, "ReadOk",
		fixed(cat(gen(1, "SaveOk"), gen(2, "SaveOk"), []op{{K: "GetBegin", T: 1}, {K: "GetCrash", T: 1}, {K: "Restart", F: "ReadOk"}},
			get(2, "DelOk"), get(3, "DelOk"))), em)
	runCase("corpus-crash-inside-save", 2, nil, "ReadOk",
		fixed(cat([]op{{K: "GenCrash", V: 1, Stored: true}, {K: "Restart", F: "ReadOk"}, {K: "GenCrash", V: 2, Stored: false},
			{K: "Restart", F: "ReadOk"}}, get(1, "DelOk"), get(2, "DelOk"))), em)
	runCase("corpus-more-stored-than-capacity", 2, []uint64{101, 102, 103, 104}, "ReadOk",
		fixed(cat(get(1, "DelOk"), get(2, "DelOk"), get(3, "DelOk"), []op{{K: "Restart", F: "ReadOk"}}, get(4, "DelOk"), get(5, "DelOk"), get(6, "DelOk"))), em)
	runCase("corpus-readall-fails", 2, []uint64{101, 102}, "ReadErr",
		fixed(cat(get(1, "DelOk"), gen(1, "SaveOk"), get(2, "DelOk"), []op{{K: "Restart", F: "ReadOk"}}, get(3, "DelOk"), get(4, "DelOk"), get(5, "DelOk"))), em)
	runCase("corpus-two-callers-interleaved", 2, []uint64{101, 102}, "ReadOk",
		fixed([]op{{K: "GetBegin", T: 1}, {K: "GetBegin", T: 2}, {K: "GetBegin", T: 3}, {K: "GetEnd", T: 2, F: "DelOk"},
			{K: "GetEnd", T: 1, F: "DelErr"}, {K: "Restart", F: "ReadOk"}, {K: "GetBegin", T: 4}, {K: "GetEnd", T: 4, F: "DelOk"}}), em)
	runCase("corpus-capacity-zero", 0, nil, "ReadOk",
		fixed(cat([]op{{K: "GetBegin", T: 1}}, gen(1, "SaveOk"), get(2, "DelOk"), get(3, "DelOk"), gen(2, "SaveOk"), one("Stop"), get(4, "DelOk"))), em)

	// a Delete that keeps failing: the parameter stays in the storage and must not be handed out,
	// however often the implementation tries; after the restart it is handed out once
	runCase("corpus-delete-fails-three-times-then-restart", 10, []uint64{100}, "ReadOk",
		stages(append([]stage{fixedStage(cat([]op{{K: "FaultDel", F: "DelErr", N: 3}}, get(1, "DelOk"))...)},
			tail(&ids{t: 1}, 10)...)...), em)
	runCase("corpus-delete-fails-forever-then-restart", 2, []uint64{101, 102}, "ReadOk",
		stages(append([]stage{fixedStage(cat([]op{{K: "FaultDel", F: "DelErr", Forever: true}}, get(1, "DelOk"), get(2, "DelOk"),
			get(3, "DelOk"))...)}, tail(&ids{t: 3}, 2)...)...), em)

	// --- persistent faults, systematically: every entry point x fault x duration (1..5 calls,
	// for ever) x capacity 1..3, under a fixed workload that calls the entry point at least six
	// times, restarts in between, and ends with the tail (storage repaired, restart, refill,
	// hand out everything, restart, hand out everything)
	type wf struct{ k, f string }
	for _, w := range []wf{{"FaultDel", "DelErr"}, {"FaultDel", "DelErrDeleted"}, {"FaultSave", "SaveErr"},
		{"FaultSave", "SaveErrStored"}, {"FaultRead", "ReadErr"}} {
		for d := 1; d <= 6; d++ {
			for k := 1; k <= 3; k++ {
				if o.Tier == "quick" && w.k != "FaultDel" && k != 1+(d+len(w.f))%3 {
					continue // quick: all capacities for Delete, one per duration for the others
				}
				c := &ids{}
				win := op{K: w.k, F: w.f, N: d}
				if d == 6 {
					win = op{K: w.k, F: w.f, Forever: true}
				}
				restart := fixedStage(op{K: "Restart", F: "ReadOk"})
				ss := []stage{refillStage(c, k), fixedStage(win),
					drainStage(c, 2, "DelOk"), refillStage(c, 2), restart,
					drainStage(c, 2, "DelOk"), refillStage(c, 2), restart,
					drainStage(c, 3, "DelOk"), refillStage(c, 2), restart}
				ss = append(ss, tail(c, k)...)
				var store0 []uint64
				if k > 1 {
					store0 = []uint64{101}
				}
				runCase(fmt.Sprintf("persist-%s-%s-%d-k%d", w.k, w.f, d, k), k, store0, "ReadOk", stages(ss...), em)
			}
		}
	}

	// --- exhaustive small scope: every history of length L over a 7-letter alphabet, k = 1, 2
	alphabet := func(v *uint64, t *uint64, c int) []op {
		switch c {
		case 0:
			*v++
			return gen(*v, "SaveOk")
		case 1:
			*v++
			return gen(*v, "SaveErr")
		case 2:
			*v++
			return gen(*v, "SaveErrStored")
		case 3:
			*t++
			return get(*t, "DelOk")
		case 4:
			*t++
			return get(*t, "DelErr")
		case 5:
			*t++
			return get(*t, "DelErrDeleted")
		}
		return []op{{K: "Restart", F: "ReadOk"}}
	}
	L := 4
	if o.Tier != "quick" {
		L = 5
	}
	total := 1
	for i := 0; i < L; i++ {
		total *= 7
	}
	nSmall := o.Count(200, 2*total)
	perm := rng.Fork("small").Perm(2 * total)
	for i := 0; i < nSmall && i < 2*total; i++ {
		code := perm[i]
		k := 1 + code%2
		code /= 2
		var v, t uint64
		var ops []op
		for j := 0; j < L; j++ {
			c := code % 7
			code /= 7
			ops = append(ops, alphabet(&v, &t, c)...)
		}
		runCase(fmt.Sprintf("small-%d", perm[i]), k, nil, "ReadOk", fixed(ops), em)
	}

	// --- structured random histories
	nRand := o.Count(260, 4000)
	for i := 0; i < nRand; i++ {
		r := rng.Fork(fmt.Sprintf("rand%d", i))
		k := r.Range(0, 4)
		if r.Chance(1, 10) {
			k = r.Range(5, 8)
		}
		var store0 []uint64
		if r.Chance(1, 2) {
			for j, n := 0, r.Range(1, k+2); j < n; j++ {
				store0 = append(store0, uint64(101+j))
			}
		}
		g := &genState{r: r, c: &ids{}, n: r.Range(6, 28), pSave: 25, pDel: 25, pCrash: 8, pRead: 15, pWin: 6}
		if r.Chance(1, 4) { // a mostly fault-free stream
			g.pSave, g.pDel, g.pCrash, g.pRead, g.pWin = 3, 3, 1, 2, 2
		}
		boot := "ReadOk"
		if len(store0) > 0 && r.Chance(1, 10) {
			boot = "ReadErr"
		}
		ss := []stage{g.next}
		if r.Chance(1, 2) {
			// go on after whatever failed: storage repaired, restart over the same storage,
			// refill, hand out everything, restart, hand out everything
			ss = append(ss, tail(g.c, k)...)
		}
		runCase(fmt.Sprintf("rand-%d", i), k, store0, boot, stages(ss...), em)
	}
	em.Close("a case is one history (capacity, initial storage, operations) run on a fresh pool; distinct by "+
		"(capacity, initial storage, operation list); non-trivial when the history contains a storage fault, "+
		"a crash/restart or a scheduler stop AND GetNow handed out at least one parameter", nil)
}
