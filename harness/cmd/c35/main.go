// Driver for C35: drives the real signingDoneCheck (pkg/tbtc/signing_done.go) through a
// scripted broadcast channel.  A case is a HISTORY of 1-4 signing attempts run on ONE
// signingDoneCheck (one MembershipValidator, one broadcast channel), the way the signing retry
// loop uses it: listen() per attempt, then waitUntilAllDone().  Every attempt has its own
// arguments (message, attempt number, timeout block, included members) and its own script of
// network messages in two phases: phase 1 is delivered and fully processed before
// waitUntilAllDone starts, phase 2 arrives while it is running.  Scripts contain valid
// confirmations, confirmations from excluded members, stale ones carrying an earlier attempt
// number, verbatim late arrivals of the previous attempt's messages, wrong message /
// signature / seat, duplicates.  Seats/operators/messages/signatures become small N
// identifiers.  Synchronisation is by explicit conditions only: every message is followed by
// a sentinel whose Payload() is called by the listener goroutine once everything before it
// has been processed; a TimedOut observation is only reported when the confirmations were
// incomplete (read under the mutex) after >= 3 check intervals with every message processed,
// otherwise the attempt is inconclusive: the history is retried once with 4x the wait and
// then cut before that attempt.  The next attempt starts only when the previous listener has
// provably nothing in flight (otherwise the history is cut after the attempt).
package main

import (
	"context"
	"fmt"
	"math/big"
	"os"
	"sort"
	"strings"
	"sync"
	"time"

	golog "github.com/ipfs/go-log/v2"

	"github.com/keep-network/keep-core/pkg/chain"
	"github.com/keep-network/keep-core/pkg/net"
	"github.com/keep-network/keep-core/pkg/operator"
	"github.com/keep-network/keep-core/pkg/protocol/group"
	"github.com/keep-network/keep-core/pkg/tbtc"
	"github.com/keep-network/keep-core/pkg/tecdsa"

	"verifharness/lib"
)

type msgIn struct {
	Done    bool   `json:"done"`    // payload is a signingDoneMessage (false: some other payload)
	Sender  uint8  `json:"sender"`  // senderID field
	Author  int    `json:"author"`  // operator whose key authenticated the network message (0: not in the group)
	Message int    `json:"message"` // message id
	Attempt uint64 `json:"attempt"`
	End     uint64 `json:"end"`
	Sig     int    `json:"sig"` // 0: nil signature
}

// one attempt: the arguments of listen() and the messages delivered during the attempt
type attemptIn struct {
	Message int     `json:"message"`
	Attempt uint64  `json:"attempt"`
	Timeout uint64  `json:"timeout"`
	Members []int   `json:"members"` // the attempt's included members (uint8 values)
	Phase1  []msgIn `json:"phase1"`
	Phase2  []msgIn `json:"phase2"`
}

type input struct {
	Operators []int       `json:"operators"` // operator of seat i+1 (ids >= 1)
	Attempts  []attemptIn `json:"attempts"`  // in order, on ONE signingDoneCheck
}

type observed struct {
	Outcome    string `json:"outcome"` // Done | ErrMismatch | TimedOut | Panic
	Sig        int    `json:"sig,omitempty"`
	End        uint64 `json:"end,omitempty"`
	Text       string `json:"text,omitempty"`
	Signers1   []int  `json:"doneSignersAfterPhase1"`
	Signers    []int  `json:"doneSignersAtEnd"`
	Expected   int    `json:"expectedSignersCount"`
	Delivered2 int    `json:"phase2Delivered"` // phase 2 messages handed to the listener before the attempt ended
}

type history struct {
	Attempts []observed `json:"attempts"`
	Cut      string     `json:"cut,omitempty"` // why later attempts of the script were not run
}

// ---- fakes
type fakeSigning struct{ chain.Signing }

func (fakeSigning) PublicKeyBytesToAddress(pk []byte) chain.Address {
	return chain.Address(fmt.Sprintf("op-%x", pk))
}
func (fakeSigning) PublicKeyToAddress(*operator.PublicKey) (chain.Address, error) {
	return "", fmt.Errorf("not used")
}

func opKey(id int) []byte { return []byte{byte(id >> 8), byte(id)} }

type fakeChannel struct {
	mu      sync.Mutex
	ctx     context.Context
	handler func(net.Message)
	sent    []net.TaggedMarshaler
}

func (c *fakeChannel) Name() string { return "verif-c35" }
func (c *fakeChannel) Send(ctx context.Context, m net.TaggedMarshaler, _ ...net.RetransmissionStrategy) error {
	c.mu.Lock()
	c.sent = append(c.sent, m)
	c.mu.Unlock()
	return nil
}
func (c *fakeChannel) Recv(ctx context.Context, handler func(m net.Message)) {
	c.mu.Lock()
	c.ctx, c.handler = ctx, handler
	c.mu.Unlock()
}
func (c *fakeChannel) SetUnmarshaler(func() net.TaggedUnmarshaler)   {}
func (c *fakeChannel) SetFilter(net.BroadcastChannelFilter) error { return nil }

// deliver hands a message to the registered handler unless its context is done (the real
// channels unregister the handler then)
func (c *fakeChannel) deliver(m net.Message) bool {
	c.mu.Lock()
	ctx, h := c.ctx, c.handler
	c.mu.Unlock()
	if h == nil || ctx.Err() != nil {
		return false
	}
	h(m)
	return true
}

type tid string

func (t tid) String() string { return string(t) }

type fakeMessage struct {
	pk      []byte
	payload interface{}
	seen    chan struct{} // closed when the listener reads the payload (sentinels only)
	once    sync.Once
}

func (m *fakeMessage) TransportSenderID() net.TransportIdentifier { return tid("peer") }
func (m *fakeMessage) SenderPublicKey() []byte                    { return m.pk }
func (m *fakeMessage) Payload() interface{} {
	if m.seen != nil {
		m.once.Do(func() { close(m.seen) })
	}
	return m.payload
}
func (m *fakeMessage) Type() string  { return "verif" }
func (m *fakeMessage) Seqno() uint64 { return 0 }

type otherPayload struct{}

func sigOf(id int) *tecdsa.Signature {
	if id == 0 {
		return nil
	}
	// ids 1,2,3,4: pairwise different in R, S or RecoveryID only
	switch id {
	case 1:
		return &tecdsa.Signature{R: big.NewInt(200), S: big.NewInt(300), RecoveryID: 2}
	case 2:
		return &tecdsa.Signature{R: big.NewInt(201), S: big.NewInt(300), RecoveryID: 2}
	case 3:
		return &tecdsa.Signature{R: big.NewInt(200), S: big.NewInt(301), RecoveryID: 2}
	default:
		return &tecdsa.Signature{R: big.NewInt(200), S: big.NewInt(300), RecoveryID: int8(id % 4)}
	}
}

func sigID(s *tecdsa.Signature) int {
	if s == nil {
		return 0
	}
	for id := 1; id <= 7; id++ {
		if s.Equals(sigOf(id)) && sigOf(id).Equals(s) {
			return id
		}
	}
	return 99
}

func netMessage(m msgIn) *fakeMessage {
	var payload interface{} = &otherPayload{}
	if m.Done {
		payload = tbtc.VerifC35NewDoneMessage(group.MemberIndex(m.Sender), big.NewInt(int64(1000+m.Message)),
			m.Attempt, sigOf(m.Sig), m.End)
	}
	pk := opKey(m.Author)
	if m.Author == 0 {
		pk = []byte{0xff, 0xff, 0xff}
	}
	return &fakeMessage{pk: pk, payload: payload}
}

var logger = golog.Logger("verif-c35")

const checkInterval = 100 * time.Millisecond // signingDoneCheckInterval

type attemptStatus int

const (
	stOK           attemptStatus = iota // observation valid, the object is quiescent
	stStop                              // observation valid, but a message may still be in flight: do not continue
	stInconclusive                      // no observation
)

func newSentinel() *fakeMessage {
	return &fakeMessage{payload: &otherPayload{}, seen: make(chan struct{})}
}

// one attempt on the long-lived check; wait = how long to keep waitUntilAllDone ticking after the
// last message was processed.
func runAttempt(sdc *tbtc.VerifC35DoneCheck, ch *fakeChannel, a attemptIn, wait time.Duration) (obs observed, st attemptStatus) {
	defer func() {
		if r := recover(); r != nil {
			obs.Outcome, obs.Text = "Panic", fmt.Sprintf("panic: %v", r)
			st = stStop
		}
	}()
	ctx, cancel := context.WithCancel(context.Background())
	defer cancel()
	members := make([]group.MemberIndex, len(a.Members))
	for i, m := range a.Members {
		members[i] = group.MemberIndex(m)
	}
	sdc.Listen(ctx, big.NewInt(int64(1000+a.Message)), a.Attempt, a.Timeout, members)

	stall := 30 * time.Second
	for _, m := range a.Phase1 {
		ch.deliver(netMessage(m))
	}
	sync1 := newSentinel()
	ch.deliver(sync1)
	select {
	case <-sync1.seen:
	case <-time.After(stall):
		return obs, stInconclusive
	}
	_, s1 := sdc.DoneSigners()
	for _, s := range s1 {
		obs.Signers1 = append(obs.Signers1, int(s))
	}

	type waitRes struct {
		sig      *tecdsa.Signature
		hasRes   bool
		end      uint64
		timedOut bool
		err      error
		panicked string
	}
	resCh := make(chan waitRes, 1)
	go func() {
		var wr waitRes
		defer func() {
			if r := recover(); r != nil {
				wr.panicked = fmt.Sprintf("panic: %v", r)
			}
			resCh <- wr
		}()
		res, end, timedOut, err := sdc.WaitUntilAllDone(ctx)
		wr.end, wr.timedOut, wr.err = end, timedOut, err
		if res != nil {
			wr.hasRes, wr.sig = true, res.Signature
		}
	}()

	var wr waitRes
	got := false
	quiescent := true // every message handed to the listener is known to be processed
	inconclusive := false
	for i, m := range a.Phase2 {
		if i%2 == 1 {
			time.Sleep(time.Duration(7+13*(i%5)) * time.Millisecond) // spread arrivals over the ticks
		}
		if !ch.deliver(netMessage(m)) {
			break // waitUntilAllDone has returned and cancelled the receiver: the attempt is over
		}
		obs.Delivered2++
		sn := newSentinel()
		if !ch.deliver(sn) {
			quiescent = false
			break
		}
		select {
		case <-sn.seen:
		case wr = <-resCh:
			got = true
			select {
			case <-sn.seen:
			case <-time.After(time.Second):
				quiescent = false // the listener may have exited with the message unread, or not yet
			}
		case <-time.After(stall):
			return obs, stInconclusive
		}
		if got {
			break
		}
	}
	if !got {
		select {
		case wr = <-resCh:
		case <-time.After(wait):
			// no result after >= 3 check intervals with every message processed: end the attempt
			exp, s := sdc.DoneSigners()
			if exp == len(s) {
				// complete but the ticker did not get to run: not an observation
				inconclusive = true
			}
			cancel()
			select {
			case wr = <-resCh:
			case <-time.After(stall):
				return obs, stInconclusive
			}
		}
	}
	exp, s2 := sdc.DoneSigners()
	obs.Expected = exp
	for _, s := range s2 {
		obs.Signers = append(obs.Signers, int(s))
	}
	switch {
	case wr.panicked != "":
		obs.Outcome, obs.Text = "Panic", wr.panicked
	case wr.timedOut:
		obs.Outcome = "TimedOut"
	case wr.err != nil && strings.Contains(wr.err.Error(), "not matching signatures detected"):
		obs.Outcome = "ErrMismatch"
	case wr.err != nil:
		obs.Outcome, obs.Text = "Panic", "unclassified error: "+wr.err.Error()
	case wr.hasRes:
		obs.Outcome, obs.Sig, obs.End = "Done", sigID(wr.sig), wr.end
	default:
		obs.Outcome, obs.Text = "Panic", "nil result with nil error"
	}
	if obs.Outcome == "TimedOut" && inconclusive {
		return obs, stInconclusive
	}
	if !quiescent {
		return obs, stStop
	}
	return obs, stOK
}

// the whole history on ONE signingDoneCheck.  Returns the observations of the attempts that
// were run conclusively (a prefix of the script) and whether an attempt was inconclusive.
func runHistory(in input, wait time.Duration) (h history, inconclusive bool) {
	ops := make([]chain.Address, len(in.Operators))
	for i, id := range in.Operators {
		ops[i] = fakeSigning{}.PublicKeyBytesToAddress(opKey(id))
	}
	mv := group.NewMembershipValidator(logger, ops, fakeSigning{})
	ch := &fakeChannel{}
	sdc := tbtc.VerifC35NewDoneCheck(len(in.Operators), ch, mv)
	for k, a := range in.Attempts {
		obs, st := runAttempt(sdc, ch, a, wait)
		if st == stInconclusive {
			h.Cut = fmt.Sprintf("attempt %d inconclusive", k+1)
			return h, true
		}
		h.Attempts = append(h.Attempts, obs)
		if st == stStop && k+1 < len(in.Attempts) {
			h.Cut = fmt.Sprintf("after attempt %d: listener not provably quiescent", k+1)
			break
		}
	}
	return h, false
}

func coqMsg(m msgIn) string {
	sig := "None"
	if m.Sig != 0 {
		sig = lib.Some(lib.N(uint64(m.Sig)))
	}
	return fmt.Sprintf("{| m_done := %s; m_sender := %s; m_author := %s; m_message := %s; m_attempt := %s; m_end := %s; m_sig := %s |}",
		lib.Bool(m.Done), lib.N(uint64(m.Sender)), lib.N(uint64(m.Author)), lib.N(uint64(m.Message)),
		lib.N(m.Attempt), lib.N(m.End), sig)
}

func ints(v []int) string {
	o := make([]uint64, len(v))
	for i, x := range v {
		o[i] = uint64(x)
	}
	return lib.ListN(o)
}

func coqMsgs(ms []msgIn) string {
	o := make([]string, len(ms))
	for i, m := range ms {
		o[i] = coqMsg(m)
	}
	return lib.List(o)
}

type job struct {
	id  string
	in  input
	h   history
	inc bool
}

func isConfirmationOf(a attemptIn, m msgIn) bool {
	if !m.Done || m.Message != a.Message || m.Attempt != a.Attempt || m.End > a.Timeout || m.Sig == 0 {
		return false
	}
	for _, x := range a.Members {
		if x == int(m.Sender) {
			return true
		}
	}
	return false
}

func emit(j *job, em *lib.Emitter) {
	in, h := j.in, j.h
	if j.inc {
		em.Tally("attempt-inconclusive-history-cut")
	}
	if h.Cut != "" && !j.inc {
		em.Tally("history-cut-listener-not-quiescent")
	}
	if len(h.Attempts) == 0 {
		em.Tally("inconclusive-skipped")
		return
	}
	// what was actually run: the first len(h.Attempts) attempts, phase 2 as far as delivered
	in.Attempts = append([]attemptIn{}, in.Attempts[:len(h.Attempts)]...)
	var terms, outs []string
	excludedSenders, dups, stale, concurrent, confirming := 0, 0, 0, 0, 0
	for k := range in.Attempts {
		a, obs := &in.Attempts[k], h.Attempts[k]
		if obs.Delivered2 < len(a.Phase2) {
			a.Phase2 = a.Phase2[:obs.Delivered2]
			em.Tally("phase2-cut-by-result")
		}
		out := obs.Outcome
		if out == "Done" {
			sig := "None"
			if obs.Sig != 0 {
				sig = lib.Some(lib.N(uint64(obs.Sig)))
			}
			out = fmt.Sprintf("(Done %s %s)", sig, lib.N(obs.End))
		}
		terms = append(terms, fmt.Sprintf("{| c_params := {| p_ops := ops; p_message := %s; p_attempt := %s; p_timeout := %s; p_members := %s |}; "+
			"c_phase1 := %s; c_phase2 := %s; c_signers1 := %s; c_out := %s; c_signers := %s |}",
			lib.N(uint64(a.Message)), lib.N(a.Attempt), lib.N(a.Timeout), ints(a.Members),
			coqMsgs(a.Phase1), coqMsgs(a.Phase2), ints(obs.Signers1), out, ints(obs.Signers)))
		outs = append(outs, obs.Outcome)
		// features
		included := map[int]bool{}
		for _, m := range a.Members {
			included[m] = true
		}
		seen := map[uint8]bool{}
		conf := map[uint8]bool{}
		for _, m := range append(append([]msgIn{}, a.Phase1...), a.Phase2...) {
			if !m.Done {
				continue
			}
			if !included[int(m.Sender)] {
				excludedSenders++
			}
			if seen[m.Sender] {
				dups++
			}
			seen[m.Sender] = true
			if m.Attempt < a.Attempt {
				stale++
			}
			if isConfirmationOf(*a, m) {
				conf[m.Sender] = true
			}
		}
		if len(conf) >= 2 {
			confirming++
		}
		if len(a.Phase2) > 0 {
			concurrent++
		}
		em.Tally("attempt-out-" + obs.Outcome)
	}
	ops := make([]uint64, len(in.Operators))
	for i, o := range in.Operators {
		ops[i] = uint64(o)
	}
	coq := fmt.Sprintf("(let ops := %s in {| c_attempts := %s |})", lib.ListN(ops), lib.List(terms))
	em.Tally(fmt.Sprintf("attempts-%d", len(in.Attempts)))
	em.Tally(fmt.Sprintf("seats-%03d", (len(in.Operators)+4)/5*5))
	if concurrent > 0 {
		em.Tally("with-concurrent-arrivals")
	}
	if excludedSenders > 0 {
		em.Tally("with-excluded-senders")
	}
	if dups > 0 {
		em.Tally("with-duplicates")
	}
	if stale > 0 {
		em.Tally("with-stale-attempt-numbers")
	}
	multi := len(in.Attempts) >= 2
	em.Case(lib.Case{
		ID:  j.id,
		Coq: coq,
		Key: coq,
		Nontrivial: (multi && confirming >= 2 && (stale >= 1 || excludedSenders >= 1 || dups >= 1 || concurrent >= 1)) ||
			(!multi && confirming >= 1 && (excludedSenders >= 1 || dups >= 1 || concurrent >= 1)),
		Sig: map[string]interface{}{"outcomes": strings.Join(outs, ","), "attempts": len(in.Attempts),
			"excludedSenders": excludedSenders > 0, "concurrent": concurrent > 0, "stale": stale > 0},
		In:  in,
		Out: h,
	})
}

func runAll(jobs []*job, em *lib.Emitter, par int) {
	var wg sync.WaitGroup
	sem := make(chan struct{}, par)
	for _, j := range jobs {
		wg.Add(1)
		sem <- struct{}{}
		go func(j *job) {
			defer wg.Done()
			defer func() { <-sem }()
			wait := 3*checkInterval + 50*time.Millisecond
			j.h, j.inc = runHistory(j.in, wait)
			if j.inc {
				// once more, on a new object, with 4x the wait; then keep the conclusive prefix
				j.h, j.inc = runHistory(j.in, 4*wait)
			}
		}(j)
	}
	wg.Wait()
	for _, j := range jobs {
		emit(j, em)
	}
}

// ---- generators
func validMsg(ops []int, a *attemptIn, sender uint8, sig int, end uint64) msgIn {
	author := 0
	if int(sender) >= 1 && int(sender) <= len(ops) {
		author = ops[sender-1]
	}
	return msgIn{Done: true, Sender: sender, Author: author, Message: a.Message, Attempt: a.Attempt, End: end, Sig: sig}
}

func doneMsgs(a attemptIn) []msgIn {
	var o []msgIn
	for _, m := range append(append([]msgIn{}, a.Phase1...), a.Phase2...) {
		if m.Done {
			o = append(o, m)
		}
	}
	return o
}

// one attempt of a history; prev = the attempts scripted before it on the same object
func randomAttempt(r *lib.Rng, ops []int, message int, attempt, timeout uint64, prev []attemptIn) attemptIn {
	seats := len(ops)
	a := attemptIn{Message: message, Attempt: attempt, Timeout: timeout}
	// included members: a subset of the seats of size >= 1 (mostly a majority); on a retry often the
	// previous attempt's set with one or two members swapped (same size)
	if len(prev) > 0 && r.Chance(1, 2) {
		pm := prev[len(prev)-1].Members
		in := map[int]bool{}
		for _, m := range pm {
			in[m] = true
		}
		var out []int
		for s := 1; s <= seats; s++ {
			if !in[s] {
				out = append(out, s)
			}
		}
		a.Members = append([]int{}, pm...)
		for n := r.Range(0, 2); n > 0 && len(out) > 0; n-- {
			i, j := r.Intn(len(a.Members)), r.Intn(len(out))
			a.Members[i], out[j] = out[j], a.Members[i]
		}
	} else {
		perm := r.Perm(seats)
		k := r.Range((seats+1)/2, seats)
		if r.Chance(1, 6) {
			k = r.Range(1, seats)
		}
		for _, p := range perm[:k] {
			a.Members = append(a.Members, p+1)
		}
	}
	sort.Ints(a.Members)
	included := map[int]bool{}
	for _, m := range a.Members {
		included[m] = true
	}
	var excluded []uint8
	for s := 1; s <= seats; s++ {
		if !included[s] {
			excluded = append(excluded, uint8(s))
		}
	}
	mainSig := r.Range(1, 4)
	end := func() uint64 {
		switch r.Intn(6) {
		case 0:
			return a.Timeout
		case 1:
			return 0
		default:
			return uint64(r.Intn(int(a.Timeout) + 1))
		}
	}
	member := func() uint8 { return uint8(a.Members[r.Intn(len(a.Members))]) }
	// which included members confirm: mostly all, sometimes all but one or two
	missing := map[uint8]bool{}
	switch r.Intn(5) {
	case 0:
		missing[member()] = true
	case 1:
		missing[member()] = true
		missing[member()] = true
	}
	var msgs []msgIn
	for _, m := range a.Members {
		if missing[uint8(m)] {
			continue
		}
		sig := mainSig
		if r.Chance(1, 25) {
			sig = 1 + (mainSig % 4) // a mismatching signature
		}
		msgs = append(msgs, validMsg(ops, &a, uint8(m), sig, end()))
	}
	// disturbances
	var stale []msgIn // done messages scripted for earlier attempts
	for _, p := range prev {
		stale = append(stale, doneMsgs(p)...)
	}
	nd := r.Intn(6)
	if len(prev) > 0 {
		nd += r.Intn(4)
	}
	for i := 0; i < nd; i++ {
		var m msgIn
		anyMember := func() uint8 {
			if len(excluded) > 0 && r.Bool() {
				return excluded[r.Intn(len(excluded))]
			}
			return member()
		}
		kinds := 12
		if len(prev) > 0 {
			kinds = 18
		}
		switch r.Intn(kinds) {
		case 0, 1, 2: // an excluded member with valid membership confirms
			if len(excluded) == 0 {
				continue
			}
			m = validMsg(ops, &a, excluded[r.Intn(len(excluded))], mainSig, end())
		case 3: // duplicate of an included member with other content
			m = validMsg(ops, &a, member(), r.Range(1, 4), end())
		case 4: // seat not controlled by the author
			m = validMsg(ops, &a, anyMember(), mainSig, end())
			m.Author = 1 + (m.Author % 6)
		case 5: // stranger
			m = validMsg(ops, &a, anyMember(), mainSig, end())
			m.Author = 0
		case 6: // sender index out of the group / zero
			m = validMsg(ops, &a, []uint8{0, uint8(seats + 1), 255}[r.Intn(3)], mainSig, end())
			m.Author = ops[r.Intn(seats)]
		case 7:
			m = validMsg(ops, &a, anyMember(), mainSig, end())
			m.Message = 1 + (a.Message % 3)
		case 8:
			m = validMsg(ops, &a, anyMember(), mainSig, end())
			m.Attempt = a.Attempt + uint64(r.Range(1, 2))
			if r.Bool() && a.Attempt > 0 {
				m.Attempt = a.Attempt - 1
			}
		case 9:
			m = validMsg(ops, &a, anyMember(), mainSig, a.Timeout+uint64(r.Range(1, 3)))
		case 10:
			m = validMsg(ops, &a, anyMember(), 0, end())
		case 11:
			m = msgIn{Done: false, Sender: anyMember(), Author: 1}
		case 12, 13, 14: // late arrival: a message of an earlier attempt, verbatim
			if len(stale) == 0 {
				continue
			}
			m = stale[r.Intn(len(stale))]
		case 15, 16: // everything right for this attempt except an earlier attempt's number
			m = validMsg(ops, &a, member(), mainSig, end())
			m.Attempt = prev[r.Intn(len(prev))].Attempt
		default: // an earlier attempt's message re-labelled with this attempt's number
			if len(stale) == 0 {
				continue
			}
			m = stale[r.Intn(len(stale))]
			m.Attempt = a.Attempt
		}
		msgs = append(msgs, m)
	}
	// sometimes every message of the previous attempt arrives (again) first
	var lead []msgIn
	if len(prev) > 0 && r.Chance(1, 5) {
		lead = doneMsgs(prev[len(prev)-1])
	}
	// shuffle, then split into the two phases
	p := r.Perm(len(msgs))
	sh := make([]msgIn, 0, len(lead)+len(msgs))
	sh = append(sh, lead...)
	for _, j := range p {
		sh = append(sh, msgs[j])
	}
	cut := len(sh)
	if r.Chance(1, 3) {
		cut = r.Intn(len(sh) + 1)
	}
	a.Phase1, a.Phase2 = sh[:cut], sh[cut:]
	return a
}

func randomHistory(r *lib.Rng) input {
	seats := r.Range(3, 9)
	n := r.Range(2, 4)
	if r.Chance(1, 14) {
		seats, n = r.Range(20, 40), 2
	}
	nops := r.Range(1, seats)
	if nops > 6 {
		nops = 6
	}
	in := input{Operators: make([]int, seats)}
	for i := range in.Operators {
		in.Operators[i] = 1 + r.Intn(nops)
	}
	message, attempt, timeout := r.Range(1, 3), uint64(r.Range(1, 5)), uint64(r.Range(100, 1500))
	for k := 0; k < n; k++ {
		in.Attempts = append(in.Attempts, randomAttempt(r, in.Operators, message, attempt, timeout, in.Attempts))
		if r.Chance(1, 8) {
			// listen() again with the SAME attempt number: other message or an earlier timeout
			if r.Bool() {
				message = 1 + (message % 3)
			} else {
				timeout = uint64(r.Range(50, int(timeout)))
			}
			continue
		}
		attempt++
		if r.Chance(1, 8) {
			attempt++
		}
		timeout += uint64(r.Range(50, 800))
		if r.Chance(1, 12) {
			message = 1 + (message % 3)
		}
	}
	return in
}

func main() {
	o := lib.ParseOpts()
	em := lib.NewEmitter()
	if o.Replay != "" {
		var in input
		if err := lib.LoadReplay(o.Replay, &in); err != nil {
			fmt.Fprintln(os.Stderr, err)
			os.Exit(2)
		}
		runAll([]*job{{id: "replay", in: in}}, em, 1)
		em.Close("replay", nil)
		return
	}
	rng := lib.NewRng(o.Seed)
	var jobs []*job
	add := func(id string, in input) { jobs = append(jobs, &job{id: id, in: in}) }

	// --- corpus: single attempts
	ops := []int{1, 1, 2, 3, 3}
	base := attemptIn{Message: 1, Attempt: 2, Timeout: 1000, Members: []int{1, 2, 3}}
	v := func(a *attemptIn, sender uint8, sig int, end uint64) msgIn { return validMsg(ops, a, sender, sig, end) }
	single := func(id string, a attemptIn) { add(id, input{Operators: ops, Attempts: []attemptIn{a}}) }
	{
		a := base // the witness of the repaired defect: excluded member 4 completes the count, member 3 never confirmed
		a.Phase1 = []msgIn{v(&a, 1, 1, 501), v(&a, 2, 1, 502), v(&a, 4, 1, 504)}
		single("corpus-excluded-member-completes-count", a)
	}
	{
		a := base
		a.Phase1 = []msgIn{v(&a, 1, 1, 501), v(&a, 2, 1, 502), v(&a, 3, 1, 503)}
		single("corpus-happy-path", a)
	}
	{
		a := base // excluded member first, then all included: must still complete with 1,2,3 only
		a.Phase1 = []msgIn{v(&a, 5, 2, 999), v(&a, 1, 1, 501), v(&a, 2, 1, 502), v(&a, 3, 1, 503)}
		single("corpus-excluded-then-all-included", a)
	}
	{
		a := base
		a.Phase1 = []msgIn{v(&a, 1, 1, 501), v(&a, 2, 1, 502)}
		a.Phase2 = []msgIn{v(&a, 4, 1, 504), v(&a, 3, 1, 1000)}
		single("corpus-concurrent-arrival", a)
	}
	{
		a := base
		a.Phase1 = []msgIn{v(&a, 1, 1, 501), v(&a, 2, 3, 502), v(&a, 3, 1, 503)}
		single("corpus-mismatching-signature", a)
	}
	{
		a := base
		a.Phase1 = []msgIn{v(&a, 1, 1, 501), v(&a, 1, 1, 700), v(&a, 2, 1, 1001), v(&a, 3, 0, 5), v(&a, 2, 1, 1000)}
		single("corpus-duplicate-late-nil", a)
	}
	// --- corpus: retries on one signingDoneCheck
	first := attemptIn{Message: 1, Attempt: 1, Timeout: 1000, Members: []int{1, 2, 3, 4}}
	first.Phase1 = []msgIn{v(&first, 1, 1, 101), v(&first, 2, 1, 102), v(&first, 3, 1, 103)} // 4 never confirms
	{
		// attempt 2 = {1,2,5}, nobody confirms: the three confirmations of attempt 1 must not count
		second := attemptIn{Message: 1, Attempt: 2, Timeout: 2000, Members: []int{1, 2, 5}}
		add("corpus-retry-nobody-confirms-second-attempt", input{Operators: ops, Attempts: []attemptIn{first, second}})
	}
	{
		// attempt 2 = {1,2,5}, all confirm: the stale entries of 1 and 2 must not shadow the new ones
		second := attemptIn{Message: 1, Attempt: 2, Timeout: 2000, Members: []int{1, 2, 5}}
		second.Phase1 = []msgIn{v(&second, 1, 2, 1101), v(&second, 2, 2, 1102), v(&second, 5, 2, 1105)}
		add("corpus-retry-all-confirm-second-attempt", input{Operators: ops, Attempts: []attemptIn{first, second}})
	}
	{
		// a completed attempt, then the same members again with attempt 1's messages arriving late
		// and only two new confirmations, then a third attempt completed during the wait
		a1 := attemptIn{Message: 1, Attempt: 1, Timeout: 1000, Members: []int{1, 2, 3}}
		a1.Phase1 = []msgIn{v(&a1, 1, 1, 101), v(&a1, 2, 1, 102), v(&a1, 3, 1, 103)}
		a2 := attemptIn{Message: 1, Attempt: 2, Timeout: 2000, Members: []int{1, 2, 3}}
		a2.Phase1 = append(append([]msgIn{}, a1.Phase1...), v(&a2, 1, 2, 1101))
		a2.Phase2 = []msgIn{a1.Phase1[2], v(&a2, 2, 2, 1102)}
		a3 := attemptIn{Message: 1, Attempt: 3, Timeout: 3000, Members: []int{2, 3, 4}}
		a3.Phase1 = []msgIn{a2.Phase1[3], a2.Phase2[1], v(&a3, 2, 3, 2102)}
		a3.Phase2 = []msgIn{a1.Phase1[2], v(&a3, 3, 3, 2103), v(&a3, 4, 3, 2999)}
		add("corpus-retry-late-arrivals-three-attempts", input{Operators: ops, Attempts: []attemptIn{a1, a2, a3}})
	}

	// --- random histories
	n := o.Count(260, 2600)
	for i := 0; i < n; i++ {
		add(fmt.Sprintf("rand-%d", i), randomHistory(rng.Fork(fmt.Sprintf("rand%d", i))))
	}
	runAll(jobs, em, 48)
	em.Close("a case is a history of 1-4 signing attempts on ONE signingDoneCheck (listen + waitUntilAllDone per "+
		"attempt, two-phase script of done messages each: valid, excluded senders, stale attempt numbers, late arrivals of "+
		"earlier attempts, duplicates, wrong message/signature/seat); distinct by the whole case term; non-trivial when "+
		"in >= 2 attempts >= 2 included members confirm and there is a stale message, an excluded sender, a duplicate "+
		"or a concurrent arrival (single-attempt corpus cases: one confirmation and one such disturbance)", nil)
}
