// Driver for C35: drives the real signingDoneCheck (pkg/tbtc/signing_done.go) through a
// scripted broadcast channel.  A case is one signing attempt (group seats -> operators, the
// attempt's included members, message, attempt number, timeout block) and a history of
// messages in two phases: phase 1 is delivered and fully processed before waitUntilAllDone
// starts, phase 2 arrives while it is running.  Seats/operators/messages/signatures become
// small N identifiers.  Synchronisation is by explicit conditions only: a sentinel message
// whose Payload() is called by the listener goroutine tells that everything before it has
// been processed; a TimedOut observation is only reported when the confirmations were
// incomplete (read under the mutex) after >= 3 check intervals, otherwise the case is
// inconclusive, retried once with 4x the wait and then skipped.
package main

import (
	"context"
	"fmt"
	"math/big"
	"os"
	"sort"
	"strings"
	"sync"
	"time"

	golog "github.com/ipfs/go-log/v2"

	"github.com/keep-network/keep-core/pkg/chain"
	"github.com/keep-network/keep-core/pkg/net"
	"github.com/keep-network/keep-core/pkg/operator"
	"github.com/keep-network/keep-core/pkg/protocol/group"
	"github.com/keep-network/keep-core/pkg/tbtc"
	"github.com/keep-network/keep-core/pkg/tecdsa"

	"verifharness/lib"
)

type msgIn struct {
	Done    bool   `json:"done"`    // payload is a signingDoneMessage (false: some other payload)
	Sender  uint8  `json:"sender"`  // senderID field
	Author  int    `json:"author"`  // operator whose key authenticated the network message (0: not in the group)
	Message int    `json:"message"` // message id
	Attempt uint64 `json:"attempt"`
	End     uint64 `json:"end"`
	Sig     int    `json:"sig"` // 0: nil signature
}

type input struct {
	Operators []int   `json:"operators"` // operator of seat i+1 (ids >= 1)
	Message   int     `json:"message"`
	Attempt   uint64  `json:"attempt"`
	Timeout   uint64  `json:"timeout"`
	Members   []uint8 `json:"members"` // the attempt's included members
	Phase1    []msgIn `json:"phase1"`
	Phase2    []msgIn `json:"phase2"`
}

type observed struct {
	Outcome  string  `json:"outcome"` // Done | ErrMismatch | TimedOut | Panic
	Sig      int     `json:"sig,omitempty"`
	End      uint64  `json:"end,omitempty"`
	Text     string  `json:"text,omitempty"`
	Signers1 []int   `json:"doneSignersAfterPhase1"`
	Signers  []int   `json:"doneSignersAtEnd"`
	Expected int     `json:"expectedSignersCount"`
}

// ---- fakes
type fakeSigning struct{ chain.Signing }

func (fakeSigning) PublicKeyBytesToAddress(pk []byte) chain.Address {
	return chain.Address(fmt.Sprintf("op-%x", pk))
}
func (fakeSigning) PublicKeyToAddress(*operator.PublicKey) (chain.Address, error) {
	return "", fmt.Errorf("not used")
}

func opKey(id int) []byte { return []byte{byte(id >> 8), byte(id)} }

type fakeChannel struct {
	mu      sync.Mutex
	ctx     context.Context
	handler func(net.Message)
	sent    []net.TaggedMarshaler
}

func (c *fakeChannel) Name() string { return "verif-c35" }
func (c *fakeChannel) Send(ctx context.Context, m net.TaggedMarshaler, _ ...net.RetransmissionStrategy) error {
	c.mu.Lock()
	c.sent = append(c.sent, m)
	c.mu.Unlock()
	return nil
}
func (c *fakeChannel) Recv(ctx context.Context, handler func(m net.Message)) {
	c.mu.Lock()
	c.ctx, c.handler = ctx, handler
	c.mu.Unlock()
}
func (c *fakeChannel) SetUnmarshaler(func() net.TaggedUnmarshaler)   {}
func (c *fakeChannel) SetFilter(net.BroadcastChannelFilter) error { return nil }

// deliver hands a message to the registered handler unless its context is done (the real
// channels unregister the handler then)
func (c *fakeChannel) deliver(m net.Message) bool {
	c.mu.Lock()
	ctx, h := c.ctx, c.handler
	c.mu.Unlock()
	if h == nil || ctx.Err() != nil {
		return false
	}
	h(m)
	return true
}

type tid string

func (t tid) String() string { return string(t) }

type fakeMessage struct {
	pk      []byte
	payload interface{}
	seen    chan struct{} // closed when the listener reads the payload (sentinels only)
	once    sync.Once
}

func (m *fakeMessage) TransportSenderID() net.TransportIdentifier { return tid("peer") }
func (m *fakeMessage) SenderPublicKey() []byte                    { return m.pk }
func (m *fakeMessage) Payload() interface{} {
	if m.seen != nil {
		m.once.Do(func() { close(m.seen) })
	}
	return m.payload
}
func (m *fakeMessage) Type() string  { return "verif" }
func (m *fakeMessage) Seqno() uint64 { return 0 }

type otherPayload struct{}

func sigOf(id int) *tecdsa.Signature {
	if id == 0 {
		return nil
	}
	// ids 1,2,3,4: pairwise different in R, S or RecoveryID only
	switch id {
	case 1:
		return &tecdsa.Signature{R: big.NewInt(200), S: big.NewInt(300), RecoveryID: 2}
	case 2:
		return &tecdsa.Signature{R: big.NewInt(201), S: big.NewInt(300), RecoveryID: 2}
	case 3:
		return &tecdsa.Signature{R: big.NewInt(200), S: big.NewInt(301), RecoveryID: 2}
	default:
		return &tecdsa.Signature{R: big.NewInt(200), S: big.NewInt(300), RecoveryID: int8(id % 4)}
	}
}

func sigID(s *tecdsa.Signature) int {
	if s == nil {
		return 0
	}
	for id := 1; id <= 7; id++ {
		if s.Equals(sigOf(id)) && sigOf(id).Equals(s) {
			return id
		}
	}
	return 99
}

func netMessage(m msgIn) *fakeMessage {
	var payload interface{} = &otherPayload{}
	if m.Done {
		payload = tbtc.VerifC35NewDoneMessage(group.MemberIndex(m.Sender), big.NewInt(int64(1000+m.Message)),
			m.Attempt, sigOf(m.Sig), m.End)
	}
	pk := opKey(m.Author)
	if m.Author == 0 {
		pk = []byte{0xff, 0xff, 0xff}
	}
	return &fakeMessage{pk: pk, payload: payload}
}

var logger = golog.Logger("verif-c35")

const checkInterval = 100 * time.Millisecond // signingDoneCheckInterval

// one real run; wait = how long to keep waitUntilAllDone ticking after the last message was
// processed.  inconclusive: an explicit condition was not reached in time.
func runOnce(in input, wait time.Duration) (obs observed, inconclusive bool) {
	defer func() {
		if r := recover(); r != nil {
			obs.Outcome, obs.Text = "Panic", fmt.Sprintf("panic: %v", r)
		}
	}()
	ops := make([]chain.Address, len(in.Operators))
	for i, id := range in.Operators {
		ops[i] = fakeSigning{}.PublicKeyBytesToAddress(opKey(id))
	}
	mv := group.NewMembershipValidator(logger, ops, fakeSigning{})
	ch := &fakeChannel{}
	sdc := tbtc.VerifC35NewDoneCheck(len(in.Operators), ch, mv)
	ctx, cancel := context.WithCancel(context.Background())
	defer cancel()
	members := make([]group.MemberIndex, len(in.Members))
	for i, m := range in.Members {
		members[i] = group.MemberIndex(m)
	}
	sdc.Listen(ctx, big.NewInt(int64(1000+in.Message)), in.Attempt, in.Timeout, members)

	stall := 30 * time.Second
	sync1 := &fakeMessage{payload: &otherPayload{}, seen: make(chan struct{})}
	for _, m := range in.Phase1 {
		ch.deliver(netMessage(m))
	}
	ch.deliver(sync1)
	select {
	case <-sync1.seen:
	case <-time.After(stall):
		return obs, true
	}
	_, s1 := sdc.DoneSigners()
	for _, s := range s1 {
		obs.Signers1 = append(obs.Signers1, int(s))
	}

	type waitRes struct {
		sig      *tecdsa.Signature
		hasRes   bool
		end      uint64
		timedOut bool
		err      error
		panicked string
	}
	resCh := make(chan waitRes, 1)
	go func() {
		var wr waitRes
		defer func() {
			if r := recover(); r != nil {
				wr.panicked = fmt.Sprintf("panic: %v", r)
			}
			resCh <- wr
		}()
		res, end, timedOut, err := sdc.WaitUntilAllDone(ctx)
		wr.end, wr.timedOut, wr.err = end, timedOut, err
		if res != nil {
			wr.hasRes, wr.sig = true, res.Signature
		}
	}()

	sync2 := &fakeMessage{payload: &otherPayload{}, seen: make(chan struct{})}
	for i, m := range in.Phase2 {
		if i%2 == 1 {
			time.Sleep(time.Duration(7+13*(i%5)) * time.Millisecond) // spread arrivals over the ticks
		}
		ch.deliver(netMessage(m))
	}
	ch.deliver(sync2)
	var wr waitRes
	got := false
	select {
	case <-sync2.seen:
	case wr = <-resCh:
		got = true
	case <-time.After(stall):
		return obs, true
	}
	if !got {
		select {
		case wr = <-resCh:
		case <-time.After(wait):
			// no result after >= 3 check intervals with every message processed: end the attempt
			exp, s := sdc.DoneSigners()
			if exp == len(s) {
				// complete but the ticker did not get to run: not an observation
				inconclusive = true
			}
			cancel()
			select {
			case wr = <-resCh:
			case <-time.After(stall):
				return obs, true
			}
		}
	}
	exp, s2 := sdc.DoneSigners()
	obs.Expected = exp
	for _, s := range s2 {
		obs.Signers = append(obs.Signers, int(s))
	}
	switch {
	case wr.panicked != "":
		obs.Outcome, obs.Text = "Panic", wr.panicked
	case wr.timedOut:
		obs.Outcome = "TimedOut"
	case wr.err != nil && strings.Contains(wr.err.Error(), "not matching signatures detected"):
		obs.Outcome = "ErrMismatch"
	case wr.err != nil:
		obs.Outcome, obs.Text = "Panic", "unclassified error: "+wr.err.Error()
	case wr.hasRes:
		obs.Outcome, obs.Sig, obs.End = "Done", sigID(wr.sig), wr.end
	default:
		obs.Outcome, obs.Text = "Panic", "nil result with nil error"
	}
	if obs.Outcome != "TimedOut" {
		inconclusive = false
	}
	return obs, inconclusive
}

func coqMsg(m msgIn) string {
	sig := "None"
	if m.Sig != 0 {
		sig = lib.Some(lib.N(uint64(m.Sig)))
	}
	return fmt.Sprintf("{| m_done := %s; m_sender := %s; m_author := %s; m_message := %s; m_attempt := %s; m_end := %s; m_sig := %s |}",
		lib.Bool(m.Done), lib.N(uint64(m.Sender)), lib.N(uint64(m.Author)), lib.N(uint64(m.Message)),
		lib.N(m.Attempt), lib.N(m.End), sig)
}

func ints(v []int) string {
	o := make([]uint64, len(v))
	for i, x := range v {
		o[i] = uint64(x)
	}
	return lib.ListN(o)
}

func u8s(v []uint8) string {
	o := make([]uint64, len(v))
	for i, x := range v {
		o[i] = uint64(x)
	}
	return lib.ListN(o)
}

type job struct {
	id  string
	in  input
	obs observed
	inc bool
}

func emit(j *job, em *lib.Emitter) {
	in, obs := j.in, j.obs
	if j.inc {
		em.Tally("inconclusive-skipped")
		return
	}
	ops := make([]uint64, len(in.Operators))
	for i, o := range in.Operators {
		ops[i] = uint64(o)
	}
	p1 := make([]string, len(in.Phase1))
	for i, m := range in.Phase1 {
		p1[i] = coqMsg(m)
	}
	p2 := make([]string, len(in.Phase2))
	for i, m := range in.Phase2 {
		p2[i] = coqMsg(m)
	}
	out := obs.Outcome
	if out == "Done" {
		sig := "None"
		if obs.Sig != 0 {
			sig = lib.Some(lib.N(uint64(obs.Sig)))
		}
		out = fmt.Sprintf("(Done %s %s)", sig, lib.N(obs.End))
	}
	coq := fmt.Sprintf("{| c_params := {| p_ops := %s; p_message := %s; p_attempt := %s; p_timeout := %s; p_members := %s |}; "+
		"c_phase1 := %s; c_phase2 := %s; c_signers1 := %s; c_out := %s; c_signers := %s |}",
		lib.ListN(ops), lib.N(uint64(in.Message)), lib.N(in.Attempt), lib.N(in.Timeout), u8s(in.Members),
		lib.List(p1), lib.List(p2), ints(obs.Signers1), out, ints(obs.Signers))
	// features
	included := map[uint8]bool{}
	for _, m := range in.Members {
		included[m] = true
	}
	fromExcluded, fromIncluded, dup := 0, 0, 0
	seen := map[uint8]bool{}
	for _, m := range append(append([]msgIn{}, in.Phase1...), in.Phase2...) {
		if !m.Done {
			continue
		}
		if included[m.Sender] {
			fromIncluded++
		} else {
			fromExcluded++
		}
		if seen[m.Sender] {
			dup++
		}
		seen[m.Sender] = true
	}
	em.Tally("out-" + obs.Outcome)
	em.Tally(fmt.Sprintf("seats-%03d", (len(in.Operators)+4)/5*5))
	if len(in.Phase2) > 0 {
		em.Tally("with-concurrent-arrivals")
	}
	if fromExcluded > 0 {
		em.Tally("with-excluded-senders")
	}
	if dup > 0 {
		em.Tally("with-duplicates")
	}
	em.Case(lib.Case{
		ID:         j.id,
		Coq:        coq,
		Key:        coq,
		Nontrivial: fromIncluded >= 2 && (fromExcluded >= 1 || dup >= 1 || len(in.Phase2) > 0),
		Sig: map[string]interface{}{"outcome": obs.Outcome, "excludedSenders": fromExcluded > 0,
			"concurrent": len(in.Phase2) > 0},
		In:  in,
		Out: obs,
	})
}

func runAll(jobs []*job, em *lib.Emitter, par int) {
	var wg sync.WaitGroup
	sem := make(chan struct{}, par)
	for _, j := range jobs {
		wg.Add(1)
		sem <- struct{}{}
		go func(j *job) {
			defer wg.Done()
			defer func() { <-sem }()
			wait := 3*checkInterval + 50*time.Millisecond
			j.obs, j.inc = runOnce(j.in, wait)
			if j.inc {
				j.obs, j.inc = runOnce(j.in, 4*wait)
			}
		}(j)
	}
	wg.Wait()
	for _, j := range jobs {
		emit(j, em)
	}
}

// ---- generators
func valid(in *input, sender uint8, sig int, end uint64) msgIn {
	author := 0
	if int(sender) >= 1 && int(sender) <= len(in.Operators) {
		author = in.Operators[sender-1]
	}
	return msgIn{Done: true, Sender: sender, Author: author, Message: in.Message, Attempt: in.Attempt, End: end, Sig: sig}
}

func randomCase(r *lib.Rng) input {
	seats := r.Range(3, 9)
	if r.Chance(1, 12) {
		seats = r.Range(40, 100)
	}
	nops := r.Range(1, seats)
	if nops > 6 {
		nops = 6
	}
	in := input{Message: r.Range(1, 3), Attempt: uint64(r.Range(1, 5)), Timeout: uint64(r.Range(100, 2000))}
	in.Operators = make([]int, seats)
	for i := range in.Operators {
		in.Operators[i] = 1 + r.Intn(nops)
	}
	// included members: a subset of the seats of size >= 1 (mostly a majority)
	perm := r.Perm(seats)
	k := r.Range((seats+1)/2, seats)
	if r.Chance(1, 6) {
		k = r.Range(1, seats)
	}
	for _, p := range perm[:k] {
		in.Members = append(in.Members, uint8(p+1))
	}
	sort.Slice(in.Members, func(a, b int) bool { return in.Members[a] < in.Members[b] })
	included := map[uint8]bool{}
	for _, m := range in.Members {
		included[m] = true
	}
	var excluded []uint8
	for s := 1; s <= seats; s++ {
		if !included[uint8(s)] {
			excluded = append(excluded, uint8(s))
		}
	}
	mainSig := r.Range(1, 4)
	end := func() uint64 {
		switch r.Intn(6) {
		case 0:
			return in.Timeout
		case 1:
			return 0
		default:
			return uint64(r.Intn(int(in.Timeout) + 1))
		}
	}
	// which included members confirm: mostly all, sometimes all but one or two
	missing := map[uint8]bool{}
	switch r.Intn(5) {
	case 0:
		missing[in.Members[r.Intn(len(in.Members))]] = true
	case 1:
		missing[in.Members[r.Intn(len(in.Members))]] = true
		missing[in.Members[r.Intn(len(in.Members))]] = true
	}
	var msgs []msgIn
	for _, m := range in.Members {
		if missing[m] {
			continue
		}
		sig := mainSig
		if r.Chance(1, 25) {
			sig = 1 + (mainSig % 4) // a mismatching signature
		}
		msgs = append(msgs, valid(&in, m, sig, end()))
	}
	// disturbances
	nd := r.Intn(6)
	for i := 0; i < nd; i++ {
		var m msgIn
		anyMember := func() uint8 {
			if len(excluded) > 0 && r.Bool() {
				return excluded[r.Intn(len(excluded))]
			}
			return in.Members[r.Intn(len(in.Members))]
		}
		switch r.Intn(12) {
		case 0, 1, 2: // an excluded member with valid membership confirms
			if len(excluded) == 0 {
				continue
			}
			m = valid(&in, excluded[r.Intn(len(excluded))], mainSig, end())
		case 3: // duplicate of an included member with other content
			m = valid(&in, in.Members[r.Intn(len(in.Members))], r.Range(1, 4), end())
		case 4: // seat not controlled by the author
			m = valid(&in, anyMember(), mainSig, end())
			m.Author = 1 + (m.Author % 6)
		case 5: // stranger
			m = valid(&in, anyMember(), mainSig, end())
			m.Author = 0
		case 6: // sender index out of the group / zero
			m = valid(&in, []uint8{0, uint8(seats + 1), 255}[r.Intn(3)], mainSig, end())
			m.Author = in.Operators[r.Intn(seats)]
		case 7:
			m = valid(&in, anyMember(), mainSig, end())
			m.Message = 1 + (in.Message % 3)
		case 8:
			m = valid(&in, anyMember(), mainSig, end())
			m.Attempt = in.Attempt + uint64(r.Range(1, 2))
			if r.Bool() && in.Attempt > 0 {
				m.Attempt = in.Attempt - 1
			}
		case 9:
			m = valid(&in, anyMember(), mainSig, in.Timeout+uint64(r.Range(1, 3)))
		case 10:
			m = valid(&in, anyMember(), 0, end())
		default:
			m = msgIn{Done: false, Sender: anyMember(), Author: 1}
		}
		msgs = append(msgs, m)
	}
	// shuffle, then split into the two phases
	p := r.Perm(len(msgs))
	sh := make([]msgIn, len(msgs))
	for i, j := range p {
		sh[i] = msgs[j]
	}
	cut := len(sh)
	if r.Chance(1, 3) {
		cut = r.Intn(len(sh) + 1)
	}
	in.Phase1, in.Phase2 = sh[:cut], sh[cut:]
	return in
}

func main() {
	o := lib.ParseOpts()
	em := lib.NewEmitter()
	if o.Replay != "" {
		var in input
		if err := lib.LoadReplay(o.Replay, &in); err != nil {
			fmt.Fprintln(os.Stderr, err)
			os.Exit(2)
		}
		runAll([]*job{{id: "replay", in: in}}, em, 1)
		em.Close("replay", nil)
		return
	}
	rng := lib.NewRng(o.Seed)
	var jobs []*job
	add := func(id string, in input) { jobs = append(jobs, &job{id: id, in: in}) }

	// --- corpus
	base := input{Operators: []int{1, 1, 2, 3, 3}, Message: 1, Attempt: 2, Timeout: 1000, Members: []uint8{1, 2, 3}}
	{
		in := base // the witness of the repaired defect: excluded member 4 completes the count, member 3 never confirmed
		in.Phase1 = []msgIn{valid(&in, 1, 1, 501), valid(&in, 2, 1, 502), valid(&in, 4, 1, 504)}
		add("corpus-excluded-member-completes-count", in)
	}
	{
		in := base
		in.Phase1 = []msgIn{valid(&in, 1, 1, 501), valid(&in, 2, 1, 502), valid(&in, 3, 1, 503)}
		add("corpus-happy-path", in)
	}
	{
		in := base // excluded member first, then all included: must still complete with 1,2,3 only
		in.Phase1 = []msgIn{valid(&in, 5, 2, 999), valid(&in, 1, 1, 501), valid(&in, 2, 1, 502), valid(&in, 3, 1, 503)}
		add("corpus-excluded-then-all-included", in)
	}
	{
		in := base
		in.Phase1 = []msgIn{valid(&in, 1, 1, 501), valid(&in, 2, 1, 502)}
		in.Phase2 = []msgIn{valid(&in, 4, 1, 504), valid(&in, 3, 1, 1000)}
		add("corpus-concurrent-arrival", in)
	}
	{
		in := base
		in.Phase1 = []msgIn{valid(&in, 1, 1, 501), valid(&in, 2, 3, 502), valid(&in, 3, 1, 503)}
		add("corpus-mismatching-signature", in)
	}
	{
		in := base
		in.Phase1 = []msgIn{valid(&in, 1, 1, 501), valid(&in, 1, 1, 700), valid(&in, 2, 1, 1001), valid(&in, 3, 0, 5), valid(&in, 2, 1, 1000)}
		add("corpus-duplicate-late-nil", in)
	}

	// --- random attempts
	n := o.Count(500, 5000)
	for i := 0; i < n; i++ {
		add(fmt.Sprintf("rand-%d", i), randomCase(rng.Fork(fmt.Sprintf("rand%d", i))))
	}
	runAll(jobs, em, 48)
	em.Close("a case is one signing attempt with a two-phase history of done messages run through the real "+
		"signingDoneCheck (listen + waitUntilAllDone); distinct by the whole case term; non-trivial when >= 2 "+
		"included members confirm and there is an excluded sender, a duplicate or a concurrent arrival", nil)
}
