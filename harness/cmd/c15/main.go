// Driver for C15: runs the REAL state.AsyncMachine with recording toy states that share one real
// state.BaseAsyncState and a harness-controlled broadcast channel, forces schedules of message
// deliveries (early, duplicate, invalid), slow Initiate calls and cancellations, and prints the
// linearised event log of each schedule as a case for the Coq model (Model/C15.v), which
// replays the log and evaluates the property on it.
package main

import (
	"fmt"
	"os"
	"strings"
	"sync"
	"time"

	"github.com/ipfs/go-log/v2"

	"verifharness/lib"
)

type step struct {
	Op     string `json:"op"` // deliver | release | cancel
	Ty     uint64 `json:"ty,omitempty"`
	Id     uint64 `json:"id,omitempty"`
	Valid  bool   `json:"valid,omitempty"`
	NoWait bool   `json:"noWait,omitempty"`
}

type input struct {
	Types  []uint64    `json:"types"`
	Prog   []stateSpec `json:"prog"`
	Steps  []step      `json:"steps"`
	Finish bool        `json:"finish"`
}

// anyInput is what --replay reads: a forced schedule (the embedded input) or a burst schedule.
type anyInput struct {
	input
	B *burstInput `json:"burstSchedule,omitempty"`
}

var logger = log.Logger("c15-harness")

type runResult struct {
	ok bool
	w  *world
}

func runSchedule(in input, budget time.Duration) runResult {
	w := newWorld(in.Types, in.Prog)
	defer w.stop()
	w.start(logger)
	if !w.settle(budget) {
		return runResult{false, w}
	}
	for i, s := range in.Steps {
		switch s.Op {
		case "deliver":
			w.deliver(&toyMessage{s.Ty, s.Id, s.Valid})
		case "cancel":
			w.cancelNow()
		case "release":
			if !w.release() {
				continue
			}
		}
		if s.NoWait && i+1 < len(in.Steps) {
			continue
		}
		if !w.settle(budget) {
			return runResult{false, w}
		}
	}
	if !w.settle(budget) {
		return runResult{false, w}
	}
	if in.Finish {
		fresh := uint64(1000)
		for i := 0; i < 4*len(in.Prog)+10; i++ {
			w.mu.Lock()
			done, inGate, cur, ph := w.done, w.inGate, w.cur, w.ph
			short := false
			if !done && ph == pPolling {
				short = w.historyLen(in.Prog[cur].Type) < in.Prog[cur].Need
			}
			w.mu.Unlock()
			if done {
				break
			}
			switch {
			case inGate:
				w.release()
			case short:
				fresh++
				w.deliver(&toyMessage{in.Prog[cur].Type, fresh, true})
			default:
				i = 1 << 30 // nothing the environment can do
			}
			if !w.settle(budget) {
				return runResult{false, w}
			}
		}
	}
	return runResult{true, w}
}

func renderProg(p []stateSpec) string {
	items := make([]string, len(p))
	for i, s := range p {
		items[i] = fmt.Sprintf("{| a_type := %d; a_need := %d; a_init_err := %v; a_next_err := %v |}",
			s.Type, s.Need, s.InitErr, s.NextErr)
	}
	return lib.List(items)
}

type emitted struct {
	c       lib.Case
	tallies []string
	skipped bool
}

func run(in input, id string) emitted {
	r := runSchedule(in, 3*time.Second)
	if !r.ok {
		r = runSchedule(in, 12*time.Second)
	}
	if !r.ok {
		return emitted{skipped: true, tallies: []string{"inconclusive-skipped"}}
	}
	w := r.w
	w.mu.Lock()
	defer w.mu.Unlock()
	evs := append([]string{}, w.log...)
	coq := fmt.Sprintf("(CLog {| c_types := %s; c_prog := %s; c_settled := true; c_events := %s |})",
		lib.ListN(in.Types), renderProg(in.Prog), lib.List(evs))
	var keyEvs []string
	for _, e := range evs {
		if strings.HasPrefix(e, "MCan") && strings.HasSuffix(e, "false") {
			continue
		}
		keyEvs = append(keyEvs, e)
	}
	t := []string{fmt.Sprintf("states-%02d", len(in.Prog)), "outcome-" + w.outcome,
		fmt.Sprintf("log-length-%03d+", len(evs)/50*50)}
	if w.early > 0 {
		t = append(t, "early-messages")
	}
	if w.cancelPh != "" {
		t = append(t, w.cancelPh)
	}
	seen := map[[2]uint64]bool{}
	dup, invalid := false, false
	for _, s := range in.Steps {
		if s.Op == "deliver" {
			if seen[[2]uint64{s.Ty, s.Id}] {
				dup = true
			}
			seen[[2]uint64{s.Ty, s.Id}] = true
			if !s.Valid {
				invalid = true
			}
		}
	}
	if dup {
		t = append(t, "has-duplicates")
	}
	if invalid {
		t = append(t, "has-invalid")
	}
	out := map[string]interface{}{"log": evs, "outcome": w.outcome}
	if w.panicText != "" {
		out["error"] = w.panicText
	}
	return emitted{c: lib.Case{
		ID:         id,
		Coq:        coq,
		Key:        renderProg(in.Prog) + "|" + strings.Join(keyEvs, ";"),
		Nontrivial: w.nInit >= 2 && w.early > 0,
		Sig:        map[string]interface{}{"outcome": w.outcome, "states": len(in.Prog)},
		In:         in,
		Out:        out,
	}, tallies: t}
}

// ---------------------------------------------------------------- generators

func D(ty, id uint64) step  { return step{Op: "deliver", Ty: ty, Id: id, Valid: true} }
func DN(ty, id uint64) step { return step{Op: "deliver", Ty: ty, Id: id, Valid: true, NoWait: true} }

func three(need uint64) []stateSpec {
	return []stateSpec{{Type: 1, Need: need}, {Type: 2, Need: need}, {Type: 3, Need: need}}
}

func corpus() []input {
	T := []uint64{1, 2, 3}
	var out []input
	// (a) happy path
	out = append(out, input{T, three(2), []step{D(1, 1), D(1, 2), D(2, 3), D(2, 4), D(3, 5), D(3, 6)}, true})
	// (b) late member: everything arrives while state 0 is still initiating
	late := three(2)
	late[0].GateInit = true
	lateSteps := []step{D(2, 3), D(3, 5), D(1, 1), D(1, 1), {Op: "deliver", Ty: 2, Id: 90}, D(3, 6), D(2, 4),
		{Op: "deliver", Ty: 1, Id: 91}, D(1, 2), D(3, 5), {Op: "release"}}
	out = append(out, input{T, late, lateSteps, true})
	// (c) messages for later states first
	out = append(out, input{T, three(2), []step{D(3, 5), D(3, 6), D(2, 3), D(2, 4), D(1, 1), D(1, 2)}, true})
	// (d) need = 0 everywhere
	out = append(out, input{T, three(0), []step{D(2, 1)}, true})
	// (e) Initiate of state 1 fails, (f) Next of state 0 fails
	ie := three(1)
	ie[1].InitErr = true
	out = append(out, input{T, ie, []step{D(1, 1), D(2, 2)}, true})
	ne := three(1)
	ne[0].NextErr = true
	out = append(out, input{T, ne, []step{D(2, 2), D(1, 1)}, true})
	// (g) cancel while state 0 is held in Initiate, then release
	g := three(1)
	g[0].GateInit = true
	out = append(out, input{T, g, []step{D(1, 1), {Op: "cancel"}, {Op: "release"}, D(1, 2)}, false})
	// (h) cancel while polling with messages missing
	out = append(out, input{T, three(2), []step{D(1, 1), {Op: "cancel"}}, false})
	// (i) cancel right after a burst
	out = append(out, input{T, three(2), []step{DN(1, 1), DN(1, 2), DN(2, 3), DN(2, 4), DN(3, 5), DN(3, 6),
		{Op: "cancel", NoWait: true}, D(3, 7)}, false})
	// (j) two states with the same type
	out = append(out, input{[]uint64{1}, []stateSpec{{Type: 1, Need: 1}, {Type: 1, Need: 3}}, []step{D(1, 1), D(1, 2), D(1, 3)}, true})
	// (k) single state, need 0
	out = append(out, input{[]uint64{1}, []stateSpec{{Type: 1, Need: 0}}, nil, true})
	// failing Initiate together with a cancellation
	fc := three(1)
	fc[0].InitErr, fc[0].GateInit = true, true
	out = append(out, input{T, fc, []step{{Op: "cancel", NoWait: true}, {Op: "release"}}, false})
	return out
}

func sweep(base input) []input {
	var out []input
	for p := 0; p <= len(base.Steps); p++ {
		st := append([]step{}, base.Steps[:p]...)
		st = append(st, step{Op: "cancel"}, step{Op: "release"}, D(1, 777))
		out = append(out, input{base.Types, base.Prog, st, false})
	}
	return out
}

func randomSchedule(r *lib.Rng) input {
	n := r.Range(1, 5)
	nt := r.Range(1, 4)
	types := make([]uint64, nt)
	for i := range types {
		types[i] = uint64(i + 1)
	}
	prog := make([]stateSpec, n)
	for i := range prog {
		prog[i] = stateSpec{Type: types[r.Intn(nt)], Need: uint64(r.Intn(5)), GateInit: r.Chance(35, 100)}
		if r.Chance(1, 3) && i < nt {
			prog[i].Type = types[i]
		}
	}
	if r.Chance(6, 100) {
		prog[r.Intn(n)].InitErr = true
	}
	if r.Chance(6, 100) {
		prog[r.Intn(n)].NextErr = true
	}
	var st []step
	var used [][2]uint64
	id := uint64(0)
	for i, m := 0, r.Range(8, 30); i < m; i++ {
		nw := r.Chance(1, 4)
		switch x := r.Intn(200) / 2; {
		case x < 80:
			var ty uint64
			if r.Bool() {
				ty = prog[n-1-r.Intn((n+1)/2)].Type // biased to later states
			} else {
				ty = types[r.Intn(nt)]
			}
			id++
			s := step{Op: "deliver", Ty: ty, Id: id, Valid: !r.Chance(15, 100), NoWait: nw}
			if len(used) > 0 && r.Chance(15, 100) {
				u := used[r.Intn(len(used))]
				s.Ty, s.Id = u[0], u[1]
			}
			used = append(used, [2]uint64{s.Ty, s.Id})
			st = append(st, s)
		case x < 92:
			st = append(st, step{Op: "release", NoWait: nw})
		case x < 93:
			st = append(st, step{Op: "cancel", NoWait: nw})
		default:
			st = append(st, step{Op: "deliver", Ty: 99, Id: 5000 + uint64(i), Valid: true, NoWait: nw}) // a type nobody waits for
		}
	}
	return input{types, prog, st, r.Chance(80, 100)}
}

type job struct {
	in input
	id string
}

func main() {
	o := lib.ParseOpts()
	em := lib.NewEmitter()
	log.SetAllLoggers(log.LevelFatal)
	if o.Replay != "" {
		var in anyInput
		if err := lib.LoadReplay(o.Replay, &in); err != nil {
			fmt.Fprintln(os.Stderr, err)
			os.Exit(2)
		}
		var e emitted
		if in.B != nil {
			e = runBurstCase(*in.B, "replay")
		} else {
			e = run(in.input, "replay")
		}
		if e.skipped {
			fmt.Fprintln(os.Stderr, "replay schedule was inconclusive (the machine did not settle)")
			os.Exit(2)
		}
		em.Case(e.c)
		em.Close("replay", nil)
		return
	}
	rng := lib.NewRng(o.Seed)
	var jobs []job
	cp := corpus()
	for i, in := range cp {
		jobs = append(jobs, job{in, fmt.Sprintf("corpus-%02d", i)})
	}
	var sw []input
	sw = append(sw, sweep(cp[1])...)
	sw = append(sw, sweep(cp[0])...)
	perm := rng.Fork("sweep").Perm(len(sw))
	for i := 0; i < o.Count(12, len(sw)) && i < len(sw); i++ {
		jobs = append(jobs, job{sw[perm[i]], fmt.Sprintf("sweep-%02d", perm[i])})
	}
	for i, n := 0, o.Count(150, 1500); i < n; i++ {
		jobs = append(jobs, job{randomSchedule(rng.Fork(fmt.Sprintf("rand%d", i))), fmt.Sprintf("rand-%04d", i)})
	}

	// burst schedules run first, one at a time (they read goroutine states from runtime.Stack)
	var bursts []emitted
	for i, in := range burstCorpus() {
		bursts = append(bursts, runBurstCase(in, fmt.Sprintf("burst-corpus-%02d", i)))
	}
	for i, n := 0, o.Count(4, 40); i < n; i++ {
		bursts = append(bursts, runBurstCase(randomBurst(rng.Fork(fmt.Sprintf("burst%d", i))), fmt.Sprintf("burst-rand-%03d", i)))
	}

	results := make([]emitted, len(jobs))
	var wg sync.WaitGroup
	sem := make(chan struct{}, 48)
	for i := range jobs {
		wg.Add(1)
		sem <- struct{}{}
		go func(i int) {
			defer wg.Done()
			defer func() { <-sem }()
			results[i] = run(jobs[i].in, jobs[i].id)
		}(i)
	}
	wg.Wait()
	skipped := 0
	for _, e := range append(bursts, results...) {
		for _, t := range e.tallies {
			em.Tally(t)
		}
		if e.skipped {
			skipped++
			continue
		}
		em.Case(e.c)
	}
	em.Close("a case is the linearised event log of one forced schedule of the real AsyncMachine; distinct by "+
		"(program, log without the 'not yet' ticks); non-trivial when at least two states were initiated and some "+
		"message belonging to a later state was handed to an earlier state (a member lagging behind); a burst case is the "+
		"compact observation of one burst schedule (slow Receive, 513-720 messages pushed through the registered handler), "+
		"distinct by (program, messages handed over), non-trivial when the producer was seen blocked in the handler, at least "+
		"two states were initiated and a message for a later state went through an earlier one",
		map[string]interface{}{"skipped": skipped})
}
