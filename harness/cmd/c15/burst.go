// Burst schedules for C15: a late member whose Receive is slow while the rest of the group bursts
// more messages (for later states) than the machine's receive buffer holds.  The messages are
// pushed through the REAL handler that AsyncMachine.Execute registered on the (fake) broadcast
// channel, from a separate goroutine, one call after the other like the network layer does.
// As the code is written the call blocks once the buffer is full; nothing may be dropped.
//
// Progress is observed, never guessed from elapsed time: the producer's call / return counters
// (kept under the world's mutex) and the scheduler state of two goroutines read from
// runtime.Stack - "the producer is parked in the handler's channel send" and "the machine's loop
// is parked in its select" are facts of a stop-the-world snapshot, and both are stable once seen
// (the only receiver is held in the slow Receive; every handler call has returned).
package main

import (
	"fmt"
	"runtime"
	"strings"
	"time"

	"verifharness/lib"
)

type msgRun struct {
	Ty    uint64 `json:"ty"`
	Id0   uint64 `json:"id0"`
	Count uint64 `json:"count"`
	Valid bool   `json:"valid"`
}

type burstInput struct {
	Types []uint64    `json:"types"`
	Prog  []stateSpec `json:"prog"`
	Pre   []msgRun    `json:"pre"`   // delivered one by one, the machine settles after each
	Burst []msgRun    `json:"burst"` // pushed through the handler back to back by the producer
}

func expandRuns(rs []msgRun) []*toyMessage {
	var out []*toyMessage
	for _, r := range rs {
		for i := uint64(0); i < r.Count; i++ {
			out = append(out, &toyMessage{r.Ty, r.Id0 + i, r.Valid})
		}
	}
	return out
}

func rleMsgs(ms []*toyMessage) []msgRun {
	var out []msgRun
	for _, m := range ms {
		if n := len(out); n > 0 && out[n-1].Ty == m.ty && out[n-1].Valid == m.valid && out[n-1].Id0+out[n-1].Count == m.id {
			out[n-1].Count++
			continue
		}
		out = append(out, msgRun{m.ty, m.id, 1, m.valid})
	}
	return out
}

func renderRuns(rs []msgRun) string {
	items := make([]string, len(rs))
	for i, r := range rs {
		items[i] = fmt.Sprintf("(%d, %d, %d, %v)", r.Ty, r.Id0, r.Count, r.Valid)
	}
	return lib.List(items)
}

// goid returns the id of the calling goroutine (first line of its stack trace).
func goid() int64 {
	buf := make([]byte, 64)
	buf = buf[:runtime.Stack(buf, false)]
	var id int64
	fmt.Sscanf(string(buf), "goroutine %d ", &id)
	return id
}

// probe returns the scheduler state ("running", "runnable", "chan send", "select", ...) and the
// innermost frame of goroutine id in a stop-the-world snapshot; "gone" when it has ended.
func probe(id int64) (string, string) {
	buf := make([]byte, 1<<18)
	for {
		n := runtime.Stack(buf, true)
		if n < len(buf) {
			buf = buf[:n]
			break
		}
		buf = make([]byte, 2*len(buf))
	}
	prefix := fmt.Sprintf("goroutine %d [", id)
	for _, blk := range strings.Split(string(buf), "\n\n") {
		if !strings.HasPrefix(blk, prefix) {
			continue
		}
		lines := strings.Split(blk, "\n")
		st := lines[0][len(prefix):]
		if i := strings.Index(st, "]"); i >= 0 {
			st = st[:i]
		}
		if i := strings.Index(st, ","); i >= 0 {
			st = st[:i]
		}
		top := ""
		if len(lines) > 1 {
			top = lines[1]
		}
		return st, top
	}
	return "gone", ""
}

// noteSched must be called with mu held: records one handler return (ret) or one completed Receive.
func (w *world) noteSched(ret bool) {
	if w.frozen {
		return
	}
	if len(w.sched) == 0 {
		w.sched = append(w.sched, 0) // position 0 counts returns
	}
	if lastIsRet := (len(w.sched)-1)%2 == 0; lastIsRet != ret {
		w.sched = append(w.sched, 0)
	}
	w.sched[len(w.sched)-1]++
}

// feed is the producer: the network layer's goroutine that calls the registered handler with one
// message after the other.
func (w *world) feed(msgs []*toyMessage) {
	w.mu.Lock()
	w.feederGoid = goid()
	w.cond.Broadcast()
	w.mu.Unlock()
	for _, m := range msgs {
		w.mu.Lock()
		if w.handler == nil || w.hctx.Err() != nil || w.frozen {
			w.mu.Unlock()
			break
		}
		h := w.handler
		w.calls++
		w.handed = append(w.handed, m)
		w.mu.Unlock()
		h(m) // NOT under the mutex: as the code is written this blocks while the buffer is full
		w.mu.Lock()
		w.rets++
		w.enq++
		w.noteSched(true)
		w.cond.Broadcast()
		w.mu.Unlock()
	}
	w.mu.Lock()
	w.feederDone = true
	w.cond.Broadcast()
	w.mu.Unlock()
}

type burstResult struct {
	ok        bool
	w         *world
	rel       [2]int
	sawBlock  bool
	drained   bool
	starved   bool
	handedN   int
	blockedAt string
}

func runBurst(in burstInput, budget time.Duration) burstResult {
	w := newWorld(in.Types, in.Prog)
	defer w.stop()
	w.start(logger)
	res := burstResult{w: w}
	if !w.settle(budget) {
		return res
	}
	for _, m := range expandRuns(in.Pre) {
		w.deliver(m)
		if !w.settle(budget) {
			return res
		}
	}
	go w.feed(expandRuns(in.Burst))

	// 1. the loop takes the first message of the burst and is held in the slow Receive (or the
	//    producer finished and the loop went idle without ever getting there, or Execute returned)
	for {
		w.mu.Lock()
		gate, done, fdone, ex := w.inGateRecv, w.done, w.feederDone, w.execGoid
		w.mu.Unlock()
		if gate || done {
			break
		}
		if fdone {
			if st, top := probe(ex); st == "select" && strings.Contains(top, "(*AsyncMachine).Execute(") {
				break
			}
		}
		runtime.Gosched()
	}
	// 2. the producer goes on until it is parked inside the handler (buffer full) or has finished
	for {
		w.mu.Lock()
		done, fdone, fid := w.done, w.feederDone, w.feederGoid
		w.mu.Unlock()
		if done || fdone {
			break
		}
		if fid != 0 {
			if st, top := probe(fid); st == "chan send" || st == "select" || st == "chan receive" {
				res.sawBlock, res.blockedAt = true, st+" "+top
				break
			}
		}
		runtime.Gosched()
	}
	w.mu.Lock()
	res.rel = [2]int{w.rets, w.recv}
	// 3. the slow Receive returns
	if w.inGateRecv {
		w.inGateRecv = false
		close(w.recvGate)
	}
	// 4. every handler call returns (the loop drains the buffer) or Execute returns
	for !(w.feederDone || w.done) {
		w.cond.Wait()
	}
	fdone := w.feederDone
	ex := w.execGoid
	w.mu.Unlock()
	// 5. the loop has nothing left: it is parked in its select
	for fdone {
		w.mu.Lock()
		done := w.done
		w.mu.Unlock()
		if done {
			break
		}
		if st, top := probe(ex); st == "select" && strings.Contains(top, "(*AsyncMachine).Execute(") {
			res.drained = true
			break
		}
		runtime.Gosched()
	}
	// 6. the machine walks through the remaining states as far as the history lets it.  What the
	//    loop was ever going to receive it has received: quiescence no longer waits for messages.
	w.mu.Lock()
	w.enq = w.recv
	res.handedN = len(w.handed)
	w.mu.Unlock()
	if !w.settle(budget) {
		return res
	}
	w.mu.Lock()
	if !w.done && w.ph == pPolling && w.historyLen(in.Prog[w.cur].Type) < in.Prog[w.cur].Need {
		res.starved = true
	}
	done := w.done
	w.mu.Unlock()
	if !done {
		w.cancelNow()
		if !w.settle(budget) {
			return res
		}
	}
	res.ok = true
	return res
}

func runBurstCase(in burstInput, id string) emitted {
	r := runBurst(in, 5*time.Second)
	if !r.ok {
		r = runBurst(in, 20*time.Second)
	}
	if !r.ok {
		return emitted{skipped: true, tallies: []string{"burst-inconclusive-skipped"}}
	}
	w := r.w
	w.mu.Lock()
	defer w.mu.Unlock()
	handed, received := rleMsgs(w.handed), rleMsgs(w.recvMsgs)
	hist := make([]string, len(in.Types))
	histOut := map[string]int{}
	for i, ty := range in.Types {
		msgs := w.base.GetAllReceivedMessages(typeString(ty))
		var runs []string
		var id0, cnt uint64
		for _, m := range msgs {
			if cnt > 0 && m.Seqno() == id0+cnt {
				cnt++
				continue
			}
			if cnt > 0 {
				runs = append(runs, fmt.Sprintf("(%d, %d)", id0, cnt))
			}
			id0, cnt = m.Seqno(), 1
		}
		if cnt > 0 {
			runs = append(runs, fmt.Sprintf("(%d, %d)", id0, cnt))
		}
		hist[i] = lib.List(runs)
		histOut[typeString(ty)] = len(msgs)
	}
	coq := fmt.Sprintf("(CBurst {| b_types := %s; b_prog := %s; b_handed := %s; b_received := %s; b_sched := %s; "+
		"b_rel := (%d, %d); b_hist := %s; b_drained := %v; b_starved := %v; b_outcome := %s |})",
		lib.ListN(in.Types), renderProg(in.Prog), renderRuns(handed), renderRuns(received), lib.ListN(w.sched),
		r.rel[0], r.rel[1], lib.List(hist), r.drained, r.starved, w.outcomeCoq)
	perType := map[string]int{}
	for _, m := range w.recvMsgs {
		perType[typeString(m.ty)]++
	}
	t := []string{"burst", fmt.Sprintf("burst-states-%02d", len(in.Prog)), "burst-outcome-" + w.outcome,
		fmt.Sprintf("burst-handed-%03d+", len(w.handed)/50*50)}
	if r.sawBlock {
		t = append(t, "burst-producer-blocked")
	} else {
		t = append(t, "burst-producer-never-blocked")
	}
	if w.early > 0 {
		t = append(t, "early-messages")
	}
	out := map[string]interface{}{
		"handed": len(w.handed), "received": len(w.recvMsgs), "receivedPerType": perType, "receivedRuns": received,
		"historyPerType": histOut, "handlerReturnsWhileReceiveHeld": r.rel[0], "receivesCompletedThen": r.rel[1],
		"producerSeenBlocked": r.sawBlock, "producerBlockedAt": r.blockedAt, "drained": r.drained,
		"starved": r.starved, "outcome": w.outcome,
	}
	if w.panicText != "" {
		out["error"] = w.panicText
	}
	return emitted{c: lib.Case{
		ID:         id,
		Coq:        coq,
		Key:        "burst|" + renderProg(in.Prog) + "|" + renderRuns(handed),
		Nontrivial: r.sawBlock && w.early > 0 && w.nInit >= 2,
		Sig:        map[string]interface{}{"class": "burst", "outcome": w.outcome, "states": len(in.Prog)},
		In:         anyInput{B: &in},
		Out:        out,
	}, tallies: t}
}

// ---------------------------------------------------------------- generators

func burstProg(n int, gate int) []stateSpec {
	p := make([]stateSpec, n)
	for i := range p {
		p[i] = stateSpec{Type: uint64(i + 1)}
	}
	p[gate].GateRecv = true
	return p
}

// setNeeds makes every state wait for ALL valid messages of its type (so the very last message
// handed over is needed by the last state), minus slack[i].
func setNeeds(in *burstInput, extra int) {
	cnt := map[uint64]uint64{}
	for _, m := range append(expandRuns(in.Pre), expandRuns(in.Burst)...) {
		if m.valid {
			cnt[m.ty]++
		}
	}
	for i := range in.Prog {
		in.Prog[i].Need = cnt[in.Prog[i].Type]
	}
	in.Prog[len(in.Prog)-1].Need += uint64(extra)
}

func burstCorpus() []burstInput {
	var out []burstInput
	// (a) the late member of the seeded demo: stuck with the first message in state 0 while
	//     everything for the two following states arrives (2 x 300)
	a := burstInput{Types: []uint64{1, 2, 3}, Prog: burstProg(3, 0),
		Burst: []msgRun{{1, 1, 1, true}, {2, 2, 300, true}, {3, 302, 300, true}}}
	setNeeds(&a, 0)
	out = append(out, a)
	// (b) slow Receive in state 1, three later types interleaved, 520 messages
	b := burstInput{Types: []uint64{1, 2, 3, 4}, Prog: burstProg(4, 1), Pre: []msgRun{{1, 1, 2, true}}}
	id := uint64(3)
	for i := 0; id < 523; i++ {
		n := uint64(7 + 13*(i%5))
		if id+n > 523 {
			n = 523 - id
		}
		b.Burst = append(b.Burst, msgRun{uint64(2 + i%3), id, n, true})
		id += n
	}
	b.Burst = append(b.Burst, msgRun{4, id, 1, true})
	setNeeds(&b, 0)
	out = append(out, b)
	// (c), (d) around the capacity of today's buffer (512): 513 messages fit (one is in Receive),
	//     the 514th makes the producer wait
	for _, n := range []uint64{513, 514} {
		c := burstInput{Types: []uint64{1, 2}, Prog: burstProg(2, 0),
			Burst: []msgRun{{1, 1, 1, true}, {2, 2, n - 1, true}}}
		setNeeds(&c, 0)
		out = append(out, c)
	}
	// (e) the group never sends what the last state needs: the late member uses everything it got
	//     and still cannot finish (cancelled), with invalid and repeated messages in the burst
	e := burstInput{Types: []uint64{1, 2, 3}, Prog: burstProg(3, 0),
		Burst: []msgRun{{1, 900, 1, true}, {3, 1, 200, true}, {2, 201, 5, false}, {2, 206, 250, true}, {3, 1, 100, true}, {99, 456, 40, true}, {3, 500, 60, true}}}
	setNeeds(&e, 1)
	out = append(out, e)
	return out
}

func randomBurst(r *lib.Rng) burstInput {
	n := r.Range(2, 4)
	gate := 0
	if n >= 3 && r.Bool() {
		gate = 1
	}
	in := burstInput{Prog: burstProg(n, gate)}
	for i := 0; i < n; i++ {
		in.Types = append(in.Types, uint64(i+1))
	}
	id := uint64(1)
	if gate == 1 {
		k := uint64(r.Range(1, 3))
		in.Pre = []msgRun{{1, id, k, true}}
		id += k
	}
	total := uint64(r.Range(520, 700))
	// the message the slow Receive is busy with: the state it is for is still waiting for it
	in.Burst = []msgRun{{uint64(gate + 1), id, 1, true}}
	id++
	var prev []msgRun
	for used := uint64(0); used < total; {
		k := uint64(r.Range(1, 90))
		if used+k > total {
			k = total - used
		}
		run := msgRun{uint64(r.Range(gate+1, n)), id, k, true}
		switch x := r.Intn(100); {
		case x < 8: // invalid messages
			run.Valid = false
		case x < 14: // a type nobody waits for
			run.Ty = 99
		case x < 22 && len(prev) > 0: // retransmission of an earlier run
			p := prev[r.Intn(len(prev))]
			if p.Count < k {
				k = p.Count
			}
			run = msgRun{p.Ty, p.Id0, k, p.Valid}
		case x < 30: // a message for a state the member has left behind / is in
			run.Ty = uint64(r.Range(1, gate+1))
		}
		if run.Id0 == id {
			id += k
		}
		in.Burst = append(in.Burst, run)
		prev = append(prev, run)
		used += run.Count
	}
	in.Burst = append(in.Burst, msgRun{uint64(n), id, uint64(r.Range(1, 20)), true})
	extra := 0
	if r.Chance(1, 6) {
		extra = 1
	}
	setNeeds(&in, extra)
	if gate == 1 { // state 0 is finished before the burst starts
		in.Prog[0].Need = in.Pre[0].Count
	}
	for i := gate; i < n-1; i++ { // earlier states may be content with less
		if r.Chance(1, 3) && in.Prog[i].Need > 1 {
			in.Prog[i].Need = uint64(r.Range(1, int(in.Prog[i].Need)))
		}
	}
	return in
}
