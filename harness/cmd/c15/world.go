// Fakes and the schedule runner for C15: a harness-controlled broadcast channel, recording toy
// async states sharing one real state.BaseAsyncState, and the linearised event log.  Every
// event is appended under one mutex atomically with its effect, so the log is a real-time
// order of what happened; after Execute returned nothing is appended any more.
package main

import (
	"context"
	"errors"
	"fmt"
	"strings"
	"sync"
	"time"

	"github.com/ipfs/go-log/v2"
	"github.com/keep-network/keep-core/pkg/net"
	"github.com/keep-network/keep-core/pkg/protocol/group"
	"github.com/keep-network/keep-core/pkg/protocol/state"
)

var errToyInit = errors.New("toy initiate failure")
var errToyNext = errors.New("toy next failure")

type stateSpec struct {
	Type     uint64 `json:"type"`
	Need     uint64 `json:"need"`
	InitErr  bool   `json:"initErr,omitempty"`
	NextErr  bool   `json:"nextErr,omitempty"`
	GateInit bool   `json:"gateInit,omitempty"`
	GateRecv bool   `json:"gateRecv,omitempty"` // the first Receive of this state is held until released
}

type toyMessage struct {
	ty, id uint64
	valid  bool
}

type toyTransportID struct{}

func (toyTransportID) String() string { return "toy" }

func typeString(ty uint64) string { return fmt.Sprintf("toy/%d", ty) }

func (m *toyMessage) TransportSenderID() net.TransportIdentifier { return toyTransportID{} }
func (m *toyMessage) SenderPublicKey() []byte                    { return []byte{1} }
func (m *toyMessage) Payload() interface{}                       { return m }
func (m *toyMessage) Type() string                               { return typeString(m.ty) }
func (m *toyMessage) Seqno() uint64                              { return m.id }
func (m *toyMessage) Coq() string {
	return fmt.Sprintf("{| mty := %d; mid := %d; mvalid := %v |}", m.ty, m.id, m.valid)
}

type phase int

const (
	pSpawned phase = iota
	pInitiating
	pInitFailed
	pPolling
	pSignalled
)

type world struct {
	mu   sync.Mutex
	cond *sync.Cond

	types []uint64
	prog  []stateSpec
	base  *state.BaseAsyncState

	log    []string // rendered events
	frozen bool

	// the fake channel
	hctx    context.Context
	handler func(net.Message)

	// mirror of the machine's status, maintained from the logged events
	cur       int
	ph        phase
	exiting   bool
	done      bool
	cancelled bool
	enq, recv int
	inGate    bool
	gate      chan struct{}

	cancel   context.CancelFunc
	teardown chan struct{}

	// burst schedules (burst.go): the slow Receive, the producer's counters, the compact observation
	inGateRecv   bool
	recvGate     chan struct{}
	recvGateUsed map[int]bool
	calls, rets  int
	feederDone   bool
	feederGoid   int64
	execGoid     int64
	handed       []*toyMessage
	recvMsgs     []*toyMessage
	sched        []uint64 // run lengths: handler returns, completed Receives, returns, ...
	outcomeCoq   string

	outcome   string
	panicText string
	nInit     int
	early     int // messages handed to a state earlier than the state owning their type
	cancelPh  string
}

func newWorld(types []uint64, prog []stateSpec) *world {
	w := &world{types: types, prog: prog, base: state.NewBaseAsyncState(), outcome: "running",
		teardown: make(chan struct{}), recvGateUsed: map[int]bool{}}
	w.cond = sync.NewCond(&w.mu)
	return w
}

// append must be called with mu held; returns false once the log is frozen.
func (w *world) append(s string) bool {
	if w.frozen {
		return false
	}
	w.log = append(w.log, s)
	w.cond.Broadcast()
	return true
}

func (w *world) historyLen(ty uint64) uint64 {
	return uint64(len(w.base.GetAllReceivedMessages(typeString(ty))))
}

// snapshot renders GetAllReceivedMessages for every type of the case.
func (w *world) snapshot() string {
	outer := make([]string, len(w.types))
	for i, ty := range w.types {
		msgs := w.base.GetAllReceivedMessages(typeString(ty))
		ids := make([]string, len(msgs))
		for j, m := range msgs {
			ids[j] = fmt.Sprintf("%d", m.Seqno())
		}
		outer[i] = "[" + strings.Join(ids, "; ") + "]"
	}
	return "[" + strings.Join(outer, "; ") + "]"
}

// ---------------------------------------------------------------- fake broadcast channel

type fakeChannel struct{ w *world }

func (c *fakeChannel) Name() string { return "c15" }
func (c *fakeChannel) Send(ctx context.Context, m net.TaggedMarshaler, s ...net.RetransmissionStrategy) error {
	return nil
}
func (c *fakeChannel) Recv(ctx context.Context, handler func(m net.Message)) {
	c.w.mu.Lock()
	defer c.w.mu.Unlock()
	c.w.hctx, c.w.handler = ctx, handler
}
func (c *fakeChannel) SetUnmarshaler(unmarshaler func() net.TaggedUnmarshaler) {}
func (c *fakeChannel) SetFilter(filter net.BroadcastChannelFilter) error      { return nil }

// deliver is the environment action "the channel delivers m".
func (w *world) deliver(m *toyMessage) {
	w.mu.Lock()
	defer w.mu.Unlock()
	acc := w.handler != nil && w.hctx.Err() == nil
	if w.frozen {
		return
	}
	if acc {
		w.calls++
		w.handler(m)
		w.enq++
		w.rets++
		w.handed = append(w.handed, m)
		w.noteSched(true)
	}
	w.append(fmt.Sprintf("EDeliver %s %v", m.Coq(), acc))
}

// cancelNow is the environment action "the machine's context is cancelled".
func (w *world) cancelNow() {
	w.mu.Lock()
	defer w.mu.Unlock()
	if w.frozen {
		return
	}
	if !w.cancelled {
		switch {
		case w.inGate:
			w.cancelPh = "cancel-in-initiate"
		case w.ph == pPolling:
			w.cancelPh = "cancel-while-polling"
		default:
			w.cancelPh = "cancel-other"
		}
	}
	w.cancel()
	w.cancelled = true
	w.append("ECancel")
}

// ---------------------------------------------------------------- toy states

type toyState struct {
	w *world
	k int
}

func (s *toyState) MemberIndex() group.MemberIndex { return 1 }

func (s *toyState) Initiate(ctx context.Context) error {
	w := s.w
	spec := w.prog[s.k]
	w.mu.Lock()
	if w.append(fmt.Sprintf("MInit %d%%nat %s", s.k, w.snapshot())) {
		w.ph = pInitiating
		w.nInit++
	}
	if spec.GateInit {
		w.inGate = true
		g := make(chan struct{})
		w.gate = g
		w.cond.Broadcast()
		w.mu.Unlock()
		select {
		case <-g:
		case <-w.teardown:
		}
		w.mu.Lock()
	}
	if w.append(fmt.Sprintf("MInitRet %d%%nat", s.k)) {
		if spec.InitErr {
			w.ph = pInitFailed
		} else {
			w.ph = pPolling
		}
	}
	w.mu.Unlock()
	if spec.InitErr {
		return errToyInit
	}
	return nil
}

func (s *toyState) CanTransition() bool {
	w := s.w
	w.mu.Lock()
	defer w.mu.Unlock()
	b := w.historyLen(w.prog[s.k].Type) >= w.prog[s.k].Need
	if w.append(fmt.Sprintf("MCan %d%%nat %v", s.k, b)) && b {
		w.ph = pSignalled
	}
	return b
}

func (s *toyState) Receive(msg net.Message) error {
	w := s.w
	m, ok := msg.Payload().(*toyMessage)
	if !ok {
		return fmt.Errorf("foreign message")
	}
	w.mu.Lock()
	defer w.mu.Unlock()
	if w.prog[s.k].GateRecv && !w.recvGateUsed[s.k] {
		// a slow Receive: the loop has taken the message out of its buffer and is busy with it
		w.recvGateUsed[s.k] = true
		w.inGateRecv = true
		g := make(chan struct{})
		w.recvGate = g
		w.cond.Broadcast()
		w.mu.Unlock()
		select {
		case <-g:
		case <-w.teardown:
		}
		w.mu.Lock()
	}
	if m.valid {
		w.base.ReceiveToHistory(msg)
	}
	w.recv++
	if !w.frozen {
		w.recvMsgs = append(w.recvMsgs, m)
		w.noteSched(false)
	}
	for j := s.k + 1; j < len(w.prog); j++ {
		if w.prog[j].Type == m.ty && w.prog[s.k].Type != m.ty {
			w.early++
			break
		}
	}
	w.append(fmt.Sprintf("MRecv %d%%nat %s", s.k, m.Coq()))
	return nil
}

func (s *toyState) Next() (state.AsyncState, error) {
	w := s.w
	w.mu.Lock()
	defer w.mu.Unlock()
	logged := w.append(fmt.Sprintf("MNext %d%%nat %s", s.k, w.snapshot()))
	spec := w.prog[s.k]
	if spec.NextErr {
		if logged {
			w.exiting = true
		}
		return nil, errToyNext
	}
	if s.k+1 >= len(w.prog) {
		if logged {
			w.exiting = true
		}
		return nil, nil
	}
	if logged {
		w.cur, w.ph = s.k+1, pSpawned
	}
	return &toyState{w, s.k + 1}, nil
}

// release opens the Initiate gate; false when nothing is held.
func (w *world) release() bool {
	w.mu.Lock()
	defer w.mu.Unlock()
	if !w.inGate {
		return false
	}
	w.inGate = false
	close(w.gate)
	w.gate = nil
	return true
}

// ---------------------------------------------------------------- running the real machine

func (w *world) start(logger log.StandardLogger) {
	ctx, cancel := context.WithCancel(context.Background())
	w.cancel = cancel
	machine := state.NewAsyncMachine(logger, ctx, &fakeChannel{w}, &toyState{w, 0})
	go func() {
		w.mu.Lock()
		w.execGoid = goid()
		w.mu.Unlock()
		var last state.AsyncState
		var err error
		panicked := ""
		func() {
			defer func() {
				if r := recover(); r != nil {
					panicked = fmt.Sprintf("panic: %v", r)
				}
			}()
			last, err = machine.Execute()
		}()
		w.mu.Lock()
		defer w.mu.Unlock()
		out := ""
		switch {
		case panicked != "":
			w.outcome, w.panicText, out = "panic", panicked, "AErrNext 9999%nat"
		case err == nil:
			ts, ok := last.(*toyState)
			if !ok {
				w.outcome, w.panicText, out = "panic", "Execute returned a foreign state", "AErrNext 9999%nat"
			} else {
				w.outcome, out = "final", fmt.Sprintf("AFinal %d%%nat", ts.k)
			}
		case errors.Is(err, errToyInit):
			w.outcome, out = "errinit", fmt.Sprintf("AErrInit %d%%nat", w.cur)
		case errors.Is(err, errToyNext):
			w.outcome, out = "errnext", fmt.Sprintf("AErrNext %d%%nat", w.cur)
		case errors.Is(err, context.Canceled):
			w.outcome, out = "cancelled", "ACancelled"
		default:
			w.outcome, w.panicText, out = "panic", "unexpected error: "+err.Error(), "AErrNext 9999%nat"
		}
		w.outcomeCoq = out
		w.append("MDone (" + out + ")")
		w.done = true
		w.frozen = true
		w.cond.Broadcast()
	}()
}

// owes must be called with mu held: mirror of Model/C15.v machine_owes.
func (w *world) owes() bool {
	if w.done {
		return false
	}
	if w.exiting || w.cancelled || w.enq != w.recv {
		return true
	}
	switch w.ph {
	case pSpawned, pInitFailed, pSignalled:
		return true
	case pInitiating:
		return !w.inGate
	case pPolling:
		return w.historyLen(w.prog[w.cur].Type) >= w.prog[w.cur].Need
	}
	return false
}

// settle waits (on the condition, never by sleeping) until the machine owes no step.
func (w *world) settle(budget time.Duration) bool {
	deadline := time.Now().Add(budget)
	timer := time.AfterFunc(budget, func() {
		w.mu.Lock()
		w.cond.Broadcast()
		w.mu.Unlock()
	})
	defer timer.Stop()
	w.mu.Lock()
	defer w.mu.Unlock()
	for w.owes() {
		if !time.Now().Before(deadline) {
			return false
		}
		w.cond.Wait()
	}
	return true
}

// stop lets every goroutine of a finished or abandoned schedule end.
func (w *world) stop() {
	w.mu.Lock()
	w.frozen = true
	select {
	case <-w.teardown:
	default:
		close(w.teardown)
	}
	c := w.cancel
	w.mu.Unlock()
	if c != nil {
		c()
	}
}
