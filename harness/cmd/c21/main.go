// Driver for C21: runs the real firewall.AnyApplicationPolicy (pkg/firewall/firewall.go) with
// scripted firewall.Application collaborators over sequences of validations and prints the
// cases for the Coq model (Model/C21.v).
//
// Peers are real secp256k1 operator public keys derived from the run's PRNG; a peer's
// identifier is the first-occurrence index of its PublicKey.String() (the firewall only tests
// keys for equality).  Every sequence runs in well under a second, far inside the 1 h / 12 h
// caching periods: cache expiry (real time) is out of scope and never exercised.
//
// Streams: corpus; "vec": EVERY answer vector over {Y,N,E} for 1..4 applications (3^k) crossed with
// the cache state of the validated peer (none / positive / negative) and allow-list membership, each
// followed by all-E probes (an all-E validation reads the caches without changing them: cached or
// allowlisted peers are answered with no application consulted, an uncached peer fails at the
// first application and nothing is remembered); "seqvec": every vector of 2..4 applications inside
// a random sequence; "small": exhaustive short sequences for 1..2 applications; "rand".
// The observable of every validation is (result, applications consulted in call order).
package main

import (
	"errors"
	"fmt"
	"math/big"
	"os"
	"strings"

	"github.com/btcsuite/btcd/btcec/v2"

	"github.com/keep-network/keep-core/pkg/firewall"
	"github.com/keep-network/keep-core/pkg/operator"

	"verifharness/lib"
)

// one validation: which peer (index into Peers), and what every application would answer
// if asked in this call: 'Y', 'N' or 'E', one letter per application
type stepIn struct {
	Peer    int    `json:"peer"`
	Answers string `json:"answers"`
}

type input struct {
	Peers []string `json:"peers"` // hex scalars; peer i has public key Peers[i]*G
	Allow []int    `json:"allow"` // indices into Peers
	NApps int      `json:"napps"`
	Steps []stepIn `json:"steps"`
}

type script struct {
	cur      string // answers of the current validation
	curKey   string // String() of the peer under validation
	calls    []uint64
	appErr   error
	foreign  bool // an application was asked about a different key than the one validated
	overflow bool
}

type scriptedApp struct {
	idx int
	s   *script
}

func (a *scriptedApp) IsRecognized(pk *operator.PublicKey) (bool, error) {
	a.s.calls = append(a.s.calls, uint64(a.idx))
	if pk == nil || pk.String() != a.s.curKey {
		a.s.foreign = true
	}
	if a.idx >= len(a.s.cur) {
		a.s.overflow = true
		return false, nil
	}
	switch a.s.cur[a.idx] {
	case 'Y':
		return true, nil
	case 'E':
		return false, a.s.appErr
	}
	return false, nil
}

func keyOf(hexScalar string) *operator.PublicKey {
	k, ok := new(big.Int).SetString(hexScalar, 16)
	if !ok {
		k = big.NewInt(1)
	}
	n := btcec.S256().N
	k.Mod(k, n)
	if k.Sign() == 0 {
		k.SetInt64(1)
	}
	x, y := btcec.S256().ScalarBaseMult(k.Bytes())
	return &operator.PublicKey{Curve: operator.Secp256k1, X: x, Y: y}
}

func validate(fw interface {
	Validate(*operator.PublicKey) error
}, pk *operator.PublicKey, appErr error) (res string, text string) {
	defer func() {
		if r := recover(); r != nil {
			res, text = "Panic", fmt.Sprintf("panic: %v", r)
		}
	}()
	err := fw.Validate(pk)
	switch {
	case err == nil:
		return "Admit", ""
	case errors.Is(err, appErr):
		// the application's own error, wrapped by Validate
		return "Failed", err.Error()
	default:
		return "NotRecognized", err.Error()
	}
}

func run(in input, em *lib.Emitter, id string) {
	keys := make([]*operator.PublicKey, len(in.Peers))
	ids := map[string]uint64{} // first-occurrence identifiers of key strings
	pid := make([]uint64, len(in.Peers))
	for i, h := range in.Peers {
		keys[i] = keyOf(h)
		s := keys[i].String()
		if _, ok := ids[s]; !ok {
			ids[s] = uint64(len(ids) + 1)
		}
		pid[i] = ids[s]
	}
	var allowKeys []*operator.PublicKey
	var allowIDs []uint64
	for _, a := range in.Allow {
		// a fresh copy of the key object: the allow-list must work by value, not by pointer
		k := keys[a]
		allowKeys = append(allowKeys, &operator.PublicKey{Curve: k.Curve, X: new(big.Int).Set(k.X), Y: new(big.Int).Set(k.Y)})
		allowIDs = append(allowIDs, pid[a])
	}
	sc := &script{appErr: errors.New("scripted application failure")}
	apps := make([]firewall.Application, in.NApps)
	for i := range apps {
		apps[i] = &scriptedApp{idx: i, s: sc}
	}
	policy := firewall.AnyApplicationPolicy(apps, firewall.NewAllowList(allowKeys))

	var obsCoq []string
	var outs []map[string]interface{}
	sig := map[string]interface{}{"napps": in.NApps}
	feat := map[string]bool{}
	seenPeer := map[uint64]string{} // last conclusive letter class per peer, for the stats only
	for _, st := range in.Steps {
		k := keys[st.Peer]
		sc.cur, sc.curKey, sc.calls = st.Answers, k.String(), nil
		// a fresh key object for every call as well
		res, text := validate(policy, &operator.PublicKey{Curve: k.Curve, X: new(big.Int).Set(k.X), Y: new(big.Int).Set(k.Y)}, sc.appErr)
		calls := append([]uint64{}, sc.calls...)
		if sc.foreign || sc.overflow {
			// cannot be expressed in the model: make the call list disagree
			calls = append(calls, uint64(in.NApps)+7)
		}
		coqRes := res
		if res == "Panic" {
			coqRes = "Failed"
			calls = append(calls, uint64(in.NApps)+9)
		}
		ans := make([]string, len(st.Answers))
		for i, c := range st.Answers {
			ans[i] = map[rune]string{'Y': "Yes", 'N': "No", 'E': "Err"}[c]
		}
		obsCoq = append(obsCoq, fmt.Sprintf("{| ob_peer := %s; ob_answers := %s; ob_result := %s; ob_calls := %s |}",
			lib.N(pid[st.Peer]), lib.List(ans), coqRes, lib.ListN(calls)))
		outs = append(outs, map[string]interface{}{"peer": pid[st.Peer], "answers": st.Answers, "result": res, "calls": calls, "error": text})
		em.Tally("result-" + res)
		if y := strings.IndexByte(st.Answers, 'Y'); y >= 0 && strings.IndexByte(st.Answers, 'E') > y &&
			!strings.Contains(st.Answers[:y], "E") && len(sc.calls) > 0 {
			em.Tally("consulted-with-yes-before-err")
		}
		if prev, ok := seenPeer[pid[st.Peer]]; ok {
			feat["revisit-after-"+prev] = true
			if strings.Contains(st.Answers, "Y") && prev == "no" {
				feat["yes-after-no"] = true
			}
			if prev == "err" {
				feat["revisit-after-err"] = true
			}
		}
		if len(calls) > 0 {
			switch res {
			case "Admit":
				seenPeer[pid[st.Peer]] = "yes"
			case "NotRecognized":
				seenPeer[pid[st.Peer]] = "no"
			case "Failed":
				seenPeer[pid[st.Peer]] = "err"
			}
		}
	}
	for f := range feat {
		em.Tally("seq-" + f)
	}
	em.Tally(fmt.Sprintf("napps-%d", in.NApps))
	coq := fmt.Sprintf("{| c_allow := %s; c_napps := %s; c_obs := %s |}", lib.ListN(allowIDs), lib.Nat(in.NApps), lib.List(obsCoq))
	var keyParts []string
	for _, st := range in.Steps {
		keyParts = append(keyParts, fmt.Sprintf("%d:%s", pid[st.Peer], st.Answers))
	}
	em.Case(lib.Case{
		ID:         id,
		Coq:        coq,
		Key:        fmt.Sprintf("%v|%d|%s", allowIDs, in.NApps, strings.Join(keyParts, ",")),
		Nontrivial: feat["revisit-after-yes"] || feat["revisit-after-no"] || feat["revisit-after-err"],
		Sig:        sig,
		In:         in,
		Out:        outs,
	})
}

// count picks the case count of a stream: the search tier (run automatically after a
// model/implementation disagreement) is capped so that one round stays within minutes on a
// loaded machine.
func count(o lib.Opts, quick, thorough, search int) int {
	if o.N > 0 {
		return o.N
	}
	switch o.Tier {
	case "thorough":
		return thorough
	case "search":
		return search
	}
	return quick
}

// vectors returns every answer vector over {Y,N,E} of the given length.
func vectors(k int) []string {
	out := []string{""}
	for i := 0; i < k; i++ {
		var next []string
		for _, v := range out {
			for _, a := range "YNE" {
				next = append(next, v+string(a))
			}
		}
		out = next
	}
	return out
}

func scalar(r *lib.Rng) string { return fmt.Sprintf("%x", r.Bytes(32)) }

func answers(r *lib.Rng, n int, pErr int) string {
	b := make([]byte, n)
	for i := range b {
		switch {
		case r.Chance(pErr, 100):
			b[i] = 'E'
		case r.Chance(1, 3):
			b[i] = 'Y'
		default:
			b[i] = 'N'
		}
	}
	return string(b)
}

func main() {
	o := lib.ParseOpts()
	em := lib.NewEmitter()
	if o.Replay != "" {
		var in input
		if err := lib.LoadReplay(o.Replay, &in); err != nil {
			fmt.Fprintln(os.Stderr, err)
			os.Exit(2)
		}
		run(in, em, "replay")
		em.Close("replay", nil)
		return
	}
	rng := lib.NewRng(o.Seed)
	fixed := lib.NewRng(21)
	P := []string{scalar(fixed), scalar(fixed), scalar(fixed), scalar(fixed)}

	// --- corpus: minimised regression cases (run first)
	run(input{P, nil, 2, []stepIn{{0, "EN"}, {0, "NY"}, {0, "NN"}}}, em, "corpus-error-not-cached-then-yes")
	run(input{P, nil, 2, []stepIn{{0, "NE"}, {0, "NN"}, {0, "YY"}}}, em, "corpus-error-then-no-cached")
	run(input{P, nil, 2, []stepIn{{0, "EY"}, {0, "YE"}, {0, "EE"}}}, em, "corpus-error-before-yes-rejects")
	run(input{P, nil, 3, []stepIn{{0, "NNN"}, {0, "YYY"}, {1, "NNY"}, {1, "NNN"}, {1, "EEE"}}}, em, "corpus-cached-verdicts-reused")
	run(input{P, []int{0}, 2, []stepIn{{0, "NN"}, {0, "EE"}, {1, "NN"}, {0, "NN"}, {1, "YY"}}}, em, "corpus-allowlisted-never-asked")
	run(input{P, nil, 0, []stepIn{{0, ""}, {0, ""}}}, em, "corpus-no-applications")
	run(input{P, []int{1}, 0, []stepIn{{0, ""}, {1, ""}}}, em, "corpus-no-applications-allowlisted")
	run(input{P, nil, 1, []stepIn{{0, "Y"}, {1, "N"}, {2, "E"}, {0, "N"}, {1, "Y"}, {2, "Y"}, {2, "N"}}}, em, "corpus-three-peers")
	run(input{[]string{P[0], P[0], P[1]}, []int{1}, 1, []stepIn{{0, "N"}, {2, "N"}}}, em, "corpus-same-key-two-objects")

	run(input{P, nil, 2, []stepIn{{0, "YE"}, {0, "EE"}, {1, "NY"}, {1, "EE"}}}, em, "corpus-yes-then-error-admits-and-caches")
	run(input{P, nil, 3, []stepIn{{0, "NYE"}, {0, "EEE"}, {1, "YEE"}, {1, "EEE"}, {2, "NEY"}, {2, "EEE"}}}, em, "corpus-stops-at-first-yes-or-error")

	// --- every answer vector for 1..4 applications x cache state of the peer x allow-list membership,
	// as a single validation on a policy prepared by at most one earlier validation, then cache probes
	for k := 1; k <= 4; k++ {
		allE, allN, allY := strings.Repeat("E", k), strings.Repeat("N", k), strings.Repeat("Y", k)
		for vi, v := range vectors(k) {
			for ci, prefix := range [][]stepIn{nil, {{0, allY}}, {{0, allN}}} {
				steps := append([]stepIn{}, prefix...)
				// peer 1 is allowlisted, peer 0 is not (cache state by the prefix), peer 2 is fresh
				steps = append(steps, stepIn{1, v}, stepIn{0, v}, stepIn{0, allE}, stepIn{1, allE}, stepIn{2, allE})
				run(input{P[:3], []int{1}, k, steps}, em, fmt.Sprintf("vec-%d-%d-%s", k, vi, []string{"none", "pos", "neg"}[ci]))
			}
		}
	}
	// --- every answer vector for 2..4 applications inside a random sequence over three peers, with a
	// probe after every validation
	for k := 2; k <= 4; k++ {
		allE := strings.Repeat("E", k)
		vs := vectors(k)
		for vi, v := range vs {
			r := rng.Fork(fmt.Sprintf("seqvec%d-%d", k, vi))
			var allow []int
			if r.Chance(1, 4) {
				allow = []int{r.Intn(3)}
			}
			var steps []stepIn
			add := func(peer int, a string) { steps = append(steps, stepIn{peer, a}, stepIn{peer, allE}) }
			for i := r.Range(0, 3); i > 0; i-- {
				add(r.Intn(3), vs[r.Intn(len(vs))])
			}
			add(r.Intn(3), v)
			for i := r.Range(0, 3); i > 0; i-- {
				add(r.Intn(3), vs[r.Intn(len(vs))])
			}
			run(input{P[:3], allow, k, steps}, em, fmt.Sprintf("seqvec-%d-%d", k, vi))
		}
	}

	// --- exhaustive small scope: one application or two, two peers (one possibly allowlisted),
	// every sequence of 3 validations over every answer vector
	{
		var vec1, vec2 []string
		for _, a := range "YNE" {
			vec1 = append(vec1, string(a))
			for _, b := range "YNE" {
				vec2 = append(vec2, string(a)+string(b))
			}
		}
		type cfg struct {
			napps int
			vecs  []string
			slen  int
		}
		for ci, c := range []cfg{{1, vec1, 3}, {2, vec2, 2}, {2, vec2, 3}} {
			// a step is (peer in {0,1}) x vec
			nStep := 2 * len(c.vecs)
			total := 1
			for i := 0; i < c.slen; i++ {
				total *= nStep
			}
			limit := count(o, 250, total, 600)
			perm := rng.Fork(fmt.Sprintf("small%d", ci)).Perm(total)
			for k := 0; k < limit && k < total; k++ {
				code := perm[k]
				var steps []stepIn
				for i := 0; i < c.slen; i++ {
					s := code % nStep
					code /= nStep
					steps = append(steps, stepIn{s % 2, c.vecs[s/2]})
				}
				var allow []int
				if k%4 == 3 {
					allow = []int{1}
				}
				// cache contents afterwards: all-E probes of both peers
				allE := strings.Repeat("E", c.napps)
				steps = append(steps, stepIn{0, allE}, stepIn{1, allE})
				run(input{P[:2], allow, c.napps, steps}, em, fmt.Sprintf("small-%d-%d", ci, k))
			}
		}
	}

	// --- random sequences: a few peers revisited often, answers changing over time
	nRand := count(o, 400, 4000, 800)
	for i := 0; i < nRand; i++ {
		r := rng.Fork(fmt.Sprintf("rand%d", i))
		nPeers := r.Range(1, 6)
		peers := make([]string, nPeers)
		for j := range peers {
			peers[j] = scalar(r)
		}
		if nPeers >= 2 && r.Chance(1, 8) {
			peers[nPeers-1] = peers[0] // the same key listed twice
		}
		var allow []int
		for j := 0; j < nPeers; j++ {
			if r.Chance(1, 5) {
				allow = append(allow, j)
			}
		}
		napps := r.Range(0, 4)
		if r.Chance(1, 10) {
			napps = r.Range(5, 8)
		}
		pErr := []int{0, 10, 25, 50}[r.Intn(4)]
		n := r.Range(1, 14)
		if o.Tier != "quick" && r.Chance(1, 10) {
			n = r.Range(15, 40)
		}
		probe := napps > 0 && r.Chance(1, 3) // read the caches after every validation
		var steps []stepIn
		for j := 0; j < n; j++ {
			st := stepIn{r.Intn(nPeers), answers(r, napps, pErr)}
			steps = append(steps, st)
			if probe {
				steps = append(steps, stepIn{st.Peer, strings.Repeat("E", napps)})
			}
		}
		run(input{peers, allow, napps, steps}, em, fmt.Sprintf("rand-%d", i))
	}
	em.Close("a case is one sequence of Validate calls on one AnyApplicationPolicy with scripted applications; "+
		"distinct by (allow-list, number of applications, sequence of (peer, answer vector)); non-trivial when "+
		"some peer is validated again after an earlier validation of the same peer consulted the applications "+
		"(cache reuse or error-not-remembered is exercised; the all-E probes that read the caches count); the "+
		"observable of every validation is (result, applications consulted in call order)", nil)
}
