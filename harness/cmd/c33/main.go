// Driver for C33: runs the proposal discovery of pkg/tbtcpg (FindDeposits, FindDepositsToSweep,
// RedemptionTask.FindPendingRedemptions, DepositSweepTask.Run / RedemptionTask.Run whose proposals
// are observed, ProposalGenerator.Generate) against fake chains built
// from generated event histories and prints the cases for the Coq model (Model/C33.v).
// Wallets, transactions and scripts are small integers in the generated input; the fakes map
// them injectively to 20-byte hashes / 32-byte hashes / P2PKH scripts and back.
//
// time.Now() cannot be injected: request times are generated as ages relative to the instant
// the call is made, and every age is kept >= 5 s away from the window boundaries.
package main

import (
	"crypto/sha256"
	"encoding/binary"
	"encoding/json"
	"fmt"
	"math"
	"math/big"
	"os"
	"strings"
	"time"

	"github.com/ipfs/go-log/v2"
	"github.com/keep-network/keep-core/pkg/bitcoin"
	"github.com/keep-network/keep-core/pkg/chain"
	"github.com/keep-network/keep-core/pkg/tbtc"
	"github.com/keep-network/keep-core/pkg/tbtcpg"

	"verifharness/lib"
)

// ---------------------------------------------------------------- identifiers <-> chain values

func walletPKH(w int) (p [20]byte) {
	if w == 0 {
		return
	}
	binary.BigEndian.PutUint32(p[0:4], uint32(w))
	p[19] = 0x77
	return
}
func walletID(p [20]byte) uint64 {
	if p == [20]byte{} {
		return 0
	}
	w := binary.BigEndian.Uint32(p[0:4])
	if walletPKH(int(w)) != p {
		return 999999
	}
	return uint64(w)
}
func txHash(t int) (h bitcoin.Hash) {
	binary.BigEndian.PutUint32(h[0:4], uint32(t))
	h[31] = 0x55
	return
}
func txID(h bitcoin.Hash) uint64 {
	t := binary.BigEndian.Uint32(h[0:4])
	if txHash(int(t)) != h {
		return 999999
	}
	return uint64(t)
}
func scriptOf(s int) bitcoin.Script {
	var p [20]byte
	binary.BigEndian.PutUint32(p[0:4], uint32(s))
	p[19] = 0x33
	sc, _ := bitcoin.PayToPublicKeyHash(p)
	return sc
}
func scriptID(sc bitcoin.Script) uint64 {
	if len(sc) != 25 {
		return 999999
	}
	s := binary.BigEndian.Uint32(sc[3:7])
	if string(scriptOf(int(s))) != string(sc) {
		return 999999
	}
	return uint64(s)
}

var errFake = fmt.Errorf("fake chain failure")

// ---------------------------------------------------------------- inputs (replayable)

type dEv struct {
	Tx     int    `json:"tx"`
	Idx    uint32 `json:"idx"`
	Block  uint64 `json:"block"`
	Wallet int    `json:"wallet"`
}
type dReq struct {
	Tx     int    `json:"tx"`
	Idx    uint32 `json:"idx"`
	State  string `json:"state"` // found | err   (absent = not found)
	Age    int64  `json:"age"`   // seconds between RevealedAt and the call
	Swept  int64  `json:"swept"` // 0 = not swept, else seconds between SweptAt and the call
	Amount uint64 `json:"amount"`
}
type dConf struct {
	Tx   int  `json:"tx"`
	Conf uint `json:"conf"`
	Err  bool `json:"err"`
}
type depIn struct {
	MinAge     *uint32 `json:"minAge"` // nil: GetDepositMinAge fails
	EventsErr  bool    `json:"eventsErr"`
	Events     []dEv   `json:"events"`
	Reqs       []dReq  `json:"reqs"`
	Confs      []dConf `json:"confs"`
	Wallet     int     `json:"wallet"`
	Max        int     `json:"max"`
	SkipSwept  bool    `json:"skipSwept"`
	SkipUnconf bool    `json:"skipUnconf"`
	ToSweep    bool    `json:"toSweep"`
	ViaRun     bool    `json:"viaRun"` // with ToSweep: DepositSweepTask.Run, the proposal's deposits are observed
}

type rEv struct {
	Block  uint64 `json:"block"`
	Wallet int    `json:"wallet"`
	Script int    `json:"script"`
}
type rPend struct {
	Wallet int    `json:"wallet"`
	Script int    `json:"script"`
	State  string `json:"state"` // found | err
	Age    int64  `json:"age"`
}
type rDelay struct {
	Wallet int   `json:"wallet"`
	Script int   `json:"script"`
	Err    bool  `json:"err"`
	Secs   int64 `json:"secs"`
}
type redIn struct {
	Current   *uint64  `json:"current"`
	MinAge    *uint32  `json:"minAge"`
	Timeout   *uint32  `json:"timeout"`
	ABT       int      `json:"abt"` // average block time, seconds
	EventsErr bool     `json:"eventsErr"`
	Events    []rEv    `json:"events"`
	KeyErrs   [][2]int `json:"keyErrs"` // (wallet, script) pairs for which BuildRedemptionKey fails
	Pending   []rPend  `json:"pending"`
	Delays    []rDelay `json:"delays"`
	Wallet    int      `json:"wallet"`
	Limit     uint16   `json:"limit"`
	ViaRun    bool     `json:"viaRun"` // RedemptionTask.Run, the proposal's scripts are observed
}

type gTask struct {
	Action uint8  `json:"action"`
	Out    string `json:"out"` // prop | none | err
}
type genIn struct {
	Tasks     []gTask `json:"tasks"`
	Checklist []uint8 `json:"checklist"`
}

// pgIn is one window of the production generator (tbtcpg.NewProposalGenerator): the deposit and
// the redemption side of the chain state (Dep.Max = GetDepositSweepMaxSize, Red.Limit =
// GetRedemptionMaxSize, one wallet) and the checklist.
type pgIn struct {
	Dep       *depIn  `json:"dep"`
	Red       *redIn  `json:"red"`
	HbInvalid bool    `json:"hbInvalid"` // ValidateHeartbeatProposal fails
	Checklist []uint8 `json:"checklist"`
}

// histIn is a window history: the windows are run one after the other on ONE long-lived object
// graph (one fake chain pair whose state is replaced between windows, one DepositSweepTask, one
// RedemptionTask, one production ProposalGenerator, one generator over fake tasks).
type histIn struct {
	Kind    string  `json:"kind"`
	Windows []input `json:"windows"`
}

type input struct {
	Fn   string  `json:"fn"` // deposits | redemptions | generate | pg | history
	Dep  *depIn  `json:"dep,omitempty"`
	Red  *redIn  `json:"red,omitempty"`
	Gen  *genIn  `json:"gen,omitempty"`
	PG   *pgIn   `json:"pg,omitempty"`
	Hist *histIn `json:"hist,omitempty"`
}

// ---------------------------------------------------------------- fake chains

type fakeChain struct {
	tbtcpg.Chain // every method not overridden panics (nil interface)
	t0           int64
	dep          *depIn
	red          *redIn
	hbInvalid    bool
}

func (f *fakeChain) ValidateHeartbeatProposal([20]byte, *tbtc.HeartbeatProposal) error {
	if f.hbInvalid {
		return errFake
	}
	return nil
}

func (f *fakeChain) GetDepositMinAge() (uint32, error) {
	if f.dep.MinAge == nil {
		return 0, errFake
	}
	return *f.dep.MinAge, nil
}
func inWallets(l [][20]byte, w [20]byte) bool {
	if len(l) == 0 {
		return true
	}
	for _, x := range l {
		if x == w {
			return true
		}
	}
	return false
}
func (f *fakeChain) PastDepositRevealedEvents(filter *tbtc.DepositRevealedEventFilter) ([]*tbtc.DepositRevealedEvent, error) {
	if f.dep.EventsErr {
		return nil, errFake
	}
	out := []*tbtc.DepositRevealedEvent{}
	for _, e := range f.dep.Events {
		ev := &tbtc.DepositRevealedEvent{FundingTxHash: txHash(e.Tx), FundingOutputIndex: e.Idx,
			WalletPublicKeyHash: walletPKH(e.Wallet), BlockNumber: e.Block, Depositor: "0xdd"}
		if filter != nil {
			if e.Block < filter.StartBlock || (filter.EndBlock != nil && e.Block > *filter.EndBlock) {
				continue
			}
			if !inWallets(filter.WalletPublicKeyHash, ev.WalletPublicKeyHash) {
				continue
			}
			if len(filter.Depositor) > 0 {
				ok := false
				for _, d := range filter.Depositor {
					ok = ok || d == ev.Depositor
				}
				if !ok {
					continue
				}
			}
		}
		out = append(out, ev)
	}
	return out, nil
}
func (f *fakeChain) BuildDepositKey(h bitcoin.Hash, idx uint32) *big.Int {
	var b [4]byte
	binary.BigEndian.PutUint32(b[:], idx)
	s := sha256.Sum256(append(h[:], b[:]...))
	return new(big.Int).SetBytes(s[:])
}
func (f *fakeChain) GetDepositRequest(h bitcoin.Hash, idx uint32) (*tbtc.DepositChainRequest, bool, error) {
	for _, r := range f.dep.Reqs {
		if txHash(r.Tx) == h && r.Idx == idx {
			if r.State == "err" {
				return nil, false, errFake
			}
			swept := time.Unix(0, 0)
			if r.Swept != 0 {
				swept = time.Unix(f.t0-r.Swept, 0)
			}
			return &tbtc.DepositChainRequest{Amount: r.Amount, RevealedAt: time.Unix(f.t0-r.Age, 0), SweptAt: swept}, true, nil
		}
	}
	return nil, false, nil
}

func (f *fakeChain) GetDepositSweepMaxSize() (uint16, error) { return uint16(f.dep.Max), nil }
func (f *fakeChain) GetDepositParameters() (uint64, uint64, uint64, uint32, error) {
	return 1000, 2000, 1 << 40, 100, nil
}
func (f *fakeChain) ValidateDepositSweepProposal([20]byte, *tbtc.DepositSweepProposal, []struct {
	*tbtc.Deposit
	FundingTx *bitcoin.Transaction
}) error {
	return nil
}
func (f *fakeChain) GetRedemptionMaxSize() (uint16, error) { return f.red.Limit, nil }
func (f *fakeChain) ValidateRedemptionProposal([20]byte, *tbtc.RedemptionProposal) error {
	return nil
}

type fakeCounter struct {
	chain.BlockCounter
	cur uint64
}

func (c *fakeCounter) CurrentBlock() (uint64, error) { return c.cur, nil }

func (f *fakeChain) BlockCounter() (chain.BlockCounter, error) {
	if f.red.Current == nil {
		return nil, errFake
	}
	return &fakeCounter{cur: *f.red.Current}, nil
}
func (f *fakeChain) GetRedemptionRequestMinAge() (uint32, error) {
	if f.red.MinAge == nil {
		return 0, errFake
	}
	return *f.red.MinAge, nil
}
func (f *fakeChain) GetRedemptionParameters() (uint64, uint64, uint64, uint64, uint32, *big.Int, uint32, error) {
	if f.red.Timeout == nil {
		return 0, 0, 0, 0, 0, nil, 0, errFake
	}
	return 1000, 2000, 3000, 4000, *f.red.Timeout, big.NewInt(5), 6, nil
}
func (f *fakeChain) AverageBlockTime() time.Duration { return time.Duration(f.red.ABT) * time.Second }
func (f *fakeChain) PastRedemptionRequestedEvents(filter *tbtc.RedemptionRequestedEventFilter) ([]*tbtc.RedemptionRequestedEvent, error) {
	if f.red.EventsErr {
		return nil, errFake
	}
	out := []*tbtc.RedemptionRequestedEvent{}
	for _, e := range f.red.Events {
		ev := &tbtc.RedemptionRequestedEvent{WalletPublicKeyHash: walletPKH(e.Wallet),
			RedeemerOutputScript: scriptOf(e.Script), Redeemer: "0xee", BlockNumber: e.Block}
		if filter != nil {
			if e.Block < filter.StartBlock || (filter.EndBlock != nil && e.Block > *filter.EndBlock) {
				continue
			}
			if !inWallets(filter.WalletPublicKeyHash, ev.WalletPublicKeyHash) {
				continue
			}
			if len(filter.Redeemer) > 0 {
				ok := false
				for _, d := range filter.Redeemer {
					ok = ok || d == ev.Redeemer
				}
				if !ok {
					continue
				}
			}
		}
		out = append(out, ev)
	}
	return out, nil
}
func (f *fakeChain) BuildRedemptionKey(w [20]byte, sc bitcoin.Script) (*big.Int, error) {
	for _, p := range f.red.KeyErrs {
		if walletPKH(p[0]) == w && string(scriptOf(p[1])) == string(sc) {
			return nil, errFake
		}
	}
	s := sha256.Sum256(append(w[:], sc...))
	return new(big.Int).SetBytes(s[:]), nil
}
func (f *fakeChain) GetPendingRedemptionRequest(w [20]byte, sc bitcoin.Script) (*tbtc.RedemptionRequest, bool, error) {
	for _, p := range f.red.Pending {
		if walletPKH(p.Wallet) == w && string(scriptOf(p.Script)) == string(sc) {
			if p.State == "err" {
				return nil, false, errFake
			}
			return &tbtc.RedemptionRequest{RedeemerOutputScript: sc, RequestedAmount: 100000,
				RequestedAt: time.Unix(f.t0-p.Age, 0)}, true, nil
		}
	}
	return nil, false, nil
}
func (f *fakeChain) GetRedemptionDelay(w [20]byte, sc bitcoin.Script) (time.Duration, error) {
	for _, d := range f.red.Delays {
		if walletPKH(d.Wallet) == w && string(scriptOf(d.Script)) == string(sc) {
			if d.Err {
				return 0, errFake
			}
			return time.Duration(d.Secs) * time.Second, nil
		}
	}
	return 0, nil
}

type fakeBtc struct {
	bitcoin.Chain
	fc *fakeChain // the confirmations are part of the window's deposit state
}

func (f *fakeBtc) EstimateSatPerVByteFee(uint32) (int64, error) { return 1, nil }
func (f *fakeBtc) GetTransaction(h bitcoin.Hash) (*bitcoin.Transaction, error) {
	return &bitcoin.Transaction{Version: 1, Outputs: []*bitcoin.TransactionOutput{
		{Value: 1, PublicKeyScript: scriptOf(1)}, {Value: 1, PublicKeyScript: scriptOf(1)}, {Value: 1, PublicKeyScript: scriptOf(1)}}}, nil
}

func (f *fakeBtc) GetTransactionConfirmations(h bitcoin.Hash) (uint, error) {
	for _, c := range f.fc.dep.Confs {
		if txHash(c.Tx) == h {
			if c.Err {
				return 0, errFake
			}
			return c.Conf, nil
		}
	}
	return 0, errFake
}

// ---------------------------------------------------------------- running

var nullLogger = log.Logger("c33-driver")

func optZ(ok bool, v int64) string {
	if !ok {
		return "None"
	}
	return lib.Some(lib.Z(v))
}

// timed runs f with t0 = the current unix second and repeats it when the call did not finish
// within 2 s of t0 (so that the 5 s margin of the generated ages covers the clock the
// implementation reads); this only re-runs the case, it never decides anything.
func timed(f func(t0 int64)) {
	for try := 0; ; try++ {
		start := time.Now()
		f(start.Unix())
		if time.Since(start) < 2*time.Second || try >= 5 {
			return
		}
	}
}

// node is the long-lived object graph of one keep node (cmd/start.go builds the proposal
// generator, and with it every task, exactly once): one pair of chain handles, one
// DepositSweepTask, one RedemptionTask, one production ProposalGenerator, one generator over
// fake tasks.  A single case uses a fresh node; a history uses ONE node for all its windows and
// only replaces the fake chains' state (fc.dep / fc.red / fc.t0) between the windows.
type node struct {
	fc        *fakeChain
	fb        *fakeBtc
	sweep     *tbtcpg.DepositSweepTask
	red       *tbtcpg.RedemptionTask
	prod      *tbtcpg.ProposalGenerator
	fakeTasks []*fakeTask
	fakeGen   *tbtcpg.ProposalGenerator
	trace     []uint64
	// anchor != 0 (histories): the instant all ages of all windows are relative to, so that a
	// deposit's RevealedAt / a request's RequestedAt is the same at every window (on the real
	// chain they are written once); 0: ages are relative to the instant of the call
	anchor int64
}

func (nd *node) base(now int64) int64 {
	if nd.anchor != 0 {
		return nd.anchor
	}
	return now
}

func newNode() *node {
	fc := &fakeChain{}
	fb := &fakeBtc{fc: fc}
	return &node{fc: fc, fb: fb,
		sweep: tbtcpg.NewDepositSweepTask(fc, fb),
		red:   tbtcpg.NewRedemptionTask(fc, fb),
		prod:  tbtcpg.NewProposalGenerator(fc, fb)}
}

// winRes is what one window (= one case) produced.
type winRes struct {
	coq        string // the Coq term of type Model.C33.case
	fn, kind   string
	out        interface{}
	summary    string // kind + selection, to tell windows with different outputs apart
	nontrivial bool
	sig        map[string]interface{}
	tallies    []string
	drift      int64    // seconds between the anchor of the ages and the instant of the call
	selDeps    [][2]int // deposits selected (tx, idx)
	selScripts []int    // redemption scripts selected
}

func depErrKind(m string) string {
	switch {
	case strings.Contains(m, "wallet public key hash is required"):
		return "DepErrWallet"
	case strings.Contains(m, "no deposit request for key"):
		return "DepErrNoRequest"
	case strings.Contains(m, "failed to get deposit minimum age"), strings.Contains(m, "failed to get past deposit revealed events"),
		strings.Contains(m, "failed to get deposit request"):
		return "DepErrChain"
	}
	return "DepPanic"
}

func refTerm(tx uint64, idx uint32, block uint64) string {
	return fmt.Sprintf("{| d_tx := %s; d_idx := %s; d_block := %s; d_wallet := 0; d_swept := false; d_amount := 0%%Z; d_conf := 0%%Z |}",
		lib.N(tx), lib.N(uint64(idx)), lib.ZU(block))
}

// depRecord prints the dep_case record for the state [in] seen at the instant [now]; the ages
// of [in] are relative to t0
func depRecord(in *depIn, now, t0 int64, out string) string {
	var evs, reqs, confs []string
	for _, e := range in.Events {
		evs = append(evs, fmt.Sprintf("{| de_tx := %s; de_idx := %s; de_block := %s; de_wallet := %s |}",
			lib.N(uint64(e.Tx)), lib.N(uint64(e.Idx)), lib.ZU(e.Block), lib.N(uint64(e.Wallet))))
	}
	for _, r := range in.Reqs {
		l := "DLookErr"
		if r.State != "err" {
			swept := int64(0)
			if r.Swept != 0 {
				swept = t0 - r.Swept
			}
			l = fmt.Sprintf("(DFound %s %s %s)", lib.Z(t0-r.Age), lib.Z(swept), lib.ZU(r.Amount))
		}
		reqs = append(reqs, lib.Pair(lib.Pair(lib.N(uint64(r.Tx)), lib.N(uint64(r.Idx))), l))
	}
	for _, c := range in.Confs {
		confs = append(confs, lib.Pair(lib.N(uint64(c.Tx)), optZ(!c.Err, int64(c.Conf))))
	}
	minAge := "None"
	if in.MinAge != nil {
		minAge = lib.Some(lib.ZU(uint64(*in.MinAge)))
	}
	events := "None"
	if !in.EventsErr {
		events = lib.Some(lib.List(evs))
	}
	return fmt.Sprintf("{| dc_now := %s; dc_min_age := %s; dc_events := %s; dc_reqs := %s; dc_confs := %s; "+
		"dc_wallet := %s; dc_max := %s; dc_skip_swept := %s; dc_skip_unconf := %s; dc_to_sweep := %s; dc_out := %s |}",
		lib.Z(now), minAge, events, lib.List(reqs), lib.List(confs), lib.N(uint64(in.Wallet)), lib.Z(int64(in.Max)),
		lib.Bool(in.SkipSwept), lib.Bool(in.SkipUnconf), lib.Bool(in.ToSweep), out)
}

func doDeposits(nd *node, in *depIn) winRes {
	var t0, tnow int64
	kind, obs := "DepPanic", interface{}(nil)
	var deps []string
	var sel [][2]int
	timed(func(now int64) {
		t0, tnow = nd.base(now), now
		nd.fc.t0, nd.fc.dep = t0, in
		kind, obs, deps, sel = "DepPanic", nil, nil, nil
		defer func() {
			if r := recover(); r != nil {
				kind, obs = "DepPanic", fmt.Sprintf("panic: %v", r)
			}
		}()
		var err error
		var human []map[string]interface{}
		if in.ToSweep {
			var refs []*tbtcpg.DepositReference
			if in.ViaRun {
				var p tbtc.CoordinationProposal
				var ok bool
				p, ok, err = nd.sweep.Run(&tbtc.CoordinationProposalRequest{
					WalletPublicKeyHash: walletPKH(in.Wallet), ActionsChecklist: []tbtc.WalletActionType{tbtc.ActionDepositSweep}})
				if err == nil && ok {
					dsp := p.(*tbtc.DepositSweepProposal)
					for i, k := range dsp.DepositsKeys {
						refs = append(refs, &tbtcpg.DepositReference{FundingTxHash: k.FundingTxHash,
							FundingOutputIndex: k.FundingOutputIndex, RevealBlock: dsp.DepositsRevealBlocks[i].Uint64()})
					}
				}
			} else {
				refs, err = nd.sweep.FindDepositsToSweep(nullLogger, walletPKH(in.Wallet), uint16(in.Max))
			}
			for _, d := range refs {
				deps = append(deps, refTerm(txID(d.FundingTxHash), d.FundingOutputIndex, d.RevealBlock))
				human = append(human, map[string]interface{}{"tx": txID(d.FundingTxHash), "idx": d.FundingOutputIndex, "block": d.RevealBlock})
				sel = append(sel, [2]int{int(txID(d.FundingTxHash)), int(d.FundingOutputIndex)})
			}
		} else {
			var ds []*tbtcpg.Deposit
			ds, err = tbtcpg.FindDeposits(nd.fc, nd.fb, walletPKH(in.Wallet), in.Max, in.SkipSwept, in.SkipUnconf)
			for _, d := range ds {
				amount := int64(math.Round(d.AmountBtc * 1e8))
				deps = append(deps, fmt.Sprintf("{| d_tx := %s; d_idx := %s; d_block := %s; d_wallet := %s; d_swept := %s; d_amount := %s; d_conf := %s |}",
					lib.N(txID(d.FundingTxHash)), lib.N(uint64(d.FundingOutputIndex)), lib.ZU(d.RevealBlock),
					lib.N(walletID(d.WalletPublicKeyHash)), lib.Bool(d.IsSwept), lib.Z(amount), lib.ZU(uint64(d.Confirmations))))
				human = append(human, map[string]interface{}{"tx": txID(d.FundingTxHash), "idx": d.FundingOutputIndex,
					"block": d.RevealBlock, "wallet": walletID(d.WalletPublicKeyHash), "swept": d.IsSwept, "amount": amount, "conf": d.Confirmations})
				if !d.IsSwept {
					sel = append(sel, [2]int{int(txID(d.FundingTxHash)), int(d.FundingOutputIndex)})
				}
			}
		}
		if err == nil {
			kind, obs = "DepOk", human
			return
		}
		obs = err.Error()
		kind = depErrKind(err.Error())
	})
	out := kind
	if kind == "DepOk" {
		out = "(DepOk " + lib.List(deps) + ")"
	}
	// structural features
	blocks := map[uint64]int{}
	ooo := false
	var prev uint64
	for i, e := range in.Events {
		blocks[e.Block]++
		if i > 0 && e.Block < prev {
			ooo = true
		}
		prev = e.Block
	}
	ties := false
	for _, n := range blocks {
		ties = ties || n >= 2
	}
	fn := "deposits"
	if in.ToSweep {
		fn = "toSweep"
	}
	if in.ViaRun {
		fn = "sweepRun"
	}
	res := winRes{coq: "(CDep " + depRecord(in, tnow, t0, out) + ")", fn: fn, kind: kind, out: obs, selDeps: sel, drift: tnow - t0,
		summary:    fmt.Sprintf("%s%v", kind, sel),
		nontrivial: len(in.Events) >= 3 && (ties || ooo) && kind == "DepOk" && len(deps) >= 1 && len(deps) < len(in.Events),
		sig:        map[string]interface{}{"fn": fn, "out": kind, "ties": ties, "outOfOrder": ooo}}
	res.tallies = append(res.tallies, fn+"-"+kind)
	if kind == "DepOk" {
		res.tallies = append(res.tallies, fmt.Sprintf("%s-found-%02d", fn, len(deps)))
		if in.Max > 0 && len(deps) == in.Max {
			res.tallies = append(res.tallies, fn+"-capped")
		}
	}
	return res
}

func redErrKind(m string) string {
	switch {
	case strings.Contains(m, "wallet public key hash is required"):
		return "RedErrWallet"
	case strings.Contains(m, "failed to get block counter"), strings.Contains(m, "failed to get current block number"),
		strings.Contains(m, "failed to get redemption request minimum age"), strings.Contains(m, "failed to get redemption parameters"),
		strings.Contains(m, "cannot get pending redemptions"):
		return "RedErrChain"
	}
	return "RedPanic"
}

// redRecord prints the red_case record for the state [in] seen at the instant [now]; the ages
// of [in] are relative to t0
func redRecord(in *redIn, now, t0 int64, out string) string {
	keyErr := func(w, s int) bool {
		for _, p := range in.KeyErrs {
			if p[0] == w && p[1] == s {
				return true
			}
		}
		return false
	}
	var evs, pend, delays []string
	for _, e := range in.Events {
		k := "None"
		if !keyErr(e.Wallet, e.Script) {
			k = lib.Some(lib.N(uint64(e.Wallet)*100000 + uint64(e.Script)))
		}
		evs = append(evs, fmt.Sprintf("{| re_block := %s; re_wallet := %s; re_script := %s; re_key := %s |}",
			lib.ZU(e.Block), lib.N(uint64(e.Wallet)), lib.N(uint64(e.Script)), k))
	}
	for _, p := range in.Pending {
		l := "RLookErr"
		if p.State != "err" {
			l = "(RFound " + lib.Z(t0-p.Age) + ")"
		}
		pend = append(pend, lib.Pair(lib.Pair(lib.N(uint64(p.Wallet)), lib.N(uint64(p.Script))), l))
	}
	for _, d := range in.Delays {
		delays = append(delays, lib.Pair(lib.Pair(lib.N(uint64(d.Wallet)), lib.N(uint64(d.Script))), optZ(!d.Err, d.Secs)))
	}
	optU := func(ok bool, v uint64) string {
		if !ok {
			return "None"
		}
		return lib.Some(lib.ZU(v))
	}
	var cur, ma, tmo uint64
	if in.Current != nil {
		cur = *in.Current
	}
	if in.MinAge != nil {
		ma = uint64(*in.MinAge)
	}
	if in.Timeout != nil {
		tmo = uint64(*in.Timeout)
	}
	events := "None"
	if !in.EventsErr {
		events = lib.Some(lib.List(evs))
	}
	return fmt.Sprintf("{| rc_now := %s; rc_current := %s; rc_min_age := %s; rc_timeout := %s; rc_abt := %s; "+
		"rc_events := %s; rc_pending := %s; rc_delay := %s; rc_wallet := %s; rc_limit := %s; rc_out := %s |}",
		lib.Z(now), optU(in.Current != nil, cur), optU(in.MinAge != nil, ma), optU(in.Timeout != nil, tmo), lib.Z(int64(in.ABT)),
		events, lib.List(pend), lib.List(delays), lib.N(uint64(in.Wallet)), lib.Z(int64(in.Limit)), out)
}

func doRedemptions(nd *node, in *redIn) winRes {
	var t0, tnow int64
	kind, obs := "RedPanic", interface{}(nil)
	var scripts []uint64
	timed(func(now int64) {
		t0, tnow = nd.base(now), now
		nd.fc.t0, nd.fc.red = t0, in
		kind, obs, scripts = "RedPanic", nil, nil
		defer func() {
			if r := recover(); r != nil {
				kind, obs = "RedPanic", fmt.Sprintf("panic: %v", r)
			}
		}()
		var res []bitcoin.Script
		var err error
		if in.ViaRun {
			var p tbtc.CoordinationProposal
			var ok bool
			p, ok, err = nd.red.Run(&tbtc.CoordinationProposalRequest{
				WalletPublicKeyHash: walletPKH(in.Wallet), ActionsChecklist: []tbtc.WalletActionType{tbtc.ActionRedemption}})
			if err == nil && ok {
				res = p.(*tbtc.RedemptionProposal).RedeemersOutputScripts
			}
		} else {
			res, err = nd.red.FindPendingRedemptions(nullLogger, walletPKH(in.Wallet), in.Limit)
		}
		if err == nil {
			for _, s := range res {
				scripts = append(scripts, scriptID(s))
			}
			kind, obs = "RedOk", scripts
			return
		}
		obs = err.Error()
		kind = redErrKind(err.Error())
	})
	out := kind
	if kind == "RedOk" {
		out = "(RedOk " + lib.ListN(scripts) + ")"
	}
	keys := map[[2]int]int{}
	for _, e := range in.Events {
		keys[[2]int{e.Wallet, e.Script}]++
	}
	dup := false
	for _, n := range keys {
		dup = dup || n >= 2
	}
	ages := map[int64]int{}
	tie := false
	for _, p := range in.Pending {
		ages[p.Age]++
		tie = tie || ages[p.Age] >= 2
	}
	res := winRes{coq: "(CRed " + redRecord(in, tnow, t0, out) + ")", fn: "redemptions", kind: kind, out: obs, drift: tnow - t0,
		summary:    fmt.Sprintf("%s%v", kind, scripts),
		nontrivial: dup && kind == "RedOk" && len(scripts) >= 2,
		sig:        map[string]interface{}{"fn": "redemptions", "viaRun": in.ViaRun, "out": kind, "dupKeys": dup, "ageTies": tie}}
	for _, s := range scripts {
		res.selScripts = append(res.selScripts, int(s))
	}
	if in.ViaRun {
		res.tallies = append(res.tallies, "redemptionRun-"+kind)
	}
	res.tallies = append(res.tallies, "redemptions-"+kind)
	if kind == "RedOk" {
		res.tallies = append(res.tallies, fmt.Sprintf("redemptions-found-%02d", len(scripts)))
		if in.Limit > 0 && len(scripts) == int(in.Limit) {
			res.tallies = append(res.tallies, "redemptions-capped")
		}
	}
	return res
}

// ---- generator

type fakeProposal struct {
	tbtc.NoopProposal // Marshal / Unmarshal / ValidityBlocks
	id                uint64
}

type fakeTask struct {
	idx   int
	spec  gTask
	prop  *fakeProposal
	trace *[]uint64
}

func (t *fakeTask) Run(*tbtc.CoordinationProposalRequest) (tbtc.CoordinationProposal, bool, error) {
	*t.trace = append(*t.trace, uint64(t.idx))
	switch t.spec.Out {
	case "prop":
		return t.prop, true, nil
	case "err":
		return nil, false, errFake
	}
	return nil, false, nil
}
func (t *fakeTask) ActionType() tbtc.WalletActionType { return tbtc.WalletActionType(t.spec.Action) }

// doGenerate runs Generate on the node's generator over fake tasks.  The generator and its task
// objects are built at the first call; later windows only change what the tasks answer (a
// window with another number of tasks gets a new generator).
func doGenerate(nd *node, in *genIn) winRes {
	if nd.fakeGen == nil || len(nd.fakeTasks) != len(in.Tasks) {
		nd.fakeTasks = make([]*fakeTask, len(in.Tasks))
		tasks := make([]tbtcpg.ProposalTask, len(in.Tasks))
		for i := range in.Tasks {
			nd.fakeTasks[i] = &fakeTask{idx: i, prop: &fakeProposal{id: uint64(i + 1)}, trace: &nd.trace}
			tasks[i] = nd.fakeTasks[i]
		}
		nd.fakeGen = tbtcpg.VerifNewProposalGenerator(tasks)
	}
	nd.trace = nil
	var taskTerms []string
	for i, s := range in.Tasks {
		nd.fakeTasks[i].spec = s
		o := "TNone"
		switch s.Out {
		case "prop":
			o = fmt.Sprintf("(TProp %s)", lib.N(uint64(i+1)))
		case "err":
			o = "TErr"
		}
		taskTerms = append(taskTerms, fmt.Sprintf("{| tk_action := %s; tk_out := %s |}", lib.N(uint64(s.Action)), o))
	}
	checklist := make([]tbtc.WalletActionType, len(in.Checklist))
	cl := make([]uint64, len(in.Checklist))
	for i, a := range in.Checklist {
		checklist[i] = tbtc.WalletActionType(a)
		cl[i] = uint64(a)
	}
	kind, obs := "GErr", interface{}(nil)
	out := "GErr"
	func() {
		defer func() {
			if r := recover(); r != nil {
				kind, out, obs = "Panic", "(GProp 999999)", fmt.Sprintf("panic: %v", r)
			}
		}()
		p, err := nd.fakeGen.Generate(&tbtc.CoordinationProposalRequest{
			WalletPublicKeyHash: walletPKH(1), ActionsChecklist: checklist})
		switch {
		case err != nil:
			kind, out, obs = "GErr", "GErr", err.Error()
		case p == nil:
			kind, out, obs = "GNil", "(GProp 999999)", "nil proposal"
		default:
			if fp, ok := p.(*fakeProposal); ok {
				kind, out, obs = "GProp", fmt.Sprintf("(GProp %s)", lib.N(fp.id)), fp.id
			} else if _, ok := p.(*tbtc.NoopProposal); ok {
				kind, out, obs = "GNoop", "GNoop", "noop"
			} else {
				kind, out, obs = "GOther", "(GProp 999998)", fmt.Sprintf("%T", p)
			}
		}
	}()
	trace := append([]uint64{}, nd.trace...)
	coq := fmt.Sprintf("(CGen {| gc_tasks := %s; gc_checklist := %s; gc_out := %s; gc_trace := %s |})",
		lib.List(taskTerms), lib.ListN(cl), out, lib.ListN(trace))
	return winRes{coq: coq, fn: "generate", kind: kind, summary: out + fmt.Sprint(trace),
		out:        map[string]interface{}{"result": obs, "ran": trace},
		nontrivial: len(in.Checklist) >= 2 && len(trace) >= 2,
		sig:        map[string]interface{}{"fn": "generate", "out": kind},
		tallies:    []string{"generate-" + kind}}
}

// doPG runs Generate on the node's PRODUCTION generator (tbtcpg.NewProposalGenerator: the real
// DepositSweepTask, RedemptionTask, HeartbeatTask ...) against the window's chain state.
func doPG(nd *node, in *pgIn) winRes {
	var t0, tnow int64
	kind, out, obs := "PPanic", "PPanic", interface{}(nil)
	var res winRes
	checklist := make([]tbtc.WalletActionType, len(in.Checklist))
	cl := make([]uint64, len(in.Checklist))
	for i, a := range in.Checklist {
		checklist[i] = tbtc.WalletActionType(a)
		cl[i] = uint64(a)
	}
	timed(func(now int64) {
		t0, tnow = nd.base(now), now
		nd.fc.t0, nd.fc.dep, nd.fc.red, nd.fc.hbInvalid = t0, in.Dep, in.Red, in.HbInvalid
		kind, out, obs = "PPanic", "PPanic", nil
		res.selDeps, res.selScripts = nil, nil
		defer func() {
			if r := recover(); r != nil {
				kind, out, obs = "PPanic", "PPanic", fmt.Sprintf("panic: %v", r)
			}
		}()
		p, err := nd.prod.Generate(&tbtc.CoordinationProposalRequest{
			WalletPublicKeyHash: walletPKH(in.Dep.Wallet), ActionsChecklist: checklist})
		if err != nil {
			kind, out, obs = "PErr", "PErr", err.Error()
			return
		}
		switch q := p.(type) {
		case *tbtc.DepositSweepProposal:
			var deps []string
			var human []map[string]interface{}
			for i, k := range q.DepositsKeys {
				b := q.DepositsRevealBlocks[i].Uint64()
				deps = append(deps, refTerm(txID(k.FundingTxHash), k.FundingOutputIndex, b))
				human = append(human, map[string]interface{}{"tx": txID(k.FundingTxHash), "idx": k.FundingOutputIndex, "block": b})
				res.selDeps = append(res.selDeps, [2]int{int(txID(k.FundingTxHash)), int(k.FundingOutputIndex)})
			}
			kind, out, obs = "PSweep", "(PSweep "+lib.List(deps)+")", human
		case *tbtc.RedemptionProposal:
			var scripts []uint64
			for _, s := range q.RedeemersOutputScripts {
				scripts = append(scripts, scriptID(s))
				res.selScripts = append(res.selScripts, int(scriptID(s)))
			}
			kind, out, obs = "PRedeem", "(PRedeem "+lib.ListN(scripts)+")", scripts
		case *tbtc.HeartbeatProposal:
			kind, out, obs = "PHeartbeat", "PHeartbeat", "heartbeat"
		case *tbtc.NoopProposal:
			kind, out, obs = "PNoop", "PNoop", "noop"
		default:
			kind, out, obs = "PPanic", "PPanic", fmt.Sprintf("unexpected proposal %T", p)
		}
	})
	res.coq = fmt.Sprintf("(CPG {| pg_dep := %s; pg_red := %s; pg_hb_valid := %s; pg_checklist := %s; pg_out := %s |})",
		depRecord(in.Dep, tnow, t0, "DepPanic"), redRecord(in.Red, tnow, t0, "RedPanic"), lib.Bool(!in.HbInvalid), lib.ListN(cl), out)
	res.fn, res.kind, res.out, res.drift = "pg", kind, obs, tnow-t0
	res.summary = fmt.Sprintf("%s%v%v", kind, res.selDeps, res.selScripts)
	res.nontrivial = len(in.Checklist) >= 2 && (kind == "PSweep" || kind == "PRedeem")
	res.sig = map[string]interface{}{"fn": "pg", "out": kind}
	res.tallies = []string{"pg-" + kind}
	return res
}

func doWindow(nd *node, in input) winRes {
	switch in.Fn {
	case "deposits":
		return doDeposits(nd, in.Dep)
	case "redemptions":
		return doRedemptions(nd, in.Red)
	case "generate":
		return doGenerate(nd, in.Gen)
	case "pg":
		return doPG(nd, in.PG)
	}
	panic("unknown window kind " + in.Fn)
}

// In a history all ages are relative to the instant the history started (the anchor) and are
// kept >= histMargin seconds away from the boundaries of every window's parameters; a history
// whose windows did not all start within histMaxDrift seconds of the anchor is run again (this
// only repeats the run, it never decides anything).
const histMargin, histMaxDrift = 30, 20

func maxDrift(results []winRes) int64 {
	var m int64
	for _, r := range results {
		if r.drift > m {
			m = r.drift
		}
	}
	return m
}

func emitHistory(h *histIn, results []winRes, em *lib.Emitter, id string) {
	var terms, kinds []string
	var outs []interface{}
	differ, selected := false, false
	last := map[string]string{} // the previous window of the same call
	for i, r := range results {
		terms = append(terms, r.coq)
		kinds = append(kinds, r.fn+"-"+r.kind)
		outs = append(outs, map[string]interface{}{"window": i, "fn": r.fn, "out": r.out})
		for _, t := range r.tallies {
			em.Tally("hist-" + t)
		}
		if prev, ok := last[r.fn]; ok && prev != r.summary {
			differ = true
		}
		last[r.fn] = r.summary
		selected = selected || len(r.selDeps) > 0 || len(r.selScripts) > 0 || r.kind == "GProp"
	}
	em.Tally(fmt.Sprintf("history-%s-windows-%d", h.Kind, len(results)))
	key, _ := json.Marshal(h)
	em.Case(lib.Case{ID: id, Coq: "(CHist " + lib.List(terms) + ")", Key: "hist" + string(key),
		Nontrivial: len(results) >= 2 && differ && selected,
		Sig:        map[string]interface{}{"fn": "history", "kind": h.Kind, "windows": kinds},
		In:         input{Fn: "history", Hist: h}, Out: outs})
}

func run(in input, em *lib.Emitter, id string) {
	if in.Fn == "history" {
		var results []winRes
		for try := 0; try < 5; try++ {
			nd := newNode()
			nd.anchor = time.Now().Unix()
			results = nil
			for _, w := range in.Hist.Windows {
				results = append(results, doWindow(nd, w))
			}
			if maxDrift(results) <= histMaxDrift {
				break
			}
		}
		emitHistory(in.Hist, results, em, id)
		return
	}
	r := doWindow(newNode(), in)
	for _, t := range r.tallies {
		em.Tally(t)
	}
	var key []byte
	switch in.Fn {
	case "deposits":
		key, _ = json.Marshal(in.Dep)
		key = append([]byte(r.fn), key...)
	case "redemptions":
		key, _ = json.Marshal(in.Red)
		key = append([]byte("red"), key...)
	case "generate":
		key, _ = json.Marshal(in.Gen)
		key = append([]byte("gen"), key...)
	default:
		key, _ = json.Marshal(in.PG)
		key = append([]byte("pg"), key...)
	}
	em.Case(lib.Case{ID: id, Coq: "(COne " + r.coq + ")", Key: string(key), Nontrivial: r.nontrivial, Sig: r.sig, In: in, Out: r.out})
}

// ---------------------------------------------------------------- generation

func u32(v uint32) *uint32 { return &v }
func u64(v uint64) *uint64 { return &v }

// ageAround returns an age at least 5 s away from the boundary b (and >= 0)
func ageAround(r *lib.Rng, b int64) int64 {
	var a int64
	switch r.Intn(6) {
	case 0:
		a = b - int64(r.Range(5, 60))
	case 1:
		a = b + int64(r.Range(5, 60))
	case 2:
		a = b / 2
	case 3:
		a = b*2 + 100
	case 4:
		a = b + 100*int64(r.Range(1, 4)) // a small set of values: ties
	default:
		a = b - 100*int64(r.Range(1, 4))
	}
	if a < 0 {
		a = 0
	}
	if a > b-5 && a < b+5 {
		a = b + 5
	}
	return a
}

func genDeposits(r *lib.Rng, malformed bool) *depIn { return genDepositsN(r, malformed, 10) }

// genDepositsN: at most nmax events (a larger history once in a while when nmax >= 10)
func genDepositsN(r *lib.Rng, malformed bool, nmax int) *depIn {
	in := &depIn{MinAge: u32(uint32(r.Range(600, 7200))), Wallet: r.Range(1, 3), SkipSwept: true, SkipUnconf: true}
	switch r.Intn(4) {
	case 0:
		in.Max = 0
	case 1:
		in.Max = r.Range(1, 3)
	case 2:
		in.Max = r.Range(1, 12)
	default:
		in.Max = r.Range(3, 6)
	}
	switch r.Intn(6) {
	case 0:
		in.ToSweep = true
		if r.Bool() {
			in.ViaRun = true
			if in.Max <= 0 {
				in.Max = r.Range(1, 20)
			}
		}
	case 1:
		in.SkipSwept = false
	case 2:
		in.SkipUnconf = false
	case 3:
		in.SkipSwept, in.SkipUnconf = r.Bool(), r.Bool()
	}
	if !in.ToSweep && r.Chance(1, 10) {
		in.Wallet = 0 // no wallet filter
		if r.Chance(1, 3) {
			in.Max = -1
		}
	}
	n := r.Range(0, nmax)
	if r.Chance(1, 8) && nmax >= 10 {
		n = r.Range(10, 16)
	}
	base := uint64(r.Range(1000, 100000))
	sortedBlocks := r.Chance(1, 2)
	blk := base
	nextTx := 1
	for i := 0; i < n; i++ {
		e := dEv{Tx: nextTx, Idx: uint32(r.Intn(3)), Wallet: in.Wallet}
		nextTx++
		if in.Wallet == 0 || r.Chance(1, 5) {
			e.Wallet = r.Range(1, 3)
		}
		if i > 0 && r.Chance(1, 6) { // same funding transaction, another output
			e.Tx = in.Events[r.Intn(i)].Tx
			e.Idx = uint32(3 + i)
		}
		if sortedBlocks {
			blk += uint64(r.Intn(3)) // ties
			e.Block = blk
		} else {
			e.Block = base + uint64(r.Intn(6)) // ties and out of order
		}
		in.Events = append(in.Events, e)
		req := dReq{Tx: e.Tx, Idx: e.Idx, State: "found", Age: ageAround(r, int64(*in.MinAge)), Amount: uint64(r.Range(10000, 200000000))}
		if r.Chance(2, 3) {
			req.Age = int64(*in.MinAge) + int64(r.Range(5, 100000)) // mostly old enough
		}
		if r.Chance(1, 5) {
			req.Swept = int64(r.Range(1, 5000))
		}
		in.Reqs = append(in.Reqs, req)
		known := false
		for _, c := range in.Confs {
			known = known || c.Tx == e.Tx
		}
		if !known {
			c := dConf{Tx: e.Tx, Conf: uint(r.Range(0, 12))}
			if r.Chance(1, 2) {
				c.Conf = uint(r.Range(4, 8)) // around the required number
			}
			if r.Chance(1, 12) {
				c.Err = true
			}
			in.Confs = append(in.Confs, c)
		}
	}
	if malformed && n > 0 {
		k := r.Intn(n)
		switch r.Intn(5) {
		case 0:
			in.MinAge = nil
		case 1:
			in.EventsErr = true
		case 2:
			in.Reqs[k].State = "err"
		case 3:
			in.Reqs = append(in.Reqs[:k], in.Reqs[k+1:]...) // request not found
		default:
			in.Reqs[r.Intn(len(in.Reqs))].State = "err"
			in.Max = 1
		}
	}
	return in
}

func genRedemptions(r *lib.Rng, malformed bool) *redIn { return genRedemptionsN(r, malformed, 8, 0) }

// genRedemptionsN: at most kmax redemption keys; wallet 0 = a random wallet
func genRedemptionsN(r *lib.Rng, malformed bool, kmax int, wallet int) *redIn {
	minAge := uint32(r.Range(300, 3600))
	timeout := uint32(r.Range(20000, 200000))
	abt := []int{12, 12, 12, 1, 5, 13, 15}[r.Intn(7)]
	cur := uint64(r.Range(100, 300000))
	in := &redIn{Current: &cur, MinAge: &minAge, Timeout: &timeout, ABT: abt, Wallet: r.Range(1, 3)}
	if wallet != 0 {
		in.Wallet = wallet
	}
	switch r.Intn(4) {
	case 0:
		in.Limit = 0
	case 1:
		in.Limit = uint16(r.Range(1, 3))
	default:
		in.Limit = uint16(r.Range(1, 10))
	}
	if r.Chance(1, 5) {
		in.ViaRun = true
	}
	lookback := uint64(timeout)/uint64(abt) + 1000
	var start uint64
	if cur > lookback {
		start = cur - lookback
	}
	nKeys := r.Range(0, kmax)
	ageSet := r.Chance(1, 2) // draw ages from a small set: many ties
	for k := 1; k <= nKeys; k++ {
		w := in.Wallet
		if r.Chance(1, 6) {
			w = r.Range(1, 3)
		}
		nev := 1
		if r.Chance(1, 3) {
			nev = r.Range(2, 3) // several events for one key
		}
		for j := 0; j < nev; j++ {
			var b uint64
			switch r.Intn(5) {
			case 0: // around the start of the block range
				b = start + uint64(r.Intn(3))
				if r.Bool() && b > 2 {
					b -= 2
				}
			default:
				b = start + uint64(r.Intn(int(cur-start)+1))
			}
			in.Events = append(in.Events, rEv{Block: b, Wallet: w, Script: k})
		}
		if r.Chance(5, 6) {
			hi := int64(minAge)
			var d int64
			if r.Chance(1, 4) {
				d = int64(minAge) + int64(r.Range(100, 3000))
				if r.Chance(1, 3) {
					d = int64(r.Range(0, int(minAge)))
				}
				in.Delays = append(in.Delays, rDelay{Wallet: w, Script: k, Secs: d})
				if d > hi {
					hi = d
				}
			}
			p := rPend{Wallet: w, Script: k, State: "found"}
			switch {
			case ageSet:
				p.Age = hi + 500*int64(r.Range(1, 4))
			case r.Chance(1, 2):
				p.Age = hi + int64(r.Range(5, int(int64(timeout)-hi-5)))
			case r.Bool():
				p.Age = ageAround(r, hi)
			default:
				p.Age = ageAround(r, int64(timeout))
			}
			in.Pending = append(in.Pending, p)
		}
	}
	// event order as the chain returns it: mostly by block, sometimes shuffled
	if r.Chance(1, 2) {
		for i := 1; i < len(in.Events); i++ {
			for j := i; j > 0 && in.Events[j].Block < in.Events[j-1].Block; j-- {
				in.Events[j], in.Events[j-1] = in.Events[j-1], in.Events[j]
			}
		}
	}
	if malformed {
		switch r.Intn(8) {
		case 0:
			in.Current = nil
		case 1:
			in.MinAge = nil
		case 2:
			in.Timeout = nil
		case 3:
			in.EventsErr = true
		case 4:
			if len(in.Events) > 0 {
				e := in.Events[r.Intn(len(in.Events))]
				in.KeyErrs = append(in.KeyErrs, [2]int{e.Wallet, e.Script})
			}
		case 5:
			if len(in.Pending) > 0 {
				in.Pending[r.Intn(len(in.Pending))].State = "err"
			}
		case 6:
			if len(in.Pending) > 0 {
				p := in.Pending[r.Intn(len(in.Pending))]
				in.Delays = append([]rDelay{{Wallet: p.Wallet, Script: p.Script, Err: true}}, in.Delays...)
			}
		default:
			in.Wallet = 0
		}
	}
	return in
}

func genGenerate(r *lib.Rng) *genIn {
	in := &genIn{}
	outs := []string{"prop", "none", "none", "err"}
	for n := r.Range(0, 6); n > 0; n-- {
		in.Tasks = append(in.Tasks, gTask{Action: uint8(r.Range(1, 5)), Out: outs[r.Intn(len(outs))]})
	}
	for n := r.Range(0, 6); n > 0; n-- {
		in.Checklist = append(in.Checklist, uint8(r.Range(0, 6)))
	}
	return in
}

// ---------------------------------------------------------------- window histories

func cloneDep(in *depIn) *depIn {
	b, _ := json.Marshal(in)
	out := &depIn{}
	_ = json.Unmarshal(b, out)
	return out
}
func cloneRed(in *redIn) *redIn {
	b, _ := json.Marshal(in)
	out := &redIn{}
	_ = json.Unmarshal(b, out)
	return out
}

// away: is the age at least histMargin seconds away from the boundary b?
func away(age, b int64) bool { return age <= b-histMargin || age >= b+histMargin }

// normDep keeps the minimum-age boundary of the window >= histMargin seconds away from every
// reveal age: the ages belong to the deposits and stay, the parameter moves
func normDep(in *depIn) {
	if in.MinAge == nil {
		return
	}
	for k := 0; k < 50; k++ {
		ok := true
		for _, q := range in.Reqs {
			ok = ok && away(q.Age, int64(*in.MinAge))
		}
		if ok {
			return
		}
		*in.MinAge += histMargin
	}
}

func redDelayOf(in *redIn, w, s int) int64 {
	for _, d := range in.Delays {
		if d.Wallet == w && d.Script == s {
			if d.Err {
				return 0
			}
			return d.Secs
		}
	}
	return 0
}

// normRed keeps both boundaries of the window - max(minAge, delay) and the timeout - >=
// histMargin seconds away from every request age: the ages belong to the requests and stay, the
// parameters (minimum age, delays, timeout) move
func normRed(in *redIn) {
	for k := 0; k < 200; k++ {
		ok := true
		for _, p := range in.Pending {
			if in.Timeout != nil && !away(p.Age, int64(*in.Timeout)) {
				*in.Timeout += histMargin
				ok = false
			}
			if in.MinAge == nil {
				continue
			}
			d := redDelayOf(in, p.Wallet, p.Script)
			if d > int64(*in.MinAge) {
				if !away(p.Age, d) {
					for i := range in.Delays {
						if in.Delays[i].Wallet == p.Wallet && in.Delays[i].Script == p.Script {
							in.Delays[i].Secs += histMargin
							break
						}
					}
					ok = false
				}
			} else if !away(p.Age, int64(*in.MinAge)) {
				*in.MinAge += histMargin
				ok = false
			}
		}
		if ok {
			return
		}
	}
}

// newParam: a parameter value that puts the boundary next to (>= histMargin away from) one of
// the given ages, so that the request / deposit changes sides; lo <= result
func newParam(r *lib.Rng, ages []int64, lo, hi int) uint32 {
	if len(ages) == 0 || r.Chance(1, 3) {
		return uint32(r.Range(lo, hi))
	}
	v := ages[r.Intn(len(ages))]
	if r.Bool() {
		v += int64(r.Range(histMargin, 600))
	} else {
		v -= int64(r.Range(histMargin, 600))
	}
	if v < int64(lo) {
		v = int64(lo)
	}
	return uint32(v)
}

var windowGaps = []int64{30, 900, 3600, 21600}

// evolveDep: the deposit side of the chain between two coordination windows.  [sel] are the
// deposits the previous window selected: mostly they get swept.
func evolveDep(r *lib.Rng, prev *depIn, sel [][2]int) *depIn {
	in := cloneDep(prev)
	in.EventsErr = false // failures are transient
	if in.MinAge == nil {
		in.MinAge = u32(uint32(r.Range(600, 7200)))
	}
	var ages []int64
	for i := range in.Reqs {
		q := &in.Reqs[i]
		ages = append(ages, q.Age)
		if q.State == "err" && r.Bool() {
			q.State = "found"
		}
	}
	sweep := func(tx, idx int) {
		for i := range in.Reqs {
			if in.Reqs[i].Tx == tx && int(in.Reqs[i].Idx) == idx && in.Reqs[i].Swept == 0 {
				in.Reqs[i].Swept = int64(r.Range(1, 3000))
			}
		}
	}
	switch mode := r.Intn(8); {
	case mode == 0: // nothing gets swept
	case mode == 1 && len(sel) > 0: // the sweep covered a prefix only
		for _, d := range sel[:r.Range(1, len(sel))] {
			sweep(d[0], d[1])
		}
	case mode == 2 && len(in.Reqs) > 0: // somebody else's sweep
		q := in.Reqs[r.Intn(len(in.Reqs))]
		sweep(q.Tx, int(q.Idx))
	default:
		for _, d := range sel {
			sweep(d[0], d[1])
		}
	}
	if r.Chance(1, 12) { // reorganisation: a swept deposit is unswept again
		for i := range in.Reqs {
			if in.Reqs[i].Swept != 0 {
				in.Reqs[i].Swept = 0
				break
			}
		}
	}
	// new reveals
	maxTx, maxBlock := 0, uint64(1000)
	for _, e := range in.Events {
		if e.Tx > maxTx {
			maxTx = e.Tx
		}
		if e.Block > maxBlock {
			maxBlock = e.Block
		}
	}
	for k := r.Intn(3); k > 0; k-- {
		maxTx++
		e := dEv{Tx: maxTx, Idx: uint32(r.Intn(3)), Wallet: in.Wallet, Block: maxBlock + uint64(r.Intn(3))}
		if r.Chance(1, 6) {
			e.Wallet = r.Range(1, 3)
		}
		if r.Chance(1, 5) && len(in.Events) > 0 { // an event of an older block shows up late
			e.Block = in.Events[r.Intn(len(in.Events))].Block
		}
		maxBlock = e.Block
		req := dReq{Tx: e.Tx, Idx: e.Idx, State: "found", Age: ageAround(r, int64(*in.MinAge)), Amount: uint64(r.Range(10000, 200000000))}
		if r.Bool() {
			req.Age = int64(*in.MinAge) + int64(r.Range(5, 100000))
		}
		in.Events = append(in.Events, e)
		in.Reqs = append(in.Reqs, req)
		in.Confs = append(in.Confs, dConf{Tx: e.Tx, Conf: uint(r.Range(0, 8))})
	}
	// funding transactions gain confirmations
	for i := range in.Confs {
		c := &in.Confs[i]
		if r.Bool() {
			c.Conf += uint(r.Intn(4))
		}
		if c.Err {
			c.Err = r.Bool()
		} else if r.Chance(1, 20) {
			c.Err = true
		}
	}
	// parameters: a changed minimum age makes deposits mature / immature again
	if r.Chance(1, 3) {
		in.MinAge = u32(newParam(r, ages, 60, 7200))
	}
	if r.Chance(1, 4) {
		in.Max = r.Range(1, 4)
	}
	// transient failures
	if r.Chance(1, 15) && len(in.Reqs) > 0 {
		in.Reqs[r.Intn(len(in.Reqs))].State = "err"
	}
	if r.Chance(1, 30) {
		in.MinAge = nil
	}
	if r.Chance(1, 30) {
		in.EventsErr = true
	}
	normDep(in)
	return in
}

// evolveRed: the redemption side of the chain between two coordination windows.  [sel] are the
// scripts the previous window selected: mostly these requests get processed.
func evolveRed(r *lib.Rng, prev *redIn, sel []int) *redIn {
	in := cloneRed(prev)
	in.EventsErr = false
	if r.Bool() {
		in.KeyErrs = nil
	}
	if in.MinAge == nil {
		in.MinAge = u32(uint32(r.Range(300, 3600)))
	}
	if in.Timeout == nil {
		in.Timeout = u32(uint32(r.Range(20000, 200000)))
	}
	if in.Current == nil {
		in.Current = u64(uint64(r.Range(100, 300000)))
	}
	*in.Current += uint64(windowGaps[r.Intn(len(windowGaps))])/uint64(in.ABT) + uint64(r.Intn(3))
	var ages []int64
	for i := range in.Pending {
		ages = append(ages, in.Pending[i].Age)
		if in.Pending[i].State == "err" && r.Bool() {
			in.Pending[i].State = "found"
		}
	}
	var delays []rDelay
	for _, d := range in.Delays {
		if d.Err && r.Bool() {
			continue
		}
		delays = append(delays, d)
	}
	in.Delays = delays
	remove := func(w, s int) {
		var keep []rPend
		for _, p := range in.Pending {
			if !(p.Wallet == w && p.Script == s) {
				keep = append(keep, p)
			}
		}
		in.Pending = keep
	}
	switch mode := r.Intn(8); {
	case mode <= 1: // nothing processed
	case mode <= 3 && len(sel) > 0:
		for _, s := range sel[:r.Range(1, len(sel))] {
			remove(in.Wallet, s)
		}
	case mode == 4 && len(in.Pending) > 0:
		p := in.Pending[r.Intn(len(in.Pending))]
		remove(p.Wallet, p.Script)
	default:
		for _, s := range sel {
			remove(in.Wallet, s)
		}
	}
	// parameters: a changed minimum age / timeout makes requests mature, immature, timed out
	if r.Chance(1, 4) {
		in.MinAge = u32(newParam(r, ages, 60, 3600))
	}
	if r.Chance(1, 5) {
		in.Timeout = u32(newParam(r, ages, 2000, 200000))
	}
	if r.Chance(1, 4) {
		in.Limit = uint16(r.Range(0, 4))
		if in.ViaRun && in.Limit == 0 {
			in.Limit = 1
		}
	}
	// new requests, re-requests of a key that was seen before
	maxScript := 0
	for _, e := range in.Events {
		if e.Script > maxScript {
			maxScript = e.Script
		}
	}
	for k := r.Intn(3); k > 0; k-- {
		w, s := in.Wallet, maxScript+1
		if r.Chance(1, 4) && len(in.Events) > 0 {
			e := in.Events[r.Intn(len(in.Events))]
			w, s = e.Wallet, e.Script
			remove(w, s)
		} else {
			maxScript++
			if r.Chance(1, 6) {
				w = r.Range(1, 3)
			}
		}
		b := *in.Current
		if back := uint64(r.Intn(20)); b > back {
			b -= back
		}
		in.Events = append(in.Events, rEv{Block: b, Wallet: w, Script: s})
		hi := int64(*in.MinAge)
		if d := redDelayOf(in, w, s); d > hi {
			hi = d
		}
		p := rPend{Wallet: w, Script: s, State: "found", Age: ageAround(r, hi)}
		if r.Bool() {
			p.Age = hi + int64(r.Range(histMargin, 20000))
		}
		in.Pending = append(in.Pending, p)
	}
	// the processing delay of a request is set / changed / dropped: a request that was selected
	// and is still pending gets a delay that makes it too young; a request held back by its
	// delay is released; anything else
	for k := r.Intn(3); k > 0 && len(in.Pending) > 0; k-- {
		p := in.Pending[r.Intn(len(in.Pending))]
		for _, q := range in.Pending {
			d := redDelayOf(in, q.Wallet, q.Script)
			wasSel := false
			for _, s := range sel {
				wasSel = wasSel || (q.Wallet == in.Wallet && q.Script == s)
			}
			if (wasSel || d > q.Age) && r.Chance(1, 2) {
				p = q
				break
			}
		}
		var secs int64
		switch d := redDelayOf(in, p.Wallet, p.Script); {
		case d > p.Age && r.Chance(3, 4): // released
			secs = p.Age - int64(r.Range(histMargin, 600))
		case d <= p.Age && r.Chance(3, 4): // now too young
			secs = p.Age + int64(r.Range(histMargin, 600))
		default:
			secs = int64(r.Range(0, int(*in.MinAge)))
		}
		if secs < 0 {
			secs = 0
		}
		done := false
		for i := range in.Delays {
			if in.Delays[i].Wallet == p.Wallet && in.Delays[i].Script == p.Script {
				in.Delays[i] = rDelay{Wallet: p.Wallet, Script: p.Script, Secs: secs}
				done = true
				break
			}
		}
		if !done {
			in.Delays = append(in.Delays, rDelay{Wallet: p.Wallet, Script: p.Script, Secs: secs})
		}
	}
	if r.Chance(1, 10) && len(in.Delays) > 0 {
		k := r.Intn(len(in.Delays))
		in.Delays = append(in.Delays[:k], in.Delays[k+1:]...)
	}
	// transient failures
	if r.Chance(1, 12) {
		switch r.Intn(5) {
		case 0:
			if len(in.Pending) > 0 {
				in.Pending[r.Intn(len(in.Pending))].State = "err"
			}
		case 1:
			if len(in.Pending) > 0 {
				p := in.Pending[r.Intn(len(in.Pending))]
				in.Delays = append([]rDelay{{Wallet: p.Wallet, Script: p.Script, Err: true}}, in.Delays...)
			}
		case 2:
			if len(in.Events) > 0 {
				e := in.Events[r.Intn(len(in.Events))]
				in.KeyErrs = append(in.KeyErrs, [2]int{e.Wallet, e.Script})
			}
		case 3:
			in.EventsErr = true
		default:
			in.Timeout = nil
		}
	}
	normRed(in)
	return in
}

func genChecklist(r *lib.Rng) []uint8 {
	base := [][]uint8{{3, 2, 1}, {2, 3, 1}, {3, 2}, {2, 3}, {2}, {3}, {1, 2, 3}, {3, 1, 2}, {2, 3}, {3, 2}}[r.Intn(10)]
	cl := append([]uint8{}, base...)
	if r.Chance(1, 4) {
		k := r.Intn(len(cl) + 1)
		cl = append(cl[:k], append([]uint8{[]uint8{0, 9}[r.Intn(2)]}, cl[k:]...)...)
	}
	if r.Chance(1, 8) {
		cl = append(cl, cl[r.Intn(len(cl))])
	}
	return cl
}

// genHistory generates AND runs a window history of the given kind on one node: the state of a
// window is derived from the previous window's state and from what the implementation selected
// there (the selected deposits get swept, the selected requests processed, ...).  The recorded
// input holds every window's complete state, so a replay needs no generator.
//
//	sweep   - the DepositSweepTask (FindDepositsToSweep / Run), now and then FindDeposits
//	redeem  - the RedemptionTask (FindPendingRedemptions / Run)
//	fakegen - a generator over fake tasks whose answers change between the windows
//	prod    - the production generator
//	mixed   - all of them, interleaved, on the same chains
func genHistory(r0 *lib.Rng, kind string, em *lib.Emitter, id string) {
	for try := 0; try < 4; try++ {
		r := *r0 // the same history again
		h, results := genHistoryOnce(&r, kind)
		if maxDrift(results) <= histMaxDrift {
			emitHistory(h, results, em, id)
			return
		}
	}
	em.Tally("history-dropped-too-slow")
}

func genHistoryOnce(r *lib.Rng, kind string) (*histIn, []winRes) {
	nd := newNode()
	nd.anchor = time.Now().Unix()
	h := &histIn{Kind: kind}
	var results []winRes
	nWin := r.Range(2, 5)
	nmax, kmax := 8, 6
	if kind == "prod" || kind == "mixed" {
		nWin, nmax, kmax = r.Range(2, 4), 5, 4
	}
	dep := genDepositsN(r.Fork("dep0"), false, nmax)
	for k := 1; len(dep.Events) < 3; k++ { // something to select from
		dep = genDepositsN(r.Fork(fmt.Sprintf("dep0-%d", k)), false, nmax)
	}
	for i := range dep.Confs {
		if r.Bool() { // mostly confirmed
			dep.Confs[i].Conf = uint(r.Range(6, 9))
			dep.Confs[i].Err = false
		}
	}
	if dep.Wallet == 0 {
		dep.Wallet = r.Range(1, 3)
	}
	if dep.Max < 0 {
		dep.Max = 0
	}
	if r.Chance(2, 3) {
		dep.Max = r.Range(1, 3) // few slots: what fills them matters
	}
	normDep(dep)
	red := genRedemptionsN(r.Fork("red0"), false, kmax, dep.Wallet)
	normRed(red)
	gen := genGenerate(r.Fork("gen0"))
	for k := 1; len(gen.Tasks) < 2 || len(gen.Checklist) < 2; k++ {
		gen = genGenerate(r.Fork(fmt.Sprintf("gen0-%d", k)))
	}
	var selDeps [][2]int
	var selScripts []int
	for w := 0; w < nWin; w++ {
		rw := r.Fork(fmt.Sprintf("w%d", w))
		if w > 0 {
			dep = evolveDep(rw.Fork("dep"), dep, selDeps)
			red = evolveRed(rw.Fork("red"), red, selScripts)
			g := &genIn{Tasks: append([]gTask{}, gen.Tasks...), Checklist: gen.Checklist}
			outs := []string{"prop", "none", "none", "err"}
			for i := range g.Tasks {
				if rw.Bool() {
					g.Tasks[i].Out = outs[rw.Intn(len(outs))]
				}
			}
			if rw.Chance(2, 3) {
				g.Checklist = genGenerate(rw.Fork("cl")).Checklist
			}
			gen = g
		}
		call := kind
		if kind == "mixed" {
			call = []string{"sweep", "redeem", "prod", "prod", "fakegen"}[rw.Intn(5)]
		}
		var in input
		switch call {
		case "sweep":
			d := cloneDep(dep)
			d.ToSweep, d.ViaRun, d.SkipSwept, d.SkipUnconf = true, rw.Bool(), true, true
			if rw.Chance(1, 6) {
				d.ToSweep, d.ViaRun, d.SkipSwept, d.SkipUnconf = false, false, rw.Bool(), rw.Bool()
			}
			if d.ViaRun && d.Max <= 0 {
				d.Max = rw.Range(1, 4)
			}
			in = input{Fn: "deposits", Dep: d}
		case "redeem":
			d := cloneRed(red)
			d.ViaRun = rw.Chance(2, 5)
			in = input{Fn: "redemptions", Red: d}
		case "fakegen":
			in = input{Fn: "generate", Gen: gen}
		default:
			d := cloneDep(dep)
			d.ToSweep, d.ViaRun, d.SkipSwept, d.SkipUnconf = true, false, true, true
			if d.Max <= 0 {
				d.Max = rw.Range(1, 4)
			}
			q := cloneRed(red)
			q.ViaRun = false
			if q.Limit == 0 {
				q.Limit = uint16(rw.Range(1, 4))
			}
			in = input{Fn: "pg", PG: &pgIn{Dep: d, Red: q, HbInvalid: rw.Chance(1, 10), Checklist: genChecklist(rw.Fork("cl"))}}
		}
		res := doWindow(nd, in)
		h.Windows = append(h.Windows, in)
		results = append(results, res)
		if in.Fn == "deposits" || res.kind == "PSweep" {
			selDeps = res.selDeps
		}
		if in.Fn == "redemptions" || res.kind == "PRedeem" {
			selScripts = res.selScripts
		}
	}
	return h, results
}

func main() {
	log.SetAllLoggers(log.LevelFatal)
	o := lib.ParseOpts()
	em := lib.NewEmitter()
	if o.Replay != "" {
		var in input
		if err := lib.LoadReplay(o.Replay, &in); err != nil {
			fmt.Fprintln(os.Stderr, err)
			os.Exit(2)
		}
		run(in, em, "replay")
		em.Close("replay", nil)
		return
	}
	rng := lib.NewRng(o.Seed)

	// --- corpus
	for i, in := range corpus() {
		run(in, em, fmt.Sprintf("corpus-%02d", i))
	}
	// --- small-scope exhaustive generator cases: <= 2 tasks over actions {1,2} x 3 outcomes,
	//     every checklist of length <= 3 over {1,2,3}
	var allTasks [][]gTask
	opts := []gTask{}
	for _, a := range []uint8{1, 2} {
		for _, out := range []string{"prop", "none", "err"} {
			opts = append(opts, gTask{a, out})
		}
	}
	allTasks = append(allTasks, nil)
	for _, a := range opts {
		allTasks = append(allTasks, []gTask{a})
		for _, b := range opts {
			allTasks = append(allTasks, []gTask{a, b})
		}
	}
	var allLists [][]uint8
	var rec func(cur []uint8)
	rec = func(cur []uint8) {
		allLists = append(allLists, append([]uint8{}, cur...))
		if len(cur) == 3 {
			return
		}
		for a := uint8(1); a <= 3; a++ {
			rec(append(cur, a))
		}
	}
	rec(nil)
	total := len(allTasks) * len(allLists)
	nSmall := o.Count(250, total)
	perm := rng.Fork("gen-small").Perm(total)
	for i := 0; i < nSmall && i < total; i++ {
		k := perm[i]
		run(input{Fn: "generate", Gen: &genIn{Tasks: allTasks[k/len(allLists)], Checklist: allLists[k%len(allLists)]}}, em,
			fmt.Sprintf("gen-small-%d", k))
	}
	for i, n := 0, o.Count(100, 2000); i < n; i++ {
		run(input{Fn: "generate", Gen: genGenerate(rng.Fork(fmt.Sprintf("g%d", i)))}, em, fmt.Sprintf("gen-rand-%d", i))
	}
	// --- structured random histories (1 in 8 with an injected chain failure)
	for i, n := 0, o.Count(300, 6000); i < n; i++ {
		run(input{Fn: "deposits", Dep: genDeposits(rng.Fork(fmt.Sprintf("d%d", i)), i%8 == 7)}, em, fmt.Sprintf("dep-%d", i))
	}
	for i, n := 0, o.Count(300, 6000); i < n; i++ {
		run(input{Fn: "redemptions", Red: genRedemptions(rng.Fork(fmt.Sprintf("r%d", i)), i%8 == 7)}, em, fmt.Sprintf("red-%d", i))
	}
	// --- window histories on ONE long-lived object graph over an evolving chain state
	for _, k := range []struct {
		kind     string
		quick, t int
	}{{"sweep", 50, 1500}, {"redeem", 40, 1500}, {"fakegen", 30, 1000}, {"prod", 40, 1500}, {"mixed", 30, 1500}} {
		for i, n := 0, o.Count(k.quick, k.t); i < n; i++ {
			genHistory(rng.Fork(fmt.Sprintf("h-%s-%d", k.kind, i)), k.kind, em, fmt.Sprintf("hist-%s-%d", k.kind, i))
		}
	}
	em.Close("a case is one call of FindDeposits / FindDepositsToSweep / FindPendingRedemptions on a generated event "+
		"history, or one Generate call on a generated task list and checklist; distinct by the generated input; "+
		"non-trivial: deposits - >= 3 events with block ties or out-of-order blocks and a non-empty proper selection; "+
		"redemptions - some key has several events and >= 2 requests are selected; generate - >= 2 tasks ran; "+
		"pg (one Generate call of the production generator) - >= 2 checklist actions and a sweep / redemption proposal; "+
		"or a window history: 2-5 such calls, one after the other, on ONE long-lived DepositSweepTask / RedemptionTask / "+
		"ProposalGenerator while the fake chains' state evolves between the calls - "+
		"non-trivial when two windows of the same call differ in their output and something is selected", nil)
}

func corpus() []input {
	ma := u32(3600)
	d := func(evs []dEv, reqs []dReq, confs []dConf, max int) input {
		return input{Fn: "deposits", Dep: &depIn{MinAge: ma, Events: evs, Reqs: reqs, Confs: confs, Wallet: 1, Max: max, SkipSwept: true, SkipUnconf: true}}
	}
	old := int64(10000)
	evs := []dEv{{1, 0, 105, 1}, {2, 0, 100, 1}, {3, 1, 100, 1}, {4, 0, 103, 2}, {5, 0, 101, 1}, {6, 0, 100, 1}}
	reqs := []dReq{{1, 0, "found", old, 0, 1e6}, {2, 0, "found", old, 0, 2e6}, {3, 1, "found", 100, 0, 3e6},
		{4, 0, "found", old, 0, 4e6}, {5, 0, "found", old, 77, 5e6}, {6, 0, "found", old, 0, 6e6}}
	confs := []dConf{{1, 6, false}, {2, 7, false}, {3, 6, false}, {4, 6, false}, {5, 9, false}, {6, 5, false}}
	tmo := u32(100000)
	r := func(limit uint16, evs []rEv, pend []rPend, delays []rDelay) input {
		return input{Fn: "redemptions", Red: &redIn{Current: u64(50000), MinAge: u32(600), Timeout: tmo, ABT: 12,
			Events: evs, Pending: pend, Delays: delays, Wallet: 1, Limit: limit}}
	}
	revs := []rEv{{49000, 1, 1}, {48000, 1, 2}, {49500, 1, 1}, {47000, 1, 3}, {49900, 2, 4}, {100, 1, 5}, {49990, 1, 6}}
	pend := []rPend{{1, 1, "found", 5000}, {1, 2, "found", 9000}, {1, 3, "found", 5000}, {2, 4, "found", 9000},
		{1, 5, "found", 9000}, {1, 6, "found", 700}}
	g := func(tasks []gTask, cl []uint8) input { return input{Fn: "generate", Gen: &genIn{tasks, cl}} }
	return []input{
		d(evs, reqs, confs, 0),
		d(evs, reqs, confs, 1),
		d(evs, reqs, confs, 2),
		d(nil, nil, nil, 5),
		{Fn: "deposits", Dep: &depIn{MinAge: ma, Events: evs, Reqs: reqs, Confs: confs, Wallet: 1, Max: 3, ToSweep: true}},
		{Fn: "deposits", Dep: &depIn{MinAge: ma, Events: evs, Reqs: reqs, Confs: confs, Wallet: 0, Max: 0}},
		r(0, revs, pend, nil),
		r(1, revs, pend, nil),
		r(2, revs, pend, []rDelay{{1, 6, false, 900}, {1, 1, false, 5500}}),
		r(5, nil, nil, nil),
		g([]gTask{{3, "none"}, {2, "prop"}, {2, "err"}}, []uint8{3, 9, 2, 1}),
		g([]gTask{{3, "none"}, {2, "err"}}, []uint8{1, 3, 2, 3}),
		g([]gTask{{3, "none"}}, []uint8{3, 3}),
		g(nil, nil),
		// --- window histories on one long-lived object graph
		// the two oldest deposits are selected, then swept: the next two must follow (seeded C33b)
		hist("sweep",
			hd(hevs, hreqs(0, 0, 0, 0), 2, false),
			hd(hevs, hreqs(500, 500, 0, 0), 2, false),
			hd(hevs, hreqs(1400, 1400, 0, 0), 2, true),
			hd(hevs, hreqs(2300, 2300, 0, 600), 2, true)),
		// a request's processing delay is raised, then lowered; a request is processed; the minimum age is raised
		hist("redeem",
			hr(2, []rPend{{1, 1, "found", 5000}, {1, 2, "found", 4000}, {1, 3, "found", 3000}}, nil, 600),
			hr(2, []rPend{{1, 1, "found", 5000}, {1, 2, "found", 4000}, {1, 3, "found", 3000}}, []rDelay{{1, 1, false, 20000}}, 600),
			hr(2, []rPend{{1, 1, "found", 5000}, {1, 3, "found", 3000}}, []rDelay{{1, 1, false, 4000}}, 600),
			hr(1, []rPend{{1, 1, "found", 5000}, {1, 3, "found", 3000}}, []rDelay{{1, 1, false, 4000}}, 3500)),
		// the deciding task changes from window to window
		hist("fakegen",
			g([]gTask{{2, "prop"}, {3, "none"}}, []uint8{3, 2}),
			g([]gTask{{2, "none"}, {3, "prop"}}, []uint8{3, 2}),
			g([]gTask{{2, "prop"}, {3, "prop"}}, []uint8{2, 3}),
			g([]gTask{{2, "none"}, {3, "none"}}, []uint8{3, 2})),
		// production generator: redemption first, then (requests processed) the sweep, then
		// (deposits swept) the heartbeat
		hist("prod",
			pg([]uint8{3, 2, 1}, hd(hevs, hreqs(0, 0, 0, 0), 2, false).Dep,
				hr(2, []rPend{{1, 1, "found", 5000}, {1, 2, "found", 4000}}, nil, 600).Red),
			pg([]uint8{3, 2, 1}, hd(hevs, hreqs(0, 0, 0, 0), 2, false).Dep, hr(2, nil, nil, 600).Red),
			pg([]uint8{3, 2, 1}, hd(hevs, hreqs(500, 500, 0, 0), 3, false).Dep, hr(2, nil, nil, 600).Red),
			pg([]uint8{3, 9, 2, 1}, hd(hevs, hreqs(900, 900, 300, 300), 3, false).Dep, hr(2, nil, nil, 600).Red)),
	}
}

// ---- corpus helpers for histories
var hevs = []dEv{{1, 0, 100, 1}, {2, 1, 200, 1}, {3, 0, 300, 1}, {4, 2, 400, 1}}

// hreqs: the four deposits of hevs, revealed long ago, with the given swept markers
func hreqs(s1, s2, s3, s4 int64) []dReq {
	return []dReq{{1, 0, "found", 90000, s1, 1e6}, {2, 1, "found", 90000, s2, 2e6}, {3, 0, "found", 90000, s3, 3e6}, {4, 2, "found", 90000, s4, 4e6}}
}
func hd(evs []dEv, reqs []dReq, max int, viaRun bool) input {
	return input{Fn: "deposits", Dep: &depIn{MinAge: u32(3600), Events: evs, Reqs: reqs,
		Confs:  []dConf{{1, 6, false}, {2, 7, false}, {3, 6, false}, {4, 8, false}},
		Wallet: 1, Max: max, SkipSwept: true, SkipUnconf: true, ToSweep: true, ViaRun: viaRun}}
}
func hr(limit uint16, pend []rPend, delays []rDelay, minAge uint32) input {
	return input{Fn: "redemptions", Red: &redIn{Current: u64(50000), MinAge: u32(minAge), Timeout: u32(100000), ABT: 12,
		Events:  []rEv{{49000, 1, 1}, {49100, 1, 2}, {49200, 1, 3}},
		Pending: pend, Delays: delays, Wallet: 1, Limit: limit}}
}
func pg(cl []uint8, dep *depIn, red *redIn) input {
	return input{Fn: "pg", PG: &pgIn{Dep: dep, Red: red, Checklist: cl}}
}
func hist(kind string, windows ...input) input {
	return input{Fn: "history", Hist: &histIn{Kind: kind, Windows: windows}}
}
