// Driver for C33: runs the proposal discovery of pkg/tbtcpg (FindDeposits, FindDepositsToSweep,
// RedemptionTask.FindPendingRedemptions, DepositSweepTask.Run / RedemptionTask.Run whose proposals
// are observed, ProposalGenerator.Generate) against fake chains built
// from generated event histories and prints the cases for the Coq model (Model/C33.v).
// Wallets, transactions and scripts are small integers in the generated input; the fakes map
// them injectively to 20-byte hashes / 32-byte hashes / P2PKH scripts and back.
//
// time.Now() cannot be injected: request times are generated as ages relative to the instant
// the call is made, and every age is kept >= 5 s away from the window boundaries.
package main

import (
	"crypto/sha256"
	"encoding/binary"
	"encoding/json"
	"fmt"
	"math"
	"math/big"
	"os"
	"strings"
	"time"

	"github.com/ipfs/go-log/v2"
	"github.com/keep-network/keep-core/pkg/bitcoin"
	"github.com/keep-network/keep-core/pkg/chain"
	"github.com/keep-network/keep-core/pkg/tbtc"
	"github.com/keep-network/keep-core/pkg/tbtcpg"

	"verifharness/lib"
)

// ---------------------------------------------------------------- identifiers <-> chain values

func walletPKH(w int) (p [20]byte) {
	if w == 0 {
		return
	}
	binary.BigEndian.PutUint32(p[0:4], uint32(w))
	p[19] = 0x77
	return
}
func walletID(p [20]byte) uint64 {
	if p == [20]byte{} {
		return 0
	}
	w := binary.BigEndian.Uint32(p[0:4])
	if walletPKH(int(w)) != p {
		return 999999
	}
	return uint64(w)
}
func txHash(t int) (h bitcoin.Hash) {
	binary.BigEndian.PutUint32(h[0:4], uint32(t))
	h[31] = 0x55
	return
}
func txID(h bitcoin.Hash) uint64 {
	t := binary.BigEndian.Uint32(h[0:4])
	if txHash(int(t)) != h {
		return 999999
	}
	return uint64(t)
}
func scriptOf(s int) bitcoin.Script {
	var p [20]byte
	binary.BigEndian.PutUint32(p[0:4], uint32(s))
	p[19] = 0x33
	sc, _ := bitcoin.PayToPublicKeyHash(p)
	return sc
}
func scriptID(sc bitcoin.Script) uint64 {
	if len(sc) != 25 {
		return 999999
	}
	s := binary.BigEndian.Uint32(sc[3:7])
	if string(scriptOf(int(s))) != string(sc) {
		return 999999
	}
	return uint64(s)
}

var errFake = fmt.Errorf("fake chain failure")

// ---------------------------------------------------------------- inputs (replayable)

type dEv struct {
	Tx     int    `json:"tx"`
	Idx    uint32 `json:"idx"`
	Block  uint64 `json:"block"`
	Wallet int    `json:"wallet"`
}
type dReq struct {
	Tx     int    `json:"tx"`
	Idx    uint32 `json:"idx"`
	State  string `json:"state"` // found | err   (absent = not found)
	Age    int64  `json:"age"`   // seconds between RevealedAt and the call
	Swept  int64  `json:"swept"` // 0 = not swept, else seconds between SweptAt and the call
	Amount uint64 `json:"amount"`
}
type dConf struct {
	Tx   int  `json:"tx"`
	Conf uint `json:"conf"`
	Err  bool `json:"err"`
}
type depIn struct {
	MinAge     *uint32 `json:"minAge"` // nil: GetDepositMinAge fails
	EventsErr  bool    `json:"eventsErr"`
	Events     []dEv   `json:"events"`
	Reqs       []dReq  `json:"reqs"`
	Confs      []dConf `json:"confs"`
	Wallet     int     `json:"wallet"`
	Max        int     `json:"max"`
	SkipSwept  bool    `json:"skipSwept"`
	SkipUnconf bool    `json:"skipUnconf"`
	ToSweep    bool    `json:"toSweep"`
	ViaRun     bool    `json:"viaRun"` // with ToSweep: DepositSweepTask.Run, the proposal's deposits are observed
}

type rEv struct {
	Block  uint64 `json:"block"`
	Wallet int    `json:"wallet"`
	Script int    `json:"script"`
}
type rPend struct {
	Wallet int    `json:"wallet"`
	Script int    `json:"script"`
	State  string `json:"state"` // found | err
	Age    int64  `json:"age"`
}
type rDelay struct {
	Wallet int   `json:"wallet"`
	Script int   `json:"script"`
	Err    bool  `json:"err"`
	Secs   int64 `json:"secs"`
}
type redIn struct {
	Current   *uint64  `json:"current"`
	MinAge    *uint32  `json:"minAge"`
	Timeout   *uint32  `json:"timeout"`
	ABT       int      `json:"abt"` // average block time, seconds
	EventsErr bool     `json:"eventsErr"`
	Events    []rEv    `json:"events"`
	KeyErrs   [][2]int `json:"keyErrs"` // (wallet, script) pairs for which BuildRedemptionKey fails
	Pending   []rPend  `json:"pending"`
	Delays    []rDelay `json:"delays"`
	Wallet    int      `json:"wallet"`
	Limit     uint16   `json:"limit"`
	ViaRun    bool     `json:"viaRun"` // RedemptionTask.Run, the proposal's scripts are observed
}

type gTask struct {
	Action uint8  `json:"action"`
	Out    string `json:"out"` // prop | none | err
}
type genIn struct {
	Tasks     []gTask `json:"tasks"`
	Checklist []uint8 `json:"checklist"`
}

type input struct {
	Fn  string `json:"fn"` // deposits | redemptions | generate
	Dep *depIn `json:"dep,omitempty"`
	Red *redIn `json:"red,omitempty"`
	Gen *genIn `json:"gen,omitempty"`
}

// ---------------------------------------------------------------- fake chains

type fakeChain struct {
	tbtcpg.Chain // every method not overridden panics (nil interface)
	t0           int64
	dep          *depIn
	red          *redIn
}

func (f *fakeChain) GetDepositMinAge() (uint32, error) {
	if f.dep.MinAge == nil {
		return 0, errFake
	}
	return *f.dep.MinAge, nil
}
func inWallets(l [][20]byte, w [20]byte) bool {
	if len(l) == 0 {
		return true
	}
	for _, x := range l {
		if x == w {
			return true
		}
	}
	return false
}
func (f *fakeChain) PastDepositRevealedEvents(filter *tbtc.DepositRevealedEventFilter) ([]*tbtc.DepositRevealedEvent, error) {
	if f.dep.EventsErr {
		return nil, errFake
	}
	out := []*tbtc.DepositRevealedEvent{}
	for _, e := range f.dep.Events {
		ev := &tbtc.DepositRevealedEvent{FundingTxHash: txHash(e.Tx), FundingOutputIndex: e.Idx,
			WalletPublicKeyHash: walletPKH(e.Wallet), BlockNumber: e.Block, Depositor: "0xdd"}
		if filter != nil {
			if e.Block < filter.StartBlock || (filter.EndBlock != nil && e.Block > *filter.EndBlock) {
				continue
			}
			if !inWallets(filter.WalletPublicKeyHash, ev.WalletPublicKeyHash) {
				continue
			}
			if len(filter.Depositor) > 0 {
				ok := false
				for _, d := range filter.Depositor {
					ok = ok || d == ev.Depositor
				}
				if !ok {
					continue
				}
			}
		}
		out = append(out, ev)
	}
	return out, nil
}
func (f *fakeChain) BuildDepositKey(h bitcoin.Hash, idx uint32) *big.Int {
	var b [4]byte
	binary.BigEndian.PutUint32(b[:], idx)
	s := sha256.Sum256(append(h[:], b[:]...))
	return new(big.Int).SetBytes(s[:])
}
func (f *fakeChain) GetDepositRequest(h bitcoin.Hash, idx uint32) (*tbtc.DepositChainRequest, bool, error) {
	for _, r := range f.dep.Reqs {
		if txHash(r.Tx) == h && r.Idx == idx {
			if r.State == "err" {
				return nil, false, errFake
			}
			swept := time.Unix(0, 0)
			if r.Swept != 0 {
				swept = time.Unix(f.t0-r.Swept, 0)
			}
			return &tbtc.DepositChainRequest{Amount: r.Amount, RevealedAt: time.Unix(f.t0-r.Age, 0), SweptAt: swept}, true, nil
		}
	}
	return nil, false, nil
}

func (f *fakeChain) GetDepositSweepMaxSize() (uint16, error) { return uint16(f.dep.Max), nil }
func (f *fakeChain) GetDepositParameters() (uint64, uint64, uint64, uint32, error) {
	return 1000, 2000, 1 << 40, 100, nil
}
func (f *fakeChain) ValidateDepositSweepProposal([20]byte, *tbtc.DepositSweepProposal, []struct {
	*tbtc.Deposit
	FundingTx *bitcoin.Transaction
}) error {
	return nil
}
func (f *fakeChain) GetRedemptionMaxSize() (uint16, error) { return f.red.Limit, nil }
func (f *fakeChain) ValidateRedemptionProposal([20]byte, *tbtc.RedemptionProposal) error {
	return nil
}

type fakeCounter struct {
	chain.BlockCounter
	cur uint64
}

func (c *fakeCounter) CurrentBlock() (uint64, error) { return c.cur, nil }

func (f *fakeChain) BlockCounter() (chain.BlockCounter, error) {
	if f.red.Current == nil {
		return nil, errFake
	}
	return &fakeCounter{cur: *f.red.Current}, nil
}
func (f *fakeChain) GetRedemptionRequestMinAge() (uint32, error) {
	if f.red.MinAge == nil {
		return 0, errFake
	}
	return *f.red.MinAge, nil
}
func (f *fakeChain) GetRedemptionParameters() (uint64, uint64, uint64, uint64, uint32, *big.Int, uint32, error) {
	if f.red.Timeout == nil {
		return 0, 0, 0, 0, 0, nil, 0, errFake
	}
	return 1000, 2000, 3000, 4000, *f.red.Timeout, big.NewInt(5), 6, nil
}
func (f *fakeChain) AverageBlockTime() time.Duration { return time.Duration(f.red.ABT) * time.Second }
func (f *fakeChain) PastRedemptionRequestedEvents(filter *tbtc.RedemptionRequestedEventFilter) ([]*tbtc.RedemptionRequestedEvent, error) {
	if f.red.EventsErr {
		return nil, errFake
	}
	out := []*tbtc.RedemptionRequestedEvent{}
	for _, e := range f.red.Events {
		ev := &tbtc.RedemptionRequestedEvent{WalletPublicKeyHash: walletPKH(e.Wallet),
			RedeemerOutputScript: scriptOf(e.Script), Redeemer: "0xee", BlockNumber: e.Block}
		if filter != nil {
			if e.Block < filter.StartBlock || (filter.EndBlock != nil && e.Block > *filter.EndBlock) {
				continue
			}
			if !inWallets(filter.WalletPublicKeyHash, ev.WalletPublicKeyHash) {
				continue
			}
			if len(filter.Redeemer) > 0 {
				ok := false
				for _, d := range filter.Redeemer {
					ok = ok || d == ev.Redeemer
				}
				if !ok {
					continue
				}
			}
		}
		out = append(out, ev)
	}
	return out, nil
}
func (f *fakeChain) BuildRedemptionKey(w [20]byte, sc bitcoin.Script) (*big.Int, error) {
	for _, p := range f.red.KeyErrs {
		if walletPKH(p[0]) == w && string(scriptOf(p[1])) == string(sc) {
			return nil, errFake
		}
	}
	s := sha256.Sum256(append(w[:], sc...))
	return new(big.Int).SetBytes(s[:]), nil
}
func (f *fakeChain) GetPendingRedemptionRequest(w [20]byte, sc bitcoin.Script) (*tbtc.RedemptionRequest, bool, error) {
	for _, p := range f.red.Pending {
		if walletPKH(p.Wallet) == w && string(scriptOf(p.Script)) == string(sc) {
			if p.State == "err" {
				return nil, false, errFake
			}
			return &tbtc.RedemptionRequest{RedeemerOutputScript: sc, RequestedAmount: 100000,
				RequestedAt: time.Unix(f.t0-p.Age, 0)}, true, nil
		}
	}
	return nil, false, nil
}
func (f *fakeChain) GetRedemptionDelay(w [20]byte, sc bitcoin.Script) (time.Duration, error) {
	for _, d := range f.red.Delays {
		if walletPKH(d.Wallet) == w && string(scriptOf(d.Script)) == string(sc) {
			if d.Err {
				return 0, errFake
			}
			return time.Duration(d.Secs) * time.Second, nil
		}
	}
	return 0, nil
}

type fakeBtc struct {
	bitcoin.Chain
	dep *depIn
}

func (f *fakeBtc) EstimateSatPerVByteFee(uint32) (int64, error) { return 1, nil }
func (f *fakeBtc) GetTransaction(h bitcoin.Hash) (*bitcoin.Transaction, error) {
	return &bitcoin.Transaction{Version: 1, Outputs: []*bitcoin.TransactionOutput{
		{Value: 1, PublicKeyScript: scriptOf(1)}, {Value: 1, PublicKeyScript: scriptOf(1)}, {Value: 1, PublicKeyScript: scriptOf(1)}}}, nil
}

func (f *fakeBtc) GetTransactionConfirmations(h bitcoin.Hash) (uint, error) {
	for _, c := range f.dep.Confs {
		if txHash(c.Tx) == h {
			if c.Err {
				return 0, errFake
			}
			return c.Conf, nil
		}
	}
	return 0, errFake
}

// ---------------------------------------------------------------- running

var nullLogger = log.Logger("c33-driver")

func optZ(ok bool, v int64) string {
	if !ok {
		return "None"
	}
	return lib.Some(lib.Z(v))
}

// timed runs f with t0 = the current unix second and repeats it when the call did not finish
// within 2 s of t0 (so that the 5 s margin of the generated ages covers the clock the
// implementation reads); this only re-runs the case, it never decides anything.
func timed(f func(t0 int64)) {
	for try := 0; ; try++ {
		start := time.Now()
		f(start.Unix())
		if time.Since(start) < 2*time.Second || try >= 5 {
			return
		}
	}
}

func runDeposits(in *depIn, em *lib.Emitter, id string) {
	var t0 int64
	kind, obs := "DepPanic", interface{}(nil)
	var deps []string
	timed(func(now int64) {
		t0 = now
		fc := &fakeChain{t0: now, dep: in}
		fb := &fakeBtc{dep: in}
		kind, obs, deps = "DepPanic", nil, nil
		defer func() {
			if r := recover(); r != nil {
				kind, obs = "DepPanic", fmt.Sprintf("panic: %v", r)
			}
		}()
		var err error
		var human []map[string]interface{}
		if in.ToSweep {
			var refs []*tbtcpg.DepositReference
			if in.ViaRun {
				var p tbtc.CoordinationProposal
				var ok bool
				p, ok, err = tbtcpg.NewDepositSweepTask(fc, fb).Run(&tbtc.CoordinationProposalRequest{
					WalletPublicKeyHash: walletPKH(in.Wallet), ActionsChecklist: []tbtc.WalletActionType{tbtc.ActionDepositSweep}})
				if err == nil && ok {
					dsp := p.(*tbtc.DepositSweepProposal)
					for i, k := range dsp.DepositsKeys {
						refs = append(refs, &tbtcpg.DepositReference{FundingTxHash: k.FundingTxHash,
							FundingOutputIndex: k.FundingOutputIndex, RevealBlock: dsp.DepositsRevealBlocks[i].Uint64()})
					}
				}
			} else {
				refs, err = tbtcpg.NewDepositSweepTask(fc, fb).FindDepositsToSweep(nullLogger, walletPKH(in.Wallet), uint16(in.Max))
			}
			for _, d := range refs {
				deps = append(deps, fmt.Sprintf("{| d_tx := %s; d_idx := %s; d_block := %s; d_wallet := 0; d_swept := false; d_amount := 0%%Z; d_conf := 0%%Z |}",
					lib.N(txID(d.FundingTxHash)), lib.N(uint64(d.FundingOutputIndex)), lib.ZU(d.RevealBlock)))
				human = append(human, map[string]interface{}{"tx": txID(d.FundingTxHash), "idx": d.FundingOutputIndex, "block": d.RevealBlock})
			}
		} else {
			var ds []*tbtcpg.Deposit
			ds, err = tbtcpg.FindDeposits(fc, fb, walletPKH(in.Wallet), in.Max, in.SkipSwept, in.SkipUnconf)
			for _, d := range ds {
				amount := int64(math.Round(d.AmountBtc * 1e8))
				deps = append(deps, fmt.Sprintf("{| d_tx := %s; d_idx := %s; d_block := %s; d_wallet := %s; d_swept := %s; d_amount := %s; d_conf := %s |}",
					lib.N(txID(d.FundingTxHash)), lib.N(uint64(d.FundingOutputIndex)), lib.ZU(d.RevealBlock),
					lib.N(walletID(d.WalletPublicKeyHash)), lib.Bool(d.IsSwept), lib.Z(amount), lib.ZU(uint64(d.Confirmations))))
				human = append(human, map[string]interface{}{"tx": txID(d.FundingTxHash), "idx": d.FundingOutputIndex,
					"block": d.RevealBlock, "wallet": walletID(d.WalletPublicKeyHash), "swept": d.IsSwept, "amount": amount, "conf": d.Confirmations})
			}
		}
		if err == nil {
			kind, obs = "DepOk", human
			return
		}
		m := err.Error()
		obs = m
		switch {
		case strings.Contains(m, "wallet public key hash is required"):
			kind = "DepErrWallet"
		case strings.Contains(m, "no deposit request for key"):
			kind = "DepErrNoRequest"
		case strings.Contains(m, "failed to get deposit minimum age"), strings.Contains(m, "failed to get past deposit revealed events"),
			strings.Contains(m, "failed to get deposit request"):
			kind = "DepErrChain"
		default:
			kind = "DepPanic"
		}
	})
	out := kind
	if kind == "DepOk" {
		out = "(DepOk " + lib.List(deps) + ")"
	}
	var evs, reqs, confs []string
	for _, e := range in.Events {
		evs = append(evs, fmt.Sprintf("{| de_tx := %s; de_idx := %s; de_block := %s; de_wallet := %s |}",
			lib.N(uint64(e.Tx)), lib.N(uint64(e.Idx)), lib.ZU(e.Block), lib.N(uint64(e.Wallet))))
	}
	for _, r := range in.Reqs {
		l := "DLookErr"
		if r.State != "err" {
			swept := int64(0)
			if r.Swept != 0 {
				swept = t0 - r.Swept
			}
			l = fmt.Sprintf("(DFound %s %s %s)", lib.Z(t0-r.Age), lib.Z(swept), lib.ZU(r.Amount))
		}
		reqs = append(reqs, lib.Pair(lib.Pair(lib.N(uint64(r.Tx)), lib.N(uint64(r.Idx))), l))
	}
	for _, c := range in.Confs {
		confs = append(confs, lib.Pair(lib.N(uint64(c.Tx)), optZ(!c.Err, int64(c.Conf))))
	}
	minAge := "None"
	if in.MinAge != nil {
		minAge = lib.Some(lib.ZU(uint64(*in.MinAge)))
	}
	events := "None"
	if !in.EventsErr {
		events = lib.Some(lib.List(evs))
	}
	coq := fmt.Sprintf("(CDep {| dc_now := %s; dc_min_age := %s; dc_events := %s; dc_reqs := %s; dc_confs := %s; "+
		"dc_wallet := %s; dc_max := %s; dc_skip_swept := %s; dc_skip_unconf := %s; dc_to_sweep := %s; dc_out := %s |})",
		lib.Z(t0), minAge, events, lib.List(reqs), lib.List(confs), lib.N(uint64(in.Wallet)), lib.Z(int64(in.Max)),
		lib.Bool(in.SkipSwept), lib.Bool(in.SkipUnconf), lib.Bool(in.ToSweep), out)
	// structural features
	blocks := map[uint64]int{}
	ooo := false
	var prev uint64
	for i, e := range in.Events {
		blocks[e.Block]++
		if i > 0 && e.Block < prev {
			ooo = true
		}
		prev = e.Block
	}
	ties := false
	for _, n := range blocks {
		ties = ties || n >= 2
	}
	fn := "deposits"
	if in.ToSweep {
		fn = "toSweep"
	}
	if in.ViaRun {
		fn = "sweepRun"
	}
	em.Tally(fn + "-" + kind)
	if kind == "DepOk" {
		em.Tally(fmt.Sprintf("%s-found-%02d", fn, len(deps)))
		if in.Max > 0 && len(deps) == in.Max {
			em.Tally(fn + "-capped")
		}
	}
	key, _ := json.Marshal(in)
	em.Case(lib.Case{ID: id, Coq: coq, Key: fn + string(key),
		Nontrivial: len(in.Events) >= 3 && (ties || ooo) && kind == "DepOk" && len(deps) >= 1 && len(deps) < len(in.Events),
		Sig:        map[string]interface{}{"fn": fn, "out": kind, "ties": ties, "outOfOrder": ooo},
		In:         input{Fn: "deposits", Dep: in}, Out: obs})
}

func runRedemptions(in *redIn, em *lib.Emitter, id string) {
	var t0 int64
	kind, obs := "RedPanic", interface{}(nil)
	var scripts []uint64
	timed(func(now int64) {
		t0 = now
		fc := &fakeChain{t0: now, red: in}
		kind, obs, scripts = "RedPanic", nil, nil
		defer func() {
			if r := recover(); r != nil {
				kind, obs = "RedPanic", fmt.Sprintf("panic: %v", r)
			}
		}()
		var res []bitcoin.Script
		var err error
		if in.ViaRun {
			var p tbtc.CoordinationProposal
			var ok bool
			p, ok, err = tbtcpg.NewRedemptionTask(fc, &fakeBtc{}).Run(&tbtc.CoordinationProposalRequest{
				WalletPublicKeyHash: walletPKH(in.Wallet), ActionsChecklist: []tbtc.WalletActionType{tbtc.ActionRedemption}})
			if err == nil && ok {
				res = p.(*tbtc.RedemptionProposal).RedeemersOutputScripts
			}
		} else {
			res, err = tbtcpg.NewRedemptionTask(fc, nil).FindPendingRedemptions(nullLogger, walletPKH(in.Wallet), in.Limit)
		}
		if err == nil {
			for _, s := range res {
				scripts = append(scripts, scriptID(s))
			}
			kind, obs = "RedOk", scripts
			return
		}
		m := err.Error()
		obs = m
		switch {
		case strings.Contains(m, "wallet public key hash is required"):
			kind = "RedErrWallet"
		case strings.Contains(m, "failed to get block counter"), strings.Contains(m, "failed to get current block number"),
			strings.Contains(m, "failed to get redemption request minimum age"), strings.Contains(m, "failed to get redemption parameters"),
			strings.Contains(m, "cannot get pending redemptions"):
			kind = "RedErrChain"
		default:
			kind = "RedPanic"
		}
	})
	out := kind
	if kind == "RedOk" {
		out = "(RedOk " + lib.ListN(scripts) + ")"
	}
	keyErr := func(w, s int) bool {
		for _, p := range in.KeyErrs {
			if p[0] == w && p[1] == s {
				return true
			}
		}
		return false
	}
	var evs, pend, delays []string
	keys := map[[2]int]int{}
	for _, e := range in.Events {
		k := "None"
		if !keyErr(e.Wallet, e.Script) {
			k = lib.Some(lib.N(uint64(e.Wallet)*100000 + uint64(e.Script)))
		}
		keys[[2]int{e.Wallet, e.Script}]++
		evs = append(evs, fmt.Sprintf("{| re_block := %s; re_wallet := %s; re_script := %s; re_key := %s |}",
			lib.ZU(e.Block), lib.N(uint64(e.Wallet)), lib.N(uint64(e.Script)), k))
	}
	for _, p := range in.Pending {
		l := "RLookErr"
		if p.State != "err" {
			l = "(RFound " + lib.Z(t0-p.Age) + ")"
		}
		pend = append(pend, lib.Pair(lib.Pair(lib.N(uint64(p.Wallet)), lib.N(uint64(p.Script))), l))
	}
	for _, d := range in.Delays {
		delays = append(delays, lib.Pair(lib.Pair(lib.N(uint64(d.Wallet)), lib.N(uint64(d.Script))), optZ(!d.Err, d.Secs)))
	}
	optU := func(ok bool, v uint64) string {
		if !ok {
			return "None"
		}
		return lib.Some(lib.ZU(v))
	}
	var cur, ma, tmo uint64
	if in.Current != nil {
		cur = *in.Current
	}
	if in.MinAge != nil {
		ma = uint64(*in.MinAge)
	}
	if in.Timeout != nil {
		tmo = uint64(*in.Timeout)
	}
	events := "None"
	if !in.EventsErr {
		events = lib.Some(lib.List(evs))
	}
	coq := fmt.Sprintf("(CRed {| rc_now := %s; rc_current := %s; rc_min_age := %s; rc_timeout := %s; rc_abt := %s; "+
		"rc_events := %s; rc_pending := %s; rc_delay := %s; rc_wallet := %s; rc_limit := %s; rc_out := %s |})",
		lib.Z(t0), optU(in.Current != nil, cur), optU(in.MinAge != nil, ma), optU(in.Timeout != nil, tmo), lib.Z(int64(in.ABT)),
		events, lib.List(pend), lib.List(delays), lib.N(uint64(in.Wallet)), lib.Z(int64(in.Limit)), out)
	dup := false
	for _, n := range keys {
		dup = dup || n >= 2
	}
	ages := map[int64]int{}
	tie := false
	for _, p := range in.Pending {
		ages[p.Age]++
		tie = tie || ages[p.Age] >= 2
	}
	if in.ViaRun {
		em.Tally("redemptionRun-" + kind)
	}
	em.Tally("redemptions-" + kind)
	if kind == "RedOk" {
		em.Tally(fmt.Sprintf("redemptions-found-%02d", len(scripts)))
		if in.Limit > 0 && len(scripts) == int(in.Limit) {
			em.Tally("redemptions-capped")
		}
	}
	key, _ := json.Marshal(in)
	em.Case(lib.Case{ID: id, Coq: coq, Key: "red" + string(key),
		Nontrivial: dup && kind == "RedOk" && len(scripts) >= 2,
		Sig:        map[string]interface{}{"fn": "redemptions", "viaRun": in.ViaRun, "out": kind, "dupKeys": dup, "ageTies": tie},
		In:         input{Fn: "redemptions", Red: in}, Out: obs})
}

// ---- generator

type fakeProposal struct {
	tbtc.NoopProposal // Marshal / Unmarshal / ValidityBlocks
	id                uint64
}

type fakeTask struct {
	idx   int
	spec  gTask
	prop  *fakeProposal
	trace *[]uint64
}

func (t *fakeTask) Run(*tbtc.CoordinationProposalRequest) (tbtc.CoordinationProposal, bool, error) {
	*t.trace = append(*t.trace, uint64(t.idx))
	switch t.spec.Out {
	case "prop":
		return t.prop, true, nil
	case "err":
		return nil, false, errFake
	}
	return nil, false, nil
}
func (t *fakeTask) ActionType() tbtc.WalletActionType { return tbtc.WalletActionType(t.spec.Action) }

func runGenerate(in *genIn, em *lib.Emitter, id string) {
	var trace []uint64
	tasks := make([]tbtcpg.ProposalTask, len(in.Tasks))
	var taskTerms []string
	for i, s := range in.Tasks {
		tasks[i] = &fakeTask{idx: i, spec: s, prop: &fakeProposal{id: uint64(i + 1)}, trace: &trace}
		o := "TNone"
		switch s.Out {
		case "prop":
			o = fmt.Sprintf("(TProp %s)", lib.N(uint64(i+1)))
		case "err":
			o = "TErr"
		}
		taskTerms = append(taskTerms, fmt.Sprintf("{| tk_action := %s; tk_out := %s |}", lib.N(uint64(s.Action)), o))
	}
	checklist := make([]tbtc.WalletActionType, len(in.Checklist))
	cl := make([]uint64, len(in.Checklist))
	for i, a := range in.Checklist {
		checklist[i] = tbtc.WalletActionType(a)
		cl[i] = uint64(a)
	}
	kind, obs := "GErr", interface{}(nil)
	out := "GErr"
	func() {
		defer func() {
			if r := recover(); r != nil {
				kind, out, obs = "Panic", "(GProp 999999)", fmt.Sprintf("panic: %v", r)
			}
		}()
		p, err := tbtcpg.VerifNewProposalGenerator(tasks).Generate(&tbtc.CoordinationProposalRequest{
			WalletPublicKeyHash: walletPKH(1), ActionsChecklist: checklist})
		switch {
		case err != nil:
			kind, out, obs = "GErr", "GErr", err.Error()
		case p == nil:
			kind, out, obs = "GNil", "(GProp 999999)", "nil proposal"
		default:
			if fp, ok := p.(*fakeProposal); ok {
				kind, out, obs = "GProp", fmt.Sprintf("(GProp %s)", lib.N(fp.id)), fp.id
			} else if _, ok := p.(*tbtc.NoopProposal); ok {
				kind, out, obs = "GNoop", "GNoop", "noop"
			} else {
				kind, out, obs = "GOther", "(GProp 999998)", fmt.Sprintf("%T", p)
			}
		}
	}()
	coq := fmt.Sprintf("(CGen {| gc_tasks := %s; gc_checklist := %s; gc_out := %s; gc_trace := %s |})",
		lib.List(taskTerms), lib.ListN(cl), out, lib.ListN(trace))
	em.Tally("generate-" + kind)
	key, _ := json.Marshal(in)
	em.Case(lib.Case{ID: id, Coq: coq, Key: "gen" + string(key),
		Nontrivial: len(in.Checklist) >= 2 && len(trace) >= 2,
		Sig:        map[string]interface{}{"fn": "generate", "out": kind},
		In:         input{Fn: "generate", Gen: in}, Out: map[string]interface{}{"result": obs, "ran": trace}})
}

func run(in input, em *lib.Emitter, id string) {
	switch in.Fn {
	case "deposits":
		runDeposits(in.Dep, em, id)
	case "redemptions":
		runRedemptions(in.Red, em, id)
	case "generate":
		runGenerate(in.Gen, em, id)
	}
}

// ---------------------------------------------------------------- generation

func u32(v uint32) *uint32 { return &v }
func u64(v uint64) *uint64 { return &v }

// ageAround returns an age at least 5 s away from the boundary b (and >= 0)
func ageAround(r *lib.Rng, b int64) int64 {
	var a int64
	switch r.Intn(6) {
	case 0:
		a = b - int64(r.Range(5, 60))
	case 1:
		a = b + int64(r.Range(5, 60))
	case 2:
		a = b / 2
	case 3:
		a = b*2 + 100
	case 4:
		a = b + 100*int64(r.Range(1, 4)) // a small set of values: ties
	default:
		a = b - 100*int64(r.Range(1, 4))
	}
	if a < 0 {
		a = 0
	}
	if a > b-5 && a < b+5 {
		a = b + 5
	}
	return a
}

func genDeposits(r *lib.Rng, malformed bool) *depIn {
	in := &depIn{MinAge: u32(uint32(r.Range(600, 7200))), Wallet: r.Range(1, 3), SkipSwept: true, SkipUnconf: true}
	switch r.Intn(4) {
	case 0:
		in.Max = 0
	case 1:
		in.Max = r.Range(1, 3)
	case 2:
		in.Max = r.Range(1, 12)
	default:
		in.Max = r.Range(3, 6)
	}
	switch r.Intn(6) {
	case 0:
		in.ToSweep = true
		if r.Bool() {
			in.ViaRun = true
			if in.Max <= 0 {
				in.Max = r.Range(1, 20)
			}
		}
	case 1:
		in.SkipSwept = false
	case 2:
		in.SkipUnconf = false
	case 3:
		in.SkipSwept, in.SkipUnconf = r.Bool(), r.Bool()
	}
	if !in.ToSweep && r.Chance(1, 10) {
		in.Wallet = 0 // no wallet filter
		if r.Chance(1, 3) {
			in.Max = -1
		}
	}
	n := r.Range(0, 10)
	if r.Chance(1, 8) {
		n = r.Range(10, 16)
	}
	base := uint64(r.Range(1000, 100000))
	sortedBlocks := r.Chance(1, 2)
	blk := base
	nextTx := 1
	for i := 0; i < n; i++ {
		e := dEv{Tx: nextTx, Idx: uint32(r.Intn(3)), Wallet: in.Wallet}
		nextTx++
		if in.Wallet == 0 || r.Chance(1, 5) {
			e.Wallet = r.Range(1, 3)
		}
		if i > 0 && r.Chance(1, 6) { // same funding transaction, another output
			e.Tx = in.Events[r.Intn(i)].Tx
			e.Idx = uint32(3 + i)
		}
		if sortedBlocks {
			blk += uint64(r.Intn(3)) // ties
			e.Block = blk
		} else {
			e.Block = base + uint64(r.Intn(6)) // ties and out of order
		}
		in.Events = append(in.Events, e)
		req := dReq{Tx: e.Tx, Idx: e.Idx, State: "found", Age: ageAround(r, int64(*in.MinAge)), Amount: uint64(r.Range(10000, 200000000))}
		if r.Chance(2, 3) {
			req.Age = int64(*in.MinAge) + int64(r.Range(5, 100000)) // mostly old enough
		}
		if r.Chance(1, 5) {
			req.Swept = int64(r.Range(1, 5000))
		}
		in.Reqs = append(in.Reqs, req)
		known := false
		for _, c := range in.Confs {
			known = known || c.Tx == e.Tx
		}
		if !known {
			c := dConf{Tx: e.Tx, Conf: uint(r.Range(0, 12))}
			if r.Chance(1, 2) {
				c.Conf = uint(r.Range(4, 8)) // around the required number
			}
			if r.Chance(1, 12) {
				c.Err = true
			}
			in.Confs = append(in.Confs, c)
		}
	}
	if malformed && n > 0 {
		k := r.Intn(n)
		switch r.Intn(5) {
		case 0:
			in.MinAge = nil
		case 1:
			in.EventsErr = true
		case 2:
			in.Reqs[k].State = "err"
		case 3:
			in.Reqs = append(in.Reqs[:k], in.Reqs[k+1:]...) // request not found
		default:
			in.Reqs[r.Intn(len(in.Reqs))].State = "err"
			in.Max = 1
		}
	}
	return in
}

func genRedemptions(r *lib.Rng, malformed bool) *redIn {
	minAge := uint32(r.Range(300, 3600))
	timeout := uint32(r.Range(20000, 200000))
	abt := []int{12, 12, 12, 1, 5, 13, 15}[r.Intn(7)]
	cur := uint64(r.Range(100, 300000))
	in := &redIn{Current: &cur, MinAge: &minAge, Timeout: &timeout, ABT: abt, Wallet: r.Range(1, 3)}
	switch r.Intn(4) {
	case 0:
		in.Limit = 0
	case 1:
		in.Limit = uint16(r.Range(1, 3))
	default:
		in.Limit = uint16(r.Range(1, 10))
	}
	if r.Chance(1, 5) {
		in.ViaRun = true
	}
	lookback := uint64(timeout)/uint64(abt) + 1000
	var start uint64
	if cur > lookback {
		start = cur - lookback
	}
	nKeys := r.Range(0, 8)
	ageSet := r.Chance(1, 2) // draw ages from a small set: many ties
	for k := 1; k <= nKeys; k++ {
		w := in.Wallet
		if r.Chance(1, 6) {
			w = r.Range(1, 3)
		}
		nev := 1
		if r.Chance(1, 3) {
			nev = r.Range(2, 3) // several events for one key
		}
		for j := 0; j < nev; j++ {
			var b uint64
			switch r.Intn(5) {
			case 0: // around the start of the block range
				b = start + uint64(r.Intn(3))
				if r.Bool() && b > 2 {
					b -= 2
				}
			default:
				b = start + uint64(r.Intn(int(cur-start)+1))
			}
			in.Events = append(in.Events, rEv{Block: b, Wallet: w, Script: k})
		}
		if r.Chance(5, 6) {
			hi := int64(minAge)
			var d int64
			if r.Chance(1, 4) {
				d = int64(minAge) + int64(r.Range(100, 3000))
				if r.Chance(1, 3) {
					d = int64(r.Range(0, int(minAge)))
				}
				in.Delays = append(in.Delays, rDelay{Wallet: w, Script: k, Secs: d})
				if d > hi {
					hi = d
				}
			}
			p := rPend{Wallet: w, Script: k, State: "found"}
			switch {
			case ageSet:
				p.Age = hi + 500*int64(r.Range(1, 4))
			case r.Chance(1, 2):
				p.Age = hi + int64(r.Range(5, int(int64(timeout)-hi-5)))
			case r.Bool():
				p.Age = ageAround(r, hi)
			default:
				p.Age = ageAround(r, int64(timeout))
			}
			in.Pending = append(in.Pending, p)
		}
	}
	// event order as the chain returns it: mostly by block, sometimes shuffled
	if r.Chance(1, 2) {
		for i := 1; i < len(in.Events); i++ {
			for j := i; j > 0 && in.Events[j].Block < in.Events[j-1].Block; j-- {
				in.Events[j], in.Events[j-1] = in.Events[j-1], in.Events[j]
			}
		}
	}
	if malformed {
		switch r.Intn(8) {
		case 0:
			in.Current = nil
		case 1:
			in.MinAge = nil
		case 2:
			in.Timeout = nil
		case 3:
			in.EventsErr = true
		case 4:
			if len(in.Events) > 0 {
				e := in.Events[r.Intn(len(in.Events))]
				in.KeyErrs = append(in.KeyErrs, [2]int{e.Wallet, e.Script})
			}
		case 5:
			if len(in.Pending) > 0 {
				in.Pending[r.Intn(len(in.Pending))].State = "err"
			}
		case 6:
			if len(in.Pending) > 0 {
				p := in.Pending[r.Intn(len(in.Pending))]
				in.Delays = append([]rDelay{{Wallet: p.Wallet, Script: p.Script, Err: true}}, in.Delays...)
			}
		default:
			in.Wallet = 0
		}
	}
	return in
}

func genGenerate(r *lib.Rng) *genIn {
	in := &genIn{}
	outs := []string{"prop", "none", "none", "err"}
	for n := r.Range(0, 6); n > 0; n-- {
		in.Tasks = append(in.Tasks, gTask{Action: uint8(r.Range(1, 5)), Out: outs[r.Intn(len(outs))]})
	}
	for n := r.Range(0, 6); n > 0; n-- {
		in.Checklist = append(in.Checklist, uint8(r.Range(0, 6)))
	}
	return in
}

func main() {
	log.SetAllLoggers(log.LevelFatal)
	o := lib.ParseOpts()
	em := lib.NewEmitter()
	if o.Replay != "" {
		var in input
		if err := lib.LoadReplay(o.Replay, &in); err != nil {
			fmt.Fprintln(os.Stderr, err)
			os.Exit(2)
		}
		run(in, em, "replay")
		em.Close("replay", nil)
		return
	}
	rng := lib.NewRng(o.Seed)

	// --- corpus
	for i, in := range corpus() {
		run(in, em, fmt.Sprintf("corpus-%02d", i))
	}
	// --- small-scope exhaustive generator cases: <= 2 tasks over actions {1,2} x 3 outcomes,
	//     every checklist of length <= 3 over {1,2,3}
	var allTasks [][]gTask
	opts := []gTask{}
	for _, a := range []uint8{1, 2} {
		for _, out := range []string{"prop", "none", "err"} {
			opts = append(opts, gTask{a, out})
		}
	}
	allTasks = append(allTasks, nil)
	for _, a := range opts {
		allTasks = append(allTasks, []gTask{a})
		for _, b := range opts {
			allTasks = append(allTasks, []gTask{a, b})
		}
	}
	var allLists [][]uint8
	var rec func(cur []uint8)
	rec = func(cur []uint8) {
		allLists = append(allLists, append([]uint8{}, cur...))
		if len(cur) == 3 {
			return
		}
		for a := uint8(1); a <= 3; a++ {
			rec(append(cur, a))
		}
	}
	rec(nil)
	total := len(allTasks) * len(allLists)
	nSmall := o.Count(250, total)
	perm := rng.Fork("gen-small").Perm(total)
	for i := 0; i < nSmall && i < total; i++ {
		k := perm[i]
		run(input{Fn: "generate", Gen: &genIn{Tasks: allTasks[k/len(allLists)], Checklist: allLists[k%len(allLists)]}}, em,
			fmt.Sprintf("gen-small-%d", k))
	}
	for i, n := 0, o.Count(100, 2000); i < n; i++ {
		run(input{Fn: "generate", Gen: genGenerate(rng.Fork(fmt.Sprintf("g%d", i)))}, em, fmt.Sprintf("gen-rand-%d", i))
	}
	// --- structured random histories (1 in 8 with an injected chain failure)
	for i, n := 0, o.Count(300, 6000); i < n; i++ {
		run(input{Fn: "deposits", Dep: genDeposits(rng.Fork(fmt.Sprintf("d%d", i)), i%8 == 7)}, em, fmt.Sprintf("dep-%d", i))
	}
	for i, n := 0, o.Count(300, 6000); i < n; i++ {
		run(input{Fn: "redemptions", Red: genRedemptions(rng.Fork(fmt.Sprintf("r%d", i)), i%8 == 7)}, em, fmt.Sprintf("red-%d", i))
	}
	em.Close("a case is one call of FindDeposits / FindDepositsToSweep / FindPendingRedemptions on a generated event "+
		"history, or one Generate call on a generated task list and checklist; distinct by the generated input; "+
		"non-trivial: deposits - >= 3 events with block ties or out-of-order blocks and a non-empty proper selection; "+
		"redemptions - some key has several events and >= 2 requests are selected; generate - >= 2 tasks ran", nil)
}

func corpus() []input {
	ma := u32(3600)
	d := func(evs []dEv, reqs []dReq, confs []dConf, max int) input {
		return input{Fn: "deposits", Dep: &depIn{MinAge: ma, Events: evs, Reqs: reqs, Confs: confs, Wallet: 1, Max: max, SkipSwept: true, SkipUnconf: true}}
	}
	old := int64(10000)
	evs := []dEv{{1, 0, 105, 1}, {2, 0, 100, 1}, {3, 1, 100, 1}, {4, 0, 103, 2}, {5, 0, 101, 1}, {6, 0, 100, 1}}
	reqs := []dReq{{1, 0, "found", old, 0, 1e6}, {2, 0, "found", old, 0, 2e6}, {3, 1, "found", 100, 0, 3e6},
		{4, 0, "found", old, 0, 4e6}, {5, 0, "found", old, 77, 5e6}, {6, 0, "found", old, 0, 6e6}}
	confs := []dConf{{1, 6, false}, {2, 7, false}, {3, 6, false}, {4, 6, false}, {5, 9, false}, {6, 5, false}}
	tmo := u32(100000)
	r := func(limit uint16, evs []rEv, pend []rPend, delays []rDelay) input {
		return input{Fn: "redemptions", Red: &redIn{Current: u64(50000), MinAge: u32(600), Timeout: tmo, ABT: 12,
			Events: evs, Pending: pend, Delays: delays, Wallet: 1, Limit: limit}}
	}
	revs := []rEv{{49000, 1, 1}, {48000, 1, 2}, {49500, 1, 1}, {47000, 1, 3}, {49900, 2, 4}, {100, 1, 5}, {49990, 1, 6}}
	pend := []rPend{{1, 1, "found", 5000}, {1, 2, "found", 9000}, {1, 3, "found", 5000}, {2, 4, "found", 9000},
		{1, 5, "found", 9000}, {1, 6, "found", 700}}
	g := func(tasks []gTask, cl []uint8) input { return input{Fn: "generate", Gen: &genIn{tasks, cl}} }
	return []input{
		d(evs, reqs, confs, 0),
		d(evs, reqs, confs, 1),
		d(evs, reqs, confs, 2),
		d(nil, nil, nil, 5),
		{Fn: "deposits", Dep: &depIn{MinAge: ma, Events: evs, Reqs: reqs, Confs: confs, Wallet: 1, Max: 3, ToSweep: true}},
		{Fn: "deposits", Dep: &depIn{MinAge: ma, Events: evs, Reqs: reqs, Confs: confs, Wallet: 0, Max: 0}},
		r(0, revs, pend, nil),
		r(1, revs, pend, nil),
		r(2, revs, pend, []rDelay{{1, 6, false, 900}, {1, 1, false, 5500}}),
		r(5, nil, nil, nil),
		g([]gTask{{3, "none"}, {2, "prop"}, {2, "err"}}, []uint8{3, 9, 2, 1}),
		g([]gTask{{3, "none"}, {2, "err"}}, []uint8{1, 3, 2, 3}),
		g([]gTask{{3, "none"}}, []uint8{3, 3}),
		g(nil, nil),
	}
}
